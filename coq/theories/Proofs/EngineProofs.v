(* Proofs about Model/Engine.v:
   - the if-scanner of the engine is Model/IfScan.v's scanner seen through [classify] (tie to the C03 theorems);
   - fuel monotonicity of the expansion loop, and a fuel-free step relation [exec];
   - the engine, started on the printing of a program of fragment F1 (Spec/MacroPrint.v), simulates the reference
     evaluator of Spec/MacroLang.v:  run (print p) = den p  on the visible text and the final global definitions. *)
From Coq Require Import List NArith ZArith Bool Lia ZifyBool.
Import ListNotations.
From Verif Require Import Val Tokenizer Expand IfScan MacroSpec ExpandProofs MacroLang Engine MacroPrint.
From Verif Require Scope Context.
Local Open Scope N_scope.

Notation St i U B := {| input := i; ups := U; bottom := B |}.

Section DL.
Context `{DLM : Delims}.

(* ---------------------------------------------------------------------------------------------- *)
(* strings and names                                                                                *)

Lemma seqb_eq a : forall b, seqb a b = true <-> a = b.
Proof.
  induction a as [|x a IH]; intros [|y b]; cbn; split; intros H; try congruence; try discriminate.
  - apply andb_true_iff in H as [H1 H2]. apply N.eqb_eq in H1. apply IH in H2. congruence.
  - inversion H; subst. apply andb_true_iff. split; [apply N.eqb_refl | now apply IH].
Qed.
Lemma seqb_refl a : seqb a a = true. Proof. now apply seqb_eq. Qed.
Lemma seqb_neq a b : a <> b -> seqb a b = false.
Proof. intros H. destruct (seqb a b) eqn:E; [apply seqb_eq in E; contradiction | reflexivity]. Qed.

Lemma pcode_inj p : forall q, pcode p = pcode q -> p = q.
Proof. induction p as [p IH|p IH|]; intros [q|q|] H; cbn in H; try discriminate; try reflexivity; f_equal; apply IH; congruence. Qed.
Lemma zcode_inj a b : zcode a = zcode b -> a = b.
Proof. destruct a, b; cbn; intros H; try discriminate; try reflexivity; f_equal; apply pcode_inj; congruence. Qed.
Lemma mname_inj a b : mname a = mname b -> a = b.
Proof. unfold mname. intros H. apply zcode_inj. congruence. Qed.
Lemma seqb_mname a b : seqb (mname a) (mname b) = (a =? b)%Z.
Proof.
  destruct (Z.eqb_spec a b) as [->|Hn]; [apply seqb_refl|].
  apply seqb_neq. intros H. apply Hn. now apply mname_inj.
Qed.

(* ---------------------------------------------------------------------------------------------- *)
(* fuel monotonicity                                                                                *)

Definition nx_le (nx nx' : state -> outcome (option tok * state)) : Prop :=
  forall st r, nx st = Ret r -> nx' st = Ret r.

Lemma bind_ret {A B} (x : outcome A) (f : A -> outcome B) r :
  bind x f = Ret r -> exists a, x = Ret a /\ f a = Ret r.
Proof. destruct x; cbn; intros H; try discriminate. eauto. Qed.

Section Mono.
  Context (nx nx' : state -> outcome (option tok * state)) (Hle : nx_le nx nx').

  Lemma read_signs_mono g : forall g' neg st r, (g <= g')%nat ->
    read_signs nx g neg st = Ret r -> read_signs nx' g' neg st = Ret r.
  Proof.
    induction g as [|g IH]; intros g' neg st r Hg H; [discriminate|].
    destruct g' as [|g']; [lia|]. cbn [read_signs] in *.
    apply bind_ret in H as ([o st1] & H1 & H2). rewrite (Hle _ _ H1). cbn [bind].
    destruct o as [t|]; [|exact H2].
    destruct (is_elem t); [exact H2|]. destruct (text1 t) as [c|]; [|exact H2].
    destruct (c =? 43); [apply IH; [lia|exact H2]|].
    destruct (c =? 45); [apply IH; [lia|exact H2]|].
    destruct (is_space t); [apply IH; [lia|exact H2]|exact H2].
  Qed.

  Lemma read_sequence_mono g : forall g' acc st r, (g <= g')%nat ->
    read_sequence g acc st = Ret r -> read_sequence g' acc st = Ret r.
  Proof.
    induction g as [|g IH]; intros g' acc st r Hg H; [discriminate|].
    destruct g' as [|g']; [lia|]. cbn [read_sequence] in *.
    destruct (input st) as [|t0 r0]; [exact H|]. destruct (is_elem t0); [exact H|].
    destruct (macro_name t0) as [nm|].
    - destruct (lookup st nm) as [[a b|n o b|p|k|k|k b0|b0|z0]|]; try exact H.
      + destruct (definition_invoke a b r0); [apply IH; [lia|exact H]|exact H].
      + destruct (newcommand_invoke n o b r0); [apply IH; [lia|exact H]|exact H].
    - destruct (text1 t0) as [c|]; [|exact H].
      destruct ((48 <=? c) && (c <=? 57)); [apply IH; [lia|exact H]|exact H].
  Qed.

  Lemma read_integer_mono g g' st r : (g <= g')%nat ->
    read_integer nx g st = Ret r -> read_integer nx' g' st = Ret r.
  Proof.
    intros Hg H. unfold read_integer in *.
    apply bind_ret in H as ([neg st1] & H1 & H2). rewrite (read_signs_mono _ _ _ _ _ Hg H1). cbn [bind].
    apply bind_ret in H2 as ([o st2] & H3 & H4). rewrite (Hle _ _ H3). cbn [bind].
    destruct o as [t|]; [|exact H4].
    destruct (is_elem t); [exact H4|]. destruct (text1 t) as [c|]; [|exact H4].
    destruct ((48 <=? c) && (c <=? 57)); [|exact H4].
    apply bind_ret in H4 as ([cs st3] & H5 & H6). rewrite (read_sequence_mono _ _ _ _ _ Hg H5). cbn [bind]. exact H6.
  Qed.

  Lemma int_arg_mono g g' st r : (g <= g')%nat -> int_arg nx g st = Ret r -> int_arg nx' g' st = Ret r.
  Proof.
    intros Hg H. unfold int_arg in *. destruct (read_token (input (ros st))) as [[toks|] r0]; [|exact H].
    destruct (forallb plainchar toks); [|exact H].
    apply bind_ret in H as ([z stz] & H1 & H2). rewrite (read_integer_mono _ _ _ _ Hg H1). exact H2.
  Qed.

  Lemma invoke_mono g g' nm m st r : (g <= g')%nat ->
    invoke nx g nm m st = Ret r -> invoke nx' g' nm m st = Ret r.
  Proof.
    intros Hg H. destruct m as [a b|na o b|p|k|k|k b0|b0|z0]; try exact H. destruct p; try exact H.
    5, 6: (cbn [invoke] in *; apply bind_ret in H as ([nme st1] & H1 & H2); rewrite H1; cbn [bind];
           apply bind_ret in H2 as ([z st2] & H3 & H4); rewrite (int_arg_mono _ _ _ _ Hg H3); exact H4).
    4: { cbn [invoke] in *. apply bind_ret in H as ([z st1] & H1 & H2). rewrite (read_integer_mono _ _ _ _ Hg H1). exact H2. }
    3: { cbn [invoke] in *. unfold newcommand_def in *.
         destruct (input (ros st)) as [|t0 r0]; [exact H|]. destruct (is_elem t0); [exact H|].
         match goal with |- context [read_token ?x] => destruct (read_token x) as [[ntoks|] r2] end; [|exact H].
         destruct (existsb is_elem ntoks); [exact H|].
         destruct (filter (fun t => tcat t =? CC_ESCAPE) ntoks) as [|nt ?]; [exact H|].
         destruct (read_optional r2) as [[ds|] r3]; [|exact H].
         destruct (forallb plainchar ds); [|exact H].
         apply bind_ret in H as ([z r4] & H1 & H2). apply bind_ret in H1 as ([z' stz] & H3 & H4).
         rewrite (read_integer_mono _ _ _ _ Hg H3). cbn [bind] in *. inversion H4; subst. exact H2. }
    2: { cbn [invoke] in *. apply bind_ret in H as ([z st1] & H1 & H2). rewrite (read_integer_mono _ _ _ _ Hg H1). exact H2. }
    cbn [invoke] in *.
    apply bind_ret in H as ([a st1] & H1 & H2). rewrite (read_integer_mono _ _ _ _ Hg H1). cbn [bind].
    destruct (input (ros st1)) as [|rel rr]; [exact H2|].
    destruct (is_elem rel); [exact H2|].
    apply bind_ret in H2 as ([b st3] & H3 & H4). rewrite (read_integer_mono _ _ _ _ Hg H3). cbn [bind]. exact H4.
  Qed.

  Lemma iter_step_mono g g' st r : (g <= g')%nat ->
    iter_step nx g st = Ret r -> iter_step nx' g' st = Ret r.
  Proof.
    intros Hg H. unfold iter_step in *. destruct (input st) as [|t rr]; [exact H|].
    destruct (is_elem t); [exact H|]. destruct (macro_name t) as [nm|]; [|exact H].
    destruct (getitem nm (set_input st rr)) as [st2 m].
    apply bind_ret in H as (st3 & H1 & H2). rewrite (invoke_mono _ _ _ _ _ _ Hg H1). exact H2.
  Qed.
End Mono.

Lemma next_exp_mono g : forall g', (g <= g')%nat -> nx_le (next_exp g) (next_exp g').
Proof.
  induction g as [|g IH]; intros g' Hg st r H; [discriminate|].
  destruct g' as [|g']; [lia|]. cbn [next_exp] in *.
  apply bind_ret in H as (sr & H1 & H2).
  rewrite (iter_step_mono _ _ (IH g' ltac:(lia)) g g' st sr ltac:(lia) H1). cbn [bind].
  destruct sr as [t st'|st'|]; try exact H2. apply (IH g'); [lia|exact H2].
Qed.

Lemma step_mono g g' st r : (g <= g')%nat ->
  iter_step (next_exp g) g st = Ret r -> iter_step (next_exp g') g' st = Ret r.
Proof. intros Hg. apply iter_step_mono; [now apply next_exp_mono | exact Hg]. Qed.

(* ---------------------------------------------------------------------------------------------- *)
(* a fuel-free view of the loop: [exec st T st'] = some iterations of the loop lead from st to st', yielding T *)

Inductive exec : state -> list tok -> state -> Prop :=
| ex_refl st : exec st [] st
| ex_yield g st t st1 T st2 :
    iter_step (next_exp g) g st = Ret (SYield t st1) -> exec st1 T st2 -> exec st (t :: T) st2
| ex_cont g st st1 T st2 :
    iter_step (next_exp g) g st = Ret (SCont st1) -> exec st1 T st2 -> exec st T st2.

Lemma exec_trans a T1 b : exec a T1 b -> forall T2 c, exec b T2 c -> exec a (T1 ++ T2) c.
Proof.
  induction 1 as [st|g st t st1 T st2 H _ IH|g st st1 T st2 H _ IH]; intros T2 c H2.
  - exact H2.
  - cbn [app]. eapply ex_yield; [exact H|]. now apply IH.
  - eapply ex_cont; [exact H|]. now apply IH.
Qed.

Lemma run_mono_done fuel : forall fuel' st acc st' out, (fuel <= fuel')%nat ->
  run fuel st acc = Done st' out -> run fuel' st acc = Done st' out.
Proof.
  induction fuel as [|f IH]; intros fuel' st acc st' out Hf H; [discriminate|].
  destruct fuel' as [|f']; [lia|]. cbn [run] in *.
  destruct (iter_step (next_exp f) f st) as [sr| | |] eqn:E; try discriminate.
  rewrite (step_mono f f' st sr ltac:(lia) E).
  destruct sr as [t st1|st1|]; try exact H; apply IH; (lia || exact H).
Qed.

Lemma exec_run st T st' : exec st T st' -> input st' = [] ->
  exists fuel, forall acc, run fuel st acc = Done st' (rev acc ++ T).
Proof.
  induction 1 as [st|g st t st1 T st2 H _ IH|g st st1 T st2 H _ IH]; intros Hend.
  - exists 1%nat. intros acc. cbn [run]. unfold iter_step. rewrite Hend. now rewrite app_nil_r.
  - destruct (IH Hend) as (f & Hf). exists (S (Nat.max g f)). intros acc. cbn [run].
    rewrite (step_mono g (Nat.max g f) st _ ltac:(lia) H).
    rewrite (run_mono_done f (Nat.max g f) st1 (t :: acc) st2 (rev (t :: acc) ++ T) ltac:(lia) (Hf _)).
    cbn [rev]. now rewrite <- app_assoc.
  - destruct (IH Hend) as (f & Hf). exists (S (Nat.max g f)). intros acc. cbn [run].
    rewrite (step_mono g (Nat.max g f) st _ ltac:(lia) H).
    apply (run_mono_done f); [lia|apply Hf].
Qed.

(* ---------------------------------------------------------------------------------------------- *)
(* the engine's if-scanner is IfScan.scan_go seen through [classify]                                *)

Definition abs_scanned (sc : tscanned) : scanned :=
  {| cases := map (map classify) (tcases sc); elsecase := telse sc; rest := map classify (trest sc); terminated := tterm sc |}.

Lemma abs_final cur done els (r : list tok) b :
  Some {| cases := rev (rev (map classify cur) :: map (map classify) done); elsecase := els; rest := map classify r; terminated := b |}
  = option_map abs_scanned (Some {| tcases := rev (rev cur :: done); telse := els; trest := r; tterm := b |}).
Proof. cbn. unfold abs_scanned. cbn. rewrite map_app, !map_rev. cbn. now rewrite map_rev. Qed.

Lemma tscan_go_abstracts_len k : forall ts, (length ts <= k)%nat -> forall n cur done els,
  scan_go (map classify ts) n (map classify cur) (map (map classify) done) els
  = option_map abs_scanned (tscan_go ts n cur done els).
Proof.
  induction k as [|k IH]; intros ts Hk n cur done els.
  - destruct ts; [|cbn in Hk; lia]. apply (abs_final cur done els [] false).
  - destruct ts as [|t ts]; [apply (abs_final cur done els [] false)|].
    cbn [length] in Hk. cbn [map scan_go tscan_go].
    assert (Hd : map (map classify) (rev cur :: done) = rev (map classify cur) :: map (map classify) done)
      by (cbn; now rewrite map_rev).
    assert (IH1 : forall n cur done els, scan_go (map classify ts) n (map classify cur) (map (map classify) done) els
                   = option_map abs_scanned (tscan_go ts n cur done els)) by (apply IH; lia).
    destruct (classify t) eqn:Ec.
    + rewrite <- Ec. apply (IH1 (S n) (t :: cur)).
    + destruct n as [|n].
      * apply (abs_final cur done els ts true).
      * rewrite <- Ec. apply (IH1 n (t :: cur)).
    + destruct n as [|n].
      * rewrite <- Hd, map_length. apply (IH1 O []).
      * rewrite <- Ec. apply (IH1 (S n) (t :: cur)).
    + destruct n as [|n].
      * rewrite <- Hd. apply (IH1 O []).
      * rewrite <- Ec. apply (IH1 (S n) (t :: cur)).
    + destruct ts as [|u ts']; [reflexivity|].
      cbn [map]. rewrite <- Ec. apply (IH ts' ltac:(cbn [length] in Hk; lia) n (u :: t :: cur)).
    + rewrite <- Ec. apply (IH1 n (t :: cur)).
Qed.

(* the scan of the engine, abstracted token by token, is the scan of Model/IfScan.v: what C03_scan_render,
   C03_process_selects and C03_nested_transparent say about [scan]/[process] holds for the classes of the real tokens *)
Lemma tscan_abstracts ts : scan (map classify ts) = option_map abs_scanned (tscan ts).
Proof. apply (tscan_go_abstracts_len (length ts) ts (le_n _) O [] [] None). Qed.

Lemma tselect_abstracts w sc : map classify (tselect w sc) = select w (abs_scanned sc).
Proof.
  unfold tselect, select, abs_scanned. cbn [cases elsecase].
  destruct (telse sc) as [e|].
  - now rewrite <- (map_nth (map classify)).
  - rewrite map_length, <- (map_nth (map classify)). f_equal. now rewrite map_app.
Qed.

Lemma tprocess_abstracts w ts : process w (map classify ts) = option_map (map classify) (tprocess w ts).
Proof.
  unfold process, tprocess. rewrite tscan_abstracts. destruct (tscan ts) as [sc|]; [|reflexivity].
  cbn [option_map]. now rewrite map_app, tselect_abstracts.
Qed.

(* ---------------------------------------------------------------------------------------------- *)
(* fragment F1 as an inductive predicate (for induction); [in_F1] decides it                        *)

Inductive F1n : node -> Prop :=
| F1_word w : F1n (NWord w)
| F1_group b : F1l b -> F1n (NGroup b)
| F1_def g nm b : F1l b -> F1n (NDef g nm O None b)
| F1_call nm : F1n (NCall nm None [])
| F1_cond t th el : f1_test t = true -> F1l th -> (forall e, el = Some e -> F1l e) -> F1n (NCond t th el)
with F1l : list node -> Prop :=
| F1_nil : F1l []
| F1_cons n r : F1n n -> F1l r -> F1l (n :: r).

Scheme F1n_mut := Minimality for F1n Sort Prop
with F1l_mut := Minimality for F1l Sort Prop.
Combined Scheme F1_mutind from F1n_mut, F1l_mut.

Lemma f1_node_sound : forall n, f1_node n = true -> F1n n.
Proof.
  fix IH 1. intros n. 
  pose (go := fix go (l : list node) : forallb f1_node l = true -> F1l l :=
      match l return forallb f1_node l = true -> F1l l with
      | [] => fun _ => F1_nil
      | x :: r => fun Hl => F1_cons x r (IH x (proj1 (andb_prop _ _ Hl))) (go r (proj2 (andb_prop _ _ Hl)))
      end).
  destruct n; intros H; try discriminate H.
  - constructor.
  - constructor. exact (go body H).
  - cbn [f1_node] in H. apply andb_true_iff in H as [H Hb]. apply andb_true_iff in H as [Hn Hd].
    apply Nat.eqb_eq in Hn. subst nparams. destruct default; [discriminate|]. constructor. exact (go body Hb).
  - cbn [f1_node] in H. destruct opt; [discriminate|]. destruct args; [constructor|discriminate].
  - cbn [f1_node] in H. apply andb_true_iff in H as [H He]. apply andb_true_iff in H as [Ht Hth].
    destruct els as [e0|].
    + constructor; [exact Ht|exact (go thn Hth)|]. intros e Hel. injection Hel as <-. exact (go e0 He).
    + constructor; [exact Ht|exact (go thn Hth)|]. intros e Hel. discriminate Hel.
Qed.

Lemma in_F1_sound p : in_F1 p = true -> F1l p.
Proof.
  unfold in_F1. induction p as [|n p IH]; intros H; constructor.
  - apply f1_node_sound. cbn in H. now apply andb_true_iff in H as [H _].
  - apply IH. cbn in H. now apply andb_true_iff in H as [_ H].
Qed.

(* ---------------------------------------------------------------------------------------------- *)
(* shape of printed programs                                                                        *)

Lemma print_app a b : print (a ++ b) = print a ++ print b.
Proof. induction a as [|x a IH]; [reflexivity|]. cbn [app print]. now rewrite IH, app_assoc. Qed.
Lemma print_group b : print_node (NGroup b) = bg :: print b ++ [eg].
Proof. reflexivity. Qed.
(* on F1 (no parameters, no nested parameter text) body mode and top mode print the same *)
Lemma printb_F1 : (forall n, F1n n -> printb_node n = print_node n) /\ (forall l, F1l l -> printb l = print l).
Proof.
  apply F1_mutind.
  - reflexivity.
  - intros b _ IH. change (printb_node (NGroup b)) with (bg :: printb b ++ [eg]). now rewrite IH.
  - reflexivity.
  - reflexivity.
  - intros t th el _ _ IHth _ IHel.
    change (printb_node (NCond t th el)) with (print_test t ++ printb th ++ match el with Some e => esc s_else :: printb e | None => [] end ++ [esc s_fi]).
    change (print_node (NCond t th el)) with (print_test t ++ print th ++ match el with Some e => esc s_else :: print e | None => [] end ++ [esc s_fi]).
    rewrite IHth. destruct el as [e|]; [now rewrite (IHel e eq_refl)|reflexivity].
  - reflexivity.
  - intros n r _ IHn _ IHr. cbn [print printb]. now rewrite IHn, IHr.
Qed.
Lemma print_def0 g nm b : F1l b ->
  print_node (NDef g nm O None b) = esc (if g then s_gdef else s_def) :: esc (mname nm) :: bg :: print b ++ [eg].
Proof. intros Hb. rewrite <- (proj2 printb_F1 b Hb). reflexivity. Qed.
Lemma print_call0 nm : print_node (NCall nm None []) = [esc (mname nm)].
Proof. reflexivity. Qed.
Lemma print_cond t th el :
  print_node (NCond t th el) =
  print_test t ++ print th ++ match el with Some e => esc s_else :: print e | None => [] end ++ [esc s_fi].
Proof. destruct el; reflexivity. Qed.

(* pieces of token text that the if-scanner walks over, entering at nesting k and leaving at nesting k' *)
Definition walks (P : list tok) (k k' : nat) : Prop :=
  forall tl cur done els, tscan_go (P ++ tl) k cur done els = tscan_go tl k' (rev P ++ cur) done els.

Lemma walks_nil k : walks [] k k. Proof. intros tl cur done els. reflexivity. Qed.
Lemma walks_app P Q k k' k'' : walks P k k' -> walks Q k' k'' -> walks (P ++ Q) k k''.
Proof.
  intros HP HQ tl cur done els. rewrite <- app_assoc, HP, HQ, rev_app_distr, <- app_assoc. reflexivity.
Qed.
Lemma walks_tok t k : classify t = KTok 0%Z -> walks [t] k k.
Proof. intros H tl cur done els. cbn [app tscan_go rev]. now rewrite H. Qed.
Lemma walks_toks l k : Forall (fun t => classify t = KTok 0%Z) l -> walks l k k.
Proof.
  induction 1 as [|t l Ht _ IH]; [apply walks_nil|].
  change (t :: l) with ([t] ++ l). eapply walks_app; [now apply walks_tok|exact IH].
Qed.
Lemma walks_if t k : classify t = KIf 0%Z -> walks [t] k (S k).
Proof. intros H tl cur done els. cbn [app tscan_go rev]. now rewrite H. Qed.
Lemma walks_else k : walks [esc s_else] (S k) (S k).
Proof. intros tl cur done els. reflexivity. Qed.
Lemma walks_fi k : walks [esc s_fi] (S k) k.
Proof. intros tl cur done els. reflexivity. Qed.

Lemma classify_letter c : classify (letter c) = KTok 0%Z. Proof. reflexivity. Qed.
Lemma classify_other c : classify (other c) = KTok 0%Z. Proof. reflexivity. Qed.
Lemma classify_mname id : classify (esc (mname id)) = KTok 0%Z. Proof. reflexivity. Qed.

Lemma Forall_map_tok {A} (f : A -> tok) (P : tok -> Prop) l : (forall x, P (f x)) -> Forall P (map f l).
Proof. intros H. induction l; constructor; auto. Qed.

Lemma walks_wprint w k : walks (wprint w) k k.
Proof.
  apply walks_toks. unfold wprint. constructor; [reflexivity|]. apply Forall_app. split.
  - apply Forall_map_tok. intros c. reflexivity.
  - constructor; [reflexivity|constructor].
Qed.

Lemma walks_test t k : f1_test t = true -> walks (print_test t) k (S k).
Proof.
  intros H. destruct t as [| |a r b|a| | | | |]; try discriminate H.
  - apply walks_if. reflexivity.
  - apply walks_if. reflexivity.
  - destruct a as [a|]; [|discriminate H]. destruct b as [b|]; [|discriminate H].
    cbn [print_test]. change (esc s_ifnum :: ?l) with ([esc s_ifnum] ++ l).
    eapply walks_app; [apply walks_if; reflexivity|]. apply walks_toks.
    apply Forall_app. split; [apply Forall_map_tok; intros c; reflexivity|].
    constructor; [destruct r; reflexivity|].
    apply Forall_app. split; [apply Forall_map_tok; intros c; reflexivity|].
    constructor; [reflexivity|constructor].
  - destruct a as [a|]; [|discriminate H]. cbn [print_test]. change (esc s_ifodd :: ?l) with ([esc s_ifodd] ++ l).
    eapply walks_app; [apply walks_if; reflexivity|]. apply walks_toks.
    apply Forall_app. split; [apply Forall_map_tok; intros c; reflexivity|]. constructor; [reflexivity|constructor].
Qed.

Lemma ktok_pop a : Forall (fun t => classify t = KTok 0%Z) (pop a).
Proof.
  destruct a as [z|c]; cbn [pop]; [apply Forall_map_tok; intros x; reflexivity|].
  constructor; [reflexivity|]. constructor; [reflexivity|]. apply Forall_app. split; [apply Forall_map_tok; intros x; reflexivity|].
  constructor; [reflexivity|constructor].
Qed.
Lemma walks_test2 t k : f2_test t = true -> walks (print_test t) k (S k).
Proof.
  destruct t as [| |a r b|a| |sw| | |]; try discriminate; intros _.
  - apply walks_if. reflexivity.
  - apply walks_if. reflexivity.
  - cbn [print_test]. change (esc s_ifnum :: ?l) with ([esc s_ifnum] ++ l).
    eapply walks_app; [apply walks_if; reflexivity|]. apply walks_toks.
    apply Forall_app. split; [apply ktok_pop|]. constructor; [destruct r; reflexivity|].
    apply Forall_app. split; [apply ktok_pop|]. constructor; [reflexivity|constructor].
  - cbn [print_test]. change (esc s_ifodd :: ?l) with ([esc s_ifodd] ++ l).
    eapply walks_app; [apply walks_if; reflexivity|]. apply walks_toks.
    apply Forall_app. split; [apply ktok_pop|]. constructor; [reflexivity|constructor].
  - apply walks_if. reflexivity.
Qed.

Lemma walks_print :
  (forall n, F1n n -> forall k, walks (print_node n) k k) /\ (forall l, F1l l -> forall k, walks (print l) k k).
Proof.
  apply F1_mutind.
  - intros w k. apply walks_wprint.
  - intros b _ IH k. rewrite print_group. change (bg :: ?l) with ([bg] ++ l).
    eapply walks_app; [apply walks_tok; reflexivity|]. eapply walks_app; [apply IH|apply walks_tok; reflexivity].
  - intros g nm b Hb IH k. rewrite (print_def0 g nm b Hb).
    change (?a :: ?b' :: bg :: ?l) with ([a; b'; bg] ++ l).
    eapply walks_app.
    + apply walks_toks. constructor; [destruct g; reflexivity|]. constructor; [reflexivity|]. constructor; [reflexivity|constructor].
    + eapply walks_app; [apply IH|apply walks_tok; reflexivity].
  - intros nm k. rewrite print_call0. apply walks_tok. reflexivity.
  - intros t th el Ht _ IHth _ IHel k. rewrite print_cond.
    eapply walks_app; [now apply walks_test|]. eapply walks_app; [apply IHth|].
    eapply walks_app; [|apply walks_fi].
    destruct el as [e|]; [|apply walks_nil].
    change (esc s_else :: ?l) with ([esc s_else] ++ l). eapply walks_app; [apply walks_else|]. now apply IHel.
  - intros k. apply walks_nil.
  - intros n r _ IHn _ IHr k. cbn [print]. eapply walks_app; [apply IHn|apply IHr].
Qed.

(* brace balance *)
Lemma depth_after_app a : forall b d,
  depth_after (a ++ b) d = match depth_after a d with Some d' => depth_after b d' | None => None end.
Proof.
  induction a as [|t a IH]; intros b d; [reflexivity|]. cbn [app depth_after].
  destruct (is_bgroup t); [apply IH|]. destruct (is_egroup t); [destruct d; [reflexivity|apply IH]|apply IH].
Qed.
Definition flat (t : tok) : Prop := is_bgroup t = false /\ is_egroup t = false.
Lemma depth_flat l : Forall flat l -> forall d, depth_after l d = Some d.
Proof. induction 1 as [|t l [H1 H2] _ IH]; intros d; [reflexivity|]. cbn [depth_after]. rewrite H1, H2. apply IH. Qed.
Lemma flat_wprint w : Forall flat (wprint w).
Proof.
  unfold wprint. constructor; [split; reflexivity|]. apply Forall_app. split.
  - apply Forall_map_tok. intros c. split; reflexivity.
  - constructor; [split; reflexivity|constructor].
Qed.
Lemma depth_pop a d : depth_after (pop a) d = Some d.
Proof.
  destruct a as [z|c]; cbn [pop].
  - apply depth_flat. apply Forall_map_tok. intros x. split; reflexivity.
  - cbn [depth_after]. change (is_bgroup (esc s_value)) with false. change (is_egroup (esc s_value)) with false.
    change (is_bgroup bg) with true. cbn iota. rewrite depth_after_app, (depth_flat (map letter _)) by (apply Forall_map_tok; intros x; split; reflexivity).
    reflexivity.
Qed.
Lemma depth_test t d : depth_after (print_test t) d = Some d.
Proof.
  destruct t as [| |a r b|a| |sw| | |]; try reflexivity.
  - cbn [print_test depth_after]. change (is_bgroup (esc s_ifnum)) with false. change (is_egroup (esc s_ifnum)) with false. cbn iota.
    rewrite depth_after_app, depth_pop. cbn [depth_after].
    replace (is_bgroup (rel_tok r)) with false by (destruct r; reflexivity). replace (is_egroup (rel_tok r)) with false by (destruct r; reflexivity).
    rewrite depth_after_app, depth_pop. reflexivity.
  - cbn [print_test depth_after]. change (is_bgroup (esc s_ifodd)) with false. change (is_egroup (esc s_ifodd)) with false. cbn iota.
    rewrite depth_after_app, depth_pop. reflexivity.
Qed.

Lemma depth_print :
  (forall n, F1n n -> forall d, depth_after (print_node n) d = Some d) /\
  (forall l, F1l l -> forall d, depth_after (print l) d = Some d).
Proof.
  apply F1_mutind.
  - intros w d. apply depth_flat, flat_wprint.
  - intros b _ IH d. rewrite print_group. cbn [depth_after]. change (is_bgroup bg) with true. cbn iota.
    rewrite depth_after_app, IH. reflexivity.
  - intros g nm b Hb IH d. rewrite (print_def0 g nm b Hb). cbn [depth_after].
    replace (is_bgroup (esc (if g then s_gdef else s_def))) with false by (destruct g; reflexivity).
    replace (is_egroup (esc (if g then s_gdef else s_def))) with false by (destruct g; reflexivity).
    change (is_bgroup (esc (mname nm))) with false. change (is_egroup (esc (mname nm))) with false.
    change (is_bgroup bg) with true. cbn iota. rewrite depth_after_app, IH. reflexivity.
  - intros nm d. reflexivity.
  - intros t th el Ht _ IHth _ IHel d. rewrite print_cond.
    rewrite depth_after_app, (depth_test t), depth_after_app, IHth, depth_after_app.
    destruct el as [e|]; [|reflexivity].
    cbn [depth_after]. change (is_bgroup (esc s_else)) with false. change (is_egroup (esc s_else)) with false. cbn iota.
    rewrite (IHel e eq_refl). reflexivity.
  - intros d. reflexivity.
  - intros n r _ IHn _ IHr d. cbn [print]. now rewrite depth_after_app, IHn, IHr.
Qed.

Lemma read_group_print b rest : F1l b -> read_group (print b ++ eg :: rest) O [] = (print b, rest).
Proof.
  intros Hb. rewrite (read_group_app (print b) O [] (eg :: rest) O (proj2 depth_print b Hb O)).
  cbn [read_group]. change (is_bgroup eg) with false. change (is_egroup eg) with true. cbn iota.
  now rewrite app_nil_r, rev_involutive.
Qed.

(* substitution does nothing on F1 (no parameters) *)
Lemma lower_F1 k : forall b, F1l b -> lower k b = b.
Proof.
  induction k as [|k IH]; intros b Hb; [reflexivity|]. cbn [lower].
  induction Hb as [|n r Hn Hr IHr]; [reflexivity|]. cbn [map]. rewrite IHr. f_equal.
  destruct Hn as [w|b Hb|g nm b Hb|nm|t th el Ht Hth Hel]; try reflexivity.
  - now rewrite (IH b Hb).
  - cbn [option_map]. now rewrite (IH b Hb).
  - rewrite (IH th Hth). destruct el as [e|]; [|reflexivity]. cbn [option_map]. now rewrite (IH e (Hel e eq_refl)).
Qed.
Lemma subst_F1 k args : forall b, F1l b -> subst k args b = b.
Proof.
  induction k as [|k IH]; intros b Hb; [reflexivity|]. cbn [subst].
  induction Hb as [|n r Hn Hr IHr]; [reflexivity|]. cbn [flat_map]. rewrite IHr.
  destruct Hn as [w|b Hb|g nm b Hb|nm|t th el Ht Hth Hel]; try reflexivity.
  - now rewrite (IH b Hb).
  - cbn [option_map]. now rewrite (IH b Hb), (lower_F1 50 b Hb).
  - rewrite (IH th Hth). destruct el as [e|]; [|reflexivity]. cbn [option_map]. now rewrite (IH e (Hel e eq_refl)).
Qed.

(* ---------------------------------------------------------------------------------------------- *)
(* decimal digits                                                                                   *)

Definition isdig (c : N) : bool := (48 <=? c) && (c <=? 57).
Fixpoint val_lsd (l : list N) : Z := match l with [] => 0%Z | c :: r => (Z.of_N c - 48 + 10 * val_lsd r)%Z end.

Lemma digits_value_rev l : digits_value (rev l) = val_lsd l.
Proof.
  unfold digits_value. induction l as [|c r IH]; [reflexivity|].
  cbn [rev val_lsd]. rewrite fold_left_app. cbn [fold_left]. rewrite IH. lia.
Qed.

Lemma digs_lsd_S f n : digs_lsd (S f) n = (48 + n mod 10) :: (if n <? 10 then [] else digs_lsd f (n / 10)).
Proof. reflexivity. Qed.

Lemma val_digs f : forall n, n < 2 ^ N.of_nat f -> val_lsd (digs_lsd (S f) n) = Z.of_N n.
Proof.
  induction f as [|f IH]; intros n Hn.
  - cbn in Hn. assert (n = 0) by lia. subst n. reflexivity.
  - rewrite digs_lsd_S. destruct (N.ltb_spec n 10) as [Hlt|Hge].
    + cbn [val_lsd]. rewrite (N.mod_small n 10 Hlt). lia.
    + cbn [val_lsd]. rewrite IH.
      * pose proof (N.div_mod n 10 ltac:(lia)) as Hdm. lia.
      * rewrite Nat2N.inj_succ, N.pow_succ_r' in Hn.
        apply N.div_lt_upper_bound; lia.
Qed.

Lemma digs_isdig f : forall n, Forall (fun c => isdig c = true) (digs_lsd f n).
Proof.
  induction f as [|f IH]; intros n; [constructor|]. rewrite digs_lsd_S. constructor.
  - assert (H : n mod 10 < 10) by (apply N.mod_lt; discriminate). unfold isdig.
    generalize dependent (n mod 10). intros m Hm. lia.
  - destruct (n <? 10); [constructor|apply IH].
Qed.

Lemma digits_value_digits n : digits_value (digits n) = Z.of_N n.
Proof.
  unfold digits. rewrite digits_value_rev. apply val_digs. rewrite N2Nat.id. apply N.size_gt.
Qed.
Lemma digits_isdig n : Forall (fun c => isdig c = true) (digits n).
Proof. unfold digits. apply Forall_rev, digs_isdig. Qed.
Lemma digits_cons n : exists c cs, digits n = c :: cs.
Proof.
  unfold digits. rewrite digs_lsd_S. set (x := 48 + n mod 10). set (l := if n <? 10 then [] else _).
  cbn [rev]. destruct (rev l) as [|c cs]; cbn; eauto.
Qed.

(* ---------------------------------------------------------------------------------------------- *)
(* single steps of the engine                                                                       *)


Lemma step_plain nx g t r U B : is_elem t = false -> macro_name t = None ->
  iter_step nx g (St (t :: r) U B) = Ret (SYield t (St r U B)).
Proof. intros H1 H2. unfold iter_step. cbn [input]. now rewrite H1, H2. Qed.
Lemma step_elem nx g t r U B : is_elem t = true ->
  iter_step nx g (St (t :: r) U B) = Ret (SYield t (St r U B)).
Proof. intros H1. unfold iter_step. cbn [input]. now rewrite H1. Qed.
(* a control sequence (or brace) whose name has a meaning in the context *)
Lemma step_macro nx g t nm m r U B : is_elem t = false -> macro_name t = Some nm -> chain_get U B nm = Some m ->
  iter_step nx g (St (t :: r) U B) = bind (invoke nx g nm m (St r U B)) (fun st3 => Ret (SCont st3)).
Proof.
  intros H1 H2 H3. unfold iter_step. cbn [input]. rewrite H1, H2. unfold getitem, lookup, set_input. cbn [ups bottom input].
  now rewrite H3.
Qed.

Lemma nx_plain g t r U B : is_elem t = false -> macro_name t = None ->
  next_exp (S g) (St (t :: r) U B) = Ret (Some t, St r U B).
Proof. intros H1 H2. cbn [next_exp]. now rewrite step_plain. Qed.
Lemma nx_elem g t r U B : is_elem t = true -> next_exp (S g) (St (t :: r) U B) = Ret (Some t, St r U B).
Proof. intros H1. cbn [next_exp]. now rewrite step_elem. Qed.
Lemma nx_relax g r U B : chain_get U B s_relax = Some (MPrim PRelax) ->
  next_exp (S (S g)) (St (esc s_relax :: r) U B) = Ret (Some (prim_elem PRelax), St r U B).
Proof.
  intros H. cbn [next_exp]. rewrite (step_macro _ _ _ s_relax (MPrim PRelax)); [|reflexivity|reflexivity|exact H].
  cbn [invoke bind]. unfold push_tok, set_input. cbn [input ups bottom].
  change (bind (iter_step (next_exp g) g ?s) ?f) with (next_exp (S g) s). now apply nx_elem.
Qed.

(* what ends a digit run and stays in the stream: a character token that is neither a digit nor a blank, or a control
   sequence / brace whose meaning is not a user macro (a primitive, unrecognized, undefined) *)
Definition stopper (U : list Engine.frame) (B : Engine.frame) (u : tok) : Prop :=
  is_elem u = false /\
  ((macro_name u = None /\ exists c, text1 u = Some c /\ isdig c = false /\ is_space u = false) \/
   (exists nm, macro_name u = Some nm /\
               match chain_get U B nm with Some (MDef _ _) | Some (MNew _ _ _) => False | _ => True end)).

Section Numbers.
  Context (g0 : nat).
  Let nx := next_exp (S (S g0)).

  Lemma nx_other c r U B : nx (St (other c :: r) U B) = Ret (Some (other c), St r U B).
  Proof. apply nx_plain; reflexivity. Qed.

  Lemma read_seq_digits u tl U B : stopper U B u ->
    forall ds acc g, Forall (fun c => isdig c = true) ds -> (length ds < g)%nat ->
    read_sequence g acc (St (map other ds ++ u :: tl) U B) = Ret (rev acc ++ ds, St (u :: tl) U B).
  Proof.
    intros Hs ds. induction ds as [|c ds IH]; intros acc g Hd Hg; (destruct g as [|g]; [cbn in Hg; lia|]).
    - cbn [map app read_sequence input]. rewrite app_nil_r. destruct Hs as (He & [(Hm & c & Ht & Hc & Hsp)|(nm & Hm & Hl)]).
      + rewrite He, Hm, Ht. unfold isdig in Hc. rewrite Hc, Hsp. reflexivity.
      + unfold lookup. cbn [ups bottom]. rewrite He, Hm.
        destruct (chain_get U B nm) as [[a b|n o b|p|k|k|k b0|b0|z0]|]; try contradiction; reflexivity.
    - cbn [map app read_sequence input]. change (is_elem (other c)) with false.
      change (macro_name (other c)) with (@None (list N)). change (text1 (other c)) with (Some c). cbn iota.
      inversion Hd as [|c' ds' Hc Hd']; subst. unfold isdig in Hc. rewrite Hc. unfold set_input. cbn [input ups bottom].
      rewrite IH; [|exact Hd'|cbn in Hg; lia]. cbn [rev]. now rewrite <- app_assoc.
  Qed.

  Lemma read_integer_digits n u tl U B g :
    stopper U B u -> (length (digits n) < g)%nat ->
    read_integer nx g (St (map other (digits n) ++ u :: tl) U B) = Ret (Z.of_N n, St (u :: tl) U B).
  Proof.
    intros Hs Hg. pose proof (digits_value_digits n) as Hv. pose proof (digits_isdig n) as Hd.
    destruct (digits_cons n) as (c & cs & E). rewrite E in *. clear E.
    inversion Hd as [|c' ds' Hc Hd']; subst. cbn [length] in Hg. destruct g as [|g]; [lia|].
    assert (Hc' := Hc). unfold isdig in Hc'.
    unfold read_integer, ros. cbn [input map app read_optional_spaces]. change (is_space (other c)) with false. cbn iota.
    unfold set_input. cbn [input ups bottom].
    cbn [read_signs]. rewrite nx_other. cbn [bind].
    change (is_elem (other c)) with false. change (text1 (other c)) with (Some c). cbn iota.
    replace (c =? 43) with false by lia. replace (c =? 45) with false by lia. change (is_space (other c)) with false. cbn iota.
    unfold push_tok, set_input. cbn [input ups bottom bind].
    rewrite nx_other. cbn [bind]. change (is_elem (other c)) with false. change (text1 (other c)) with (Some c). cbn iota.
    rewrite Hc'.
    rewrite (read_seq_digits u tl U B Hs cs [] (S g) Hd' ltac:(lia)). cbn [bind rev app]. now rewrite Hv.
  Qed.
End Numbers.

(* ---------------------------------------------------------------------------------------------- *)
(* the primitives on printed text                                                                   *)

Definition else_part (el : option (list node)) : list tok :=
  match el with Some e => esc s_else :: print e | None => [] end.
Definition else_nodes (el : option (list node)) : list node := match el with Some e => e | None => [] end.

(* processIfContent on  X <then> [\else <else>] \fi tl , X being tokens read over like text (the \relax instance) *)
Lemma tprocess_cond X th el tl w :
  Forall (fun t => classify t = KTok 0%Z) X -> (forall k, walks (print th) k k) ->
  (forall e, el = Some e -> forall k, walks (print e) k k) ->
  tprocess (WBool w) (X ++ print th ++ else_part el ++ esc s_fi :: tl)
  = Some ((if w then X ++ print th else print (else_nodes el)) ++ tl).
Proof.
  intros HX Hth Hel. unfold tprocess, tscan.
  assert (Hw : walks (X ++ print th) O O) by (eapply walks_app; [now apply walks_toks|apply Hth]).
  rewrite app_assoc, Hw, app_nil_r.
  destruct el as [e|]; cbn [else_part else_nodes app].
  - change (esc s_else :: print e ++ esc s_fi :: tl) with ([esc s_else] ++ print e ++ esc s_fi :: tl).
    cbn [app tscan_go]. change (classify (esc s_else)) with KElse. cbn iota. cbn [length].
    rewrite (Hel e eq_refl O), app_nil_r. cbn [tscan_go].
    change (classify (esc s_fi)) with KFi. cbn iota.
    unfold tselect. cbn [telse tcases trest rev app]. rewrite !rev_involutive.
    destruct w; reflexivity.
  - cbn [tscan_go]. change (classify (esc s_fi)) with KFi. cbn iota.
    unfold tselect. cbn [telse tcases trest rev app length]. rewrite !rev_involutive.
    destruct w; reflexivity.
Qed.

Lemma if_invoke_cond X th el tl w U B :
  Forall (fun t => classify t = KTok 0%Z) X -> (forall k, walks (print th) k k) ->
  (forall e, el = Some e -> forall k, walks (print e) k k) ->
  if_invoke w (St (X ++ print th ++ else_part el ++ esc s_fi :: tl) U B)
  = Ret (St ((if w then X ++ print th else print (else_nodes el)) ++ tl) U B).
Proof. intros HX Hth Hel. unfold if_invoke. cbn [input]. now rewrite tprocess_cond. Qed.

Lemma stopper_rel U B r : stopper U B (rel_tok r).
Proof. split; [destruct r; reflexivity|]. left. split; [destruct r; reflexivity|]. destruct r; cbn; eauto. Qed.
Lemma stopper_relax U B : chain_get U B s_relax = Some (MPrim PRelax) -> stopper U B (esc s_relax).
Proof. intros H. split; [reflexivity|]. right. exists s_relax. split; [reflexivity|]. now rewrite H. Qed.

(* \ifnum a rel b \relax ...: both numbers are read; the \relax ends the second one and stays (unexpanded) in the stream *)
Lemma invoke_ifnum g0 g a r b tl U B :
  (0 <= a)%Z -> (0 <= b)%Z -> chain_get U B s_relax = Some (MPrim PRelax) ->
  (length (digits (Z.to_N a)) < g)%nat -> (length (digits (Z.to_N b)) < g)%nat ->
  invoke (next_exp (S (S g0))) g s_ifnum (MPrim PIfnum)
    (St (map other (digits (Z.to_N a)) ++ rel_tok r :: map other (digits (Z.to_N b)) ++ esc s_relax :: tl) U B)
  = if_invoke (relz r a b) (St (esc s_relax :: tl) U B).
Proof.
  intros Ha Hb Hrelax Hga Hgb. cbn [invoke].
  destruct (digits_cons (Z.to_N a)) as (ca & csa & Ea).
  assert (Hros : ros (St (map other (digits (Z.to_N a)) ++ rel_tok r :: map other (digits (Z.to_N b)) ++ esc s_relax :: tl) U B)
                 = St (map other (digits (Z.to_N a)) ++ rel_tok r :: map other (digits (Z.to_N b)) ++ esc s_relax :: tl) U B).
  { rewrite Ea. reflexivity. }
  rewrite Hros.
  rewrite (read_integer_digits g0 (Z.to_N a) (rel_tok r)); [|apply stopper_rel|exact Hga].
  cbn [bind]. replace (ros (St (rel_tok r :: map other (digits (Z.to_N b)) ++ esc s_relax :: tl) U B))
    with (St (rel_tok r :: map other (digits (Z.to_N b)) ++ esc s_relax :: tl) U B) by (destruct r; reflexivity).
  cbn [input]. replace (is_elem (rel_tok r)) with false by (destruct r; reflexivity).
  unfold set_input. cbn [input ups bottom].
  rewrite (read_integer_digits g0 (Z.to_N b) (esc s_relax)); [|now apply stopper_relax|exact Hgb].
  cbn [bind]. rewrite !Z2N.id by assumption.
  destruct r; cbn [rel_tok ttext other seqb N.eqb Pos.eqb andb relz]; try reflexivity.
  now rewrite Z.gtb_ltb.
Qed.

(* \def\zq..#1..#n{body} / \gdef.. : [body] any brace-balanced token list *)
Lemma dtok_other t : dtok_ok t = true -> exists c, t = other c /\ dchar c = true.
Proof.
  destruct t as [k x]. destruct x as [|c [|c' x]]; try discriminate. cbn [dtok_ok]. intros H. apply andb_true_iff in H as [Hk Hc].
  apply N.eqb_eq in Hk. subst k. exists c. split; [reflexivity|exact Hc].
Qed.
Lemma dl_other np i : Forall (fun t => exists c, t = other c /\ dchar c = true) (dl np i).
Proof.
  pose proof (dl_ok np i) as H. induction (dl np i) as [|t l IH]; [constructor|]. cbn [forallb] in H. apply andb_true_iff in H as [H1 H2].
  constructor; [now apply dtok_other|now apply IH].
Qed.
Definition ptext0 (np0 i n : nat) : list tok := flat_map (fun i => hash_tok :: other (48 + N.of_nat i) :: dl np0 i) (seq i n).
Lemma ptext_Forall (P : tok -> Prop) np0 : P hash_tok -> (forall c, P (other c)) -> forall i n, Forall P (ptext0 np0 i n).
Proof.
  intros Hh Ho i n. unfold ptext0. revert i. induction n as [|n IH]; intros i; cbn [seq flat_map]; [constructor|].
  constructor; [exact Hh|]. constructor; [apply Ho|]. apply Forall_app. split; [|apply IH].
  eapply Forall_impl; [|apply dl_other]. intros t (c & -> & _). apply Ho.
Qed.
Lemma is_bgroup_param_text np0 i n : Forall (fun t => is_bgroup t = false) (ptext0 np0 i n).
Proof. apply ptext_Forall; [reflexivity|intros c; reflexivity]. Qed.
Lemma read_args_nobg l : forall acc rest, Forall (fun t => is_bgroup t = false) l ->
  read_args (l ++ bg :: rest) acc = (rev acc ++ l, bg :: rest).
Proof.
  induction l as [|t l IH]; intros acc rest H.
  - cbn [app read_args]. change (is_bgroup bg) with true. cbn iota. now rewrite app_nil_r.
  - inversion H as [|t' l' Ht Hl]; subst. cbn [app read_args]. rewrite Ht. rewrite IH by exact Hl. cbn [rev]. now rewrite <- app_assoc.
Qed.
Lemma has_nested_nop l r : Forall (fun t => is_param t = false) l -> has_nested (l ++ r) = has_nested r.
Proof. induction 1 as [|t l Ht _ IH]; [reflexivity|]. cbn [app has_nested]. now rewrite Ht. Qed.
Lemma has_nested_param_text np0 i n : has_nested (ptext0 np0 i n) = false.
Proof.
  unfold ptext0. revert i. induction n as [|n IH]; intros i; [reflexivity|]. cbn [seq flat_map app has_nested].
  change (is_param hash_tok) with true. cbn iota. change (is_param (other _)) with false. cbn iota.
  rewrite has_nested_nop; [apply IH|]. eapply Forall_impl; [|apply dl_other]. intros t (c & -> & _). reflexivity.
Qed.
Lemma ros_param_text np rest : read_optional_spaces (param_text np ++ bg :: rest) = param_text np ++ bg :: rest.
Proof. destruct np; reflexivity. Qed.

Lemma def_invoke_text gl nm np body tl U B : depth_after body O = Some O ->
  def_invoke gl (St (esc (mname nm) :: param_text np ++ bg :: body ++ eg :: tl) U B)
  = Ret (push_tok (prim_elem (PDef gl))
           ((if gl then add_global else add_local) (mname nm) (MDef (param_text np) body) (St tl U B))).
Proof.
  intros Hb. unfold def_invoke, ros. cbn [input read_optional_spaces].
  change (is_space (esc (mname nm))) with false. cbn iota. unfold set_input. cbn [input ups bottom].
  rewrite ros_param_text. change (param_text np) with (ptext0 np 1 np). rewrite (read_args_nobg _ [] _ (is_bgroup_param_text np 1 np)). cbn [rev app input ups bottom read_optional_spaces].
  change (is_space bg) with false. cbn iota.
  unfold read_token. change (is_bgroup bg) with true. cbn iota.
  rewrite (read_group_app body O [] (eg :: tl) O Hb). cbn [read_group]. change (is_bgroup eg) with false. change (is_egroup eg) with true. cbn iota.
  rewrite app_nil_r, rev_involutive. rewrite has_nested_param_text. reflexivity.
Qed.

(* \def\zq..##1..##n{body} (n >= 1): the parameter text is "nested", \def removes one level of # from it and from the body *)
Lemma is_bgroup_param_text2 i n : Forall (fun t => is_bgroup t = false) (flat_map (fun i => [hash_tok; hash_tok; other (48 + N.of_nat i)]) (seq i n)).
Proof. revert i. induction n as [|n IH]; intros i; cbn [seq flat_map app]; [constructor|]. constructor; [reflexivity|]. constructor; [reflexivity|]. constructor; [reflexivity|apply IH]. Qed.
Lemma has_nested_param_text2 i n : (1 <= n)%nat -> has_nested (flat_map (fun i => [hash_tok; hash_tok; other (48 + N.of_nat i)]) (seq i n)) = true.
Proof. intros H. destruct n as [|n]; [lia|]. cbn [seq flat_map app has_nested]. change (is_param hash_tok) with true. reflexivity. Qed.
Lemma ros_param_text2 np rest : read_optional_spaces (param_text2 np ++ bg :: rest) = param_text2 np ++ bg :: rest.
Proof. destruct np; reflexivity. Qed.
Lemma def_invoke_text2 gl nm np body tl U B : (1 <= np)%nat -> depth_after body O = Some O ->
  def_invoke gl (St (esc (mname nm) :: param_text2 np ++ bg :: body ++ eg :: tl) U B)
  = Ret (push_tok (prim_elem (PDef gl))
           ((if gl then add_global else add_local) (mname nm) (MDef (reduce_hashes (param_text2 np) O []) (reduce_hashes body O [])) (St tl U B))).
Proof.
  intros Hnp Hb. unfold def_invoke, ros. cbn [input read_optional_spaces].
  change (is_space (esc (mname nm))) with false. cbn iota. unfold set_input. cbn [input ups bottom].
  rewrite ros_param_text2. unfold param_text2. rewrite (read_args_nobg _ [] _ (is_bgroup_param_text2 1 np)). cbn [rev app input ups bottom read_optional_spaces].
  change (is_space bg) with false. cbn iota.
  unfold read_token. change (is_bgroup bg) with true. cbn iota.
  rewrite (read_group_app body O [] (eg :: tl) O Hb). cbn [read_group]. change (is_bgroup eg) with false. change (is_egroup eg) with true. cbn iota.
  rewrite app_nil_r, rev_involutive. rewrite (has_nested_param_text2 1 np Hnp). reflexivity.
Qed.

(* ---------------------------------------------------------------------------------------------- *)
(* the invariant: frames of the reference evaluator <-> frames of the engine's context              *)

Lemma alookup_aremove_neq {A} id nm (f : list (Z * A)) : id <> nm -> alookup id (aremove nm f) = alookup id f.
Proof.
  intros Hn. induction f as [|[k v] f IH]; [reflexivity|]. cbn [aremove alookup].
  destruct (Z.eqb_spec nm k) as [->|Hk].
  - rewrite IH. destruct (Z.eqb_spec id k); [contradiction|reflexivity].
  - cbn [alookup]. now rewrite IH.
Qed.
Lemma alookup_aremove_eq {A} nm (f : list (Z * A)) : alookup nm (aremove nm f) = None.
Proof.
  induction f as [|[k v] f IH]; [reflexivity|]. cbn [aremove].
  destruct (Z.eqb_spec nm k) as [->|Hk]; [exact IH|]. cbn [alookup].
  destruct (Z.eqb_spec nm k); [contradiction|exact IH].
Qed.
Lemma alookup_aset {A} id nm (m : A) f : alookup id (aset nm m f) = if (id =? nm)%Z then Some m else alookup id f.
Proof.
  unfold aset. cbn [alookup]. destruct (Z.eqb_spec id nm) as [->|Hn]; [reflexivity|]. now apply alookup_aremove_neq.
Qed.
Lemma alookup_aremove_some {A} id nm (f : list (Z * A)) m : alookup id (aremove nm f) = Some m -> alookup id f = Some m.
Proof.
  destruct (Z.eq_dec id nm) as [->|Hn]; [now rewrite alookup_aremove_eq|]. now rewrite alookup_aremove_neq.
Qed.

Definition frel (isb : bool) (mf : MacroLang.frame) (ef : Engine.frame) : Prop :=
  (forall id, findm (mname id) ef = option_map mean_of (alookup id mf)) /\
  (forall k, (forall id, k <> mname id) ->
             if isb then swkey k = false -> findm k ef = findm k base_frame else findm k ef = None).

(* [G]: what is known about every stored meaning (fragment dependent) *)
Definition menv_okg (G : MacroLang.meaning -> Prop) (fs : list MacroLang.frame) : Prop :=
  forall f id m, In f fs -> alookup id f = Some m -> G m.

Definition Rfg (G : MacroLang.meaning -> Prop) (fs : list MacroLang.frame) (U : list Engine.frame) (B : Engine.frame) : Prop :=
  exists mfs mg, fs = mfs ++ [mg] /\ Forall2 (frel false) mfs U /\ frel true mg B /\ menv_okg G fs.

Lemma frel_nil : frel false [] [].
Proof. split; intros; reflexivity. Qed.

Lemma frel_init : frel true [] base_frame.
Proof. split; [intros id; reflexivity|intros k _ _; reflexivity]. Qed.

Lemma frel_set isb mf ef nm m :
  frel isb mf ef -> frel isb (aset nm m mf) ((mname nm, mean_of m) :: ef).
Proof.
  intros [H1 H2]. split.
  - intros id. cbn [findm]. rewrite seqb_mname, alookup_aset. destruct (id =? nm)%Z; [reflexivity|apply H1].
  - intros k Hk. cbn [findm]. rewrite (seqb_neq k (mname nm) (Hk nm)). now apply H2.
Qed.
Lemma base_not_swkey k v : findm k base_frame = Some v -> swkey k = false.
Proof.
  unfold base_frame. cbn [findm].
  repeat (match goal with |- context [seqb k ?n] => destruct (seqb k n) eqn:?E; [apply seqb_eq in E; subst k; reflexivity|clear E] end).
  discriminate.
Qed.

Lemma frel_remove mf ef nm : alookup nm mf = None -> frel false mf ef -> frel false (aremove nm mf) ef.
Proof.
  intros Hn [H1 H2]. split; [|exact H2]. intros id. rewrite H1.
  destruct (Z.eq_dec id nm) as [->|Hd]; [now rewrite Hn, alookup_aremove_eq|now rewrite alookup_aremove_neq].
Qed.

Ltac not_mname := let id := fresh in let H := fresh in intros id H; unfold mname in H; discriminate H.

Lemma def_global_app nm m mfs mg : def_global nm m (mfs ++ [mg]) = map (aremove nm) mfs ++ [aset nm m mg].
Proof.
  induction mfs as [|f mfs IH]; [reflexivity|]. cbn [app map]. rewrite <- IH.
  destruct mfs; reflexivity.
Qed.

Section Rel.
  Context (G : MacroLang.meaning -> Prop).

  Lemma Rfg_init : Rfg G (frames empty_env) [] base_frame.
  Proof.
    exists [], []. split; [reflexivity|]. split; [constructor|]. split; [apply frel_init|].
    intros f id m [<-|[]] Hl. discriminate Hl.
  Qed.

  Lemma Rfg_lookup fs U B id : Rfg G fs U B -> chain_get U B (mname id) = option_map mean_of (lookup_frames id fs).
  Proof.
    intros (mfs & mg & -> & HF & HB & _). induction HF as [|mf ef mfs U [H1 _] _ IH].
    - cbn [app lookup_frames chain_get]. rewrite (proj1 HB). destruct (alookup id mg); reflexivity.
    - cbn [app lookup_frames chain_get]. rewrite H1. destruct (alookup id mf); [reflexivity|exact IH].
  Qed.

  Lemma Rfg_prim fs U B k : Rfg G fs U B -> (forall id, k <> mname id) -> swkey k = false -> chain_get U B k = findm k base_frame.
  Proof.
    intros (mfs & mg & -> & HF & HB & _) Hk Hsw. induction HF as [|mf ef mfs U [_ H2] _ IH].
    - cbn [chain_get]. now apply (proj2 HB).
    - cbn [chain_get]. now rewrite (H2 k Hk).
  Qed.

  Lemma Rfg_push fs U B : Rfg G fs U B -> Rfg G ([] :: fs) ([] :: U) B.
  Proof.
    intros (mfs & mg & -> & HF & HB & Hok). exists ([] :: mfs), mg. split; [reflexivity|]. split; [constructor; [apply frel_nil|exact HF]|].
    split; [exact HB|]. intros f id m [<-|Hin] Hl; [discriminate|]. now apply (Hok f id m).
  Qed.

  Lemma Rfg_pop fs u U B : Rfg G fs (u :: U) B -> Rfg G (tl fs) U B.
  Proof.
    intros (mfs & mg & -> & HF & HB & Hok). inversion HF as [|mf ef mfs' U' _ HF' E1 E2]; subst.
    exists mfs', mg. cbn [app tl]. split; [reflexivity|]. split; [exact HF'|]. split; [exact HB|].
    intros f id m Hin Hl. apply (Hok f id m); [now right|exact Hl].
  Qed.

  Lemma Rfg_def_local fs U B nm m : G m -> Rfg G fs U B ->
    let st := add_local (mname nm) (mean_of m) {| input := []; ups := U; bottom := B |} in
    Rfg G (def_local nm m fs) (ups st) (bottom st).
  Proof.
    intros Hm (mfs & mg & -> & HF & HB & Hok) st.
    assert (Hok' : forall f0 r0, mfs ++ [mg] = f0 :: r0 -> menv_okg G (aset nm m f0 :: r0)).
    { intros f0 r0 E f id m' [<-|Hin] Hl.
      - rewrite alookup_aset in Hl. destruct (id =? nm)%Z.
        + injection Hl as <-. exact Hm.
        + apply (Hok f0 id m'); [rewrite E; now left|exact Hl].
      - apply (Hok f id m'); [rewrite E; now right|exact Hl]. }
    inversion HF as [|mf ef mfs' U' Hfe HF' E1 E2]; subst.
    - cbn [app def_local]. subst st. unfold add_local. cbn [ups]. unfold add_global, set_bottom. cbn [ups bottom].
      exists [], (aset nm m mg). split; [reflexivity|]. split; [constructor|]. split.
      + now apply frel_set.
      + now apply (Hok' mg []).
    - cbn [app def_local]. subst st. unfold add_local. cbn [ups]. unfold set_ups. cbn [ups bottom].
      exists (aset nm m mf :: mfs'), mg. split; [reflexivity|]. split.
      + constructor; [|exact HF']. now apply frel_set.
      + split; [exact HB|]. now apply (Hok' mf (mfs' ++ [mg])).
  Qed.

  Lemma Rfg_def_global fs U B nm m : G m -> unshadowed nm fs = true -> Rfg G fs U B ->
    Rfg G (def_global nm m fs) U ((mname nm, mean_of m) :: B).
  Proof.
    intros Hm Hun (mfs & mg & -> & HF & HB & Hok).
    unfold unshadowed in Hun. rewrite removelast_last in Hun. rewrite forallb_forall in Hun.
    rewrite def_global_app. exists (map (aremove nm) mfs), (aset nm m mg). split; [reflexivity|]. split; [|split].
    - clear Hok HB. induction HF as [|mf ef mfs U Hfe _ IH]; [constructor|]. cbn [map]. constructor.
      + apply frel_remove; [|exact Hfe]. specialize (Hun mf (or_introl eq_refl)). now destruct (alookup nm mf).
      + apply IH. intros x Hx. apply Hun. now right.
    - now apply frel_set.
    - intros f id m' Hin Hl. apply in_app_or in Hin as [Hin|[<-|[]]].
      + apply in_map_iff in Hin as (f0 & <- & Hin0). apply alookup_aremove_some in Hl.
        apply (Hok f0 id m'); [apply in_or_app; now left|exact Hl].
      + rewrite alookup_aset in Hl. destruct (id =? nm)%Z.
        * injection Hl as <-. exact Hm.
        * apply (Hok mg id m'); [apply in_or_app; right; now left|exact Hl].
  Qed.

  Lemma Rfg_good fs U B id m : Rfg G fs U B -> lookup_frames id fs = Some m -> G m.
  Proof.
    intros (mfs & mg & E & _ & _ & Hok) Hl. clear E. induction fs as [|f fs IH]; [discriminate|].
    cbn [lookup_frames] in Hl. destruct (alookup id f) as [m'|] eqn:Ea.
    - injection Hl as <-. apply (Hok f id m'); [now left|exact Ea].
    - apply IH; [|exact Hl]. intros f0 id0 m0 Hin. apply Hok. now right.
  Qed.

  Lemma prim_lookupg fs U B k p : Rfg G fs U B -> (forall id, k <> mname id) -> findm k base_frame = Some (MPrim p) ->
    chain_get U B k = Some (MPrim p).
  Proof. intros HR Hk Hf. now rewrite (Rfg_prim fs U B k HR Hk (base_not_swkey k _ Hf)). Qed.
End Rel.

(* fragment F1: every stored meaning is a parameterless macro with an F1 body *)
Definition good (m : MacroLang.meaning) : Prop := m_n m = O /\ m_default m = None /\ F1l (m_body m).
Definition Rf := Rfg good.
Definition Rf_lookup := Rfg_lookup good.
Definition Rf_prim := Rfg_prim good.
Definition Rf_push := Rfg_push good.
Definition Rf_pop := Rfg_pop good.
Definition Rf_good := Rfg_good good.

Lemma good_new b : F1l b -> good {| m_n := O; m_default := None; m_body := b |}.
Proof. intros H. repeat split. exact H. Qed.

Lemma mean_of_good m : good m -> mean_of m = MDef [] (print (m_body m)).
Proof. intros (H & Hd & Hb). unfold mean_of. now rewrite H, Hd, (proj2 printb_F1 _ Hb). Qed.

Lemma Rf_def_local fs U B nm b : F1l b -> Rf fs U B ->
  let m := {| m_n := O; m_default := None; m_body := b |} in
  let st := add_local (mname nm) (MDef [] (print b)) {| input := []; ups := U; bottom := B |} in
  Rf (def_local nm m fs) (ups st) (bottom st).
Proof. intros Hb HR. pose proof (Rfg_def_local good fs U B nm _ (good_new b Hb) HR) as H. unfold mean_of in H. cbn [m_default m_n m_body] in H. now rewrite (proj2 printb_F1 b Hb) in H. Qed.

Lemma Rf_def_global fs U B nm b : F1l b -> unshadowed nm fs = true -> Rf fs U B ->
  let m := {| m_n := O; m_default := None; m_body := b |} in
  Rf (def_global nm m fs) U ((mname nm, MDef [] (print b)) :: B).
Proof. intros Hb Hun HR. pose proof (Rfg_def_global good fs U B nm _ (good_new b Hb) Hun HR) as H. unfold mean_of in H. cbn [m_default m_n m_body] in H. now rewrite (proj2 printb_F1 b Hb) in H. Qed.

(* ---------------------------------------------------------------------------------------------- *)
(* unfolding equations of the reference evaluator and of the side condition                         *)

Lemma eval_nil f e out : eval (S f) e out [] = Ok e out. Proof. reflexivity. Qed.
Lemma eval_budget f e out n rest r : eval (S f) e out (n :: rest) = r -> (forall e' o', r <> Ok e' o') \/ exists budget, steps e = S budget.
Proof. intros <-. cbn [eval]. destruct (steps e); [left; intros; discriminate|right; eauto]. Qed.

Section Unfold.
  Context (f : nat) (e : env) (out : list Z) (rest : list node) (budget : nat) (Hs : steps e = S budget).
  Let e1 := tick e budget.

  Lemma eval_word w : eval (S f) e out (NWord w :: rest) = eval f e1 (w :: out) rest.
  Proof. cbn [eval]. now rewrite Hs. Qed.
  Lemma eval_group b : eval (S f) e out (NGroup b :: rest) =
    match eval f (with_frames e1 ([] :: frames e1)) out b with
    | Ok e' out' => eval f (with_frames e' (tl (frames e'))) out' rest
    | other => other
    end.
  Proof. cbn [eval]. now rewrite Hs. Qed.
  Lemma eval_def g nm np d b : eval (S f) e out (NDef g nm np d b :: rest) =
    eval f (with_frames e1 ((if g then def_global else def_local) nm {| m_n := np; m_default := d; m_body := b |} (frames e1))) out rest.
  Proof. cbn [eval]. now rewrite Hs. Qed.
  Lemma eval_call0 nm : eval (S f) e out (NCall nm None [] :: rest) =
    match lookup_frames nm (frames e1) with
    | None => Stuck 1
    | Some m =>
        if Nat.eqb O (m_n m) then
          let args := match m_default m with Some d => [d] | None => [] end in
          let body := subst 50 args (m_body m) in
          if Nat.ltb 4000 (length body) then MacroLang.OutOfFuel else
          match eval f e1 out body with Ok e' out' => eval f e' out' rest | other => other end
        else Stuck 2
    end.
  Proof. cbn [eval]. rewrite Hs. reflexivity. Qed.
  Lemma eval_cond t th el : eval (S f) e out (NCond t th el :: rest) =
    match eval f e1 out (if eval_test e1 t then th else match el with Some x => x | None => [] end) with
    | Ok e' out' => eval f e' out' rest
    | other => other
    end.
  Proof. cbn [eval]. now rewrite Hs. Qed.

  Lemma gsafe_word w : gsafe (S f) e out (NWord w :: rest) = gsafe f e1 (w :: out) rest.
  Proof. cbn [gsafe]. now rewrite Hs. Qed.
  Lemma gsafe_group b : gsafe (S f) e out (NGroup b :: rest) =
    gsafe f (with_frames e1 ([] :: frames e1)) out b &&
    match eval f (with_frames e1 ([] :: frames e1)) out b with
    | Ok e' out' => gsafe f (with_frames e' (tl (frames e'))) out' rest
    | _ => true
    end.
  Proof. cbn [gsafe]. now rewrite Hs. Qed.
  Lemma gsafe_def g nm np d b : gsafe (S f) e out (NDef g nm np d b :: rest) =
    (if g then unshadowed nm (frames e1) else true) &&
    gsafe f (with_frames e1 ((if g then def_global else def_local) nm {| m_n := np; m_default := d; m_body := b |} (frames e1))) out rest.
  Proof. cbn [gsafe]. now rewrite Hs. Qed.
  Lemma gsafe_call0 nm : gsafe (S f) e out (NCall nm None [] :: rest) =
    match lookup_frames nm (frames e1) with
    | None => true
    | Some m =>
        let args := match m_default m with Some d => [d] | None => [] end in
        let body := subst 50 args (m_body m) in
        gsafe f e1 out body && match eval f e1 out body with Ok e' out' => gsafe f e' out' rest | _ => true end
    end.
  Proof. cbn [gsafe]. rewrite Hs. reflexivity. Qed.
  Lemma gsafe_cond t th el : gsafe (S f) e out (NCond t th el :: rest) =
    let b := if eval_test e1 t then th else match el with Some x => x | None => [] end in
    (match t with TSwitch sw => match alookup sw (switches e1) with Some _ => true | None => false end | _ => true end) &&
    gsafe f e1 out b && match eval f e1 out b with Ok e' out' => gsafe f e' out' rest | _ => true end.
  Proof. cbn [gsafe]. now rewrite Hs. Qed.
  Lemma eval_call0_good nm m : lookup_frames nm (frames e1) = Some m -> m_n m = O -> m_default m = None ->
    eval (S f) e out (NCall nm None [] :: rest) =
    if Nat.ltb 4000 (length (subst 50 [] (m_body m))) then MacroLang.OutOfFuel else
    match eval f e1 out (subst 50 [] (m_body m)) with Ok e' out' => eval f e' out' rest | other => other end.
  Proof. intros Hl Hn Hd. rewrite eval_call0, Hl, Hn, Hd. reflexivity. Qed.
  Lemma gsafe_call0_good nm m : lookup_frames nm (frames e1) = Some m -> m_default m = None ->
    gsafe (S f) e out (NCall nm None [] :: rest) =
    gsafe f e1 out (subst 50 [] (m_body m)) &&
    match eval f e1 out (subst 50 [] (m_body m)) with Ok e' out' => gsafe f e' out' rest | _ => true end.
  Proof. intros Hl Hd. rewrite gsafe_call0, Hl, Hd. reflexivity. Qed.
End Unfold.

(* ---------------------------------------------------------------------------------------------- *)
(* executions of the engine on printed pieces                                                       *)

Definition plain (t : tok) : Prop := is_elem t = false /\ macro_name t = None.

Lemma exec_plain l : forall r U B, Forall plain l -> exec (St (l ++ r) U B) l (St r U B).
Proof.
  induction l as [|t l IH]; intros r U B H; [apply ex_refl|]. inversion H as [|t' l' [H1 H2] Hl]; subst.
  cbn [app]. eapply (ex_yield O); [now apply step_plain|now apply IH].
Qed.
Lemma plain_wprint w : Forall plain (wprint w).
Proof.
  unfold wprint. constructor; [split; reflexivity|]. apply Forall_app. split.
  - apply Forall_map_tok. intros c. split; reflexivity.
  - constructor; [split; reflexivity|constructor].
Qed.
Lemma text_of_plain l : Forall plain l -> text_of l = l.
Proof. induction 1 as [|t l [H _] _ IH]; [reflexivity|]. unfold text_of in *. cbn [filter]. rewrite H. cbn. now rewrite IH. Qed.
Lemma text_of_app a b : text_of (a ++ b) = text_of a ++ text_of b.
Proof. apply filter_app. Qed.
Lemma words_text_snoc w out : words_text (rev (w :: out)) = words_text (rev out) ++ wprint w.
Proof. unfold words_text. cbn [rev]. rewrite flat_map_app. cbn [flat_map]. now rewrite app_nil_r. Qed.

Section ExecG.
  Context (G : MacroLang.meaning -> Prop).

Lemma exec_bgroup fs U B r : Rfg G fs U B -> exec (St (bg :: r) U B) [prim_elem PBgroup] (St r ([] :: U) B).
Proof.
  intros HR. eapply (ex_cont O).
  - rewrite (step_macro _ _ bg s_bgroup (MPrim PBgroup)); [reflexivity|reflexivity|reflexivity|].
    apply (prim_lookupg G fs); [exact HR|not_mname|reflexivity].
  - eapply (ex_yield O); [apply step_elem; reflexivity|apply ex_refl].
Qed.
Lemma exec_egroup fs u U B r : Rfg G fs (u :: U) B -> exec (St (eg :: r) (u :: U) B) [prim_elem PEgroup] (St r U B).
Proof.
  intros HR. eapply (ex_cont O).
  - rewrite (step_macro _ _ eg s_egroup (MPrim PEgroup)); [reflexivity|reflexivity|reflexivity|].
    apply (prim_lookupg G fs); [exact HR|not_mname|reflexivity].
  - eapply (ex_yield O); [apply step_elem; reflexivity|apply ex_refl].
Qed.
Lemma exec_def fs U B (gl : bool) nm np body r : Rfg G fs U B -> depth_after body O = Some O ->
  let st := (if gl then add_global else add_local) (mname nm) (MDef (param_text np) body) (St r U B) in
  exec (St (esc (if gl then s_gdef else s_def) :: esc (mname nm) :: param_text np ++ bg :: body ++ eg :: r) U B) [prim_elem (PDef gl)] st.
Proof.
  intros HR Hb st. eapply (ex_cont O).
  - rewrite (step_macro _ _ _ (if gl then s_gdef else s_def) (MPrim (PDef gl))).
    + cbn [invoke]. rewrite (def_invoke_text gl nm np body r U B Hb). reflexivity.
    + destruct gl; reflexivity.
    + destruct gl; reflexivity.
    + apply (prim_lookupg G fs); [exact HR|destruct gl; not_mname|destruct gl; reflexivity].
  - fold st. destruct st as [i U' B'] eqn:E.
    assert (Hi : i = r) by (subst st; destruct gl; unfold add_global, add_local, set_bottom, set_ups in E; cbn in E; [|destruct U]; inversion E; reflexivity).
    subst i. unfold push_tok, set_input. cbn [input ups bottom].
    eapply (ex_yield O); [apply step_elem; destruct gl; reflexivity|apply ex_refl].
Qed.
Lemma exec_def2 fs U B (gl : bool) nm np body r : Rfg G fs U B -> (1 <= np)%nat -> depth_after body O = Some O ->
  let st := (if gl then add_global else add_local) (mname nm) (MDef (reduce_hashes (param_text2 np) O []) (reduce_hashes body O [])) (St r U B) in
  exec (St (esc (if gl then s_gdef else s_def) :: esc (mname nm) :: param_text2 np ++ bg :: body ++ eg :: r) U B) [prim_elem (PDef gl)] st.
Proof.
  intros HR Hnp Hb st. eapply (ex_cont O).
  - rewrite (step_macro _ _ _ (if gl then s_gdef else s_def) (MPrim (PDef gl))).
    + cbn [invoke]. rewrite (def_invoke_text2 gl nm np body r U B Hnp Hb). reflexivity.
    + destruct gl; reflexivity.
    + destruct gl; reflexivity.
    + apply (prim_lookupg G fs); [exact HR|destruct gl; not_mname|destruct gl; reflexivity].
  - fold st. destruct st as [i U' B'] eqn:E.
    assert (Hi : i = r) by (subst st; destruct gl; unfold add_global, add_local, set_bottom, set_ups in E; cbn in E; [|destruct U]; inversion E; reflexivity).
    subst i. unfold push_tok, set_input. cbn [input ups bottom].
    eapply (ex_yield O); [apply step_elem; destruct gl; reflexivity|apply ex_refl].
Qed.
Lemma exec_call U B nm body r : chain_get U B (mname nm) = Some (MDef [] body) ->
  exec (St (esc (mname nm) :: r) U B) [] (St (body ++ r) U B).
Proof.
  intros H. eapply (ex_cont O); [|apply ex_refl].
  rewrite (step_macro _ _ _ (mname nm) (MDef [] body)); [reflexivity|reflexivity|reflexivity|exact H].
Qed.

Lemma exec_relax fs U B r : Rfg G fs U B -> exec (St (esc s_relax :: r) U B) [prim_elem PRelax] (St r U B).
Proof.
  intros HR. eapply (ex_cont O).
  - rewrite (step_macro _ _ (esc s_relax) s_relax (MPrim PRelax)); [reflexivity|reflexivity|reflexivity|].
    apply (prim_lookupg G fs); [exact HR|not_mname|reflexivity].
  - eapply (ex_yield O); [apply step_elem; reflexivity|apply ex_refl].
Qed.

(* [Xt]: tokens left in front of the selected branch (the \relax that ended the number), [Xe]: what they yield *)
Lemma exec_cond fs U B t th el r : Rfg G fs U B -> f1_test t = true -> (forall k, walks (print th) k k) ->
  (forall e, el = Some e -> forall k, walks (print e) k k) ->
  forall e0, frames e0 = fs ->
  exists Xt Xe, Forall (fun x => is_elem x = true) Xe /\ (forall r', exec (St (Xt ++ r') U B) Xe (St r' U B)) /\
  exec (St (print_test t ++ print th ++ else_part el ++ esc s_fi :: r) U B) []
       (St ((if eval_test e0 t then Xt ++ print th else print (else_nodes el)) ++ r) U B).
Proof.
  intros HR Ht Hth Hel e0 He0. destruct t as [| |a rl b|a| | | | |]; try discriminate Ht.
  - exists [], []. split; [constructor|]. split; [intros r'; apply ex_refl|]. eapply (ex_cont O); [|apply ex_refl].
    cbn [print_test app]. rewrite (step_macro _ _ _ s_iftrue (MPrim PIftrue)); [|reflexivity|reflexivity|].
    + cbn [invoke]. pose proof (if_invoke_cond [] th el r true U B (Forall_nil _) Hth Hel) as Hi. cbn [app] in Hi. rewrite Hi. reflexivity.
    + apply (prim_lookupg G fs); [exact HR|not_mname|reflexivity].
  - exists [], []. split; [constructor|]. split; [intros r'; apply ex_refl|]. eapply (ex_cont O); [|apply ex_refl].
    cbn [print_test app]. rewrite (step_macro _ _ _ s_iffalse (MPrim PIffalse)); [|reflexivity|reflexivity|].
    + cbn [invoke]. pose proof (if_invoke_cond [] th el r false U B (Forall_nil _) Hth Hel) as Hi. cbn [app] in Hi. rewrite Hi. reflexivity.
    + apply (prim_lookupg G fs); [exact HR|not_mname|reflexivity].
  - destruct a as [a|]; [|discriminate Ht]. destruct b as [b|]; [|discriminate Ht].
    cbn [f1_test] in Ht. apply andb_true_iff in Ht as [Ha Hb]. apply Z.leb_le in Ha, Hb.
    exists [esc s_relax], [prim_elem PRelax]. split; [constructor; [reflexivity|constructor]|].
    split; [intros r'; apply (exec_relax fs), HR|].
    set (la := length (digits (Z.to_N a))). set (lb := length (digits (Z.to_N b))).
    eapply (ex_cont (S (S (la + lb)))); [|apply ex_refl].
    cbn [print_test]. cbn [app]. rewrite <- app_assoc. cbn [app]. rewrite <- app_assoc. cbn [app].
    rewrite (step_macro _ _ _ s_ifnum (MPrim PIfnum)); [|reflexivity|reflexivity|].
    + rewrite (invoke_ifnum (la + lb) (S (S (la + lb))) a rl b); [|exact Ha|exact Hb| |subst la lb; lia|subst la lb; lia].
      * change (esc s_relax :: print th ++ else_part el ++ esc s_fi :: r)
          with ([esc s_relax] ++ print th ++ else_part el ++ esc s_fi :: r).
        rewrite (if_invoke_cond [esc s_relax] th el r (relz rl a b) U B); [|constructor; [reflexivity|constructor]|exact Hth|exact Hel].
        reflexivity.
      * apply (prim_lookupg G fs); [exact HR|not_mname|reflexivity].
    + apply (prim_lookupg G fs); [exact HR|not_mname|reflexivity].
  - destruct a as [a|]; [|discriminate Ht]. cbn [f1_test] in Ht. apply Z.leb_le in Ht.
    exists [esc s_relax], [prim_elem PRelax]. split; [constructor; [reflexivity|constructor]|].
    split; [intros r'; apply (exec_relax fs), HR|].
    set (la := length (digits (Z.to_N a))).
    eapply (ex_cont (S (S la))); [|apply ex_refl].
    cbn [print_test]. cbn [app]. rewrite <- app_assoc. cbn [app].
    rewrite (step_macro _ _ _ s_ifodd (MPrim PIfodd)); [|reflexivity|reflexivity|apply (prim_lookupg G fs); [exact HR|not_mname|reflexivity]].
    cbn [invoke].
    rewrite (read_integer_digits la (Z.to_N a) (esc s_relax)); [|apply stopper_relax, (prim_lookupg G fs); [exact HR|not_mname|reflexivity]|subst la; lia].
    cbn [bind]. rewrite Z2N.id by exact Ht.
    change (esc s_relax :: print th ++ else_part el ++ esc s_fi :: r) with ([esc s_relax] ++ print th ++ else_part el ++ esc s_fi :: r).
    rewrite (if_invoke_cond [esc s_relax] th el r (Z.odd a) U B); [|constructor; [reflexivity|constructor]|exact Hth|exact Hel].
    reflexivity.
Qed.
End ExecG.

(* ---------------------------------------------------------------------------------------------- *)
(* the simulation                                                                                   *)

Lemma text_of_elems X : Forall (fun x => is_elem x = true) X -> text_of X = [].
Proof. induction 1 as [|t l H _ IH]; [reflexivity|]. unfold text_of in *. cbn [filter]. rewrite H. exact IH. Qed.

Lemma sim f : forall e out ns e' out',
  F1l ns -> eval f e out ns = Ok e' out' -> gsafe f e out ns = true ->
  forall U B rest, Rf (frames e) U B ->
  exists T U' B',
    exec (St (print ns ++ rest) U B) T (St rest U' B') /\ Rf (frames e') U' B' /\ length U' = length U /\
    words_text (rev out') = words_text (rev out) ++ text_of T.
Proof.
  induction f as [|f IH]; intros e out ns e' out' HF Hev Hgs U B rest HR; [discriminate Hev|].
  destruct HF as [|n ns Hn Hns].
  { rewrite eval_nil in Hev. injection Hev as <- <-. exists [], U, B. repeat split; [apply ex_refl|exact HR|now rewrite app_nil_r]. }
  destruct (eval_budget f e out n ns _ Hev) as [Hno|(budget & Hs)]; [exfalso; now apply (Hno e' out')|].
  assert (HR1 : Rf (frames (tick e budget)) U B) by exact HR.
  cbn [print]. rewrite <- app_assoc.
  destruct Hn as [w|b Hb|g nm b Hb|nm|t th el Ht Hth Hel].
  - (* word *)
    rewrite (eval_word f e out ns budget Hs) in Hev. rewrite (gsafe_word f e out ns budget Hs) in Hgs.
    destruct (IH _ _ _ _ _ Hns Hev Hgs U B rest HR1) as (T & U' & B' & Hex & HR' & Hlen & Htxt).
    exists (wprint w ++ T), U', B'. repeat split; [|exact HR'|exact Hlen|].
    + eapply exec_trans; [apply exec_plain, plain_wprint|exact Hex].
    + rewrite Htxt, words_text_snoc, text_of_app, (text_of_plain _ (plain_wprint w)). now rewrite app_assoc.
  - (* group *)
    rewrite (eval_group f e out ns budget Hs) in Hev. rewrite (gsafe_group f e out ns budget Hs) in Hgs.
    apply andb_true_iff in Hgs as [Hg1 Hg2].
    destruct (eval f (with_frames (tick e budget) ([] :: frames (tick e budget))) out b) as [e2 out2| |] eqn:Eb; try discriminate Hev.
    rewrite print_group. cbn [app]. rewrite <- app_assoc. cbn [app].
    destruct (IH _ _ _ _ _ Hb Eb Hg1 ([] :: U) B (eg :: print ns ++ rest) (Rf_push _ _ _ HR1))
      as (T1 & U1 & B1 & Hex1 & HR1' & Hlen1 & Htxt1).
    destruct U1 as [|u1 U1]; [discriminate Hlen1|].
    assert (HR2 : Rf (frames (with_frames e2 (tl (frames e2)))) U1 B1) by (apply (Rf_pop _ u1); exact HR1').
    destruct (IH _ _ _ _ _ Hns Hev Hg2 U1 B1 rest HR2) as (T2 & U2 & B2 & Hex2 & HR2' & Hlen2 & Htxt2).
    exists ([prim_elem PBgroup] ++ T1 ++ [prim_elem PEgroup] ++ T2), U2, B2. repeat split; [|exact HR2'|cbn in Hlen1; lia|].
    + eapply exec_trans; [apply (exec_bgroup good _ _ _ _ HR1)|].
      eapply exec_trans; [exact Hex1|].
      eapply exec_trans; [apply (exec_egroup good _ _ _ _ _ HR1')|exact Hex2].
    + rewrite Htxt2, Htxt1, !text_of_app. cbn [text_of filter prim_elem is_elem]. cbn. now rewrite <- !app_assoc.
  - (* definition *)
    rewrite (eval_def f e out ns budget Hs) in Hev. rewrite (gsafe_def f e out ns budget Hs) in Hgs.
    apply andb_true_iff in Hgs as [Hun Hg2].
    rewrite (print_def0 g nm b Hb). cbn [app]. rewrite <- app_assoc. cbn [app].
    pose proof (exec_def good _ U B g nm O (print b) (print ns ++ rest) HR1 (proj2 depth_print b Hb O)) as Hex0. cbv zeta in Hex0.
    change (param_text O) with (@nil tok) in Hex0. cbn [app] in Hex0.
    set (st := (if g then add_global else add_local) (mname nm) (MDef [] (print b)) (St (print ns ++ rest) U B)) in *.
    assert (Hst : exists U0 B0, st = St (print ns ++ rest) U0 B0 /\ length U0 = length U /\
                   Rf ((if g then def_global else def_local) nm {| m_n := O; m_default := None; m_body := b |} (frames (tick e budget))) U0 B0).
    { subst st. destruct g.
      - exists U, ((mname nm, MDef [] (print b)) :: B). split; [reflexivity|]. split; [reflexivity|].
        now apply Rf_def_global.
      - pose proof (Rf_def_local _ U B nm b Hb HR1) as Hl. cbv zeta in Hl.
        unfold add_local in *. cbn [ups] in *. destruct U as [|u U]; cbn [ups bottom set_ups set_bottom add_global input] in *.
        + eexists [], _. split; [reflexivity|]. split; [reflexivity|exact Hl].
        + eexists (_ :: U), B. split; [reflexivity|]. split; [reflexivity|exact Hl]. }
    destruct Hst as (U0 & B0 & Est & Hlen0 & HR0). rewrite Est in Hex0.
    destruct (IH _ _ _ _ _ Hns Hev Hg2 U0 B0 rest HR0) as (T & U' & B' & Hex & HR' & Hlen & Htxt).
    exists ([prim_elem (PDef g)] ++ T), U', B'. repeat split; [|exact HR'|lia|].
    + eapply exec_trans; [exact Hex0|exact Hex].
    + rewrite Htxt, text_of_app. replace (text_of [prim_elem (PDef g)]) with (@nil tok) by (destruct g; reflexivity). reflexivity.
  - (* call *)
    destruct (lookup_frames nm (frames (tick e budget))) as [m|] eqn:El;
      [|rewrite (eval_call0 f e out ns budget Hs), El in Hev; discriminate Hev].
    pose proof (Rf_good _ _ _ _ _ HR1 El) as (Hmn & Hmd & Hmb).
    rewrite (eval_call0_good f e out ns budget Hs nm m El Hmn Hmd) in Hev.
    rewrite (gsafe_call0_good f e out ns budget Hs nm m El Hmd) in Hgs.
    rewrite (subst_F1 50 [] _ Hmb) in Hev, Hgs.
    destruct (Nat.ltb 4000 (length (m_body m))); [discriminate Hev|].
    apply andb_true_iff in Hgs as [Hg1 Hg2].
    destruct (eval f (tick e budget) out (m_body m)) as [e2 out2| |] eqn:Eb; try discriminate Hev.
    rewrite print_call0. cbn [app].
    assert (Hlk : chain_get U B (mname nm) = Some (MDef [] (print (m_body m)))).
    { rewrite (Rf_lookup _ _ _ nm HR1), El. cbn [option_map]. f_equal. apply mean_of_good. now repeat split. }
    destruct (IH _ _ _ _ _ Hmb Eb Hg1 U B (print ns ++ rest) HR1) as (T1 & U1 & B1 & Hex1 & HR1' & Hlen1 & Htxt1).
    destruct (IH _ _ _ _ _ Hns Hev Hg2 U1 B1 rest HR1') as (T2 & U2 & B2 & Hex2 & HR2' & Hlen2 & Htxt2).
    exists (T1 ++ T2), U2, B2. repeat split; [|exact HR2'|lia|].
    + eapply (exec_trans _ []); [apply (exec_call U B nm _ _ Hlk)|]. eapply exec_trans; [exact Hex1|exact Hex2].
    + rewrite Htxt2, Htxt1, text_of_app. now rewrite app_assoc.
  - (* conditional *)
    rewrite (eval_cond f e out ns budget Hs) in Hev. rewrite (gsafe_cond f e out ns budget Hs) in Hgs. cbv zeta in Hgs.
    apply andb_true_iff in Hgs as [Hg1 Hg2]. apply andb_true_iff in Hg1 as [Hdecl Hg1].
    set (br := if eval_test (tick e budget) t then th else match el with Some x => x | None => [] end) in *.
    destruct (eval f (tick e budget) out br) as [e2 out2| |] eqn:Eb; try discriminate Hev.
    rewrite print_cond. rewrite <- !app_assoc. cbn [app].
    destruct (exec_cond good _ U B t th el (print ns ++ rest) HR1 Ht (proj2 walks_print th Hth)
               (fun e0 He0 => proj2 walks_print e0 (Hel e0 He0)) (tick e budget) eq_refl) as (Xt & X & HX & HXe & Hex0).
    assert (Hbr : F1l br) by (subst br; destruct (eval_test (tick e budget) t); [exact Hth|destruct el as [x|]; [now apply Hel|constructor]]).
    destruct (IH _ _ _ _ _ Hbr Eb Hg1 U B (print ns ++ rest) HR1) as (T1 & U1 & B1 & Hex1 & HR1' & Hlen1 & Htxt1).
    destruct (IH _ _ _ _ _ Hns Hev Hg2 U1 B1 rest HR1') as (T2 & U2 & B2 & Hex2 & HR2' & Hlen2 & Htxt2).
    exists ((if eval_test (tick e budget) t then X else []) ++ T1 ++ T2), U2, B2. repeat split; [|exact HR2'|lia|].
    + eapply (exec_trans _ []); [exact Hex0|]. subst br. destruct (eval_test (tick e budget) t).
      * rewrite <- app_assoc. eapply exec_trans; [apply HXe|eapply exec_trans; [exact Hex1|exact Hex2]].
      * cbn [app]. replace (print (else_nodes el)) with (print match el with Some x => x | None => [] end) by (destruct el; reflexivity).
        eapply exec_trans; [exact Hex1|exact Hex2].
    + rewrite Htxt2, Htxt1, !text_of_app.
      replace (text_of (if eval_test (tick e budget) t then X else [])) with (@nil tok)
        by (destruct (eval_test (tick e budget) t); [now rewrite text_of_elems|reflexivity]).
      cbn [app]. now rewrite app_assoc.
Qed.

(* ---------------------------------------------------------------------------------------------- *)
(* run (print p) = den p  on F1                                                                     *)

Theorem engine_simulates_F1 fuel p e out :
  in_F1 p = true -> den fuel p = Ok e out -> gdef_safe fuel p = true ->
  exists fuel' st' T,
    run fuel' (init (print p)) [] = Done st' T /\
    text_of T = words_text (rev out) /\
    ups st' = [] /\
    (forall id, findm (mname id) (bottom st') = option_map mean_of (alookup id (last (frames e) []))) /\
    (forall k, (forall id, k <> mname id) -> swkey k = false -> findm k (bottom st') = findm k base_frame).
Proof.
  intros HF Hden Hsafe. apply in_F1_sound in HF. unfold den in Hden. unfold gdef_safe in Hsafe.
  assert (HR0 : Rf (frames empty_env) [] base_frame) by apply Rfg_init.
  destruct (sim fuel empty_env [] p e out HF Hden Hsafe [] base_frame [] HR0) as (T & U' & B' & Hex & HR & Hlen & Htxt).
  destruct U' as [|u U']; [|discriminate Hlen]. rewrite app_nil_r in Hex.
  destruct (exec_run _ _ _ Hex eq_refl) as (fuel' & Hrun).
  exists fuel', (St [] [] B'), T. split; [exact (Hrun [])|]. split; [cbn in Htxt; now rewrite Htxt|]. split; [reflexivity|].
  destruct HR as (mfs & mg & E & HF2 & HB & _). inversion HF2; subst. rewrite E. cbn [app last bottom]. exact HB.
Qed.

(* ============================================================================================== *)
(* Stage 2: undelimited parameters (fragment F2)                                                    *)
(* ============================================================================================== *)

(* induction on nodes with the hypotheses for the lists inside the constructors the fragments use *)
Definition structured (n : node) : bool :=
  match n with NGroup _ | NDef _ _ _ _ _ | NCall _ _ _ | NCond _ _ _ | NCase _ _ _ => true | _ => false end.

Lemma node_ind2 (P : node -> Prop) :
  (forall n, structured n = false -> P n) ->
  (forall b, Forall P b -> P (NGroup b)) ->
  (forall g nm np d b, Forall P b -> P (NDef g nm np d b)) ->
  (forall nm o a, Forall (Forall P) a -> P (NCall nm o a)) ->
  (forall t th el, Forall P th -> (forall x, el = Some x -> Forall P x) -> P (NCond t th el)) ->
  (forall a bs el, Forall (Forall P) bs -> (forall x, el = Some x -> Forall P x) -> P (NCase a bs el)) ->
  forall n, P n.
Proof.
  intros Hleaf Hgroup Hdef Hcall Hcond Hcase. fix IH 1. intros n.
  pose (go := fix go (l : list node) : Forall P l :=
      match l return Forall P l with [] => Forall_nil P | x :: r => Forall_cons x (IH x) (go r) end).
  pose (go2 := fix go2 (ll : list (list node)) : Forall (Forall P) ll :=
      match ll return Forall (Forall P) ll with [] => Forall_nil _ | a :: r => Forall_cons a (go a) (go2 r) end).
  destruct n; try (apply Hleaf; reflexivity).
  - apply Hgroup. apply go.
  - apply Hdef. apply go.
  - apply Hcall. apply go2.
  - destruct els as [e|].
    + apply Hcond; [apply go|]. intros x Hx. injection Hx as <-. apply go.
    + apply Hcond; [apply go|]. intros x Hx. discriminate Hx.
  - destruct els as [e|].
    + apply Hcase; [apply go2|]. intros x Hx. injection Hx as <-. apply go.
    + apply Hcase; [apply go2|]. intros x Hx. discriminate Hx.
Qed.

Lemma Forall_forallb {A} (f : A -> bool) (Q : A -> Prop) l :
  Forall (fun x => f x = true -> Q x) l -> forallb f l = true -> Forall Q l.
Proof.
  induction 1 as [|x l Hx _ IH]; intros H; [constructor|]. cbn in H. apply andb_true_iff in H as [H1 H2].
  constructor; [now apply Hx|now apply IH].
Qed.
Lemma Forall2_forallb {A} (f : A -> bool) (Q : A -> Prop) ll :
  Forall (Forall (fun x => f x = true -> Q x)) ll -> forallb (forallb f) ll = true -> Forall (Forall Q) ll.
Proof.
  induction 1 as [|l ll Hl _ IH]; intros H; [constructor|]. cbn in H. apply andb_true_iff in H as [H1 H2].
  constructor; [now apply (Forall_forallb f)|now apply IH].
Qed.

(* the token shape shared by all fragments: what the scanners need *)
Fixpoint w_node (x : node) : bool :=
  match x with
  | NWord _ | NParam _ | NParam2 _ | NExpandAfter _ _ | NLet _ _ | NNewSwitch _ | NSetSwitch _ _ | NStep _ | NSetC _ _ | NAddC _ _ => true
  | NGroup b => forallb w_node b
  | NDef _ _ _ d b => opt_ok d && forallb w_node b
  | NCall _ o a => opt_ok o && forallb (forallb w_node) a
  | NCond t th el => f2_test t && forallb w_node th && match el with Some e => forallb w_node e | None => true end
  | NCase a bs el => case_head a bs && forallb (forallb w_node) bs && match el with Some e => forallb w_node e | None => true end
  | _ => false
  end.

Fixpoint print_ors (l : list (list node)) : list tok :=
  match l with [] => [] | b :: r => esc s_or :: print b ++ print_ors r end.
Lemma print_case_node a b0 bs el :
  print_node (NCase a (b0 :: bs) el) =
  esc s_ifcase :: pop a ++ esc s_relax :: print b0 ++ print_ors bs ++ else_part el ++ [esc s_fi].
Proof. destruct el; reflexivity. Qed.
Lemma case_head_inv a bs : case_head a bs = true -> exists b0 r, bs = b0 :: r /\ opd_ok a = true.
Proof. destruct bs as [|b0 r]; [discriminate|]. cbn. eauto. Qed.

Fixpoint print_args (l : list (list node)) : list tok :=
  match l with [] => [] | a :: r => bg :: print a ++ eg :: print_args r end.
Lemma print_def g nm np b :
  print_node (NDef g nm np None b) = esc (if g then s_gdef else s_def) :: esc (mname nm) :: param_text np ++ bg :: printb b ++ [eg].
Proof. reflexivity. Qed.
Lemma print_newcommand g nm np d b :
  print_node (NDef g nm np (Some d) b) =
  esc s_newcommand :: bg :: esc (mname nm) :: eg :: lbr :: map other (digits (N.of_nat (S np))) ++ rbr :: lbr :: print d ++ rbr ::
  bg :: printb b ++ [eg].
Proof. reflexivity. Qed.
Definition opt_toks (o : option (list node)) : list tok := match o with Some x => lbr :: print x ++ [rbr] | None => [] end.
Definition print_dargs (n : nat) : nat -> list (list node) -> list tok :=
  fix pd (i : nat) (l : list (list node)) {struct l} : list tok :=
  match l with
  | [] => []
  | a :: r => match dl n i with [] => bg :: print a ++ eg :: pd (S i) r | d => print a ++ d ++ pd (S i) r end
  end.
Lemma print_dargs_cons n i a r : print_dargs n i (a :: r) =
  match dl n i with [] => bg :: print a ++ eg :: print_dargs n (S i) r | d => print a ++ d ++ print_dargs n (S i) r end.
Proof. reflexivity. Qed.
Lemma print_dcall nm o a : print_node (NCall nm o a) = esc (mname nm) :: opt_toks o ++ print_dargs (length a) 1 a.
Proof. destruct o; reflexivity. Qed.
Lemma undelim_nil n j : undelim n = true -> (1 <= j <= n)%nat -> dl n j = [].
Proof.
  unfold undelim. intros H Hj. rewrite forallb_forall in H. specialize (H j). destruct (dl n j); [reflexivity|].
  assert (Hin : In j (seq 1 n)) by (apply in_seq; lia). specialize (H Hin). discriminate H.
Qed.
Lemma print_dargs_plain n : forall l i, (forall j, (i <= j < i + length l)%nat -> dl n j = []) -> print_dargs n i l = print_args l.
Proof.
  induction l as [|a l IH]; intros i H; [reflexivity|]. rewrite print_dargs_cons. cbn [print_args]. rewrite (H i) by (cbn [length]; lia).
  rewrite (IH (S i)); [reflexivity|]. intros j Hj. apply H. cbn [length]. lia.
Qed.
Lemma print_call nm o a : undelim (length a) = true -> print_node (NCall nm o a) = esc (mname nm) :: opt_toks o ++ print_args a.
Proof.
  intros Hu. rewrite print_dcall. rewrite (print_dargs_plain (length a) a 1); [reflexivity|]. intros j Hj. apply (undelim_nil _ _ Hu). lia.
Qed.
Lemma dl_ktok n i : Forall (fun t => classify t = KTok 0%Z) (dl n i).
Proof. eapply Forall_impl; [|apply dl_other]. intros t (c & -> & _). apply classify_other. Qed.
Lemma dl_flat n i : Forall flat (dl n i).
Proof. eapply Forall_impl; [|apply dl_other]. intros t (c & -> & _). split; reflexivity. Qed.
(* words only: optional arguments and defaults *)
Lemma words_print x : forallb is_word x = true -> exists ws, print x = flat_map wprint ws.
Proof.
  induction x as [|n x IH]; intros H; [exists []; reflexivity|]. cbn [forallb] in H. apply andb_true_iff in H as [H1 H2].
  destruct n; try discriminate H1. destruct (IH H2) as (ws & E). exists (w :: ws). cbn [print flat_map]. now rewrite E.
Qed.
Lemma words_fa x : forallb is_word x = true -> forallb fa_node x = true.
Proof.
  induction x as [|n x IH]; intros H; [reflexivity|]. cbn [forallb] in *. apply andb_true_iff in H as [H1 H2].
  rewrite (IH H2). destruct n; try discriminate H1. reflexivity.
Qed.
Lemma print_param k : print_node (NParam k) = [hash_tok; other (48 + N.of_nat k)].
Proof. reflexivity. Qed.
Lemma print_let nm tg : print_node (NLet nm tg) = [esc s_let; esc (mname nm); other 61; esc (mname tg)].
Proof. reflexivity. Qed.

Lemma walks_list l : Forall (fun x => forall k, walks (print_node x) k k) l -> forall k, walks (print l) k k.
Proof. induction 1 as [|x l Hx _ IH]; intros k; [apply walks_nil|]. cbn [print]. eapply walks_app; [apply Hx|apply IH]. Qed.
Lemma walks_param_text np0 i n k : walks (ptext0 np0 i n) k k.
Proof. apply walks_toks. apply ptext_Forall; [reflexivity|intros c; apply classify_other]. Qed.

Lemma ktok_cname_arg c : Forall (fun t => classify t = KTok 0%Z) (cname_arg c).
Proof. unfold cname_arg. constructor; [reflexivity|]. apply Forall_app. split; [apply Forall_map_tok; intros x; reflexivity|constructor; [reflexivity|constructor]]. Qed.
Lemma ktok_znum z : Forall (fun t => classify t = KTok 0%Z) (znum z).
Proof. unfold znum. apply Forall_app. split; [destruct (z <? 0)%Z; [constructor; [reflexivity|constructor]|constructor]|apply Forall_map_tok; intros x; reflexivity]. Qed.
Lemma depth_cname_arg c d : depth_after (cname_arg c) d = Some d.
Proof.
  unfold cname_arg. cbn [depth_after]. change (is_bgroup bg) with true. cbn iota.
  rewrite depth_after_app, (depth_flat (map letter _)) by (apply Forall_map_tok; intros x; split; reflexivity). reflexivity.
Qed.
Lemma depth_znum z d : depth_after (znum z) d = Some d.
Proof.
  apply depth_flat. unfold znum. apply Forall_app. split; [destruct (z <? 0)%Z; [constructor; [split; reflexivity|constructor]|constructor]|].
  apply Forall_map_tok. intros x. split; reflexivity.
Qed.
Lemma walks_counter_cmd (n : list N) c z k : classify (esc n) = KTok 0%Z -> walks (esc n :: cname_arg c ++ bg :: znum z ++ [eg]) k k.
Proof.
  intros Hn. apply walks_toks. constructor; [exact Hn|]. apply Forall_app. split; [apply ktok_cname_arg|].
  constructor; [reflexivity|]. apply Forall_app. split; [apply ktok_znum|constructor; [reflexivity|constructor]].
Qed.
Lemma depth_counter_cmd (n : list N) c z d : depth_after (esc n :: cname_arg c ++ bg :: znum z ++ [eg]) d = Some d.
Proof.
  cbn [depth_after]. change (is_bgroup (esc n)) with false. change (is_egroup (esc n)) with false. cbn iota.
  rewrite depth_after_app, depth_cname_arg. cbn [depth_after]. change (is_bgroup bg) with true. cbn iota.
  rewrite depth_after_app, depth_znum. reflexivity.
Qed.

Lemma walks_words x k : forallb is_word x = true -> walks (print x) k k.
Proof.
  intros H. destruct (words_print x H) as (ws & ->). clear H. induction ws as [|w ws IH]; [apply walks_nil|].
  cbn [flat_map]. eapply walks_app; [apply walks_wprint|exact IH].
Qed.
Lemma depth_words x d : forallb is_word x = true -> depth_after (print x) d = Some d.
Proof.
  intros H. destruct (words_print x H) as (ws & ->). clear H. revert d. induction ws as [|w ws IH]; intros d; [reflexivity|].
  cbn [flat_map]. now rewrite depth_after_app, (depth_flat _ (flat_wprint w)), IH.
Qed.
Lemma walks_opt o k : opt_ok o = true -> walks (opt_toks o) k k.
Proof.
  destruct o as [x|]; intros H; [|apply walks_nil]. cbn [opt_toks opt_ok] in *.
  change (lbr :: ?l) with ([lbr] ++ l). eapply walks_app; [apply walks_tok; reflexivity|].
  eapply walks_app; [now apply walks_words|apply walks_tok; reflexivity].
Qed.
Lemma depth_opt o d : opt_ok o = true -> depth_after (opt_toks o) d = Some d.
Proof.
  destruct o as [x|]; intros H; [|reflexivity]. cbn [opt_toks opt_ok depth_after] in *.
  change (is_bgroup lbr) with false. change (is_egroup lbr) with false. cbn iota.
  rewrite depth_after_app, (depth_words x d H). reflexivity.
Qed.

Lemma flat_param_text np0 i n : Forall flat (ptext0 np0 i n).
Proof. apply ptext_Forall; [split; reflexivity|intros c; split; reflexivity]. Qed.
Lemma walks_or k : walks [esc s_or] (S k) (S k).
Proof. intros tl cur done els. reflexivity. Qed.
(* ---- body mode (printb): the same shape lemmas as for top mode ---- *)
Definition else_partb (el : option (list node)) : list tok :=
  match el with Some e => esc s_else :: printb e | None => [] end.
Lemma walks_param_text2 i n k : walks (flat_map (fun i => [hash_tok; hash_tok; other (48 + N.of_nat i)]) (seq i n)) k k.
Proof.
  apply walks_toks. revert i. induction n as [|n IH]; intros i; cbn [seq flat_map app]; [constructor|].
  constructor; [reflexivity|]. constructor; [reflexivity|]. constructor; [reflexivity|apply IH].
Qed.
Lemma flat_param_text2 i n : Forall flat (flat_map (fun i => [hash_tok; hash_tok; other (48 + N.of_nat i)]) (seq i n)).
Proof.
  revert i. induction n as [|n IH]; intros i; cbn [seq flat_map app]; [constructor|].
  constructor; [split; reflexivity|]. constructor; [split; reflexivity|]. constructor; [split; reflexivity|apply IH].
Qed.
Lemma printb_app a b : printb (a ++ b) = printb a ++ printb b.
Proof. induction a as [|x a IH]; [reflexivity|]. cbn [app printb]. now rewrite IH, app_assoc. Qed.
Lemma printb_group b : printb_node (NGroup b) = bg :: printb b ++ [eg].
Proof. reflexivity. Qed.
Lemma printb_cond t th el :
  printb_node (NCond t th el) =
  print_test t ++ printb th ++ match el with Some e => esc s_else :: printb e | None => [] end ++ [esc s_fi].
Proof. destruct el; reflexivity. Qed.
Fixpoint printb_ors (l : list (list node)) : list tok :=
  match l with [] => [] | b :: r => esc s_or :: printb b ++ printb_ors r end.
Lemma printb_case_node a b0 bs el :
  printb_node (NCase a (b0 :: bs) el) =
  esc s_ifcase :: pop a ++ esc s_relax :: printb b0 ++ printb_ors bs ++ else_partb el ++ [esc s_fi].
Proof. destruct el; reflexivity. Qed.
Fixpoint printb_args (l : list (list node)) : list tok :=
  match l with [] => [] | a :: r => bg :: printb a ++ eg :: printb_args r end.
Lemma printb_def g nm np b :
  printb_node (NDef g nm np None b) = esc (if g then s_gdef else s_def) :: esc (mname nm) :: param_text2 np ++ bg :: printb b ++ [eg].
Proof. reflexivity. Qed.
Lemma printb_newcommand g nm np d b :
  printb_node (NDef g nm np (Some d) b) =
  esc s_newcommand :: bg :: esc (mname nm) :: eg :: lbr :: map other (digits (N.of_nat (S np))) ++ rbr :: lbr :: printb d ++ rbr ::
  bg :: printb b ++ [eg].
Proof. reflexivity. Qed.
Definition opt_toksb (o : option (list node)) : list tok := match o with Some x => lbr :: printb x ++ [rbr] | None => [] end.
Definition printb_dargs (n : nat) : nat -> list (list node) -> list tok :=
  fix pd (i : nat) (l : list (list node)) {struct l} : list tok :=
  match l with
  | [] => []
  | a :: r => match dl n i with [] => bg :: printb a ++ eg :: pd (S i) r | d => printb a ++ d ++ pd (S i) r end
  end.
Lemma printb_dargs_cons n i a r : printb_dargs n i (a :: r) =
  match dl n i with [] => bg :: printb a ++ eg :: printb_dargs n (S i) r | d => printb a ++ d ++ printb_dargs n (S i) r end.
Proof. reflexivity. Qed.
Lemma printb_dcall nm o a : printb_node (NCall nm o a) = esc (mname nm) :: opt_toksb o ++ printb_dargs (length a) 1 a.
Proof. destruct o; reflexivity. Qed.
Lemma printb_dargs_plain n : forall l i, (forall j, (i <= j < i + length l)%nat -> dl n j = []) -> printb_dargs n i l = printb_args l.
Proof.
  induction l as [|a l IH]; intros i H; [reflexivity|]. rewrite printb_dargs_cons. cbn [printb_args]. rewrite (H i) by (cbn [length]; lia).
  rewrite (IH (S i)); [reflexivity|]. intros j Hj. apply H. cbn [length]. lia.
Qed.
Lemma printb_call nm o a : undelim (length a) = true -> printb_node (NCall nm o a) = esc (mname nm) :: opt_toksb o ++ printb_args a.
Proof.
  intros Hu. rewrite printb_dcall. rewrite (printb_dargs_plain (length a) a 1); [reflexivity|]. intros j Hj. apply (undelim_nil _ _ Hu). lia.
Qed.
Lemma words_printb x : forallb is_word x = true -> exists ws, printb x = flat_map wprint ws.
Proof.
  induction x as [|n x IH]; intros H; [exists []; reflexivity|]. cbn [forallb] in H. apply andb_true_iff in H as [H1 H2].
  destruct n; try discriminate H1. destruct (IH H2) as (ws & E). exists (w :: ws). cbn [printb flat_map]. now rewrite E.
Qed.
Lemma printb_param k : printb_node (NParam k) = [hash_tok; other (48 + N.of_nat k)].
Proof. reflexivity. Qed.
Lemma printb_let nm tg : printb_node (NLet nm tg) = [esc s_let; esc (mname nm); other 61; esc (mname tg)].
Proof. reflexivity. Qed.
Lemma walks_listb l : Forall (fun x => forall k, walks (printb_node x) k k) l -> forall k, walks (printb l) k k.
Proof. induction 1 as [|x l Hx _ IH]; intros k; [apply walks_nil|]. cbn [printb]. eapply walks_app; [apply Hx|apply IH]. Qed.
Lemma walks_wordsb x k : forallb is_word x = true -> walks (printb x) k k.
Proof.
  intros H. destruct (words_printb x H) as (ws & ->). clear H. induction ws as [|w ws IH]; [apply walks_nil|].
  cbn [flat_map]. eapply walks_app; [apply walks_wprint|exact IH].
Qed.
Lemma depth_wordsb x d : forallb is_word x = true -> depth_after (printb x) d = Some d.
Proof.
  intros H. destruct (words_printb x H) as (ws & ->). clear H. revert d. induction ws as [|w ws IH]; intros d; [reflexivity|].
  cbn [flat_map]. now rewrite depth_after_app, (depth_flat _ (flat_wprint w)), IH.
Qed.
Lemma walks_optb o k : opt_ok o = true -> walks (opt_toksb o) k k.
Proof.
  destruct o as [x|]; intros H; [|apply walks_nil]. cbn [opt_toksb opt_ok] in *.
  change (lbr :: ?l) with ([lbr] ++ l). eapply walks_app; [apply walks_tok; reflexivity|].
  eapply walks_app; [now apply walks_wordsb|apply walks_tok; reflexivity].
Qed.
Lemma depth_optb o d : opt_ok o = true -> depth_after (opt_toksb o) d = Some d.
Proof.
  destruct o as [x|]; intros H; [|reflexivity]. cbn [opt_toksb opt_ok depth_after] in *.
  change (is_bgroup lbr) with false. change (is_egroup lbr) with false. cbn iota.
  rewrite depth_after_app, (depth_wordsb x d H). reflexivity.
Qed.
Lemma walks_orsb r k : Forall (Forall (fun x => forall k, walks (printb_node x) k k)) r -> walks (printb_ors r) (S k) (S k).
Proof.
  induction 1 as [|b r Hb _ IH]; [apply walks_nil|]. cbn [printb_ors]. change (esc s_or :: ?l) with ([esc s_or] ++ l).
  eapply walks_app; [apply walks_or|]. eapply walks_app; [now apply walks_listb|exact IH].
Qed.
Lemma walks_dargsb n : forall l i k, Forall (fun x => forall k, walks (printb x) k k) l -> walks (printb_dargs n i l) k k.
Proof.
  induction l as [|a l IH]; intros i k H; [apply walks_nil|]. inversion H as [|x y Ha Hl]; subst. rewrite printb_dargs_cons.
  pose proof (dl_ktok n i) as Hd. destruct (dl n i) as [|t d].
  - change (bg :: ?l) with ([bg] ++ l). eapply walks_app; [apply walks_tok; reflexivity|].
    eapply walks_app; [apply Ha|]. change (eg :: ?l) with ([eg] ++ l).
    eapply walks_app; [apply walks_tok; reflexivity|now apply IH].
  - eapply walks_app; [apply Ha|]. eapply walks_app; [now apply walks_toks|now apply IH].
Qed.
Lemma depth_dargsb n : forall l i d, Forall (fun x => forall d, depth_after (printb x) d = Some d) l -> depth_after (printb_dargs n i l) d = Some d.
Proof.
  induction l as [|a l IH]; intros i d H; [reflexivity|]. inversion H as [|x y Ha Hl]; subst. rewrite printb_dargs_cons.
  pose proof (dl_flat n i) as Hd. destruct (dl n i) as [|t d0].
  - cbn [depth_after]. change (is_bgroup bg) with true. cbn iota. rewrite depth_after_app, Ha. cbn [depth_after].
    change (is_bgroup eg) with false. change (is_egroup eg) with true. cbn iota. now apply IH.
  - rewrite depth_after_app, Ha, depth_after_app, (depth_flat _ Hd). now apply IH.
Qed.
Lemma walks_Wb : forall x, w_node x = true -> forall k, walks (printb_node x) k k.
Proof.
  apply (node_ind2 (fun x => w_node x = true -> forall k, walks (printb_node x) k k)).
  - intros n Hs H k. destruct n; try discriminate H; try discriminate Hs.
    + apply walks_wprint.
    + rewrite printb_let. apply walks_toks. repeat (constructor; [reflexivity|]). constructor.
    + rewrite printb_param. apply walks_toks. constructor; [reflexivity|]. constructor; [reflexivity|constructor].
    + apply walks_toks. repeat (constructor; [reflexivity|]). constructor.
    + apply walks_toks. repeat (constructor; [reflexivity|]). constructor.
    + apply walks_tok. destruct b; reflexivity.
    + (* \newif: the scanner takes the following token with it, whatever it is *)
      intros tl cur done els. reflexivity.
    + apply walks_toks. constructor; [reflexivity|apply ktok_cname_arg].
    + apply walks_counter_cmd. reflexivity.
    + apply walks_counter_cmd. reflexivity.
  - intros b IH H k. cbn [w_node] in H. rewrite printb_group. change (bg :: ?l) with ([bg] ++ l).
    eapply walks_app; [apply walks_tok; reflexivity|]. eapply walks_app; [|apply walks_tok; reflexivity].
    apply walks_listb. now apply (Forall_forallb w_node).
  - intros g nm np d b IH H k. cbn [w_node] in H. apply andb_true_iff in H as [Hd H]. destruct d as [dd|].
    { rewrite printb_newcommand. cbn [opt_ok] in Hd.
      change (esc s_newcommand :: bg :: esc (mname nm) :: eg :: lbr :: ?l) with ([esc s_newcommand; bg; esc (mname nm); eg; lbr] ++ l).
      eapply walks_app; [apply walks_toks; repeat (constructor; [reflexivity|]); constructor|].
      eapply walks_app; [apply walks_toks, Forall_map_tok; intros c; reflexivity|].
      change (rbr :: lbr :: ?l) with ([rbr; lbr] ++ l). eapply walks_app; [apply walks_toks; repeat (constructor; [reflexivity|]); constructor|].
      eapply walks_app; [now apply walks_wordsb|].
      change (rbr :: bg :: ?l) with ([rbr; bg] ++ l). eapply walks_app; [apply walks_toks; repeat (constructor; [reflexivity|]); constructor|].
      eapply walks_app; [|apply walks_tok; reflexivity].
      apply walks_listb. now apply (Forall_forallb w_node). }
    rewrite printb_def.
    change (?a :: ?b' :: ?l) with ([a; b'] ++ l). eapply walks_app.
    + apply walks_toks. constructor; [destruct g; reflexivity|]. constructor; [reflexivity|constructor].
    + eapply walks_app; [apply walks_param_text2|]. change (bg :: ?l) with ([bg] ++ l).
      eapply walks_app; [apply walks_tok; reflexivity|]. eapply walks_app; [|apply walks_tok; reflexivity].
      apply walks_listb. now apply (Forall_forallb w_node).
  - intros nm o a IH H k. cbn [w_node] in H. apply andb_true_iff in H as [Ho H]. rewrite printb_dcall.
    change (?x :: ?l) with ([x] ++ l). eapply walks_app; [apply walks_tok; reflexivity|].
    eapply walks_app; [now apply walks_optb|].
    pose proof (Forall2_forallb w_node _ a IH H) as Ha. clear IH H.
    apply walks_dargsb. eapply Forall_impl; [|exact Ha]. intros l Hl k0. now apply walks_listb.
  - intros t th el IHth IHel H k. cbn [w_node] in H. apply andb_true_iff in H as [H He]. apply andb_true_iff in H as [Ht Hth].
    rewrite printb_cond. eapply walks_app; [now apply walks_test2|].
    eapply walks_app; [apply walks_listb; now apply (Forall_forallb w_node)|].
    eapply walks_app; [|apply walks_fi].
    destruct el as [e|]; [|apply walks_nil].
    change (esc s_else :: ?l) with ([esc s_else] ++ l). eapply walks_app; [apply walks_else|].
    apply walks_listb. apply (Forall_forallb w_node); [now apply IHel|exact He].
  - intros a bs el IHbs IHel H k. cbn [w_node] in H. apply andb_true_iff in H as [H He]. apply andb_true_iff in H as [Hh Hbs].
    destruct (case_head_inv _ _ Hh) as (b0 & r & -> & Ha). rewrite printb_case_node.
    pose proof (Forall2_forallb w_node _ _ IHbs Hbs) as HB. inversion HB as [|x l Hb0 Hr]; subst.
    change (esc s_ifcase :: ?l) with ([esc s_ifcase] ++ l). eapply walks_app; [apply walks_if; reflexivity|].
    eapply walks_app; [apply walks_toks, ktok_pop|].
    change (esc s_relax :: ?l) with ([esc s_relax] ++ l). eapply walks_app; [apply walks_tok; reflexivity|].
    eapply walks_app; [now apply walks_listb|]. eapply walks_app; [now apply walks_orsb|].
    eapply walks_app; [|apply walks_fi].
    destruct el as [e|]; [|apply walks_nil]. cbn [else_partb].
    change (esc s_else :: ?l) with ([esc s_else] ++ l). eapply walks_app; [apply walks_else|].
    apply walks_listb. apply (Forall_forallb w_node); [now apply IHel|exact He].
Qed.
Lemma walks_Wlb l : forallb w_node l = true -> forall k, walks (printb l) k k.
Proof. intros H. apply walks_listb. apply (Forall_forallb w_node); [|exact H]. apply Forall_forall. intros x _. apply walks_Wb. Qed.
Lemma depth_listb l : Forall (fun x => forall d, depth_after (printb_node x) d = Some d) l -> forall d, depth_after (printb l) d = Some d.
Proof. induction 1 as [|x l Hx _ IH]; intros d; [reflexivity|]. cbn [printb]. now rewrite depth_after_app, Hx, IH. Qed.
Lemma depth_Wb : forall x, w_node x = true -> forall d, depth_after (printb_node x) d = Some d.
Proof.
  apply (node_ind2 (fun x => w_node x = true -> forall d, depth_after (printb_node x) d = Some d)).
  - intros n Hs H d. destruct n; try discriminate H; try discriminate Hs.
    + apply depth_flat, flat_wprint.
    + reflexivity.
    + reflexivity.
    + reflexivity.
    + reflexivity.
    + reflexivity.
    + reflexivity.
    + cbn [printb_node depth_after]. change (is_bgroup (esc s_stepcounter)) with false. change (is_egroup (esc s_stepcounter)) with false. cbn iota.
      apply depth_cname_arg.
    + apply depth_counter_cmd.
    + apply depth_counter_cmd.
  - intros b IH H d. cbn [w_node] in H. rewrite printb_group. cbn [depth_after]. change (is_bgroup bg) with true. cbn iota.
    rewrite depth_after_app, (depth_listb b (Forall_forallb w_node _ b IH H)). reflexivity.
  - intros g nm np dd b IH H d. cbn [w_node] in H. apply andb_true_iff in H as [Hd H]. destruct dd as [dd|].
    { rewrite printb_newcommand. cbn [opt_ok] in Hd. cbn [depth_after].
      change (is_bgroup (esc s_newcommand)) with false. change (is_egroup (esc s_newcommand)) with false.
      change (is_bgroup bg) with true. change (is_bgroup (esc (mname nm))) with false. change (is_egroup (esc (mname nm))) with false.
      change (is_bgroup eg) with false. change (is_egroup eg) with true. change (is_bgroup lbr) with false. change (is_egroup lbr) with false. cbn iota.
      rewrite depth_after_app, (depth_flat (map other _)) by (apply Forall_map_tok; intros c; split; reflexivity).
      cbn [depth_after]. change (is_bgroup rbr) with false. change (is_egroup rbr) with false.
      change (is_bgroup lbr) with false. change (is_egroup lbr) with false. cbn iota.
      rewrite depth_after_app, (depth_wordsb dd d Hd). cbn [depth_after].
      change (is_bgroup rbr) with false. change (is_egroup rbr) with false. change (is_bgroup bg) with true. cbn iota.
      rewrite depth_after_app, (depth_listb b (Forall_forallb w_node _ b IH H)). reflexivity. }
    rewrite printb_def.
    change (?a :: ?b' :: ?l) with ([a; b'] ++ l). rewrite depth_after_app.
    rewrite (depth_flat [esc (if g then s_gdef else s_def); esc (mname nm)]) by
      (constructor; [destruct g; split; reflexivity|]; constructor; [split; reflexivity|constructor]).
    rewrite depth_after_app. unfold param_text2. rewrite (depth_flat _ (flat_param_text2 1 np)).
    cbn [depth_after]. change (is_bgroup bg) with true. cbn iota.
    rewrite depth_after_app, (depth_listb b (Forall_forallb w_node _ b IH H)). reflexivity.
  - intros nm o a IH H d. cbn [w_node] in H. apply andb_true_iff in H as [Ho H]. rewrite printb_dcall.
    cbn [depth_after]. change (is_bgroup (esc (mname nm))) with false. change (is_egroup (esc (mname nm))) with false. cbn iota.
    rewrite depth_after_app, (depth_optb o d Ho).
    pose proof (Forall2_forallb w_node _ a IH H) as Ha. clear IH H.
    apply depth_dargsb. eapply Forall_impl; [|exact Ha]. intros l Hl d0. now apply depth_listb.
  - intros t th el IHth IHel H d. cbn [w_node] in H. apply andb_true_iff in H as [H He]. apply andb_true_iff in H as [Ht Hth].
    rewrite printb_cond.
    rewrite depth_after_app, (depth_test t), depth_after_app, (depth_listb th (Forall_forallb w_node _ th IHth Hth)), depth_after_app.
    destruct el as [e|]; [|reflexivity].
    cbn [depth_after]. change (is_bgroup (esc s_else)) with false. change (is_egroup (esc s_else)) with false. cbn iota.
    rewrite (depth_listb e (Forall_forallb w_node _ e (IHel e eq_refl) He)). reflexivity.
  - intros a bs el IHbs IHel H d. cbn [w_node] in H. apply andb_true_iff in H as [H He]. apply andb_true_iff in H as [Hh Hbs].
    destruct (case_head_inv _ _ Hh) as (b0 & r & -> & Ha). rewrite printb_case_node.
    pose proof (Forall2_forallb w_node _ _ IHbs Hbs) as HB. inversion HB as [|x l Hb0 Hr]; subst.
    cbn [depth_after]. change (is_bgroup (esc s_ifcase)) with false. change (is_egroup (esc s_ifcase)) with false. cbn iota.
    rewrite depth_after_app, depth_pop.
    cbn [depth_after]. change (is_bgroup (esc s_relax)) with false. change (is_egroup (esc s_relax)) with false. cbn iota.
    rewrite depth_after_app, (depth_listb b0 Hb0), depth_after_app.
    assert (Hors : forall d, depth_after (printb_ors r) d = Some d).
    { clear -Hr. induction Hr as [|b r Hb _ IH]; intros d; [reflexivity|]. cbn [printb_ors depth_after].
      change (is_bgroup (esc s_or)) with false. change (is_egroup (esc s_or)) with false. cbn iota.
      now rewrite depth_after_app, (depth_listb b Hb), IH. }
    rewrite Hors, depth_after_app.
    destruct el as [e|]; [|reflexivity]. cbn [else_partb depth_after].
    change (is_bgroup (esc s_else)) with false. change (is_egroup (esc s_else)) with false. cbn iota.
    rewrite (depth_listb e (Forall_forallb w_node _ e (IHel e eq_refl) He)). reflexivity.
Qed.
Lemma depth_Wlb l : forallb w_node l = true -> forall d, depth_after (printb l) d = Some d.
Proof. intros H. apply depth_listb. apply (Forall_forallb w_node); [|exact H]. apply Forall_forall. intros x _. apply depth_Wb. Qed.

Lemma walks_ors r k : Forall (Forall (fun x => forall k, walks (print_node x) k k)) r -> walks (print_ors r) (S k) (S k).
Proof.
  induction 1 as [|b r Hb _ IH]; [apply walks_nil|]. cbn [print_ors]. change (esc s_or :: ?l) with ([esc s_or] ++ l).
  eapply walks_app; [apply walks_or|]. eapply walks_app; [now apply walks_list|exact IH].
Qed.

Lemma walks_dargs n : forall l i k, Forall (fun x => forall k, walks (print x) k k) l -> walks (print_dargs n i l) k k.
Proof.
  induction l as [|a l IH]; intros i k H; [apply walks_nil|]. inversion H as [|x y Ha Hl]; subst. rewrite print_dargs_cons.
  pose proof (dl_ktok n i) as Hd. destruct (dl n i) as [|t d].
  - change (bg :: ?l) with ([bg] ++ l). eapply walks_app; [apply walks_tok; reflexivity|].
    eapply walks_app; [apply Ha|]. change (eg :: ?l) with ([eg] ++ l).
    eapply walks_app; [apply walks_tok; reflexivity|now apply IH].
  - eapply walks_app; [apply Ha|]. eapply walks_app; [now apply walks_toks|now apply IH].
Qed.
Lemma depth_dargs n : forall l i d, Forall (fun x => forall d, depth_after (print x) d = Some d) l -> depth_after (print_dargs n i l) d = Some d.
Proof.
  induction l as [|a l IH]; intros i d H; [reflexivity|]. inversion H as [|x y Ha Hl]; subst. rewrite print_dargs_cons.
  pose proof (dl_flat n i) as Hd. destruct (dl n i) as [|t d0].
  - cbn [depth_after]. change (is_bgroup bg) with true. cbn iota. rewrite depth_after_app, Ha. cbn [depth_after].
    change (is_bgroup eg) with false. change (is_egroup eg) with true. cbn iota. now apply IH.
  - rewrite depth_after_app, Ha, depth_after_app, (depth_flat _ Hd). now apply IH.
Qed.
Lemma walks_W : forall x, w_node x = true -> forall k, walks (print_node x) k k.
Proof.
  apply (node_ind2 (fun x => w_node x = true -> forall k, walks (print_node x) k k)).
  - intros n Hs H k. destruct n; try discriminate H; try discriminate Hs.
    + apply walks_wprint.
    + rewrite print_let. apply walks_toks. repeat (constructor; [reflexivity|]). constructor.
    + rewrite print_param. apply walks_toks. constructor; [reflexivity|]. constructor; [reflexivity|constructor].
    + apply walks_nil.
    + apply walks_toks. repeat (constructor; [reflexivity|]). constructor.
    + apply walks_tok. destruct b; reflexivity.
    + (* \newif: the scanner takes the following token with it, whatever it is *)
      intros tl cur done els. reflexivity.
    + apply walks_toks. constructor; [reflexivity|apply ktok_cname_arg].
    + apply walks_counter_cmd. reflexivity.
    + apply walks_counter_cmd. reflexivity.
  - intros b IH H k. cbn [w_node] in H. rewrite print_group. change (bg :: ?l) with ([bg] ++ l).
    eapply walks_app; [apply walks_tok; reflexivity|]. eapply walks_app; [|apply walks_tok; reflexivity].
    apply walks_list. now apply (Forall_forallb w_node).
  - intros g nm np d b IH H k. cbn [w_node] in H. apply andb_true_iff in H as [Hd H]. destruct d as [dd|].
    { rewrite print_newcommand. cbn [opt_ok] in Hd.
      change (esc s_newcommand :: bg :: esc (mname nm) :: eg :: lbr :: ?l) with ([esc s_newcommand; bg; esc (mname nm); eg; lbr] ++ l).
      eapply walks_app; [apply walks_toks; repeat (constructor; [reflexivity|]); constructor|].
      eapply walks_app; [apply walks_toks, Forall_map_tok; intros c; reflexivity|].
      change (rbr :: lbr :: ?l) with ([rbr; lbr] ++ l). eapply walks_app; [apply walks_toks; repeat (constructor; [reflexivity|]); constructor|].
      eapply walks_app; [now apply walks_words|].
      change (rbr :: bg :: ?l) with ([rbr; bg] ++ l). eapply walks_app; [apply walks_toks; repeat (constructor; [reflexivity|]); constructor|].
      eapply walks_app; [|apply walks_tok; reflexivity].
      apply walks_Wlb. exact H. }
    rewrite print_def.
    change (?a :: ?b' :: ?l) with ([a; b'] ++ l). eapply walks_app.
    + apply walks_toks. constructor; [destruct g; reflexivity|]. constructor; [reflexivity|constructor].
    + eapply walks_app; [apply (walks_param_text np 1 np)|]. change (bg :: ?l) with ([bg] ++ l).
      eapply walks_app; [apply walks_tok; reflexivity|]. eapply walks_app; [|apply walks_tok; reflexivity].
      apply walks_Wlb. exact H.
  - intros nm o a IH H k. cbn [w_node] in H. apply andb_true_iff in H as [Ho H]. rewrite print_dcall.
    change (?x :: ?l) with ([x] ++ l). eapply walks_app; [apply walks_tok; reflexivity|].
    eapply walks_app; [now apply walks_opt|].
    pose proof (Forall2_forallb w_node _ a IH H) as Ha. clear IH H.
    apply walks_dargs. eapply Forall_impl; [|exact Ha]. intros l Hl k0. now apply walks_list.
  - intros t th el IHth IHel H k. cbn [w_node] in H. apply andb_true_iff in H as [H He]. apply andb_true_iff in H as [Ht Hth].
    rewrite print_cond. eapply walks_app; [now apply walks_test2|].
    eapply walks_app; [apply walks_list; now apply (Forall_forallb w_node)|].
    eapply walks_app; [|apply walks_fi].
    destruct el as [e|]; [|apply walks_nil].
    change (esc s_else :: ?l) with ([esc s_else] ++ l). eapply walks_app; [apply walks_else|].
    apply walks_list. apply (Forall_forallb w_node); [now apply IHel|exact He].
  - intros a bs el IHbs IHel H k. cbn [w_node] in H. apply andb_true_iff in H as [H He]. apply andb_true_iff in H as [Hh Hbs].
    destruct (case_head_inv _ _ Hh) as (b0 & r & -> & Ha). rewrite print_case_node.
    pose proof (Forall2_forallb w_node _ _ IHbs Hbs) as HB. inversion HB as [|x l Hb0 Hr]; subst.
    change (esc s_ifcase :: ?l) with ([esc s_ifcase] ++ l). eapply walks_app; [apply walks_if; reflexivity|].
    eapply walks_app; [apply walks_toks, ktok_pop|].
    change (esc s_relax :: ?l) with ([esc s_relax] ++ l). eapply walks_app; [apply walks_tok; reflexivity|].
    eapply walks_app; [now apply walks_list|]. eapply walks_app; [now apply walks_ors|].
    eapply walks_app; [|apply walks_fi].
    destruct el as [e|]; [|apply walks_nil]. cbn [else_part].
    change (esc s_else :: ?l) with ([esc s_else] ++ l). eapply walks_app; [apply walks_else|].
    apply walks_list. apply (Forall_forallb w_node); [now apply IHel|exact He].
Qed.

Lemma walks_Wl l : forallb w_node l = true -> forall k, walks (print l) k k.
Proof. intros H. apply walks_list. apply (Forall_forallb w_node); [|exact H]. apply Forall_forall. intros x _. apply walks_W. Qed.

Lemma depth_list l : Forall (fun x => forall d, depth_after (print_node x) d = Some d) l -> forall d, depth_after (print l) d = Some d.
Proof. induction 1 as [|x l Hx _ IH]; intros d; [reflexivity|]. cbn [print]. now rewrite depth_after_app, Hx, IH. Qed.

Lemma depth_W : forall x, w_node x = true -> forall d, depth_after (print_node x) d = Some d.
Proof.
  apply (node_ind2 (fun x => w_node x = true -> forall d, depth_after (print_node x) d = Some d)).
  - intros n Hs H d. destruct n; try discriminate H; try discriminate Hs.
    + apply depth_flat, flat_wprint.
    + reflexivity.
    + reflexivity.
    + reflexivity.
    + reflexivity.
    + reflexivity.
    + reflexivity.
    + cbn [print_node depth_after]. change (is_bgroup (esc s_stepcounter)) with false. change (is_egroup (esc s_stepcounter)) with false. cbn iota.
      apply depth_cname_arg.
    + apply depth_counter_cmd.
    + apply depth_counter_cmd.
  - intros b IH H d. cbn [w_node] in H. rewrite print_group. cbn [depth_after]. change (is_bgroup bg) with true. cbn iota.
    rewrite depth_after_app, (depth_list b (Forall_forallb w_node _ b IH H)). reflexivity.
  - intros g nm np dd b IH H d. cbn [w_node] in H. apply andb_true_iff in H as [Hd H]. destruct dd as [dd|].
    { rewrite print_newcommand. cbn [opt_ok] in Hd. cbn [depth_after].
      change (is_bgroup (esc s_newcommand)) with false. change (is_egroup (esc s_newcommand)) with false.
      change (is_bgroup bg) with true. change (is_bgroup (esc (mname nm))) with false. change (is_egroup (esc (mname nm))) with false.
      change (is_bgroup eg) with false. change (is_egroup eg) with true. change (is_bgroup lbr) with false. change (is_egroup lbr) with false. cbn iota.
      rewrite depth_after_app, (depth_flat (map other _)) by (apply Forall_map_tok; intros c; split; reflexivity).
      cbn [depth_after]. change (is_bgroup rbr) with false. change (is_egroup rbr) with false.
      change (is_bgroup lbr) with false. change (is_egroup lbr) with false. cbn iota.
      rewrite depth_after_app, (depth_words dd d Hd). cbn [depth_after].
      change (is_bgroup rbr) with false. change (is_egroup rbr) with false. change (is_bgroup bg) with true. cbn iota.
      rewrite depth_after_app, (depth_Wlb b H). reflexivity. }
    rewrite print_def.
    change (?a :: ?b' :: ?l) with ([a; b'] ++ l). rewrite depth_after_app.
    rewrite (depth_flat [esc (if g then s_gdef else s_def); esc (mname nm)]) by
      (constructor; [destruct g; split; reflexivity|]; constructor; [split; reflexivity|constructor]).
    rewrite depth_after_app. change (param_text np) with (ptext0 np 1 np). rewrite (depth_flat _ (flat_param_text np 1 np)).
    cbn [depth_after]. change (is_bgroup bg) with true. cbn iota.
    rewrite depth_after_app, (depth_Wlb b H). reflexivity.
  - intros nm o a IH H d. cbn [w_node] in H. apply andb_true_iff in H as [Ho H]. rewrite print_dcall.
    cbn [depth_after]. change (is_bgroup (esc (mname nm))) with false. change (is_egroup (esc (mname nm))) with false. cbn iota.
    rewrite depth_after_app, (depth_opt o d Ho).
    pose proof (Forall2_forallb w_node _ a IH H) as Ha. clear IH H.
    apply depth_dargs. eapply Forall_impl; [|exact Ha]. intros l Hl d0. now apply depth_list.
  - intros t th el IHth IHel H d. cbn [w_node] in H. apply andb_true_iff in H as [H He]. apply andb_true_iff in H as [Ht Hth].
    rewrite print_cond.
    rewrite depth_after_app, (depth_test t), depth_after_app, (depth_list th (Forall_forallb w_node _ th IHth Hth)), depth_after_app.
    destruct el as [e|]; [|reflexivity].
    cbn [depth_after]. change (is_bgroup (esc s_else)) with false. change (is_egroup (esc s_else)) with false. cbn iota.
    rewrite (depth_list e (Forall_forallb w_node _ e (IHel e eq_refl) He)). reflexivity.
  - intros a bs el IHbs IHel H d. cbn [w_node] in H. apply andb_true_iff in H as [H He]. apply andb_true_iff in H as [Hh Hbs].
    destruct (case_head_inv _ _ Hh) as (b0 & r & -> & Ha). rewrite print_case_node.
    pose proof (Forall2_forallb w_node _ _ IHbs Hbs) as HB. inversion HB as [|x l Hb0 Hr]; subst.
    cbn [depth_after]. change (is_bgroup (esc s_ifcase)) with false. change (is_egroup (esc s_ifcase)) with false. cbn iota.
    rewrite depth_after_app, depth_pop.
    cbn [depth_after]. change (is_bgroup (esc s_relax)) with false. change (is_egroup (esc s_relax)) with false. cbn iota.
    rewrite depth_after_app, (depth_list b0 Hb0), depth_after_app.
    assert (Hors : forall d, depth_after (print_ors r) d = Some d).
    { clear -Hr. induction Hr as [|b r Hb _ IH]; intros d; [reflexivity|]. cbn [print_ors depth_after].
      change (is_bgroup (esc s_or)) with false. change (is_egroup (esc s_or)) with false. cbn iota.
      now rewrite depth_after_app, (depth_list b Hb), IH. }
    rewrite Hors, depth_after_app.
    destruct el as [e|]; [|reflexivity]. cbn [else_part depth_after].
    change (is_bgroup (esc s_else)) with false. change (is_egroup (esc s_else)) with false. cbn iota.
    rewrite (depth_list e (Forall_forallb w_node _ e (IHel e eq_refl) He)). reflexivity.
Qed.
Lemma depth_Wl l : forallb w_node l = true -> forall d, depth_after (print l) d = Some d.
Proof. intros H. apply depth_list. apply (Forall_forallb w_node); [|exact H]. apply Forall_forall. intros x _. apply depth_W. Qed.

Lemma forallb_imp {A} (f g : A -> bool) l :
  Forall (fun x => f x = true -> g x = true) l -> forallb f l = true -> forallb g l = true.
Proof.
  induction 1 as [|x l Hx _ IH]; intros H; [reflexivity|]. cbn in *. apply andb_true_iff in H as [H1 H2].
  apply andb_true_iff. split; [now apply Hx|now apply IH].
Qed.
Lemma forallb2_imp {A} (f g : A -> bool) ll :
  Forall (Forall (fun x => f x = true -> g x = true)) ll -> forallb (forallb f) ll = true -> forallb (forallb g) ll = true.
Proof.
  induction 1 as [|l ll Hl _ IH]; intros H; [reflexivity|]. cbn in *. apply andb_true_iff in H as [H1 H2].
  apply andb_true_iff. split; [now apply (forallb_imp f g)|now apply IH].
Qed.

Lemma Forall2_inst {A} (P : nat -> A -> Prop) ll d :
  Forall (Forall (fun x => forall d, P d x)) ll -> Forall (Forall (fun x => P d x)) ll.
Proof. intros H. eapply Forall_impl; [|exact H]. intros l Hl. eapply Forall_impl; [|exact Hl]. intros x Hx. apply Hx. Qed.

Lemma fa_W : forall x, fa_node x = true -> w_node x = true.
Proof.
  apply (node_ind2 (fun x => fa_node x = true -> w_node x = true)).
  - intros n Hs H. destruct n; try discriminate H; try discriminate Hs; reflexivity.
  - intros b IH H. cbn [fa_node w_node] in *. now apply (forallb_imp fa_node).
  - intros g nm np d b IH H. cbn [fa_node w_node] in *. apply andb_true_iff in H as [H Hb]. apply andb_true_iff in H as [_ Hd].
    destruct d; [discriminate Hd|]. cbn [opt_ok andb]. now apply (forallb_imp fa_node).
  - intros nm o a IH H. cbn [fa_node w_node] in *. apply andb_true_iff in H as [Ho Ha]. apply andb_true_iff in Ho as [_ Ho]. rewrite Ho. now apply (forallb2_imp fa_node).
  - intros t th el IHth IHel H. cbn [fa_node w_node] in *. apply andb_true_iff in H as [H He]. apply andb_true_iff in H as [Ht Hth].
    rewrite Ht, (forallb_imp fa_node w_node th IHth Hth). destruct el as [e|]; [|reflexivity].
    now apply (forallb_imp fa_node w_node e (IHel e eq_refl)).
  - intros a bs el IHbs IHel H. cbn [fa_node w_node] in *. apply andb_true_iff in H as [H He]. apply andb_true_iff in H as [Hh Hbs].
    rewrite Hh, (forallb2_imp fa_node w_node bs IHbs Hbs). destruct el as [e|]; [|reflexivity].
    now apply (forallb_imp fa_node w_node e (IHel e eq_refl)).
Qed.

Lemma fb_W n : forall x d, fb_node n x d = true -> w_node x = true.
Proof.
  apply (node_ind2 (fun x => forall d, fb_node n x d = true -> w_node x = true)).
  - intros x Hs d H. destruct x; try discriminate H; try discriminate Hs; reflexivity.
  - intros b IH d H. cbn [fb_node] in H. apply orb_true_iff in H as [Hfa|H]; [exact (fa_W _ Hfa)|].
    cbn [w_node]. destruct d as [|d]; [discriminate H|].
    apply (forallb_imp (fun y => fb_node n y d)); [|exact H]. eapply Forall_impl; [|exact IH]. intros y Hy. apply Hy.
  - intros g nm np dd b IH d H. cbn [fb_node] in H. apply orb_true_iff in H as [Hfa|H]; [exact (fa_W _ Hfa)|].
    cbn [w_node]. apply andb_true_iff in H as [H0 H]. apply andb_true_iff in H0 as [_ Hd].
    destruct dd; [discriminate Hd|]. cbn [opt_ok andb].
    destruct d as [|d]; [discriminate H|].
    apply (forallb_imp (fun y => fb_node n y d)); [|exact H]. eapply Forall_impl; [|exact IH]. intros y Hy. apply Hy.
  - intros nm o a IH d H. cbn [fb_node] in H. apply orb_true_iff in H as [Hfa|H]; [exact (fa_W _ Hfa)|].
    cbn [w_node]. apply andb_true_iff in H as [H0 H]. apply andb_true_iff in H0 as [_ H0]. rewrite H0. cbn [andb].
    clear H0. induction IH as [|arg a Harg _ IHa]; [reflexivity|]. cbn [forallb] in *. apply andb_true_iff in H as [H1 H2].
    apply andb_true_iff. split; [|now apply IHa]. destruct d as [|d]; [discriminate H1|].
    apply (forallb_imp (fun y => fb_node n y d)); [|exact H1]. eapply Forall_impl; [|exact Harg]. intros y Hy. apply Hy.
  - intros t th el IHth IHel d H. cbn [fb_node] in H. apply orb_true_iff in H as [Hfa|H]; [exact (fa_W _ Hfa)|].
    cbn [w_node]. apply andb_true_iff in H as [Ht H]. rewrite Ht. destruct d as [|d]; [discriminate H|].
    apply andb_true_iff in H as [Hth He]. cbn [andb]. apply andb_true_iff. split.
    + apply (forallb_imp (fun y => fb_node n y d)); [|exact Hth]. eapply Forall_impl; [|exact IHth]. intros y Hy. apply Hy.
    + destruct el as [e|]; [|reflexivity]. apply (forallb_imp (fun y => fb_node n y d)); [|exact He].
      eapply Forall_impl; [|exact (IHel e eq_refl)]. intros y Hy. apply Hy.
  - intros a bs el IHbs IHel d H. cbn [fb_node] in H. apply orb_true_iff in H as [Hfa|H]; [exact (fa_W _ Hfa)|].
    cbn [w_node]. apply andb_true_iff in H as [Hh H]. rewrite Hh. destruct d as [|d]; [discriminate H|].
    apply andb_true_iff in H as [Hbs He]. cbn [andb]. apply andb_true_iff. split.
    + apply (forallb2_imp (fun y => fb_node n y d)); [|exact Hbs].
      apply (Forall2_inst (fun d x => fb_node n x d = true -> w_node x = true)). exact IHbs.
    + destruct el as [e|]; [|reflexivity]. apply (forallb_imp (fun y => fb_node n y d)); [|exact He].
      eapply Forall_impl; [|exact (IHel e eq_refl)]. intros y Hy. apply Hy.
Qed.
Lemma fb_Wl n d l : forallb (fun y => fb_node n y d) l = true -> forallb w_node l = true.
Proof. apply forallb_imp. apply Forall_forall. intros x _. apply fb_W. Qed.
Lemma fa_Wl l : forallb fa_node l = true -> forallb w_node l = true.
Proof. apply forallb_imp. apply Forall_forall. intros x _. apply fa_W. Qed.


Lemma fi_W n m : forall x d, fi_node n m x d = true -> w_node x = true.
Proof.
  apply (node_ind2 (fun x => forall d, fi_node n m x d = true -> w_node x = true)).
  - intros x Hs d H. destruct x; try discriminate H; try discriminate Hs; reflexivity.
  - intros b IH d H. cbn [fi_node w_node] in *. destruct d as [|d]; [discriminate H|].
    apply (forallb_imp (fun y => fi_node n m y d)); [|exact H]. eapply Forall_impl; [|exact IH]. intros y Hy. apply Hy.
  - intros g nm np dd b IH d H. discriminate H.
  - intros nm o a IH d H. cbn [fi_node w_node] in *. apply andb_true_iff in H as [H0 H]. apply andb_true_iff in H0 as [_ H0]. rewrite H0. cbn [andb].
    clear H0. induction IH as [|arg a Harg _ IHa]; [reflexivity|]. cbn [forallb] in *. apply andb_true_iff in H as [H1 H2].
    apply andb_true_iff. split; [|now apply IHa]. destruct d as [|d]; [discriminate H1|].
    apply (forallb_imp (fun y => fi_node n m y d)); [|exact H1]. eapply Forall_impl; [|exact Harg]. intros y Hy. apply Hy.
  - intros t th el IHth IHel d H. cbn [fi_node w_node] in *. apply andb_true_iff in H as [Ht H]. rewrite Ht. destruct d as [|d]; [discriminate H|].
    apply andb_true_iff in H as [Hth He]. cbn [andb]. apply andb_true_iff. split.
    + apply (forallb_imp (fun y => fi_node n m y d)); [|exact Hth]. eapply Forall_impl; [|exact IHth]. intros y Hy. apply Hy.
    + destruct el as [e|]; [|reflexivity]. apply (forallb_imp (fun y => fi_node n m y d)); [|exact He].
      eapply Forall_impl; [|exact (IHel e eq_refl)]. intros y Hy. apply Hy.
  - intros a bs el IHbs IHel d H. cbn [fi_node w_node] in *. apply andb_true_iff in H as [Hh H]. rewrite Hh. destruct d as [|d]; [discriminate H|].
    apply andb_true_iff in H as [Hbs He]. cbn [andb]. apply andb_true_iff. split.
    + apply (forallb2_imp (fun y => fi_node n m y d)); [|exact Hbs].
      apply (Forall2_inst (fun d x => fi_node n m x d = true -> w_node x = true)). exact IHbs.
    + destruct el as [e|]; [|reflexivity]. apply (forallb_imp (fun y => fi_node n m y d)); [|exact He].
      eapply Forall_impl; [|exact (IHel e eq_refl)]. intros y Hy. apply Hy.
Qed.
Lemma fi_Wl n m d l : forallb (fun y => fi_node n m y d) l = true -> forallb w_node l = true.
Proof. apply forallb_imp. apply Forall_forall. intros x _. apply fi_W. Qed.

Lemma fb3_unfold n x d : fb3_node n x d =
  fb_node n x d ||
  match x with
  | NGroup b => match d with O => false | S d' => forallb (fun y => fb3_node n y d') b end
  | NDef g _ np dflt b =>
      Nat.leb 1 n &&
      match d with
      | O => false
      | S d' =>
          match dflt with
          | None => undelim np && Nat.leb 1 np && Nat.leb np 9 && forallb (fun y => fi_node n np y d') b
          | Some dd => undelim np && g && Nat.leb (S np) 9 && forallb is_word dd && forallb (fun y => fi_node n (S np) y d') b
          end
      end
  | NCond t th el =>
      f2_test t &&
      match d with
      | O => false
      | S d' => forallb (fun y => fb3_node n y d') th && match el with Some e => forallb (fun y => fb3_node n y d') e | None => true end
      end
  | NCase a bs el =>
      case_head a bs &&
      match d with
      | O => false
      | S d' => forallb (forallb (fun y => fb3_node n y d')) bs && match el with Some e => forallb (fun y => fb3_node n y d') e | None => true end
      end
  | _ => false
  end.
Proof. destruct x; reflexivity. Qed.

Lemma fb3_W n : forall x d, fb3_node n x d = true -> w_node x = true.
Proof.
  apply (node_ind2 (fun x => forall d, fb3_node n x d = true -> w_node x = true)).
  - intros x Hs d H. rewrite fb3_unfold in H. apply orb_true_iff in H as [H|H]; [exact (fb_W n _ _ H)|].
    destruct x; try discriminate H; discriminate Hs.
  - intros b IH d H. rewrite fb3_unfold in H. apply orb_true_iff in H as [H|H]; [exact (fb_W n _ _ H)|].
    cbn [w_node]. destruct d as [|d]; [discriminate H|].
    apply (forallb_imp (fun y => fb3_node n y d)); [|exact H]. eapply Forall_impl; [|exact IH]. intros y Hy. apply Hy.
  - intros g nm np dd b _ d H. rewrite fb3_unfold in H. apply orb_true_iff in H as [H|H]; [exact (fb_W n _ _ H)|].
    cbn [w_node]. apply andb_true_iff in H as [_ H]. destruct d as [|d]; [discriminate H|]. destruct dd as [dd|].
    + apply andb_true_iff in H as [H Hb]. apply andb_true_iff in H as [_ Hd]. cbn [opt_ok]. rewrite Hd. now apply (fi_Wl n (S np) d).
    + apply andb_true_iff in H as [_ Hb]. cbn [opt_ok andb]. now apply (fi_Wl n np d).
  - intros nm o a _ d H. rewrite fb3_unfold in H. apply orb_true_iff in H as [H|H]; [exact (fb_W n _ _ H)|discriminate H].
  - intros t th el IHth IHel d H. rewrite fb3_unfold in H. apply orb_true_iff in H as [H|H]; [exact (fb_W n _ _ H)|].
    cbn [w_node]. apply andb_true_iff in H as [Ht H]. rewrite Ht. destruct d as [|d]; [discriminate H|].
    apply andb_true_iff in H as [Hth He]. cbn [andb]. apply andb_true_iff. split.
    + apply (forallb_imp (fun y => fb3_node n y d)); [|exact Hth]. eapply Forall_impl; [|exact IHth]. intros y Hy. apply Hy.
    + destruct el as [e|]; [|reflexivity]. apply (forallb_imp (fun y => fb3_node n y d)); [|exact He].
      eapply Forall_impl; [|exact (IHel e eq_refl)]. intros y Hy. apply Hy.
  - intros a bs el IHbs IHel d H. rewrite fb3_unfold in H. apply orb_true_iff in H as [H|H]; [exact (fb_W n _ _ H)|].
    cbn [w_node]. apply andb_true_iff in H as [Hh H]. rewrite Hh. destruct d as [|d]; [discriminate H|].
    apply andb_true_iff in H as [Hbs He]. cbn [andb]. apply andb_true_iff. split.
    + apply (forallb2_imp (fun y => fb3_node n y d)); [|exact Hbs].
      apply (Forall2_inst (fun d x => fb3_node n x d = true -> w_node x = true)). exact IHbs.
    + destruct el as [e|]; [|reflexivity]. apply (forallb_imp (fun y => fb3_node n y d)); [|exact He].
      eapply Forall_impl; [|exact (IHel e eq_refl)]. intros y Hy. apply Hy.
Qed.
Lemma fb3_Wl n d l : forallb (fun y => fb3_node n y d) l = true -> forallb w_node l = true.
Proof. apply forallb_imp. apply Forall_forall. intros x _. apply fb3_W. Qed.

Lemma fv_W x : fv_node x = true -> w_node x = true.
Proof.
  destruct x; try discriminate; [reflexivity|]. destruct default; [discriminate|]. cbn [fv_node w_node opt_ok andb].
  intros H. apply andb_true_iff in H as [_ H]. now apply (fi_Wl O nparams BODY_DEPTH).
Qed.
Lemma fv_Wl l : forallb fv_node l = true -> forallb w_node l = true.
Proof. apply forallb_imp. apply Forall_forall. intros x _. apply fv_W. Qed.

Lemma f2_W : forall x, f2_node x = true -> w_node x = true.
Proof.
  apply (node_ind2 (fun x => f2_node x = true -> w_node x = true)).
  - intros n Hs H. destruct n; try discriminate H; try discriminate Hs; reflexivity.
  - intros b IH H. cbn [f2_node w_node] in *. now apply (forallb_imp f2_node).
  - intros g nm np d b _ H. cbn [f2_node w_node] in *. destruct d as [dd|].
    + apply andb_true_iff in H as [H Hb]. apply andb_true_iff in H as [_ Hd]. cbn [opt_ok]. rewrite Hd. now apply (fb3_Wl (S np) BODY_DEPTH).
    + apply andb_true_iff in H as [_ Hb]. cbn [opt_ok andb].
      apply orb_true_iff in Hb as [Hb|Hb]; apply andb_true_iff in Hb as [_ Hb]; [now apply (fb3_Wl np BODY_DEPTH)|].
      apply orb_true_iff in Hb as [Hb|Hb]; [now apply fa_Wl|now apply fv_Wl].
  - intros nm o a _ H. cbn [f2_node w_node] in *. apply andb_true_iff in H as [H _]. apply andb_true_iff in H as [Ho Ha]. rewrite Ho.
    apply (forallb2_imp fa_node); [|exact Ha]. apply Forall_forall. intros l _. apply Forall_forall. intros x _. apply fa_W.
  - intros t th el IHth IHel H. cbn [f2_node w_node] in *. apply andb_true_iff in H as [H He]. apply andb_true_iff in H as [Ht Hth].
    rewrite Ht, (forallb_imp f2_node w_node th IHth Hth). destruct el as [e|]; [|reflexivity].
    now apply (forallb_imp f2_node w_node e (IHel e eq_refl)).
  - intros a bs el IHbs IHel H. cbn [f2_node w_node] in *. apply andb_true_iff in H as [H He]. apply andb_true_iff in H as [Hh Hbs].
    rewrite Hh, (forallb2_imp f2_node w_node bs IHbs Hbs). destruct el as [e|]; [|reflexivity].
    now apply (forallb_imp f2_node w_node e (IHel e eq_refl)).
Qed.
Lemma f2_Wl l : forallb f2_node l = true -> forallb w_node l = true.
Proof. apply forallb_imp. apply Forall_forall. intros x _. apply f2_W. Qed.

Lemma dargs_ok_cons n i a r : dargs_ok n i (a :: r) = (match dl n i with [] => true | _ => forallb is_word a end) && dargs_ok n (S i) r.
Proof. reflexivity. Qed.
Lemma dargs_ok_plain n : forall l i, (forall j, (i <= j < i + length l)%nat -> dl n j = []) -> dargs_ok n i l = true.
Proof.
  induction l as [|a l IH]; intros i H; [reflexivity|]. rewrite dargs_ok_cons, (H i) by (cbn [length]; lia).
  apply IH. intros j Hj. apply H. cbn [length]. lia.
Qed.
Lemma dargs_ok_undelim a : undelim (length a) = true -> dargs_ok (length a) 1 a = true.
Proof. intros Hu. apply dargs_ok_plain. intros j Hj. apply (undelim_nil _ _ Hu). lia. Qed.
Lemma fa_f2 : forall x, fa_node x = true -> f2_node x = true.
Proof.
  apply (node_ind2 (fun x => fa_node x = true -> f2_node x = true)).
  - intros n Hs H. destruct n; try discriminate H; try discriminate Hs; reflexivity.
  - intros b IH H. cbn [fa_node f2_node] in *. now apply (forallb_imp fa_node).
  - intros g nm np d b _ H. cbn [fa_node f2_node] in *. apply andb_true_iff in H as [H Hb]. apply andb_true_iff in H as [Hn Hd].
    destruct d; [discriminate Hd|]. rewrite Hn, Hb. apply Nat.eqb_eq in Hn. subst np. reflexivity.
  - intros nm o a _ H. cbn [fa_node f2_node] in *. apply andb_true_iff in H as [H Ha]. apply andb_true_iff in H as [Hu Ho]. now rewrite Ho, Ha, (dargs_ok_undelim _ Hu).
  - intros t th el IHth IHel H. cbn [fa_node f2_node] in *. apply andb_true_iff in H as [H He]. apply andb_true_iff in H as [Ht Hth].
    rewrite Ht, (forallb_imp fa_node f2_node th IHth Hth). destruct el as [e|]; [|reflexivity].
    now apply (forallb_imp fa_node f2_node e (IHel e eq_refl)).
  - intros a bs el IHbs IHel H. cbn [fa_node f2_node] in *. apply andb_true_iff in H as [H He]. apply andb_true_iff in H as [Hh Hbs].
    rewrite Hh, (forallb2_imp fa_node f2_node bs IHbs Hbs). destruct el as [e|]; [|reflexivity].
    now apply (forallb_imp fa_node f2_node e (IHel e eq_refl)).
Qed.
Lemma fa_f2l l : forallb fa_node l = true -> forallb f2_node l = true.
Proof. apply forallb_imp. apply Forall_forall. intros x _. apply fa_f2. Qed.

(* arguments contain no parameter: substitution and lowering leave them alone (at any fuel) *)
Lemma map_id_forallb {A} (f : A -> A) (p : A -> bool) l : (forall x, p x = true -> f x = x) -> forallb p l = true -> map f l = l.
Proof.
  intros Hf. induction l as [|x l IH]; intros H; [reflexivity|]. cbn in *. apply andb_true_iff in H as [H1 H2].
  now rewrite (Hf x H1), IH.
Qed.

Lemma lower_A k : forall l, forallb fa_node l = true -> lower k l = l.
Proof.
  induction k as [|k IH]; intros l Hl; [reflexivity|]. cbn [lower].
  induction l as [|x l IHl]; [reflexivity|]. cbn [forallb] in Hl. apply andb_true_iff in Hl as [Hx Hl].
  cbn [map]. rewrite (IHl Hl). f_equal.
  destruct x; try discriminate Hx; try reflexivity; cbn [fa_node] in Hx.
  - now rewrite (IH body Hx).
  - apply andb_true_iff in Hx as [Hx Hb]. apply andb_true_iff in Hx as [_ Hd]. destruct default; [discriminate Hd|].
    cbn [option_map]. now rewrite (IH body Hb).
  - apply andb_true_iff in Hx as [Ho Ha]. apply andb_true_iff in Ho as [_ Ho]. rewrite (map_id_forallb (lower k) (forallb fa_node) args IH Ha).
    destruct opt as [o|]; [|reflexivity]. cbn [option_map opt_ok] in *. now rewrite (IH o (words_fa o Ho)).
  - apply andb_true_iff in Hx as [Hx He]. apply andb_true_iff in Hx as [_ Hth]. rewrite (IH thn Hth).
    destruct els as [e|]; [|reflexivity]. cbn [option_map]. now rewrite (IH e He).
  - apply andb_true_iff in Hx as [Hx He]. apply andb_true_iff in Hx as [_ Hbs].
    rewrite (map_id_forallb (lower k) (forallb fa_node) branches IH Hbs).
    destruct els as [e|]; [|reflexivity]. cbn [option_map]. now rewrite (IH e He).
Qed.

Lemma subst_A k args : forall l, forallb fa_node l = true -> subst k args l = l.
Proof.
  induction k as [|k IH]; intros l Hl; [reflexivity|]. cbn [subst].
  induction l as [|x l IHl]; [reflexivity|]. cbn [forallb] in Hl. apply andb_true_iff in Hl as [Hx Hl].
  cbn [flat_map]. rewrite (IHl Hl).
  destruct x; try discriminate Hx; try reflexivity; cbn [fa_node] in Hx.
  - now rewrite (IH body Hx).
  - apply andb_true_iff in Hx as [Hx Hb]. apply andb_true_iff in Hx as [_ Hd]. destruct default; [discriminate Hd|].
    cbn [option_map]. now rewrite (IH body Hb), (lower_A 50 body Hb).
  - apply andb_true_iff in Hx as [Ho Ha]. apply andb_true_iff in Ho as [_ Ho]. rewrite (map_id_forallb (subst k args) (forallb fa_node) args0 IH Ha).
    destruct opt as [o|]; [|reflexivity]. cbn [option_map opt_ok] in *. now rewrite (IH o (words_fa o Ho)).
  - apply andb_true_iff in Hx as [Hx He]. apply andb_true_iff in Hx as [_ Hth]. rewrite (IH thn Hth).
    destruct els as [e|]; [|reflexivity]. cbn [option_map]. now rewrite (IH e He).
  - apply andb_true_iff in Hx as [Hx He]. apply andb_true_iff in Hx as [_ Hbs].
    rewrite (map_id_forallb (subst k args) (forallb fa_node) branches IH Hbs).
    destruct els as [e|]; [|reflexivity]. cbn [option_map]. now rewrite (IH e He).
Qed.

(* expandDef on printed text *)
Definition xp (ps : list (option (list tok))) (P P' : list tok) : Prop :=
  forall tl, expand_def (P ++ tl) false ps = match expand_def tl false ps with Some o => Some (P' ++ o) | None => None end.

Lemma xp_nil ps : xp ps [] [].
Proof. intros tl. cbn [app]. destruct (expand_def tl false ps); reflexivity. Qed.
Lemma xp_app ps P P' Q Q' : xp ps P P' -> xp ps Q Q' -> xp ps (P ++ Q) (P' ++ Q').
Proof.
  intros HP HQ tl. rewrite <- app_assoc, HP, HQ. destruct (expand_def tl false ps); [|reflexivity]. now rewrite app_assoc.
Qed.
Definition inert (t : tok) : Prop := is_param t = false /\ is_ifx t = false.
Lemma xp_tok ps t : inert t -> xp ps [t] [t].
Proof. intros [H1 H2] tl. cbn [app expand_def]. rewrite H1, H2. reflexivity. Qed.
Lemma xp_toks ps l : Forall inert l -> xp ps l l.
Proof.
  induction 1 as [|t l Ht _ IH]; [apply xp_nil|]. change (t :: l) with ([t] ++ l). apply xp_app; [now apply xp_tok|exact IH].
Qed.
Lemma is_ifx_false t : ttext t <> [105; 102; 120] -> is_ifx t = false.
Proof.
  intros H. unfold is_ifx, tok_eqb. destruct t as [k x]. cbn [ttext] in H.
  destruct (list_eq_dec N.eq_dec x [105; 102; 120]); [contradiction|apply andb_false_r].
Qed.
Lemma inert_letter c : inert (letter c). Proof. split; [reflexivity|apply is_ifx_false; cbn; congruence]. Qed.
Lemma inert_other c : inert (other c). Proof. split; [reflexivity|apply is_ifx_false; cbn; congruence]. Qed.
Lemma inert_esc n : n <> [105; 102; 120] -> inert (esc n). Proof. intros H. split; [reflexivity|now apply is_ifx_false]. Qed.
Lemma inert_bg : inert bg. Proof. split; [reflexivity|apply is_ifx_false; cbn; congruence]. Qed.
Lemma inert_eg : inert eg. Proof. split; [reflexivity|apply is_ifx_false; cbn; congruence]. Qed.
Lemma inert_sp : inert sp. Proof. split; [reflexivity|apply is_ifx_false; cbn; congruence]. Qed.
Lemma inert_mname id : inert (esc (mname id)). Proof. apply inert_esc. unfold mname. congruence. Qed.

Lemma inert_wprint w : Forall inert (wprint w).
Proof.
  unfold wprint. constructor; [apply inert_letter|]. apply Forall_app. split; [apply Forall_map_tok, inert_letter|].
  constructor; [apply inert_sp|constructor].
Qed.
Lemma inert_pop a : Forall inert (pop a).
Proof.
  destruct a as [z|c]; cbn [pop]; [apply Forall_map_tok, inert_other|].
  constructor; [apply inert_esc; cbv; congruence|]. constructor; [apply inert_bg|].
  apply Forall_app. split; [apply Forall_map_tok, inert_letter|constructor; [apply inert_eg|constructor]].
Qed.
Lemma inert_cname_arg c : Forall inert (cname_arg c).
Proof. unfold cname_arg. constructor; [apply inert_bg|]. apply Forall_app. split; [apply Forall_map_tok, inert_letter|constructor; [apply inert_eg|constructor]]. Qed.
Lemma inert_znum z : Forall inert (znum z).
Proof. unfold znum. apply Forall_app. split; [destruct (z <? 0)%Z; [constructor; [apply inert_other|constructor]|constructor]|apply Forall_map_tok, inert_other]. Qed.
Lemma inert_counter_cmd n c z : n <> [105; 102; 120] -> Forall inert (esc n :: cname_arg c ++ bg :: znum z ++ [eg]).
Proof.
  intros Hn. constructor; [now apply inert_esc|]. apply Forall_app. split; [apply inert_cname_arg|].
  constructor; [apply inert_bg|]. apply Forall_app. split; [apply inert_znum|constructor; [apply inert_eg|constructor]].
Qed.
Lemma inert_test t : Forall inert (print_test t).
Proof.
  destruct t as [| |a r b|a| | | | |]; try (constructor; fail).
  - constructor; [apply inert_esc; cbv; congruence|constructor].
  - constructor; [apply inert_esc; cbv; congruence|constructor].
  - cbn [print_test]. constructor; [apply inert_esc; cbv; congruence|].
    apply Forall_app. split; [apply inert_pop|].
    constructor; [destruct r; apply inert_other|].
    apply Forall_app. split; [apply inert_pop|].
    constructor; [apply inert_esc; cbv; congruence|constructor].
  - cbn [print_test]. constructor; [apply inert_esc; cbv; congruence|].
    apply Forall_app. split; [apply inert_pop|]. constructor; [apply inert_esc; cbv; congruence|constructor].
  - constructor; [apply inert_esc; unfold ifname, sname; congruence|constructor].
Qed.


(* ---- where body mode and top mode print the same: no parameters of a nested definition around ---- *)
Lemma Forall_inst_fb {A} (f : A -> nat -> bool) (Q : A -> Prop) l d :
  Forall (fun x => forall d, f x d = true -> Q x) l -> forallb (fun y => f y d) l = true -> Forall Q l.
Proof. intros IH H. apply (Forall_forallb (fun y => f y d)); [|exact H]. eapply Forall_impl; [|exact IH]. intros y Hy. apply Hy. Qed.
Lemma Forall2_inst_fb {A} (f : A -> nat -> bool) (Q : A -> Prop) ll d :
  Forall (Forall (fun x => forall d, f x d = true -> Q x)) ll -> forallb (forallb (fun y => f y d)) ll = true -> Forall (Forall Q) ll.
Proof. intros IH H. apply (Forall2_forallb (fun y => f y d)); [|exact H]. apply (Forall2_inst (fun d x => f x d = true -> Q x)). exact IH. Qed.

Lemma printb_list l : Forall (fun x => printb_node x = print_node x) l -> printb l = print l.
Proof. induction 1 as [|x l Hx _ IH]; [reflexivity|]. cbn [print printb]. now rewrite Hx, IH. Qed.
Lemma printb_args_eq a : Forall (Forall (fun x => printb_node x = print_node x)) a -> printb_args a = print_args a.
Proof. induction 1 as [|l a Hl _ IH]; [reflexivity|]. cbn [print_args printb_args]. now rewrite (printb_list l Hl), IH. Qed.
Lemma printb_ors_eq r : Forall (Forall (fun x => printb_node x = print_node x)) r -> printb_ors r = print_ors r.
Proof. induction 1 as [|l a Hl _ IH]; [reflexivity|]. cbn [print_ors printb_ors]. now rewrite (printb_list l Hl), IH. Qed.
Lemma printb_words x : forallb is_word x = true -> printb x = print x.
Proof.
  induction x as [|n x IH]; intros H; [reflexivity|]. cbn [forallb] in H. apply andb_true_iff in H as [H1 H2].
  destruct n; try discriminate H1. cbn [print printb]. now rewrite (IH H2).
Qed.
Lemma opt_toksb_eq o : opt_ok o = true -> opt_toksb o = opt_toks o.
Proof. destruct o as [x|]; intros H; [|reflexivity]. cbn [opt_toksb opt_toks opt_ok] in *. now rewrite (printb_words x H). Qed.

Lemma printb_A : forall x, fa_node x = true -> printb_node x = print_node x.
Proof.
  apply (node_ind2 (fun x => fa_node x = true -> printb_node x = print_node x)).
  - intros n Hs H. destruct n; try discriminate H; try discriminate Hs; reflexivity.
  - intros b IH H. cbn [fa_node] in H. rewrite printb_group, print_group, (printb_list b (Forall_forallb fa_node _ b IH H)). reflexivity.
  - intros g nm np d b IH H. cbn [fa_node] in H. apply andb_true_iff in H as [H Hb]. apply andb_true_iff in H as [Hn Hd].
    apply Nat.eqb_eq in Hn. subst np. destruct d; [discriminate Hd|]. rewrite printb_def, print_def. reflexivity.
  - intros nm o a IH H. cbn [fa_node] in H. apply andb_true_iff in H as [Ho Ha]. apply andb_true_iff in Ho as [Hu Ho].
    rewrite (printb_call _ _ _ Hu), (print_call _ _ _ Hu), (opt_toksb_eq o Ho), (printb_args_eq a (Forall2_forallb fa_node _ a IH Ha)). reflexivity.
  - intros t th el IHth IHel H. cbn [fa_node] in H. apply andb_true_iff in H as [H He]. apply andb_true_iff in H as [Ht Hth].
    rewrite printb_cond, print_cond, (printb_list th (Forall_forallb fa_node _ th IHth Hth)).
    destruct el as [e|]; [|reflexivity]. now rewrite (printb_list e (Forall_forallb fa_node _ e (IHel e eq_refl) He)).
  - intros a bs el IHbs IHel H. cbn [fa_node] in H. apply andb_true_iff in H as [H He]. apply andb_true_iff in H as [Hh Hbs].
    destruct (case_head_inv _ _ Hh) as (b0 & r & -> & Ha). inversion IHbs as [|x l IHb0 IHr]; subst.
    cbn [forallb] in Hbs. apply andb_true_iff in Hbs as [Hb0 Hr].
    rewrite printb_case_node, print_case_node, (printb_list b0 (Forall_forallb fa_node _ b0 IHb0 Hb0)), (printb_ors_eq r (Forall2_forallb fa_node _ r IHr Hr)).
    destruct el as [e|]; [|reflexivity]. cbn [else_partb else_part]. now rewrite (printb_list e (Forall_forallb fa_node _ e (IHel e eq_refl) He)).
Qed.
Lemma printb_Al l : forallb fa_node l = true -> printb l = print l.
Proof. intros H. apply printb_list. apply (Forall_forallb fa_node); [|exact H]. apply Forall_forall. intros x _. apply printb_A. Qed.

Lemma printb_fb n : forall x d, fb_node n x d = true -> printb_node x = print_node x.
Proof.
  apply (node_ind2 (fun x => forall d, fb_node n x d = true -> printb_node x = print_node x)).
  - intros x Hs d H. destruct x; try discriminate H; try discriminate Hs; reflexivity.
  - intros b IH d H. cbn [fb_node] in H. apply orb_true_iff in H as [Hfa|H]; [exact (printb_A _ Hfa)|].
    destruct d as [|d]; [discriminate H|]. rewrite printb_group, print_group, (printb_list b (Forall_inst_fb (fb_node n) _ b d IH H)). reflexivity.
  - intros g nm np dd b IH d H. cbn [fb_node] in H. apply orb_true_iff in H as [Hfa|H]; [exact (printb_A _ Hfa)|].
    apply andb_true_iff in H as [H0 H]. apply andb_true_iff in H0 as [Hn Hd]. apply Nat.eqb_eq in Hn. subst np.
    destruct dd; [discriminate Hd|]. rewrite printb_def, print_def. reflexivity.
  - intros nm o a IH d H. cbn [fb_node] in H. apply orb_true_iff in H as [Hfa|H]; [exact (printb_A _ Hfa)|].
    apply andb_true_iff in H as [Ho H]. apply andb_true_iff in Ho as [Hu Ho]. rewrite (printb_call _ _ _ Hu), (print_call _ _ _ Hu), (opt_toksb_eq o Ho). clear Hu. f_equal. f_equal. clear Ho.
    induction IH as [|arg a Harg _ IHa]; [reflexivity|]. cbn [forallb] in H. apply andb_true_iff in H as [H1 H2].
    cbn [printb_args print_args]. rewrite (IHa H2). destruct d as [|d]; [discriminate H1|].
    rewrite (printb_list arg (Forall_inst_fb (fb_node n) _ arg d Harg H1)). reflexivity.
  - intros t th el IHth IHel d H. cbn [fb_node] in H. apply orb_true_iff in H as [Hfa|H]; [exact (printb_A _ Hfa)|].
    apply andb_true_iff in H as [Ht H]. destruct d as [|d]; [discriminate H|]. apply andb_true_iff in H as [Hth He].
    rewrite printb_cond, print_cond, (printb_list th (Forall_inst_fb (fb_node n) _ th d IHth Hth)).
    destruct el as [e|]; [|reflexivity]. now rewrite (printb_list e (Forall_inst_fb (fb_node n) _ e d (IHel e eq_refl) He)).
  - intros a bs el IHbs IHel d H. cbn [fb_node] in H. apply orb_true_iff in H as [Hfa|H]; [exact (printb_A _ Hfa)|].
    apply andb_true_iff in H as [Hh H]. destruct d as [|d]; [discriminate H|]. apply andb_true_iff in H as [Hbs He].
    destruct (case_head_inv _ _ Hh) as (b0 & r & -> & Ha). inversion IHbs as [|x l IHb0 IHr]; subst.
    cbn [forallb] in Hbs. apply andb_true_iff in Hbs as [Hb0 Hr].
    rewrite printb_case_node, print_case_node, (printb_list b0 (Forall_inst_fb (fb_node n) _ b0 d IHb0 Hb0)),
      (printb_ors_eq r (Forall2_inst_fb (fb_node n) _ r d IHr Hr)).
    destruct el as [e|]; [|reflexivity]. cbn [else_partb else_part]. now rewrite (printb_list e (Forall_inst_fb (fb_node n) _ e d (IHel e eq_refl) He)).
Qed.
Lemma printb_fbl n d l : forallb (fun y => fb_node n y d) l = true -> printb l = print l.
Proof. intros H. apply printb_list. apply (Forall_forallb (fun y => fb_node n y d)); [|exact H]. apply Forall_forall. intros x _. apply printb_fb. Qed.

Lemma fa_fb n x d : fa_node x = true -> fb_node n x d = true.
Proof. intros H. destruct x; try discriminate H; try reflexivity; cbn [fb_node]; apply orb_true_iff; left; exact H. Qed.
Lemma fa_fbl n d l : forallb fa_node l = true -> forallb (fun y => fb_node n y d) l = true.
Proof. apply forallb_imp. apply Forall_forall. intros x _. apply fa_fb. Qed.

(* argument text contains no parameter character *)
Lemma inert_list l : Forall (fun x => Forall inert (print_node x)) l -> Forall inert (print l).
Proof. induction 1 as [|x l Hx _ IH]; [constructor|]. cbn [print]. apply Forall_app. split; assumption. Qed.
Lemma inert_words x : forallb is_word x = true -> Forall inert (print x).
Proof.
  intros H. destruct (words_print x H) as (l & ->). clear. induction l as [|w l IHl]; [constructor|].
  cbn [flat_map]. apply Forall_app. split; [apply inert_wprint|exact IHl].
Qed.
Lemma inert_opt o : opt_ok o = true -> Forall inert (opt_toks o).
Proof.
  destruct o as [ws|]; intros Ho; [|constructor]. cbn [opt_toks opt_ok] in *. constructor; [apply inert_other|].
  apply Forall_app. split; [now apply inert_words|constructor; [apply inert_other|constructor]].
Qed.
Lemma inert_args a : Forall (Forall (fun x => Forall inert (print_node x))) a -> Forall inert (print_args a).
Proof.
  induction 1 as [|l a Hl _ IH]; [constructor|]. cbn [print_args]. constructor; [apply inert_bg|].
  apply Forall_app. split; [now apply inert_list|constructor; [apply inert_eg|exact IH]].
Qed.
Lemma inert_ors r : Forall (Forall (fun x => Forall inert (print_node x))) r -> Forall inert (print_ors r).
Proof.
  induction 1 as [|l a Hl _ IH]; [constructor|]. cbn [print_ors]. constructor; [apply inert_esc; cbv; congruence|].
  apply Forall_app. split; [now apply inert_list|exact IH].
Qed.
Lemma inert_A : forall x, fa_node x = true -> Forall inert (print_node x).
Proof.
  apply (node_ind2 (fun x => fa_node x = true -> Forall inert (print_node x))).
  - intros x Hs H. destruct x; try discriminate H; try discriminate Hs.
    + apply inert_wprint.
    + rewrite print_let. constructor; [apply inert_esc; cbv; congruence|]. constructor; [apply inert_mname|]. constructor; [apply inert_other|].
      constructor; [apply inert_mname|constructor].
    + constructor; [apply inert_esc; cbv; congruence|]. constructor; [apply inert_mname|]. constructor; [apply inert_mname|constructor].
    + constructor; [|constructor]. apply inert_esc. unfold setname, sname. destruct b; cbn; congruence.
    + constructor; [apply inert_esc; cbv; congruence|]. constructor; [apply inert_esc; unfold ifname, sname; congruence|constructor].
    + constructor; [apply inert_esc; cbv; congruence|apply inert_cname_arg].
    + apply inert_counter_cmd. cbv; congruence.
    + apply inert_counter_cmd. cbv; congruence.
  - intros b IH H. cbn [fa_node] in H. rewrite print_group. constructor; [apply inert_bg|]. apply Forall_app.
    split; [apply inert_list, (Forall_forallb fa_node _ b IH H)|constructor; [apply inert_eg|constructor]].
  - intros g nm np d b IH H. cbn [fa_node] in H. apply andb_true_iff in H as [H Hb]. apply andb_true_iff in H as [Hn Hd].
    apply Nat.eqb_eq in Hn. subst np. destruct d; [discriminate Hd|]. rewrite print_def, (printb_Al b Hb).
    change (param_text O) with (@nil tok). cbn [app].
    constructor; [destruct g; apply inert_esc; cbv; congruence|]. constructor; [apply inert_mname|]. constructor; [apply inert_bg|].
    apply Forall_app. split; [apply inert_list, (Forall_forallb fa_node _ b IH Hb)|constructor; [apply inert_eg|constructor]].
  - intros nm o a IH H. cbn [fa_node] in H. apply andb_true_iff in H as [Ho Ha]. apply andb_true_iff in Ho as [Hu Ho]. rewrite (print_call _ _ _ Hu).
    constructor; [apply inert_mname|]. apply Forall_app. split; [now apply inert_opt|]. apply inert_args, (Forall2_forallb fa_node _ a IH Ha).
  - intros t th el IHth IHel H. cbn [fa_node] in H. apply andb_true_iff in H as [H He]. apply andb_true_iff in H as [Ht Hth].
    rewrite print_cond. apply Forall_app. split; [apply inert_test|]. apply Forall_app.
    split; [apply inert_list, (Forall_forallb fa_node _ th IHth Hth)|]. apply Forall_app. split; [|constructor; [apply inert_esc; cbv; congruence|constructor]].
    destruct el as [e|]; [|constructor]. constructor; [apply inert_esc; cbv; congruence|]. apply inert_list, (Forall_forallb fa_node _ e (IHel e eq_refl) He).
  - intros a bs el IHbs IHel H. cbn [fa_node] in H. apply andb_true_iff in H as [H He]. apply andb_true_iff in H as [Hh Hbs].
    destruct (case_head_inv _ _ Hh) as (b0 & r & -> & Ha). inversion IHbs as [|x l IHb0 IHr]; subst.
    cbn [forallb] in Hbs. apply andb_true_iff in Hbs as [Hb0 Hr]. rewrite print_case_node.
    constructor; [apply inert_esc; cbv; congruence|]. apply Forall_app. split; [apply inert_pop|].
    constructor; [apply inert_esc; cbv; congruence|]. apply Forall_app. split; [apply inert_list, (Forall_forallb fa_node _ b0 IHb0 Hb0)|].
    apply Forall_app. split; [apply inert_ors, (Forall2_forallb fa_node _ r IHr Hr)|].
    apply Forall_app. split; [|constructor; [apply inert_esc; cbv; congruence|constructor]].
    destruct el as [e|]; [|constructor]. constructor; [apply inert_esc; cbv; congruence|]. apply inert_list, (Forall_forallb fa_node _ e (IHel e eq_refl) He).
Qed.
Lemma xp_cons ps t P P' : inert t -> xp ps P P' -> xp ps (t :: P) (t :: P').
Proof. intros Ht H. apply (xp_app ps [t] [t] P P'); [now apply xp_tok|exact H]. Qed.

Lemma flat_map_ext_in {A B} (f g : A -> list B) l : (forall a, In a l -> f a = g a) -> flat_map f l = flat_map g l.
Proof. induction l as [|x l IH]; intros H; [reflexivity|]. cbn [flat_map]. rewrite (H x (or_introl eq_refl)), IH; [reflexivity|]. intros a Ha. apply H. now right. Qed.
Lemma param_text_plain np : undelim np = true -> param_text np = flat_map (fun i => [hash_tok; other (48 + N.of_nat i)]) (seq 1 np).
Proof.
  intros Hu. unfold param_text. apply flat_map_ext_in. intros i Hi. apply in_seq in Hi. now rewrite (undelim_nil np i Hu) by lia.
Qed.

(* ---- print (subst args body) = expandDef (print body) (map print args) ---- *)
Section Subst.
  Context (args : list (list node)) (n : nat).
  Context (Hargs : Forall (fun a => forallb fa_node a = true) args) (Hn9 : (n <= 9)%nat).
  Let ps : list (option (list tok)) := None :: map Some (map print args).

  (* the function MacroLang.subst maps over a body *)
  Definition sbn (d : nat) (x : node) : list node :=
    let sub := subst d args in
    match x with
    | NParam k => nth (k - 1) args []
    | NGroup b => [NGroup (sub b)]
    | NDef g nm np dd b => [NDef g nm np (option_map sub dd) (lower 50 (sub b))]
    | NCall nm o a => [NCall nm (option_map sub o) (map sub a)]
    | NCond t th el => [NCond t (sub th) (option_map sub el)]
    | NCase a bs el => [NCase a (map sub bs) (option_map sub el)]
    | other => [other]
    end.
  Lemma subst_S d l : subst (S d) args l = flat_map (sbn d) l.
  Proof. reflexivity. Qed.

  Lemma xp_param k : (1 <= k <= 9)%nat -> xp ps [hash_tok; other (48 + N.of_nat k)] (print (nth (k - 1) args [])).
  Proof.
    intros Hk tl. cbn [app expand_def]. change (is_param hash_tok) with true. cbn iota.
    change (is_param (other (48 + N.of_nat k))) with false. cbn iota.
    change (other (48 + N.of_nat k)) with (digit_tok k). rewrite (digit_of_digit k) by lia.
    destruct (expand_def tl false ps) as [o|]; [|reflexivity]. f_equal. f_equal.
    unfold ps. rewrite (nth_params k (map print args)) by lia.
    change (@nil tok) with (print []). now rewrite map_nth.
  Qed.

  Definition Q (d : nat) (x : node) : Prop :=
    xp ps (print_node x) (print (sbn d x)) /\ forallb fa_node (sbn d x) = true.

  Lemma Q_list l d : Forall (fun y => forall d, fb_node n y d = true -> Q d y) l ->
    forallb (fun y => fb_node n y d) l = true ->
    xp ps (print l) (print (subst (S d) args l)) /\ forallb fa_node (subst (S d) args l) = true.
  Proof.
    rewrite subst_S. induction 1 as [|x l Hx _ IH]; intros H; [split; [apply xp_nil|reflexivity]|].
    cbn [forallb] in H. apply andb_true_iff in H as [H1 H2]. destruct (Hx d H1) as [Hx1 Hx2]. destruct (IH H2) as [IH1 IH2].
    cbn [print flat_map]. rewrite print_app, forallb_app, Hx2, IH2. split; [now apply xp_app|reflexivity].
  Qed.

  Lemma nth_args_A k : forallb fa_node (nth k args []) = true.
  Proof.
    assert (H : forall l : list (list node), Forall (fun a => forallb fa_node a = true) l -> forall k, forallb fa_node (nth k l []) = true).
    { induction 1 as [|a l Ha _ IH]; intros j; [destruct j; reflexivity|]. destruct j as [|j]; [exact Ha|apply IH]. }
    now apply H.
  Qed.

  Lemma sbn_A d x : fa_node x = true -> sbn d x = [x].
  Proof.
    intros H. assert (E : subst (S d) args [x] = [x]) by (apply subst_A; cbn [forallb]; now rewrite H).
    rewrite subst_S in E. cbn [flat_map] in E. now rewrite app_nil_r in E.
  Qed.
  Lemma Q_fa x d : fa_node x = true -> Q d x.
  Proof.
    intros H. unfold Q. rewrite (sbn_A d x H). split; [|cbn [forallb]; now rewrite H].
    cbn [print]. rewrite app_nil_r. apply xp_toks, inert_A, H.
  Qed.

  Lemma Q_all : forall x d, fb_node n x d = true -> Q d x.
  Proof.
    apply (node_ind2 (fun x => forall d, fb_node n x d = true -> Q d x)).
    - intros x Hs d H. destruct x; try discriminate H; try discriminate Hs.
      + split; [cbn [sbn print]; rewrite app_nil_r; apply xp_toks, inert_wprint|reflexivity].
      + split; [|reflexivity]. cbn [sbn print]. rewrite app_nil_r, print_let. apply xp_toks.
        constructor; [apply inert_esc; cbv; congruence|]. constructor; [apply inert_mname|]. constructor; [apply inert_other|].
        constructor; [apply inert_mname|constructor].
      + cbn [fb_node] in H. apply andb_true_iff in H as [H1 H2]. apply Nat.leb_le in H1, H2. split.
        * rewrite print_param. apply xp_param. lia.
        * apply nth_args_A.
      + split; [|reflexivity]. cbn [sbn print]. rewrite app_nil_r. apply xp_toks. constructor; [apply inert_esc; cbv; congruence|]. constructor; [apply inert_mname|]. constructor; [apply inert_mname|constructor].
      + split; [|reflexivity]. cbn [sbn print]. rewrite app_nil_r. apply xp_tok, inert_esc.
        unfold setname, sname. destruct b; cbn; congruence.
      + split; [|reflexivity]. cbn [sbn print]. rewrite app_nil_r. apply xp_toks.
        constructor; [apply inert_esc; cbv; congruence|]. constructor; [apply inert_esc; unfold ifname, sname; congruence|constructor].
      + split; [|reflexivity]. cbn [sbn print]. rewrite app_nil_r. apply xp_toks.
        constructor; [apply inert_esc; cbv; congruence|apply inert_cname_arg].
      + split; [|reflexivity]. cbn [sbn print]. rewrite app_nil_r. apply xp_toks, inert_counter_cmd. cbv; congruence.
      + split; [|reflexivity]. cbn [sbn print]. rewrite app_nil_r. apply xp_toks, inert_counter_cmd. cbv; congruence.
    - intros b IH d H. cbn [fb_node] in H. apply orb_true_iff in H as [Hfa|H]; [exact (Q_fa _ d Hfa)|]. destruct d as [|d]; [discriminate H|].
      destruct (Q_list b d IH H) as [H1 H2]. split.
      + cbn [sbn print]. rewrite print_group, app_nil_r, print_group.
        change (bg :: ?l) with ([bg] ++ l). apply xp_app; [apply xp_tok, inert_bg|].
        apply xp_app; [exact H1|apply xp_tok, inert_eg].
      + cbn [sbn forallb fa_node]. now rewrite H2.
    - intros g nm np dd b IH d H. cbn [fb_node] in H. apply orb_true_iff in H as [Hfa|H]; [exact (Q_fa _ d Hfa)|]. apply andb_true_iff in H as [H0 H]. apply andb_true_iff in H0 as [Hnp Hdd].
      apply Nat.eqb_eq in Hnp. subst np. destruct dd; [discriminate Hdd|]. destruct d as [|d]; [discriminate H|].
      destruct (Q_list b d IH H) as [H1 H2]. unfold Q. cbn [sbn option_map]. rewrite (lower_A 50 _ H2). split.
      + cbn [print]. rewrite !print_def, app_nil_r, (printb_fbl n d b H), (printb_Al _ H2). change (param_text O) with (@nil tok). cbn [app].
        change (?a :: ?b' :: bg :: ?l) with ([a; b'; bg] ++ l). apply xp_app.
        * apply xp_toks. constructor; [destruct g; apply inert_esc; cbv; congruence|]. constructor; [apply inert_mname|].
          constructor; [apply inert_bg|constructor].
        * apply xp_app; [exact H1|apply xp_tok, inert_eg].
      + cbn [forallb fa_node Nat.eqb is_none andb]. now rewrite H2.
    - intros nm o a IH d H. cbn [fb_node] in H. apply orb_true_iff in H as [Hfa|H]; [exact (Q_fa _ d Hfa)|]. apply andb_true_iff in H as [Ho H]. apply andb_true_iff in Ho as [Hu Ho].
      assert (Hopt : option_map (subst d args) o = o).
      { destruct o as [ws|]; [|reflexivity]. cbn [option_map opt_ok] in *. f_equal. apply subst_A. now apply words_fa. }
      assert (Hoi : Forall inert (opt_toks o)).
      { destruct o as [ws|]; [|constructor]. cbn [opt_toks opt_ok] in *. constructor; [apply inert_other|].
        apply Forall_app. split; [|constructor; [apply inert_other|constructor]].
        destruct (words_print ws Ho) as (l & ->). clear. induction l as [|w l IHl]; [constructor|].
        cbn [flat_map]. apply Forall_app. split; [apply inert_wprint|exact IHl]. }
      assert (Ha : xp ps (print_args a) (print_args (map (subst d args) a)) /\ forallb (forallb fa_node) (map (subst d args) a) = true).
      { clear Ho Hopt Hoi Hu. induction IH as [|arg a Harg _ IHa]; [split; [apply xp_nil|reflexivity]|].
        cbn [forallb] in H. apply andb_true_iff in H as [H1 H2]. destruct d as [|d]; [discriminate H1|].
        destruct (Q_list arg d Harg H1) as [Q1 Q2]. destruct (IHa H2) as [I1 I2].
        cbn [map print_args forallb]. rewrite Q2, I2. split; [|reflexivity].
        change (bg :: ?l) with ([bg] ++ l). apply xp_app; [apply xp_tok, inert_bg|].
        apply xp_app; [exact Q1|]. change (eg :: ?l) with ([eg] ++ l). apply xp_app; [apply xp_tok, inert_eg|exact I1]. }
      destruct Ha as [A1 A2]. split.
      + unfold sbn. rewrite Hopt. cbn [print]. rewrite (print_call _ _ _ Hu), (print_call _ _ (map (subst d args) a)) by (now rewrite map_length). rewrite app_nil_r. change (?x :: ?l) with ([x] ++ l).
        apply xp_app; [apply xp_tok, inert_mname|]. apply xp_app; [now apply xp_toks|exact A1].
      + unfold sbn. rewrite Hopt. cbn [forallb fa_node andb]. rewrite map_length. now rewrite Hu, Ho, A2.
    - intros t th el IHth IHel d H. cbn [fb_node] in H. apply orb_true_iff in H as [Hfa|H]; [exact (Q_fa _ d Hfa)|]. apply andb_true_iff in H as [Ht H]. destruct d as [|d]; [discriminate H|].
      apply andb_true_iff in H as [Hth He]. destruct (Q_list th d IHth Hth) as [T1 T2].
      assert (E : xp ps (else_part el) (else_part (option_map (subst (S d) args) el)) /\
                  match option_map (subst (S d) args) el with Some e => forallb fa_node e | None => true end = true).
      { destruct el as [e|]; [|split; [apply xp_nil|reflexivity]]. destruct (Q_list e d (IHel e eq_refl) He) as [E1 E2].
        cbn [option_map else_part]. split; [|exact E2]. change (esc s_else :: ?l) with ([esc s_else] ++ l).
        apply xp_app; [apply xp_tok, inert_esc; cbv; congruence|exact E1]. }
      destruct E as [E1 E2]. unfold Q. cbn [sbn]. split.
      + cbn [print]. rewrite !print_cond, app_nil_r. fold (else_part el). fold (else_part (option_map (subst (S d) args) el)).
        apply xp_app; [apply xp_toks, inert_test|]. apply xp_app; [exact T1|].
        apply xp_app; [exact E1|apply xp_tok, inert_esc; cbv; congruence].
      + cbn [forallb fa_node]. now rewrite Ht, T2, E2.
    - intros a bs el IHbs IHel d H. cbn [fb_node] in H. apply orb_true_iff in H as [Hfa|H]; [exact (Q_fa _ d Hfa)|]. apply andb_true_iff in H as [Hh H]. destruct d as [|d]; [discriminate H|].
      apply andb_true_iff in H as [Hbs He]. destruct (case_head_inv _ _ Hh) as (b0 & r & -> & Ha).
      inversion IHbs as [|x l IHb0 IHr]; subst. cbn [forallb] in Hbs. apply andb_true_iff in Hbs as [Hb0 Hr].
      destruct (Q_list b0 d IHb0 Hb0) as [B1 B2].
      assert (R : xp ps (print_ors r) (print_ors (map (subst (S d) args) r)) /\ forallb (forallb fa_node) (map (subst (S d) args) r) = true).
      { clear -IHr Hr Hargs Hn9. induction IHr as [|b r Hb _ IHr']; [split; [apply xp_nil|reflexivity]|].
        cbn [forallb] in Hr. apply andb_true_iff in Hr as [H1 H2].
        destruct (Q_list b d Hb H1) as [Q1 Q2]. destruct (IHr' H2) as [I1 I2].
        cbn [map print_ors forallb]. rewrite Q2, I2. split; [|reflexivity].
        change (esc s_or :: ?l) with ([esc s_or] ++ l). apply xp_app; [apply xp_tok, inert_esc; cbv; congruence|].
        apply xp_app; [exact Q1|exact I1]. }
      destruct R as [R1 R2].
      assert (E : xp ps (else_part el) (else_part (option_map (subst (S d) args) el)) /\
                  match option_map (subst (S d) args) el with Some e => forallb fa_node e | None => true end = true).
      { destruct el as [e|]; [|split; [apply xp_nil|reflexivity]]. destruct (Q_list e d (IHel e eq_refl) He) as [E1 E2].
        cbn [option_map else_part]. split; [|exact E2]. change (esc s_else :: ?l) with ([esc s_else] ++ l).
        apply xp_app; [apply xp_tok, inert_esc; cbv; congruence|exact E1]. }
      destruct E as [E1 E2]. unfold Q, sbn. cbn [map]. split.
      + cbn [print]. rewrite !print_case_node, app_nil_r.
        change (esc s_ifcase :: ?l) with ([esc s_ifcase] ++ l). apply xp_app; [apply xp_tok, inert_esc; cbv; congruence|].
        apply xp_app; [apply xp_toks, inert_pop|].
        change (esc s_relax :: ?l) with ([esc s_relax] ++ l). apply xp_app; [apply xp_tok, inert_esc; cbv; congruence|].
        apply xp_app; [exact B1|]. apply xp_app; [exact R1|].
        apply xp_app; [exact E1|apply xp_tok, inert_esc; cbv; congruence].
      + cbn [forallb fa_node case_head]. now rewrite Ha, B2, R2, E2.
  Qed.

  Lemma subst_print d b : forallb (fun y => fb_node n y d) b = true ->
    expand_def (print b) false ps = Some (print (subst (S d) args b)) /\ forallb fa_node (subst (S d) args b) = true.
  Proof.
    intros H. destruct (Q_list b d) as [H1 H2]; [apply Forall_forall; intros x _; apply Q_all|exact H|].
    split; [|exact H2]. specialize (H1 []). rewrite !app_nil_r in H1. rewrite H1. cbn [expand_def]. now rewrite app_nil_r.
  Qed.
  (* ---- definitions with parameters of their own inside a body: ##k ---- *)
  Definition low1 (j : nat) (x : node) : node :=
    match x with
    | NParam2 k => NParam k
    | NGroup b => NGroup (lower j b)
    | NDef g nm np d b => NDef g nm np (option_map (lower j) d) (lower j b)
    | NCall nm o a => NCall nm (option_map (lower j) o) (map (lower j) a)
    | NCond t th el => NCond t (lower j th) (option_map (lower j) el)
    | NCase a bs el => NCase a (map (lower j) bs) (option_map (lower j) el)
    | other => other
    end.
  Lemma lower_S j l : lower (S j) l = map (low1 j) l.
  Proof. reflexivity. Qed.

  Lemma xp_hash2 : xp ps [hash_tok; hash_tok] [hash_tok].
  Proof. intros tl. cbn [app expand_def]. change (is_param hash_tok) with true. cbn iota. destruct (expand_def tl false ps); reflexivity. Qed.
  Lemma xp_param2 k : xp ps [hash_tok; hash_tok; other (48 + N.of_nat k)] [hash_tok; other (48 + N.of_nat k)].
  Proof.
    apply (xp_app ps [hash_tok; hash_tok] [hash_tok] [other (48 + N.of_nat k)] [other (48 + N.of_nat k)]); [apply xp_hash2|apply xp_tok, inert_other].
  Qed.
  Lemma xp_ptext2 i np : xp ps (flat_map (fun i => [hash_tok; hash_tok; other (48 + N.of_nat i)]) (seq i np))
                               (flat_map (fun i => [hash_tok; other (48 + N.of_nat i)]) (seq i np)).
  Proof. revert i. induction np as [|np IH]; intros i; [apply xp_nil|]. cbn [seq flat_map]. apply xp_app; [apply xp_param2|apply IH]. Qed.

  (* expandDef (#k -> argument, ##k -> #k) and \def's own reduction (##k -> #k) are both homomorphisms of this kind *)
  Definition XH (X : list tok -> list tok -> Prop) : Prop :=
    X [] [] /\ (forall P P' Q Q', X P P' -> X Q Q' -> X (P ++ Q) (P' ++ Q')) /\ (forall t, inert t -> X [t] [t]) /\
    (forall k, (1 <= k <= n)%nat -> X [hash_tok; other (48 + N.of_nat k)] (print (nth (k - 1) args []))) /\
    (forall k, X [hash_tok; hash_tok; other (48 + N.of_nat k)] [hash_tok; other (48 + N.of_nat k)]).
  Lemma XH_xp : XH (xp ps).
  Proof.
    split; [apply xp_nil|]. split; [apply xp_app|]. split; [apply xp_tok|]. split; [|apply xp_param2].
    intros k Hk. apply xp_param. lia.
  Qed.

  Section Gen.
  Context (X : list tok -> list tok -> Prop) (HX : XH X).
  Lemma X_nil : X [] []. Proof. apply HX. Qed.
  Lemma X_app P P' Q Q' : X P P' -> X Q Q' -> X (P ++ Q) (P' ++ Q'). Proof. apply HX. Qed.
  Lemma X_tok t : inert t -> X [t] [t]. Proof. apply HX. Qed.
  Lemma X_par k : (1 <= k <= n)%nat -> X [hash_tok; other (48 + N.of_nat k)] (print (nth (k - 1) args [])). Proof. apply HX. Qed.
  Lemma X_par2 k : X [hash_tok; hash_tok; other (48 + N.of_nat k)] [hash_tok; other (48 + N.of_nat k)]. Proof. apply HX. Qed.
  Lemma X_toks l : Forall inert l -> X l l.
  Proof. induction 1 as [|t l Ht _ IH]; [apply X_nil|]. apply (X_app [t] [t] l l); [now apply X_tok|exact IH]. Qed.
  Lemma X_cons t P P' : inert t -> X P P' -> X (t :: P) (t :: P').
  Proof. intros Ht H. apply (X_app [t] [t] P P'); [now apply X_tok|exact H]. Qed.
  Lemma X_ptext2 i np : X (flat_map (fun i => [hash_tok; hash_tok; other (48 + N.of_nat i)]) (seq i np))
                          (flat_map (fun i => [hash_tok; other (48 + N.of_nat i)]) (seq i np)).
  Proof. revert i. induction np as [|np IH]; intros i; [apply X_nil|]. cbn [seq flat_map]. apply X_app; [apply X_par2|apply IH]. Qed.

  Definition QI (m d : nat) (x : node) : Prop := forall j D, (d <= j)%nat -> (d <= D)%nat ->
    X (printb_node x) (printb (map (low1 j) (sbn d x))) /\ forallb (fun y => fb_node m y D) (map (low1 j) (sbn d x)) = true.

  Lemma QI_list m l d : Forall (fun y => forall d, fi_node n m y d = true -> QI m d y) l ->
    forallb (fun y => fi_node n m y d) l = true -> forall j D, (d <= j)%nat -> (d <= D)%nat ->
    X (printb l) (printb (lower (S j) (subst (S d) args l))) /\
    forallb (fun y => fb_node m y D) (lower (S j) (subst (S d) args l)) = true.
  Proof.
    intros IH H j D Hj HD. rewrite subst_S, lower_S. revert H.
    induction IH as [|x l Hx _ IHl]; intros H; [split; [apply X_nil|reflexivity]|].
    cbn [forallb] in H. apply andb_true_iff in H as [H1 H2]. destruct (Hx d H1 j D Hj HD) as [Hx1 Hx2]. destruct (IHl H2) as [IH1 IH2].
    cbn [printb flat_map]. rewrite map_app, printb_app, forallb_app, Hx2, IH2. split; [now apply X_app|reflexivity].
  Qed.

  Lemma QI_all m : forall x d, fi_node n m x d = true -> QI m d x.
  Proof.
    apply (node_ind2 (fun x => forall d, fi_node n m x d = true -> QI m d x)).
    - intros x Hs d H j D Hj HD. destruct x; try discriminate H; try discriminate Hs.
      + split; [cbn [sbn map low1 printb]; rewrite app_nil_r; apply X_toks, inert_wprint|reflexivity].
      + split; [|reflexivity]. cbn [sbn map low1 printb]. rewrite app_nil_r, printb_let. apply X_toks.
        constructor; [apply inert_esc; cbv; congruence|]. constructor; [apply inert_mname|]. constructor; [apply inert_other|].
        constructor; [apply inert_mname|constructor].
      + cbn [fi_node] in H. apply andb_true_iff in H as [H1 H2]. apply Nat.leb_le in H1, H2. cbn [sbn].
        rewrite <- lower_S, (lower_A _ _ (nth_args_A (k - 1))). split.
        * rewrite printb_param, (printb_Al _ (nth_args_A (k - 1))). apply X_par. lia.
        * apply fa_fbl, nth_args_A.
      + cbn [fi_node] in H. split.
        * cbn [sbn map low1 printb]. rewrite app_nil_r, printb_param. apply X_par2.
        * cbn [sbn map low1 forallb fb_node]. now rewrite H.
      + split; [|reflexivity]. cbn [sbn map low1 printb]. rewrite app_nil_r. apply X_toks. constructor; [apply inert_esc; cbv; congruence|]. constructor; [apply inert_mname|]. constructor; [apply inert_mname|constructor].
      + split; [|reflexivity]. cbn [sbn map low1 printb]. rewrite app_nil_r. apply X_tok, inert_esc.
        unfold setname, sname. destruct b; cbn; congruence.
      + split; [|reflexivity]. cbn [sbn map low1 printb]. rewrite app_nil_r. apply X_toks.
        constructor; [apply inert_esc; cbv; congruence|]. constructor; [apply inert_esc; unfold ifname, sname; congruence|constructor].
      + split; [|reflexivity]. cbn [sbn map low1 printb]. rewrite app_nil_r. apply X_toks.
        constructor; [apply inert_esc; cbv; congruence|apply inert_cname_arg].
      + split; [|reflexivity]. cbn [sbn map low1 printb]. rewrite app_nil_r. apply X_toks, inert_counter_cmd. cbv; congruence.
      + split; [|reflexivity]. cbn [sbn map low1 printb]. rewrite app_nil_r. apply X_toks, inert_counter_cmd. cbv; congruence.
    - intros b IH d H j D Hj HD. cbn [fi_node] in H. destruct d as [|d]; [discriminate H|].
      destruct j as [|j]; [lia|]. destruct D as [|D]; [lia|].
      destruct (QI_list m b d IH H j D ltac:(lia) ltac:(lia)) as [H1 H2]. split.
      + cbn [sbn map low1 printb]. rewrite app_nil_r, !printb_group.
        apply X_cons; [apply inert_bg|]. apply X_app; [exact H1|apply X_tok, inert_eg].
      + cbn [sbn map low1 forallb]. rewrite andb_true_r. cbn [fb_node]. apply orb_true_iff. right. exact H2.
    - intros g nm np dd b IH d H. discriminate H.
    - intros nm o a IH d H j D Hj HD. cbn [fi_node] in H. apply andb_true_iff in H as [Ho H]. apply andb_true_iff in Ho as [Hu Ho].
      assert (Hopt : option_map (lower j) (option_map (subst d args) o) = o).
      { destruct o as [ws|]; [|reflexivity]. cbn [option_map opt_ok] in *. f_equal.
        rewrite (subst_A d args ws (words_fa ws Ho)). apply lower_A. now apply words_fa. }
      assert (Hoi : Forall inert (opt_toksb o)) by (rewrite (opt_toksb_eq o Ho); now apply inert_opt).
      assert (Ha : X (printb_args a) (printb_args (map (lower j) (map (subst d args) a))) /\
                   forallb (fun arg => match D with O => false | S D' => forallb (fun y => fb_node m y D') arg end)
                           (map (lower j) (map (subst d args) a)) = true).
      { clear Ho Hopt Hoi Hu. induction IH as [|arg a Harg _ IHa]; [split; [apply X_nil|reflexivity]|].
        cbn [forallb] in H. apply andb_true_iff in H as [H1 H2]. destruct (IHa H2) as [I1 I2].
        destruct d as [|d]; [discriminate H1|]. destruct j as [|j]; [lia|]. destruct D as [|D]; [lia|].
        destruct (QI_list m arg d Harg H1 j D ltac:(lia) ltac:(lia)) as [Q1 Q2].
        cbn [map printb_args forallb]. rewrite Q2, I2. split; [|reflexivity].
        apply X_cons; [apply inert_bg|]. apply X_app; [exact Q1|]. apply X_cons; [apply inert_eg|exact I1]. }
      destruct Ha as [A1 A2]. split.
      + cbn [sbn map low1 printb]. rewrite Hopt, app_nil_r. rewrite (printb_call _ _ _ Hu), (printb_call _ _ (map (lower j) (map (subst d args) a))) by (now rewrite !map_length).
        apply X_cons; [apply inert_mname|]. apply X_app; [now apply X_toks|exact A1].
      + cbn [sbn map low1 forallb]. rewrite Hopt, andb_true_r. cbn [fb_node]. apply orb_true_iff. right. rewrite !map_length, Hu, Ho. exact A2.
    - intros t th el IHth IHel d H j D Hj HD. cbn [fi_node] in H. apply andb_true_iff in H as [Ht H]. destruct d as [|d]; [discriminate H|].
      destruct j as [|j]; [lia|]. destruct D as [|D]; [lia|].
      apply andb_true_iff in H as [Hth He]. destruct (QI_list m th d IHth Hth j D ltac:(lia) ltac:(lia)) as [T1 T2].
      assert (E : X (else_partb el) (else_partb (option_map (lower (S j)) (option_map (subst (S d) args) el))) /\
                  match option_map (lower (S j)) (option_map (subst (S d) args) el) with
                  | Some e => forallb (fun y => fb_node m y D) e | None => true end = true).
      { destruct el as [e|]; [|split; [apply X_nil|reflexivity]].
        destruct (QI_list m e d (IHel e eq_refl) He j D ltac:(lia) ltac:(lia)) as [E1 E2].
        cbn [option_map else_partb]. split; [|exact E2]. apply X_cons; [apply inert_esc; cbv; congruence|exact E1]. }
      destruct E as [E1 E2]. split.
      + cbn [sbn map low1 printb]. rewrite app_nil_r, !printb_cond. fold (else_partb el).
        fold (else_partb (option_map (lower (S j)) (option_map (subst (S d) args) el))).
        apply X_app; [apply X_toks, inert_test|]. apply X_app; [exact T1|].
        apply X_app; [exact E1|apply X_tok, inert_esc; cbv; congruence].
      + cbn [sbn map low1 forallb]. rewrite andb_true_r. cbn [fb_node]. apply orb_true_iff. right. rewrite Ht. cbn [andb].
        apply andb_true_iff. split; [exact T2|exact E2].
    - intros a bs el IHbs IHel d H j D Hj HD. cbn [fi_node] in H. apply andb_true_iff in H as [Hh H]. destruct d as [|d]; [discriminate H|].
      destruct j as [|j]; [lia|]. destruct D as [|D]; [lia|].
      apply andb_true_iff in H as [Hbs He]. destruct (case_head_inv _ _ Hh) as (b0 & r & -> & Ha).
      inversion IHbs as [|x l IHb0 IHr]; subst. cbn [forallb] in Hbs. apply andb_true_iff in Hbs as [Hb0 Hr].
      destruct (QI_list m b0 d IHb0 Hb0 j D ltac:(lia) ltac:(lia)) as [B1 B2].
      assert (R : X (printb_ors r) (printb_ors (map (lower (S j)) (map (subst (S d) args) r))) /\
                  forallb (forallb (fun y => fb_node m y D)) (map (lower (S j)) (map (subst (S d) args) r)) = true).
      { clear -IHr Hr Hargs Hn9 Hj HD HX. induction IHr as [|b r Hb _ IHr']; [split; [apply X_nil|reflexivity]|].
        cbn [forallb] in Hr. apply andb_true_iff in Hr as [H1 H2].
        destruct (QI_list m b d Hb H1 j D ltac:(lia) ltac:(lia)) as [Q1 Q2]. destruct (IHr' H2) as [I1 I2].
        cbn [map printb_ors forallb]. rewrite Q2, I2. split; [|reflexivity].
        apply X_cons; [apply inert_esc; cbv; congruence|]. apply X_app; [exact Q1|exact I1]. }
      destruct R as [R1 R2].
      assert (E : X (else_partb el) (else_partb (option_map (lower (S j)) (option_map (subst (S d) args) el))) /\
                  match option_map (lower (S j)) (option_map (subst (S d) args) el) with
                  | Some e => forallb (fun y => fb_node m y D) e | None => true end = true).
      { destruct el as [e|]; [|split; [apply X_nil|reflexivity]].
        destruct (QI_list m e d (IHel e eq_refl) He j D ltac:(lia) ltac:(lia)) as [E1 E2].
        cbn [option_map else_partb]. split; [|exact E2]. apply X_cons; [apply inert_esc; cbv; congruence|exact E1]. }
      destruct E as [E1 E2]. split.
      + cbn [sbn map low1 printb]. rewrite app_nil_r, !printb_case_node.
        apply X_cons; [apply inert_esc; cbv; congruence|]. apply X_app; [apply X_toks, inert_pop|].
        apply X_cons; [apply inert_esc; cbv; congruence|].
        apply X_app; [exact B1|]. apply X_app; [exact R1|].
        apply X_app; [exact E1|apply X_tok, inert_esc; cbv; congruence].
      + cbn [sbn map low1 forallb]. rewrite andb_true_r. cbn [fb_node]. apply orb_true_iff. right.
        cbn [case_head]. rewrite Ha. cbn [andb]. apply andb_true_iff. split; [|exact E2].
        cbn [forallb]. apply andb_true_iff. split; [exact B2|exact R2].
  Qed.

  End Gen.

  Definition Q3 (d : nat) (x : node) : Prop :=
    xp ps (printb_node x) (print (sbn d x)) /\ forallb f2_node (sbn d x) = true.

  Lemma Q3_list l d : Forall (fun y => forall d, (d <= BODY_DEPTH)%nat -> fb3_node n y d = true -> Q3 d y) l -> (d <= BODY_DEPTH)%nat ->
    forallb (fun y => fb3_node n y d) l = true ->
    xp ps (printb l) (print (subst (S d) args l)) /\ forallb f2_node (subst (S d) args l) = true.
  Proof.
    rewrite subst_S. intros IH Hd. induction IH as [|x l Hx _ IH]; intros H; [split; [apply xp_nil|reflexivity]|].
    cbn [forallb] in H. apply andb_true_iff in H as [H1 H2]. destruct (Hx d Hd H1) as [Hx1 Hx2]. destruct (IH H2) as [IH1 IH2].
    cbn [print printb flat_map]. rewrite print_app, forallb_app, Hx2, IH2. split; [now apply xp_app|reflexivity].
  Qed.
  Lemma Q3_fb x d : fb_node n x d = true -> Q3 d x.
  Proof. intros H. destruct (Q_all x d H) as [H1 H2]. split; [rewrite (printb_fb n x d H); exact H1|now apply fa_f2l]. Qed.

  Lemma fb_fb3l k l : forallb (fun y => fb_node k y BODY_DEPTH) l = true -> forallb (fun y => fb3_node k y BODY_DEPTH) l = true.
  Proof. apply forallb_imp. apply Forall_forall. intros y _ Hy. rewrite fb3_unfold, Hy. reflexivity. Qed.

  Lemma Q3_all : forall x d, (d <= BODY_DEPTH)%nat -> fb3_node n x d = true -> Q3 d x.
  Proof.
    apply (node_ind2 (fun x => forall d, (d <= BODY_DEPTH)%nat -> fb3_node n x d = true -> Q3 d x)).
    - intros x Hs d Hd H. rewrite fb3_unfold in H. apply orb_true_iff in H as [H|H]; [exact (Q3_fb _ _ H)|].
      destruct x; try discriminate H; discriminate Hs.
    - intros b IH d Hd H. rewrite fb3_unfold in H. apply orb_true_iff in H as [H|H]; [exact (Q3_fb _ _ H)|].
      destruct d as [|d]; [discriminate H|]. destruct (Q3_list b d IH ltac:(lia) H) as [H1 H2]. split.
      + cbn [sbn print]. rewrite app_nil_r, printb_group, print_group.
        apply xp_cons; [apply inert_bg|]. apply xp_app; [exact H1|apply xp_tok, inert_eg].
      + cbn [sbn forallb f2_node]. rewrite andb_true_r. exact H2.
    - intros g nm np dd b _ d Hd H. rewrite fb3_unfold in H. apply orb_true_iff in H as [H|H]; [exact (Q3_fb _ _ H)|].
      apply andb_true_iff in H as [Hn1 H]. destruct d as [|d]; [discriminate H|]. unfold BODY_DEPTH in Hd. destruct dd as [dd|].
      + apply andb_true_iff in H as [H Hb]. apply andb_true_iff in H as [H Hw]. apply andb_true_iff in H as [Hg H9]. apply andb_true_iff in Hg as [Hu Hg].
        destruct (QI_list (xp ps) XH_xp (S np) b d (proj2 (Forall_forall _ _) (fun y _ => QI_all (xp ps) XH_xp (S np) y)) Hb 49%nat BODY_DEPTH ltac:(lia) ltac:(unfold BODY_DEPTH; lia)) as [B1 B2].
        unfold Q3. cbn [sbn option_map]. rewrite (subst_A (S d) args dd (words_fa dd Hw)). split.
        * cbn [print]. rewrite app_nil_r, printb_newcommand, print_newcommand, (printb_words dd Hw).
          apply xp_cons; [apply inert_esc; cbv; congruence|]. apply xp_cons; [apply inert_bg|]. apply xp_cons; [apply inert_mname|].
          apply xp_cons; [apply inert_eg|]. apply xp_cons; [apply inert_other|].
          apply xp_app; [apply xp_toks, Forall_map_tok, inert_other|].
          apply xp_cons; [apply inert_other|]. apply xp_cons; [apply inert_other|].
          apply xp_app; [apply xp_toks; now apply inert_words|].
          apply xp_cons; [apply inert_other|]. apply xp_cons; [apply inert_bg|].
          apply xp_app; [exact B1|apply xp_tok, inert_eg].
        * cbn [forallb f2_node]. rewrite andb_true_r, Hu, Hg, H9, Hw. cbn [andb]. now apply fb_fb3l.
      + apply andb_true_iff in H as [H Hb]. apply andb_true_iff in H as [H1 H9]. apply andb_true_iff in H1 as [Hu H1].
        destruct (QI_list (xp ps) XH_xp np b d (proj2 (Forall_forall _ _) (fun y _ => QI_all (xp ps) XH_xp np y)) Hb 49%nat BODY_DEPTH ltac:(lia) ltac:(unfold BODY_DEPTH; lia)) as [B1 B2].
        unfold Q3. cbn [sbn option_map]. split.
        * cbn [print]. rewrite app_nil_r, printb_def, print_def, (param_text_plain np Hu).
          apply xp_cons; [destruct g; apply inert_esc; cbv; congruence|]. apply xp_cons; [apply inert_mname|].
          apply xp_app; [apply xp_ptext2|]. apply xp_cons; [apply inert_bg|].
          apply xp_app; [exact B1|apply xp_tok, inert_eg].
        * cbn [forallb f2_node]. rewrite andb_true_r, H9, H1. cbn [andb]. apply orb_true_iff. left. now apply fb_fb3l.
    - intros nm o a _ d Hd H. rewrite fb3_unfold in H. apply orb_true_iff in H as [H|H]; [exact (Q3_fb _ _ H)|discriminate H].
    - intros t th el IHth IHel d Hd H. rewrite fb3_unfold in H. apply orb_true_iff in H as [H|H]; [exact (Q3_fb _ _ H)|].
      apply andb_true_iff in H as [Ht H]. destruct d as [|d]; [discriminate H|].
      apply andb_true_iff in H as [Hth He]. destruct (Q3_list th d IHth ltac:(lia) Hth) as [T1 T2].
      assert (E : xp ps (else_partb el) (else_part (option_map (subst (S d) args) el)) /\
                  match option_map (subst (S d) args) el with Some e => forallb f2_node e | None => true end = true).
      { destruct el as [e|]; [|split; [apply xp_nil|reflexivity]]. destruct (Q3_list e d (IHel e eq_refl) ltac:(lia) He) as [E1 E2].
        cbn [option_map else_part else_partb]. split; [|exact E2]. apply xp_cons; [apply inert_esc; cbv; congruence|exact E1]. }
      destruct E as [E1 E2]. unfold Q3. cbn [sbn]. split.
      + cbn [print]. rewrite printb_cond, print_cond, app_nil_r. fold (else_partb el). fold (else_part (option_map (subst (S d) args) el)).
        apply xp_app; [apply xp_toks, inert_test|]. apply xp_app; [exact T1|].
        apply xp_app; [exact E1|apply xp_tok, inert_esc; cbv; congruence].
      + cbn [forallb f2_node]. now rewrite Ht, T2, E2.
    - intros a bs el IHbs IHel d Hd H. rewrite fb3_unfold in H. apply orb_true_iff in H as [H|H]; [exact (Q3_fb _ _ H)|].
      apply andb_true_iff in H as [Hh H]. destruct d as [|d]; [discriminate H|].
      apply andb_true_iff in H as [Hbs He]. destruct (case_head_inv _ _ Hh) as (b0 & r & -> & Ha).
      inversion IHbs as [|x l IHb0 IHr]; subst. cbn [forallb] in Hbs. apply andb_true_iff in Hbs as [Hb0 Hr].
      destruct (Q3_list b0 d IHb0 ltac:(lia) Hb0) as [B1 B2].
      assert (R : xp ps (printb_ors r) (print_ors (map (subst (S d) args) r)) /\ forallb (forallb f2_node) (map (subst (S d) args) r) = true).
      { clear -IHr Hr Hargs Hn9 Hd. induction IHr as [|b r Hb _ IHr']; [split; [apply xp_nil|reflexivity]|].
        cbn [forallb] in Hr. apply andb_true_iff in Hr as [H1 H2].
        destruct (Q3_list b d Hb ltac:(lia) H1) as [Q1 Q2]. destruct (IHr' H2) as [I1 I2].
        cbn [map print_ors printb_ors forallb]. rewrite Q2, I2. split; [|reflexivity].
        apply xp_cons; [apply inert_esc; cbv; congruence|]. apply xp_app; [exact Q1|exact I1]. }
      destruct R as [R1 R2].
      assert (E : xp ps (else_partb el) (else_part (option_map (subst (S d) args) el)) /\
                  match option_map (subst (S d) args) el with Some e => forallb f2_node e | None => true end = true).
      { destruct el as [e|]; [|split; [apply xp_nil|reflexivity]]. destruct (Q3_list e d (IHel e eq_refl) ltac:(lia) He) as [E1 E2].
        cbn [option_map else_part else_partb]. split; [|exact E2]. apply xp_cons; [apply inert_esc; cbv; congruence|exact E1]. }
      destruct E as [E1 E2]. unfold Q3, sbn. cbn [map]. split.
      + cbn [print]. rewrite printb_case_node, print_case_node, app_nil_r.
        apply xp_cons; [apply inert_esc; cbv; congruence|]. apply xp_app; [apply xp_toks, inert_pop|].
        apply xp_cons; [apply inert_esc; cbv; congruence|].
        apply xp_app; [exact B1|]. apply xp_app; [exact R1|].
        apply xp_app; [exact E1|apply xp_tok, inert_esc; cbv; congruence].
      + cbn [forallb f2_node case_head]. now rewrite Ha, B2, R2, E2.
  Qed.

  Lemma subst_print3 d b : (d <= BODY_DEPTH)%nat -> forallb (fun y => fb3_node n y d) b = true ->
    expand_def (printb b) false ps = Some (print (subst (S d) args b)) /\ forallb f2_node (subst (S d) args b) = true.
  Proof.
    intros Hd H. destruct (Q3_list b d) as [H1 H2]; [apply Forall_forall; intros x _; apply Q3_all|exact Hd|exact H|].
    split; [|exact H2]. specialize (H1 []). rewrite !app_nil_r in H1. rewrite H1. cbn [expand_def]. now rewrite app_nil_r.
  Qed.
End Subst.

(* ---- \def's own reduction of ## (DefCommand: nested parameter text) on text printed in body mode ---- *)
Definition rh (P P' : list tok) : Prop := forall tl acc, reduce_hashes (P ++ tl) O acc = reduce_hashes tl O (rev P' ++ acc).
Lemma XH_rh : XH [] O rh.
Proof.
  split; [intros tl acc; reflexivity|]. split.
  { intros P P' Q Q' HP HQ tl acc. rewrite <- app_assoc, HP, HQ, rev_app_distr, <- app_assoc. reflexivity. }
  split.
  { intros t [Ht _] tl acc. cbn [app reduce_hashes]. rewrite Ht. reflexivity. }
  split; [intros k Hk; lia|].
  intros k tl acc. cbn [app reduce_hashes]. change (is_param hash_tok) with true. cbn iota.
  change (is_param (other (48 + N.of_nat k))) with false. cbn iota. reflexivity.
Qed.

(* a body without #k of an enclosing macro: substitution leaves it alone *)
Lemma subst_fi0 args m k : forall l d, forallb (fun y => fi_node O m y d) l = true -> subst k args l = l.
Proof.
  induction k as [|k IH]; intros l d Hl; [reflexivity|]. cbn [subst].
  induction l as [|x l IHl]; [reflexivity|]. cbn [forallb] in Hl. apply andb_true_iff in Hl as [Hx Hl].
  cbn [flat_map]. rewrite (IHl Hl).
  destruct x; try discriminate Hx; try reflexivity; cbn [fi_node] in Hx.
  - destruct d as [|d]; [discriminate Hx|]. now rewrite (IH body d Hx).
  - apply andb_true_iff in Hx as [Ho Ha]. apply andb_true_iff in Ho as [_ Ho].
    assert (E : map (subst k args) args0 = args0).
    { clear Ho. induction args0 as [|a0 r IHr]; [reflexivity|]. cbn [forallb] in Ha. apply andb_true_iff in Ha as [H1 H2].
      cbn [map]. rewrite (IHr H2). destruct d as [|d]; [discriminate H1|]. now rewrite (IH a0 d H1). }
    rewrite E. destruct opt as [o|]; [|reflexivity]. cbn [option_map opt_ok] in *. now rewrite (subst_A k args o (words_fa o Ho)).
  - apply andb_true_iff in Hx as [H1 H2]. apply Nat.leb_le in H1, H2. lia.
  - apply andb_true_iff in Hx as [_ Hx]. destruct d as [|d]; [discriminate Hx|]. apply andb_true_iff in Hx as [Hth He].
    rewrite (IH thn d Hth). destruct els as [e|]; [|reflexivity]. cbn [option_map]. now rewrite (IH e d He).
  - apply andb_true_iff in Hx as [_ Hx]. destruct d as [|d]; [discriminate Hx|]. apply andb_true_iff in Hx as [Hbs He].
    assert (E : map (subst k args) branches = branches).
    { clear -IH Hbs. induction branches as [|a0 r IHr]; [reflexivity|]. cbn [forallb] in Hbs. apply andb_true_iff in Hbs as [H1 H2].
      cbn [map]. now rewrite (IHr H2), (IH a0 d H1). }
    rewrite E. destruct els as [e|]; [|reflexivity]. cbn [option_map]. now rewrite (IH e d He).
Qed.

Lemma rh_printb np b : forallb (fun y => fi_node O np y BODY_DEPTH) b = true ->
  reduce_hashes (printb b) O [] = printb (lower 50 b) /\ forallb (fun y => fb_node np y BODY_DEPTH) (lower 50 b) = true.
Proof.
  intros H.
  destruct (QI_list [] O rh XH_rh np b BODY_DEPTH
              (proj2 (Forall_forall _ _) (fun y _ => QI_all [] O (Forall_nil _) (Nat.le_0_l 9) rh XH_rh np y)) H 49%nat BODY_DEPTH (le_n _) (le_n _)) as [H1 H2].
  rewrite (subst_fi0 [] np (S BODY_DEPTH) b BODY_DEPTH H) in H1, H2. split; [|exact H2].
  specialize (H1 [] []). rewrite !app_nil_r in H1. rewrite H1. cbn [reduce_hashes]. apply rev_involutive.
Qed.
Lemma rh_ptext np : undelim np = true -> reduce_hashes (param_text2 np) O [] = param_text np.
Proof.
  intros Hu. rewrite (param_text_plain np Hu).
  pose proof (X_ptext2 [] O rh XH_rh 1 np [] []) as H. rewrite !app_nil_r in H. unfold param_text2. rewrite H.
  cbn [reduce_hashes]. apply rev_involutive.
Qed.

(* ---- Definition.invoke on  #1..#n  and braced arguments ---- *)
Definition ptext (i m : nat) : list tok := flat_map (fun i => [hash_tok; other (48 + N.of_nat i)]) (seq i m).

Lemma read_argument_bg a rest : depth_after a O = Some O -> read_argument (bg :: a ++ eg :: rest) = (Some a, rest).
Proof.
  intros Hd. unfold read_argument. cbn [read_optional_spaces]. change (is_space bg) with false. cbn iota.
  unfold read_token. change (is_bgroup bg) with true. cbn iota.
  rewrite (read_group_app a O [] (eg :: rest) O Hd). cbn [read_group].
  change (is_bgroup eg) with false. change (is_egroup eg) with true. cbn iota. now rewrite app_nil_r, rev_involutive.
Qed.

Definition pendB (p : option (list tok)) : list tok := match p with Some a => bg :: a ++ [eg] | None => [] end.
Definition pendokB (p : option (list tok)) : Prop := match p with Some a => depth_after a O = Some O | None => True end.
Lemma nd_wprint w c : forallb (fun t => negb (tok_eqb t (other c))) (wprint w) = true.
Proof.
  unfold wprint. cbn [forallb]. rewrite forallb_app. change (negb (tok_eqb (letter 87) (other c))) with true. cbn [andb forallb].
  change (negb (tok_eqb sp (other c))) with true. rewrite andb_true_r.
  induction (zcode w) as [|x l IHl]; [reflexivity|]. cbn [map forallb]. change (negb (tok_eqb (letter x) (other c))) with true. exact IHl.
Qed.
Lemma words_nd a : forallb is_word a = true -> forall c, forallb (fun t => negb (tok_eqb t (other c))) (print a) = true.
Proof.
  intros H c. destruct (words_print a H) as (ws & ->). clear H. induction ws as [|w ws IH]; [reflexivity|].
  cbn [flat_map]. now rewrite forallb_app, IH, nd_wprint.
Qed.

Lemma match_dtext np : forall args i params pend rest,
  (i + length args <= 10)%nat -> pendokB pend ->
  Forall (fun a => depth_after (print a) O = Some O) args -> dargs_ok np i args = true ->
  match_pattern (ptext0 np i (length args)) false (pend_flag pend) params (pendB pend ++ print_dargs np i args ++ rest)
  = MOk (rev params ++ pend_list pend ++ map Some (map print args)) rest.
Proof.
  induction args as [|a args IH]; intros i params pend rest Hi Hp Hdep Hok.
  - cbn [length ptext0 seq flat_map app map match_pattern]. change (print_dargs np i []) with (@nil tok). cbn [app].
    destruct pend as [a0|]; cbn [pend_flag pendB pend_list match_pattern app].
    + cbn [pendokB] in Hp. rewrite <- app_assoc. cbn [app]. rewrite (read_argument_bg a0 rest Hp). cbn [rev]. reflexivity.
    + now rewrite app_nil_r.
  - inversion Hdep as [|x l Ha Hdep']; subst. rewrite dargs_ok_cons in Hok. apply andb_true_iff in Hok as [Hw Hok].
    cbn [length] in *.
    change (ptext0 np i (S (length args))) with (hash_tok :: digit_tok i :: dl np i ++ ptext0 np (S i) (length args)).
    rewrite mp_hash_digit by lia.
    assert (Hstep : forall r' tail,
              (if pend_flag pend then let '(x, s') := read_argument (pendB pend ++ tail) in match_pattern r' false true (x :: params) s'
               else match_pattern r' false true params (pendB pend ++ tail)) =
              match_pattern r' false true (pend_list pend ++ params) tail).
    { intros r' tail. destruct pend as [a0|]; cbn [pend_flag pendB pend_list app]; [|reflexivity].
      cbn [pendokB] in Hp. rewrite <- app_assoc. cbn [app]. now rewrite (read_argument_bg a0 tail Hp). }
    rewrite Hstep. clear Hstep.
    assert (Hrev : forall tl, rev (pend_list pend ++ params) ++ tl = rev params ++ pend_list pend ++ tl).
    { intros tl. destruct pend; cbn [pend_list app rev]; [now rewrite <- app_assoc | reflexivity]. }
    rewrite print_dargs_cons. pose proof (dl_other np i) as Hdl. destruct (dl np i) as [|d more].
    + cbn [app].
      change ((bg :: print a ++ eg :: print_dargs np (S i) args) ++ rest) with (bg :: (print a ++ eg :: print_dargs np (S i) args) ++ rest).
      rewrite <- app_assoc. cbn [app].
      replace (bg :: print a ++ eg :: print_dargs np (S i) args ++ rest) with (pendB (Some (print a)) ++ print_dargs np (S i) args ++ rest)
        by (cbn [pendB app]; rewrite <- app_assoc; reflexivity).
      change true with (pend_flag (Some (print a))).
      rewrite (IH (S i) (pend_list pend ++ params) (Some (print a)) rest ltac:(lia) Ha Hdep' Hok).
      cbn [pend_list map app]. rewrite Hrev. reflexivity.
    + inversion Hdl as [|x l (c & -> & Hc) Hmore]; subst.
      rewrite <- !app_assoc. rewrite <- app_comm_cons. rewrite mp_delim by reflexivity.
      rewrite <- app_comm_cons. rewrite (read_until_spec (other c) (print a) [] _ (words_nd a Hw c)). cbn [rev app].
      assert (Hlm : forallb lit_ok more = true).
      { clear -Hmore. induction Hmore as [|t l (c' & -> & _) _ IHm]; [reflexivity|]. cbn [forallb]. now rewrite IHm. }
      rewrite (lits_consumed more _ _ _ Hlm).
      change false with (pend_flag None) at 2.
      change (print_dargs np (S i) args ++ rest) with (pendB None ++ print_dargs np (S i) args ++ rest).
      rewrite (IH (S i) (Some (print a) :: pend_list pend ++ params) None rest ltac:(lia) I Hdep' Hok).
      cbn [pend_list map app rev]. rewrite <- app_assoc. cbn [app]. rewrite Hrev. reflexivity.
Qed.

Lemma definition_invoke_params np body args rest :
  (1 <= np <= 9)%nat -> length args = np -> Forall (fun a => depth_after (print a) O = Some O) args -> dargs_ok np 1 args = true ->
  definition_invoke (param_text np) body (print_dargs np 1 args ++ rest)
  = match expand_def body false (None :: map Some (map print args)) with Some o => Some (o ++ rest) | None => None end.
Proof.
  intros Hnp Hlen Hargs Hok. unfold definition_invoke.
  assert (Hne : param_text np <> []) by (destruct np as [|m]; [lia|discriminate]).
  destruct (param_text np) eqn:E; [contradiction|]. rewrite <- E. clear Hne.
  change (param_text np) with (ptext0 np 1 np). rewrite <- Hlen at 2.
  change false with (pend_flag None) at 2. change (print_dargs np 1 args ++ rest) with (pendB None ++ print_dargs np 1 args ++ rest).
  rewrite (match_dtext np args 1 [None] None rest ltac:(lia) I Hargs Hok). cbn [rev app pend_list]. reflexivity.
Qed.

(* ---- stored meanings of F2 ---- *)
Definition good2c (m : MacroLang.meaning) : Prop :=
  match m_default m with
  | None => (m_n m <= 9)%nat /\
      (((1 <= m_n m)%nat /\ forallb (fun y => fb3_node (m_n m) y BODY_DEPTH) (m_body m) = true) \/ (m_n m = O /\ forallb fa_node (m_body m) = true))
  | Some d => (S (m_n m) <= 9)%nat /\ forallb is_word d = true /\ forallb (fun y => fb3_node (S (m_n m)) y BODY_DEPTH) (m_body m) = true /\
              undelim (m_n m) = true
  end.
(* a parameterless \def whose body (handed back as it is) holds definitions with ##k *)
Definition goodv (m : MacroLang.meaning) : Prop := m_default m = None /\ m_n m = O /\ forallb fv_node (m_body m) = true.
Definition good2 (m : MacroLang.meaning) : Prop := good2c m \/ goodv m.

Lemma good2_body_W m : good2 m -> forallb w_node (m_body m) = true.
Proof.
  intros [H|(_ & _ & H)]; [|now apply fv_Wl]. unfold good2c in H. destruct (m_default m).
  - destruct H as (_ & _ & H & _). now apply (fb3_Wl (S (m_n m)) BODY_DEPTH).
  - destruct H as (_ & [[_ H]|[_ H]]); [now apply (fb3_Wl (m_n m) BODY_DEPTH)|now apply fa_Wl].
Qed.

Section Unfold2.
  Context (f : nat) (e : env) (out : list Z) (rest : list node) (budget : nat) (Hs : steps e = S budget).
  Let e1 := tick e budget.

  Definition call_args (m : MacroLang.meaning) (o : option (list node)) (a : list (list node)) : list (list node) :=
    match m_default m with Some d => (match o with Some x => x | None => d end) :: a | None => a end.
  Lemma eval_call nm o a : eval (S f) e out (NCall nm o a :: rest) =
    match lookup_frames nm (frames e1) with
    | None => Stuck 1
    | Some m =>
        if Nat.eqb (length a) (m_n m) then
          let body := subst 50 (call_args m o a) (m_body m) in
          if Nat.ltb 4000 (length body) then MacroLang.OutOfFuel else
          match eval f e1 out body with Ok e' out' => eval f e' out' rest | other => other end
        else Stuck 2
    end.
  Proof. cbn [eval]. rewrite Hs. reflexivity. Qed.
  Lemma gsafe_call nm o a : gsafe (S f) e out (NCall nm o a :: rest) =
    match lookup_frames nm (frames e1) with
    | None => true
    | Some m =>
        let body := subst 50 (call_args m o a) (m_body m) in
        (match o, m_default m with Some _, None => false | _, _ => true end) &&
        gsafe f e1 out body && match eval f e1 out body with Ok e' out' => gsafe f e' out' rest | _ => true end
    end.
  Proof. cbn [gsafe]. rewrite Hs. reflexivity. Qed.

  Lemma eval_call_good nm o a m : lookup_frames nm (frames e1) = Some m ->
    eval (S f) e out (NCall nm o a :: rest) =
    if Nat.eqb (length a) (m_n m) then
      if Nat.ltb 4000 (length (subst 50 (call_args m o a) (m_body m))) then MacroLang.OutOfFuel else
      match eval f e1 out (subst 50 (call_args m o a) (m_body m)) with Ok e' out' => eval f e' out' rest | other => other end
    else Stuck 2.
  Proof. intros Hl. rewrite eval_call, Hl. reflexivity. Qed.
  Lemma eval_call_none nm o a : lookup_frames nm (frames e1) = None -> eval (S f) e out (NCall nm o a :: rest) = Stuck 1.
  Proof. intros Hl. now rewrite eval_call, Hl. Qed.
  Lemma gsafe_call_good nm o a m : lookup_frames nm (frames e1) = Some m ->
    gsafe (S f) e out (NCall nm o a :: rest) =
    (match o, m_default m with Some _, None => false | _, _ => true end) &&
    gsafe f e1 out (subst 50 (call_args m o a) (m_body m)) &&
    match eval f e1 out (subst 50 (call_args m o a) (m_body m)) with Ok e' out' => gsafe f e' out' rest | _ => true end.
  Proof. intros Hl. rewrite gsafe_call, Hl. reflexivity. Qed.
End Unfold2.

(* ---- executing a call ---- *)
Lemma forallb2_Forall {A} (p : A -> bool) ll : forallb (forallb p) ll = true -> Forall (fun l => forallb p l = true) ll.
Proof. induction ll as [|l ll IH]; intros H; [constructor|]. cbn in H. apply andb_true_iff in H as [H1 H2]. constructor; auto. Qed.

(* what may follow a call whose optional argument is absent: not a blank, not "[" *)
Definition safe_tok (t : tok) : Prop := is_space t = false /\ text_is 91 t = false.
Definition safe_rest (r : list tok) : Prop := match r with [] => True | t :: _ => safe_tok t end.
Lemma read_optional_safe r : safe_rest r -> read_optional r = (None, r).
Proof.
  destruct r as [|t r]; intros H; [reflexivity|]. destruct H as [H1 H2].
  unfold read_optional. cbn [read_optional_spaces]. rewrite H1. unfold read_grouping. now rewrite H2.
Qed.
Lemma safe_first x : f2_node x = true -> exists t l, print_node x = t :: l /\ safe_tok t.
Proof.
  intros H. destruct x; try discriminate H.
  - eexists _, _. split; [reflexivity|split; reflexivity].
  - eexists _, _. split; [apply print_group|split; reflexivity].
  - destruct default.
    + eexists _, _. split; [apply print_newcommand|split; reflexivity].
    + eexists _, _. split; [apply print_def|split; destruct global; reflexivity].
  - eexists _, _. split; [apply print_let|split; reflexivity].
  - eexists _, _. split; [apply print_dcall|split; reflexivity].
  - eexists _, _. split; [reflexivity|split; reflexivity].
  - cbn [f2_node] in H. apply andb_true_iff in H as [H _]. apply andb_true_iff in H as [Ht _].
    rewrite print_cond. destruct t as [| |a r b|a| | | | |]; try discriminate Ht.
    + eexists _, _. split; [reflexivity|split; reflexivity].
    + eexists _, _. split; [reflexivity|split; reflexivity].
    + eexists _, _. split; [reflexivity|split; reflexivity].
    + eexists _, _. split; [reflexivity|split; reflexivity].
    + eexists _, _. split; [reflexivity|split; reflexivity].
  - cbn [f2_node] in H. apply andb_true_iff in H as [H _]. apply andb_true_iff in H as [Hh _].
    destruct (case_head_inv _ _ Hh) as (b0 & r & -> & Ha).
    eexists _, _. split; [apply print_case_node|split; reflexivity].
  - eexists _, _. split; [reflexivity|split; destruct b; reflexivity].
  - eexists _, _. split; [reflexivity|split; reflexivity].
  - eexists _, _. split; [reflexivity|split; reflexivity].
  - eexists _, _. split; [reflexivity|split; reflexivity].
  - eexists _, _. split; [reflexivity|split; reflexivity].
Qed.
Lemma safe_print ns r : forallb f2_node ns = true -> safe_rest r -> safe_rest (print ns ++ r).
Proof.
  destruct ns as [|x ns]; intros H Hr; [exact Hr|]. cbn [forallb] in H. apply andb_true_iff in H as [Hx _].
  destruct (safe_first x Hx) as (t & l & E & Ht). cbn [print]. rewrite E. exact Ht.
Qed.

(* words contain no brackets *)
Definition nobr (t : tok) : Prop := text_is 91 t = false /\ text_is 93 t = false.
Lemma bdepth_nobr l : Forall nobr l -> forall d, bdepth_after l d = Some d.
Proof. induction 1 as [|t l [H1 H2] _ IH]; intros d; [reflexivity|]. cbn [bdepth_after]. rewrite H1, H2. apply IH. Qed.
Lemma pcode_chars p : Forall (fun c => c = 97 \/ c = 98) (pcode p).
Proof. induction p; cbn [pcode]; constructor; auto. Qed.
Lemma nobr_wprint w : Forall nobr (wprint w).
Proof.
  unfold wprint. constructor; [split; reflexivity|]. apply Forall_app. split; [|constructor; [split; reflexivity|constructor]].
  assert (H : Forall (fun c => c = 112 \/ c = 110 \/ c = 97 \/ c = 98) (zcode w)).
  { destruct w; cbn [zcode]; [constructor| |]; (constructor; [auto|]); (eapply Forall_impl; [|apply pcode_chars]); intros c [->| ->]; auto. }
  induction H as [|c l Hc _ IH]; [constructor|]. cbn [map]. constructor; [|exact IH].
  destruct Hc as [->|[->|[->| ->]]]; split; reflexivity.
Qed.
Lemma words_brackets x : forallb is_word x = true -> bracket_balanced (print x) = true.
Proof.
  intros H. destruct (words_print x H) as (ws & ->). unfold bracket_balanced. rewrite bdepth_nobr; [reflexivity|].
  clear. induction ws as [|w ws IH]; [constructor|]. cbn [flat_map]. apply Forall_app. split; [apply nobr_wprint|exact IH].
Qed.

Lemma read_n_print a : forall acc rest, Forall (fun x => depth_after (print x) O = Some O) a ->
  read_n_arguments (length a) (print_args a ++ rest) acc = (rev acc ++ map Some (map print a), rest).
Proof.
  induction a as [|x a IH]; intros acc rest H; [cbn; now rewrite app_nil_r|].
  inversion H as [|y l Hx Ha]; subst. cbn [length read_n_arguments print_args app]. rewrite <- app_assoc. cbn [app].
  rewrite (read_argument_bg _ _ Hx), IH by exact Ha. cbn [rev map]. now rewrite <- app_assoc.
Qed.

(* ---- executing a call (with or without optional argument) ---- *)

Lemma exec_call2 U B nm m o a r :
  good2c m -> chain_get U B (mname nm) = Some (mean_of m) -> opt_ok o = true -> forallb (forallb fa_node) a = true ->
  length a = m_n m -> (match o, m_default m with Some _, None => false | _, _ => true end) = true -> safe_rest r ->
  dargs_ok (m_n m) 1 a = true ->
  exec (St (esc (mname nm) :: opt_toks o ++ print_dargs (m_n m) 1 a ++ r) U B) [] (St (print (subst 50 (call_args m o a) (m_body m)) ++ r) U B) /\
  forallb f2_node (subst 50 (call_args m o a) (m_body m)) = true.
Proof.
  intros Hm Hlk Ho Ha Hlen Hom Hr Hok. pose proof (forallb2_Forall _ _ Ha) as HaF.
  assert (Hdep : Forall (fun x => depth_after (print x) O = Some O) a).
  { eapply Forall_impl; [|exact HaF]. intros x Hx. apply depth_Wl. now apply fa_Wl. }
  unfold good2c in Hm. unfold mean_of in Hlk. unfold call_args. destruct (m_default m) as [dflt|] eqn:Ed.
  - (* a \newcommand with optional argument *)
    destruct Hm as (Hn9 & Hdw & Hb & Hu).
    rewrite (print_dargs_plain (m_n m) a 1) by (intros j Hj; apply (undelim_nil _ _ Hu); lia).
    set (oa := match o with Some x => x | None => dflt end).
    assert (Hoa : forallb fa_node oa = true) by (subst oa; destruct o as [x|]; apply words_fa; [exact Ho|exact Hdw]).
    destruct (subst_print3 (oa :: a) (S (m_n m)) (Forall_cons _ Hoa HaF) Hn9 BODY_DEPTH (m_body m) (le_n _) Hb) as [Hx HA].
    split; [|exact HA].
    eapply (ex_cont O); [|apply ex_refl].
    rewrite (step_macro _ _ (esc (mname nm)) (mname nm) _ _ _ _ eq_refl eq_refl Hlk). cbn [invoke input].
    assert (Hopt : read_optional (opt_toks o ++ print_args a ++ r)
                   = (match o with Some x => Some (print x) | None => None end, print_args a ++ r)).
    { destruct o as [x|]; cbn [opt_toks opt_ok] in *.
      - cbn [app]. rewrite <- app_assoc. cbn [app]. apply (read_optional_present (print x)). now apply words_brackets.
      - cbn [app]. destruct a as [|a0 a']; [cbn [print_args app]; now apply read_optional_safe|reflexivity]. }
    unfold newcommand_invoke. rewrite Hopt. cbn [Nat.pred]. rewrite <- Hlen, (read_n_print a [] r Hdep). cbn [rev app].
    replace (Some match (match o with Some x => Some (print x) | None => None end) with Some x => x | None => print dflt end
             :: map Some (map print a)) with (map Some (map print (oa :: a))) by (subst oa; destruct o; reflexivity).
    rewrite Hx. reflexivity.
  - destruct o as [x|]; [discriminate Hom|]. cbn [opt_toks app]. destruct Hm as (Hn9 & Hbody).
    destruct (m_n m) as [|k] eqn:En.
    + (* no parameters: the definition is returned as it is *)
      destruct a; [|discriminate Hlen]. change (print_dargs O 1 []) with (@nil tok). cbn [app].
      assert (HA : forallb fa_node (m_body m) = true) by (destruct Hbody as [[H _]|[_ H]]; [lia|exact H]).
      rewrite (subst_A 50 [] _ HA). rewrite (printb_Al _ HA) in Hlk. split; [|now apply fa_f2l].
      eapply (ex_cont O); [|apply ex_refl].
      rewrite (step_macro _ _ (esc (mname nm)) (mname nm) _ _ _ _ eq_refl eq_refl Hlk). reflexivity.
    + destruct Hbody as [[_ Hb]|[H0 _]]; [|discriminate H0].
      destruct (subst_print3 a (S k) HaF ltac:(lia) BODY_DEPTH (m_body m) (le_n _) Hb) as [Hx HA].
      split; [|exact HA].
      eapply (ex_cont O); [|apply ex_refl].
      rewrite (step_macro _ _ (esc (mname nm)) (mname nm) _ _ _ _ eq_refl eq_refl Hlk). cbn [invoke input].
      rewrite (definition_invoke_params (S k) (printb (m_body m)) a r ltac:(lia) Hlen Hdep Hok), Hx. reflexivity.
Qed.

(* ---- \newcommand{\zq..}[n+1][default]{body} ---- *)
Lemma drop_relax_tok r : drop_relax (esc s_relax :: r) = r.
Proof. reflexivity. Qed.

Lemma exec_newcommand G fs U B nm np d body r : Rfg G fs U B -> (S np <= 9)%nat ->
  forallb is_word d = true -> depth_after body O = Some O ->
  match chain_get U B (mname nm) with Some (MDef _ _) | Some (MNew _ _ _) | None => True | _ => False end ->
  exec (St (esc s_newcommand :: bg :: esc (mname nm) :: eg :: lbr :: map other (digits (N.of_nat (S np))) ++ rbr :: lbr :: print d ++ rbr ::
            bg :: body ++ eg :: r) U B)
       [prim_elem (PNewcommand false)]
       (St r U ((mname nm, MNew (S np) (Some (print d)) body) :: B)).
Proof.
  intros HR Hnp Hd Hb Hnoprim.
  set (la := length (digits (N.of_nat (S np)))).
  eapply (ex_cont (S (S la))).
  2: { eapply (ex_yield O); [apply step_elem; reflexivity|apply ex_refl]. }
  rewrite (step_macro _ _ _ s_newcommand (MPrim (PNewcommand false))); [|reflexivity|reflexivity|apply (prim_lookupg G fs); [exact HR|not_mname|reflexivity]].
  cbn [invoke]. unfold newcommand_def, ros. cbn [input read_optional_spaces]. change (is_space bg) with false. cbn iota.
  unfold set_input. cbn [input ups bottom]. change (is_elem bg) with false. cbn iota.
  change (seqb (ttext bg) [42]) with false. cbn iota. cbn [input read_optional_spaces]. change (is_space bg) with false. cbn iota.
  unfold read_token. change (is_bgroup bg) with true. cbn iota. cbn [read_group].
  change (is_bgroup (esc (mname nm))) with false. change (is_egroup (esc (mname nm))) with false. cbn iota.
  change (is_bgroup eg) with false. change (is_egroup eg) with true. cbn iota. cbn [rev app existsb filter].
  change (is_elem (esc (mname nm))) with false. change (tcat (esc (mname nm)) =? CC_ESCAPE) with true. cbn iota. cbn [orb].
  assert (Hbb : bracket_balanced (map other (digits (N.of_nat (S np)))) = true).
  { unfold bracket_balanced. rewrite bdepth_nobr; [reflexivity|]. pose proof (digits_isdig (N.of_nat (S np))) as Hdg.
    induction Hdg as [|c l Hc _ IH]; [constructor|]. cbn [map]. constructor; [|exact IH].
    unfold isdig in Hc. unfold nobr, text_is, other. cbn [tcat ttext]. split; cbn; lia. }
  rewrite (read_optional_present _ _ Hbb).
  assert (Hpl : forallb plainchar (map other (digits (N.of_nat (S np)))) = true).
  { clear. induction (digits (N.of_nat (S np))) as [|c l IH]; [reflexivity|]. cbn [map forallb]. now rewrite IH. }
  rewrite Hpl.
  rewrite (read_integer_digits la (N.of_nat (S np)) (esc s_relax)); [|apply stopper_relax, (prim_lookupg G fs); [exact HR|not_mname|reflexivity]|subst la; lia].
  cbn [bind input]. rewrite drop_relax_tok.
  rewrite (read_optional_present _ _ (words_brackets d Hd)).
  cbn [read_optional_spaces]. change (is_space bg) with false. cbn iota. change (is_bgroup bg) with true. cbn iota.
  rewrite (read_group_app body O [] (eg :: r) O Hb). cbn [read_group]. change (is_bgroup eg) with false. change (is_egroup eg) with true. cbn iota.
  rewrite app_nil_r, rev_involutive. cbn [ttext esc]. unfold lookup. cbn [ups bottom].
  rewrite nat_N_Z, Nat2Z.id.
  destruct (chain_get U B (mname nm)) as [[a' b'|n' o' b'|p|k|k|k b0|b0|z0]|] eqn:El; try reflexivity; contradiction.
Qed.

(* ---- \ifcase ---- *)
Section Unfold3.
  Context (f : nat) (e : env) (out : list Z) (rest : list node) (budget : nat) (Hs : steps e = S budget).
  Let e1 := tick e budget.
  Definition case_branch (z : Z) (bs : list (list node)) (el : option (list node)) : list node :=
    if ((0 <=? z) && (z <? Z.of_nat (length bs)))%Z then nth (Z.to_nat z) bs [] else match el with Some x => x | None => [] end.
  Lemma eval_case a bs el : eval (S f) e out (NCase a bs el :: rest) =
    match eval f e1 out (case_branch (opval e1 a) bs el) with Ok e' out' => eval f e' out' rest | other => other end.
  Proof. cbn [eval]. now rewrite Hs. Qed.
  Lemma eval_let nm tg : eval (S f) e out (NLet nm tg :: rest) =
    match lookup_frames tg (frames e1) with
    | Some m => eval f (with_frames e1 (def_local nm m (frames e1))) out rest
    | None => Stuck 1
    end.
  Proof. cbn [eval]. rewrite Hs. reflexivity. Qed.
  Lemma gsafe_let nm tg : gsafe (S f) e out (NLet nm tg :: rest) =
    match lookup_frames tg (frames e1) with
    | Some m => gsafe f (with_frames e1 (def_local nm m (frames e1))) out rest
    | None => true
    end.
  Proof. cbn [gsafe]. rewrite Hs. reflexivity. Qed.
  Definition with_switches (e0 : env) (sws : list (Z * bool)) : env :=
    {| frames := frames e0; counters := counters e0; switches := sws; steps := steps e0 |}.
  Definition new_switch (sw : Z) (sws : list (Z * bool)) : list (Z * bool) :=
    match alookup sw sws with Some _ => sws | None => aset sw false sws end.
  Lemma eval_setsw sw b : eval (S f) e out (NSetSwitch sw b :: rest) = eval f (with_switches e1 (aset sw b (switches e1))) out rest.
  Proof. cbn [eval]. now rewrite Hs. Qed.
  Lemma gsafe_setsw sw b : gsafe (S f) e out (NSetSwitch sw b :: rest) =
    (match alookup sw (switches e1) with Some _ => true | None => false end) &&
    gsafe f (with_switches e1 (aset sw b (switches e1))) out rest.
  Proof. cbn [gsafe]. now rewrite Hs. Qed.
  Lemma eval_newsw sw : eval (S f) e out (NNewSwitch sw :: rest) = eval f (with_switches e1 (new_switch sw (switches e1))) out rest.
  Proof. cbn [eval]. now rewrite Hs. Qed.
  Lemma gsafe_newsw sw : gsafe (S f) e out (NNewSwitch sw :: rest) = gsafe f (with_switches e1 (new_switch sw (switches e1))) out rest.
  Proof. cbn [gsafe]. now rewrite Hs. Qed.
  Definition with_counters (e0 : env) (cs : list (Z * Z)) : env :=
    {| frames := frames e0; counters := cs; switches := switches e0; steps := steps e0 |}.
  Lemma eval_step c : eval (S f) e out (NStep c :: rest) = eval f (with_counters e1 (aset c (cnt e1 c + 1)%Z (counters e1))) out rest.
  Proof. cbn [eval]. now rewrite Hs. Qed.
  Lemma gsafe_step c : gsafe (S f) e out (NStep c :: rest) = gsafe f (with_counters e1 (aset c (cnt e1 c + 1)%Z (counters e1))) out rest.
  Proof. cbn [gsafe]. now rewrite Hs. Qed.
  Lemma eval_setc c z : eval (S f) e out (NSetC c z :: rest) = eval f (with_counters e1 (aset c z (counters e1))) out rest.
  Proof. cbn [eval]. now rewrite Hs. Qed.
  Lemma gsafe_setc c z : gsafe (S f) e out (NSetC c z :: rest) = gsafe f (with_counters e1 (aset c z (counters e1))) out rest.
  Proof. cbn [gsafe]. now rewrite Hs. Qed.
  Lemma eval_addc c z : eval (S f) e out (NAddC c z :: rest) = eval f (with_counters e1 (aset c (cnt e1 c + z)%Z (counters e1))) out rest.
  Proof. cbn [eval]. now rewrite Hs. Qed.
  Lemma gsafe_addc c z : gsafe (S f) e out (NAddC c z :: rest) = gsafe f (with_counters e1 (aset c (cnt e1 c + z)%Z (counters e1))) out rest.
  Proof. cbn [gsafe]. now rewrite Hs. Qed.
  Lemma gsafe_case a bs el : gsafe (S f) e out (NCase a bs el :: rest) =
    gsafe f e1 out (case_branch (opval e1 a) bs el) &&
    match eval f e1 out (case_branch (opval e1 a) bs el) with Ok e' out' => gsafe f e' out' rest | _ => true end.
  Proof. cbn [gsafe]. now rewrite Hs. Qed.
  Lemma eval_expandafter a b : eval (S f) e out (NExpandAfter a b :: rest) =
    match lookup_frames a (frames e1), lookup_frames b (frames e1) with
    | Some ma, Some mb =>
        match m_n mb, m_default mb, m_default ma with
        | O, None, None =>
            match take_groups (m_n ma) (subst 50 [] (m_body mb)) [] with
            | Some (args, after) =>
                match eval f e1 out (NCall a None args :: after) with Ok e' out' => eval f e' out' rest | other => other end
            | None => Stuck 3
            end
        | _, _, _ => Stuck 3
        end
    | _, _ => Stuck 1
    end.
  Proof. cbn [eval]. rewrite Hs. reflexivity. Qed.
  Lemma gsafe_expandafter a b : gsafe (S f) e out (NExpandAfter a b :: rest) =
    match lookup_frames a (frames e1), lookup_frames b (frames e1) with
    | Some ma, Some mb =>
        match m_n mb, m_default mb, m_default ma with
        | O, None, None =>
            undelim (m_n ma) && forallb fa_node (m_body mb) && (match m_body mb with [] => false | _ => true end) &&
            match take_groups (m_n ma) (subst 50 [] (m_body mb)) [] with
            | Some (args, after) =>
                gsafe f e1 out (NCall a None args :: after) &&
                match eval f e1 out (NCall a None args :: after) with Ok e' out' => gsafe f e' out' rest | _ => true end
            | None => true
            end
        | _, _, _ => true
        end
    | _, _ => true
    end.
  Proof. cbn [gsafe]. rewrite Hs. reflexivity. Qed.
End Unfold3.

(* ---- \expandafter\a\b with \b a parameterless \def of non-empty body ---- *)
Lemma print_args_app a b : print_args (a ++ b) = print_args a ++ print_args b.
Proof.
  induction a as [|x a IH]; [reflexivity|]. cbn [app print_args]. rewrite IH. cbn [app]. f_equal. rewrite <- app_assoc. reflexivity.
Qed.
Lemma take_print k : forall l acc args after, take_groups k l acc = Some (args, after) -> forallb fa_node l = true ->
  Forall (fun a => forallb fa_node a = true) acc ->
  print_args (rev acc) ++ print l = print_args args ++ print after /\ Forall (fun a => forallb fa_node a = true) args /\ forallb fa_node after = true.
Proof.
  induction k as [|k IH]; intros l acc args after Ht Hl Hacc.
  - cbn [take_groups] in Ht. injection Ht as <- <-. split; [reflexivity|]. split; [now apply Forall_rev|exact Hl].
  - cbn [take_groups] in Ht. destruct l as [|x l]; [discriminate Ht|]. destruct x; try discriminate Ht.
    cbn [forallb fa_node] in Hl. apply andb_true_iff in Hl as [Hg Hl].
    destruct (IH l (body :: acc) args after Ht Hl (Forall_cons _ Hg Hacc)) as (E & HA & HB). split; [|split; assumption].
    rewrite <- E. cbn [rev print]. rewrite print_args_app, print_group. cbn [print_args]. rewrite <- !app_assoc. reflexivity.
Qed.
Lemma take_len k : forall l acc args after, take_groups k l acc = Some (args, after) -> length args = (length acc + k)%nat.
Proof.
  induction k as [|k IH]; intros l acc args after Ht; cbn [take_groups] in Ht.
  - injection Ht as <- _. rewrite rev_length. lia.
  - destruct l as [|x l]; [discriminate Ht|]. destruct x; try discriminate Ht. rewrite (IH _ _ _ _ Ht). cbn [length]. lia.
Qed.
Lemma Forall_forallb2 {A} (p : A -> bool) ll : Forall (fun l => forallb p l = true) ll -> forallb (forallb p) ll = true.
Proof. induction 1 as [|l ll Hl _ IH]; [reflexivity|]. cbn [forallb]. now rewrite Hl, IH. Qed.

Lemma exec_expandafter G fs U B a b body r : Rfg G fs U B -> chain_get U B (mname b) = Some (MDef [] body) -> body <> [] ->
  exec (St (esc s_expandafter :: esc (mname a) :: esc (mname b) :: r) U B) [] (St (esc (mname a) :: body ++ r) U B).
Proof.
  intros HR Hlk Hne. eapply (ex_cont O); [|apply ex_refl].
  rewrite (step_macro _ _ _ s_expandafter (MPrim PExpandafter)); [|reflexivity|reflexivity|apply (prim_lookupg G fs); [exact HR|not_mname|reflexivity]].
  cbn [invoke]. unfold expandafter_invoke. cbn [input]. change (is_elem (esc (mname b))) with false. cbn iota.
  change (tcat (esc (mname b)) =? CC_ESCAPE) with true. cbn iota. unfold getitem, lookup, set_input. cbn [ups bottom input ttext esc]. rewrite Hlk.
  destruct body; [contradiction|]. reflexivity.
Qed.

Fixpoint fin (r : list (list node)) (c : list tok) (cs : list (list tok)) : list (list tok) * list tok :=
  match r with [] => (cs, c) | b :: r' => fin r' (print b) (cs ++ [c]) end.
Lemma fin_spec r : forall c cs, fst (fin r c cs) ++ [snd (fin r c cs)] = cs ++ c :: map print r.
Proof. induction r as [|b r IH]; intros c cs; [reflexivity|]. cbn [fin map]. rewrite IH, <- app_assoc. reflexivity. Qed.

Lemma tscan_ors r : Forall (fun b => forall k, walks (print b) k k) r -> forall c cs T,
  tscan_go (print_ors r ++ T) O (rev c) (rev cs) None
  = tscan_go T O (rev (snd (fin r c cs))) (rev (fst (fin r c cs))) None.
Proof.
  induction 1 as [|b r Hb _ IH]; intros c cs T; [reflexivity|].
  cbn [print_ors app tscan_go]. change (classify (esc s_or)) with KOr. cbn iota.
  rewrite <- app_assoc, (Hb O), app_nil_r, rev_involutive. cbn [fin].
  replace (c :: rev cs) with (rev (cs ++ [c])) by (rewrite rev_app_distr; reflexivity). apply IH.
Qed.

Lemma nth_all X b0 r idx : (idx < S (length r))%nat ->
  nth idx ((X ++ print b0) :: map print r) [] = (if Nat.eqb idx 0 then X else []) ++ print (nth idx (b0 :: r) []).
Proof.
  intros H. destruct idx as [|k]; [reflexivity|]. cbn [nth Nat.eqb app].
  change (@nil tok) with (print []). now rewrite map_nth.
Qed.

Lemma tprocess_case X b0 r el tl z :
  Forall (fun t => classify t = KTok 0%Z) X -> (forall k, walks (print b0) k k) ->
  Forall (fun b => forall k, walks (print b) k k) r -> (forall e, el = Some e -> forall k, walks (print e) k k) ->
  tprocess (WCase z) (X ++ print b0 ++ print_ors r ++ else_part el ++ esc s_fi :: tl)
  = Some (((if (z =? 0)%Z then X else []) ++ print (case_branch z (b0 :: r) el)) ++ tl).
Proof.
  intros HX Hb0 Hr Hel. unfold tprocess, tscan.
  assert (Hw : walks (X ++ print b0) O O) by (eapply walks_app; [now apply walks_toks|apply Hb0]).
  rewrite app_assoc, Hw, app_nil_r. change (@nil (list tok)) with (rev (@nil (list tok))).
  rewrite <- app_assoc, (tscan_ors r Hr (X ++ print b0) []).
  pose proof (fin_spec r (X ++ print b0) []) as Hfin. cbn [app] in Hfin.
  set (cs' := fst (fin r (X ++ print b0) [])) in *. set (c' := snd (fin r (X ++ print b0) [])) in *.
  set (ALL := (X ++ print b0) :: map print r) in *.
  assert (Hlen : length ALL = S (length r)) by (subst ALL; cbn; now rewrite map_length).
  assert (Hsel : forall extra, (length extra = 1)%nat ->
            nth (if ((0 <=? z) && (z <? Z.of_nat (length ALL)))%Z then Z.to_nat z else length ALL) (ALL ++ extra) []
            = (if (z =? 0)%Z then X else []) ++
              (if ((0 <=? z) && (z <? Z.of_nat (S (length r))))%Z then print (nth (Z.to_nat z) (b0 :: r) []) else nth O extra [])).
  { intros extra Hex. rewrite Hlen. destruct ((0 <=? z) && (z <? Z.of_nat (S (length r))))%Z eqn:Er.
    - rewrite app_nth1 by lia. subst ALL. rewrite nth_all by lia.
      destruct (Z.eqb_spec z 0) as [->|Hz0]; [reflexivity|]. destruct (Z.to_nat z) eqn:Ez; [lia|reflexivity].
    - rewrite app_nth2 by lia. rewrite Hlen, Nat.sub_diag.
      destruct (Z.eqb_spec z 0) as [->|Hz0]; [cbn in Er; discriminate Er|reflexivity]. }
  unfold case_branch. cbn [length].
  destruct el as [e|]; cbn [else_part app].
  - cbn [tscan_go]. change (classify (esc s_else)) with KElse. cbn iota.
    rewrite (Hel e eq_refl O), app_nil_r. cbn [tscan_go]. change (classify (esc s_fi)) with KFi. cbn iota.
    unfold tselect. cbn [telse tcases trest]. rewrite !rev_involutive. cbn [rev]. rewrite rev_involutive, rev_length, Hfin.
    replace (S (length cs')) with (length ALL) by (rewrite <- Hfin, app_length; cbn; lia).
    rewrite (Hsel [print e] eq_refl). cbn [nth].
    destruct ((0 <=? z) && (z <? Z.of_nat (S (length r))))%Z; now rewrite <- ?app_assoc.
  - cbn [tscan_go]. change (classify (esc s_fi)) with KFi. cbn iota.
    unfold tselect. cbn [telse tcases trest]. rewrite !rev_involutive. cbn [rev]. rewrite rev_involutive, Hfin.
    rewrite (Hsel [[]] eq_refl). cbn [nth].
    destruct ((0 <=? z) && (z <? Z.of_nat (S (length r))))%Z; now rewrite <- ?app_assoc.
Qed.



(* ---- \let\new=\old ---- *)
Lemma exec_let G fs U B nm tg m r : Rfg G fs U B -> chain_get U B (mname tg) = Some m ->
  exec (St (esc s_let :: esc (mname nm) :: other 61 :: esc (mname tg) :: r) U B) [prim_elem PLet]
       (add_local (mname nm) m (St r U B)).
Proof.
  intros HR Hl. eapply (ex_cont O).
  - rewrite (step_macro _ _ (esc s_let) s_let (MPrim PLet)); [|reflexivity|reflexivity|apply (prim_lookupg G fs); [exact HR|not_mname|reflexivity]].
    cbn [invoke]. unfold let_invoke, ros, set_input, getitem, lookup. cbn [input ups bottom read_optional_spaces].
    change (is_space (esc (mname nm))) with false. cbn iota. cbn [input ups bottom read_optional_spaces].
    change (is_space (other 61)) with false. cbn iota. cbn [input]. change (is_elem (other 61)) with false. cbn iota.
    change (seqb (ttext (other 61)) [61]) with true. cbn iota. cbn [input ups bottom read_optional_spaces].
    change (is_space (esc (mname tg))) with false. cbn iota. cbn [input ups bottom].
    change (is_elem (esc (mname tg)) || (tcat (esc (mname tg)) =? CC_ESCAPE)) with true. cbn iota.
    change (def_name (esc (mname tg))) with (mname tg). change (def_name (esc (mname nm))) with (mname nm).
    rewrite Hl. reflexivity.
  - destruct (add_local (mname nm) m (St r U B)) as [i U' B'] eqn:E.
    assert (Hi : i = r) by (unfold add_local, add_global, set_bottom, set_ups in E; cbn in E; destruct U; inversion E; reflexivity).
    subst i. unfold push_tok, set_input. cbn [input ups bottom].
    eapply (ex_yield O); [apply step_elem; reflexivity|apply ex_refl].
Qed.

(* ---- switches (\newif) ---- *)
Definition cellkey (n : N) (sw : Z) : list N := 0 :: n :: ifname sw.
Definition SwR (sws : list (Z * bool)) (B : Engine.frame) : Prop :=
  forall sw, match alookup sw sws with
             | Some b => exists n,
                 findm (ifname sw) B = Some (MIf (cellkey n sw)) /\
                 findm (setname sw true) B = Some (MIfSet (cellkey n sw) true) /\
                 findm (setname sw false) B = Some (MIfSet (cellkey n sw) false) /\
                 findm (cellkey n sw) B = Some (MCell b)
             | None => findm (ifname sw) B = None
             end.

Lemma ifname_inj a b : ifname a = ifname b -> a = b.
Proof. unfold ifname, sname. intros H. apply zcode_inj. congruence. Qed.
Lemma zcode_alpha z : Forall (fun c => c = 112 \/ c = 110 \/ c = 97 \/ c = 98) (zcode z).
Proof. destruct z; cbn [zcode]; [constructor| |]; (constructor; [auto|]); (eapply Forall_impl; [|apply pcode_chars]); intros c [->| ->]; auto. Qed.
Lemma setname_inj a x b y : setname a x = setname b y -> a = b.
Proof.
  unfold setname, sname. intros H. injection H as H. apply zcode_inj.
  pose proof (zcode_alpha a) as Ha. pose proof (zcode_alpha b) as Hb. revert H Ha Hb.
  generalize (zcode a) (zcode b). intros l1. induction l1 as [|c l1 IH]; intros l2 H Ha Hb.
  - destruct l2 as [|d l2]; [reflexivity|]. inversion Hb as [|? ? Hd _]; subst. cbn [app] in H.
    destruct x, y; cbn in H; injection H as H _; destruct Hd as [->|[->|[->| ->]]]; discriminate H.
  - destruct l2 as [|d l2].
    + inversion Ha as [|? ? Hc _]; subst. cbn [app] in H.
      destruct x, y; cbn in H; injection H as H _; destruct Hc as [->|[->|[->| ->]]]; discriminate H.
    + cbn [app] in H. injection H as -> H. f_equal. inversion Ha; inversion Hb; subst. now apply IH.
Qed.

Lemma SwR_init : SwR [] base_frame.
Proof. intros sw. reflexivity. Qed.

Lemma SwR_add_mname sws B nm v : SwR sws B -> SwR sws ((mname nm, v) :: B).
Proof.
  intros H sw. specialize (H sw). destruct (alookup sw sws) as [b|].
  - destruct H as (n & H1 & H2 & H3 & H4). exists n. cbn [findm].
    change (seqb (ifname sw) (mname nm)) with false. change (seqb (cellkey n sw) (mname nm)) with false.
    replace (seqb (setname sw true) (mname nm)) with false by reflexivity.
    replace (seqb (setname sw false) (mname nm)) with false by reflexivity. cbn iota. auto.
  - cbn [findm]. change (seqb (ifname sw) (mname nm)) with false. exact H.
Qed.

Lemma SwR_set sws B sw0 b0 b n0 : SwR sws B -> alookup sw0 sws = Some b0 -> findm (ifname sw0) B = Some (MIf (cellkey n0 sw0)) ->
  SwR (aset sw0 b sws) ((cellkey n0 sw0, MCell b) :: B).
Proof.
  intros H H0 Hk sw. rewrite alookup_aset. destruct (Z.eqb_spec sw sw0) as [->|Hne].
  - specialize (H sw0). rewrite H0 in H. destruct H as (n & H1 & H2 & H3 & H4).
    rewrite Hk in H1. injection H1 as E. assert (n = n0) by (unfold cellkey in E; congruence). subst n.
    exists n0. cbn [findm]. change (seqb (ifname sw0) (cellkey n0 sw0)) with false.
    replace (seqb (setname sw0 true) (cellkey n0 sw0)) with false by reflexivity.
    replace (seqb (setname sw0 false) (cellkey n0 sw0)) with false by reflexivity. rewrite seqb_refl. cbn iota. auto.
  - specialize (H sw). destruct (alookup sw sws) as [bb|].
    + destruct H as (n & H1 & H2 & H3 & H4). exists n. cbn [findm].
      change (seqb (ifname sw) (cellkey n0 sw0)) with false.
      replace (seqb (setname sw true) (cellkey n0 sw0)) with false by reflexivity.
      replace (seqb (setname sw false) (cellkey n0 sw0)) with false by reflexivity.
      rewrite (seqb_neq (cellkey n sw) (cellkey n0 sw0)) by (unfold cellkey; intros E; apply Hne, ifname_inj; congruence).
      cbn iota. auto.
    + cbn [findm]. change (seqb (ifname sw) (cellkey n0 sw0)) with false. exact H.
Qed.

Lemma SwR_new sws B sw0 : SwR sws B -> alookup sw0 sws = None ->
  let key := cellkey (N.of_nat (length B)) sw0 in
  SwR (aset sw0 false sws)
      ((key, MCell false) :: (setname sw0 false, MIfSet key false) :: (setname sw0 true, MIfSet key true) :: (ifname sw0, MIf key) :: B).
Proof.
  intros H H0 key sw. rewrite alookup_aset. destruct (Z.eqb_spec sw sw0) as [->|Hne].
  - exists (N.of_nat (length B)). fold key. cbn [findm].
    change (seqb (ifname sw0) key) with false. replace (seqb (ifname sw0) (setname sw0 false)) with false by reflexivity.
    replace (seqb (ifname sw0) (setname sw0 true)) with false by reflexivity. rewrite !seqb_refl.
    replace (seqb (setname sw0 true) key) with false by reflexivity.
    replace (seqb (setname sw0 false) key) with false by reflexivity.
    rewrite (seqb_neq (setname sw0 true) (setname sw0 false)) by (unfold setname; intros E; apply app_inv_head in E; discriminate E).
    cbn iota. auto.
  - assert (N1 : forall n, seqb (cellkey n sw) key = false) by (intros n; apply seqb_neq; unfold key, cellkey; intros E; apply Hne, ifname_inj; congruence).
    assert (N2 : forall x y, seqb (setname sw x) (setname sw0 y) = false) by (intros x y; apply seqb_neq; intros E; apply Hne; now apply setname_inj in E).
    assert (N3 : seqb (ifname sw) (ifname sw0) = false) by (apply seqb_neq; intros E; apply Hne; now apply ifname_inj).
    specialize (H sw). destruct (alookup sw sws) as [bb|].
    + destruct H as (n & H1 & H2 & H3 & H4). exists n. cbn [findm].
      change (seqb (ifname sw) key) with false. replace (seqb (ifname sw) (setname sw0 false)) with false by reflexivity.
      replace (seqb (ifname sw) (setname sw0 true)) with false by reflexivity. rewrite N3, !N2, N1.
      replace (seqb (setname sw true) key) with false by reflexivity. replace (seqb (setname sw false) key) with false by reflexivity.
      replace (seqb (setname sw true) (ifname sw0)) with false by reflexivity. replace (seqb (setname sw false) (ifname sw0)) with false by reflexivity.
      replace (seqb (cellkey n sw) (setname sw0 false)) with false by reflexivity. replace (seqb (cellkey n sw) (setname sw0 true)) with false by reflexivity.
      change (seqb (cellkey n sw) (ifname sw0)) with false. cbn iota. auto.
    + cbn [findm]. change (seqb (ifname sw) key) with false. replace (seqb (ifname sw) (setname sw0 false)) with false by reflexivity.
      replace (seqb (ifname sw) (setname sw0 true)) with false by reflexivity. rewrite N3. exact H.
Qed.

Lemma Rfg_nonmname G fs U B k : Rfg G fs U B -> (forall id, k <> mname id) -> chain_get U B k = findm k B.
Proof.
  intros (mfs & mg & -> & HF & _ & _) Hk. induction HF as [|mf ef mfs U [_ H2] _ IH]; [reflexivity|].
  cbn [chain_get]. now rewrite (H2 k Hk).
Qed.
Lemma ifname_not_mname sw id : ifname sw <> mname id. Proof. unfold ifname, mname. discriminate. Qed.
Lemma setname_not_mname sw b id : setname sw b <> mname id. Proof. unfold setname, sname, mname. cbn. discriminate. Qed.

Lemma exec_newif G fs U B sw r : Rfg G fs U B ->
  exec (St (esc s_newif :: esc (ifname sw) :: r) U B) [prim_elem PNewif]
       (St r U (match findm (ifname sw) B with
                | Some _ => B
                | None => let key := cellkey (N.of_nat (length B)) sw in
                          (key, MCell false) :: (setname sw false, MIfSet key false) :: (setname sw true, MIfSet key true) :: (ifname sw, MIf key) :: B
                end)).
Proof.
  intros HR. eapply (ex_cont O).
  2: { eapply (ex_yield O); [apply step_elem; reflexivity|apply ex_refl]. }
  rewrite (step_macro _ _ (esc s_newif) s_newif (MPrim PNewif)); [|reflexivity|reflexivity|apply (prim_lookupg G fs); [exact HR|not_mname|reflexivity]].
  cbn [invoke]. unfold newif_invoke, ros, set_input, lookup. cbn [input ups bottom read_optional_spaces].
  change (is_space (esc (ifname sw))) with false. cbn iota. cbn [input].
  unfold read_token. change (is_bgroup (esc (ifname sw))) with false. change (is_math (esc (ifname sw))) with false. cbn iota.
  cbn [existsb filter]. change (is_elem (esc (ifname sw))) with false. change (tcat (esc (ifname sw)) =? CC_ESCAPE) with true. cbn iota. cbn [orb].
  cbn [ups bottom ttext esc]. rewrite (Rfg_nonmname G fs U B _ HR (ifname_not_mname sw)).
  destruct (findm (ifname sw) B); reflexivity.
Qed.

Lemma exec_setsw G fs U B sw b n r : Rfg G fs U B -> findm (setname sw b) B = Some (MIfSet (cellkey n sw) b) ->
  exec (St (esc (setname sw b) :: r) U B) [] (St r U ((cellkey n sw, MCell b) :: B)).
Proof.
  intros HR Hl. eapply (ex_cont O); [|apply ex_refl].
  rewrite (step_macro _ _ (esc (setname sw b)) (setname sw b) (MIfSet (cellkey n sw) b)); [reflexivity|reflexivity|reflexivity|].
  now rewrite (Rfg_nonmname G fs U B _ HR (setname_not_mname sw b)).
Qed.

Lemma exec_switch G fs U B sw b n th el r : Rfg G fs U B ->
  findm (ifname sw) B = Some (MIf (cellkey n sw)) -> findm (cellkey n sw) B = Some (MCell b) ->
  (forall k, walks (print th) k k) -> (forall e, el = Some e -> forall k, walks (print e) k k) ->
  exec (St (esc (ifname sw) :: print th ++ else_part el ++ esc s_fi :: r) U B) []
       (St ((if b then print th else print (else_nodes el)) ++ r) U B).
Proof.
  intros HR H1 H2 Hth Hel. eapply (ex_cont O); [|apply ex_refl].
  rewrite (step_macro _ _ (esc (ifname sw)) (ifname sw) (MIf (cellkey n sw))); [|reflexivity|reflexivity|now rewrite (Rfg_nonmname G fs U B _ HR (ifname_not_mname sw))].
  cbn [invoke]. unfold cell_value. cbn [bottom]. rewrite H2.
  pose proof (if_invoke_cond [] th el r b U B (Forall_nil _) Hth Hel) as Hi. cbn [app] in Hi. rewrite Hi. reflexivity.
Qed.

(* ---- counters ---- *)
Lemma arabic_znum z : arabic z = znum z.
Proof. reflexivity. Qed.

Lemma cname_inj a b : cname a = cname b -> a = b.
Proof. unfold cname. intros H. apply zcode_inj. congruence. Qed.

Lemma str_arg_cname c r U B : str_arg (St (cname_arg c ++ r) U B) = Ret (cname c, St r U B).
Proof.
  unfold str_arg, ros, cname_arg. cbn [input app read_optional_spaces]. change (is_space bg) with false. cbn iota.
  unfold set_input. cbn [input ups bottom]. unfold read_token. change (is_bgroup bg) with true. cbn iota.
  rewrite <- app_assoc. cbn [app].
  rewrite (read_group_app (map letter (cname c)) O [] (eg :: r) O) by (apply depth_flat, Forall_map_tok; intros x; split; reflexivity).
  cbn [read_group]. change (is_bgroup eg) with false. change (is_egroup eg) with true. cbn iota. rewrite app_nil_r, rev_involutive.
  assert (Hall : forall l, forallb (fun t => plainchar t && ((tcat t =? CC_LETTER) || (tcat t =? CC_OTHER) || (tcat t =? CC_SPACE))) (map letter l) = true)
    by (induction l as [|x l IH]; [reflexivity|]; cbn [map forallb]; now rewrite IH).
  rewrite Hall. unfold cname. cbn [map strip_sp]. change (is_space (letter 122)) with false. cbn iota.
  assert (Hrev : forall l, strip_sp (rev (map letter l)) = rev (map letter l)).
  { intros l. destruct (rev (map letter l)) as [|t l'] eqn:E; [reflexivity|].
    assert (Hin : In t (map letter l)) by (apply in_rev; rewrite E; now left). apply in_map_iff in Hin as (x & <- & _). reflexivity. }
  change (letter 122 :: letter 99 :: map letter (zcode c)) with (map letter (122 :: 99 :: zcode c)).
  rewrite Hrev, rev_involutive. f_equal. f_equal. clear. induction (122 :: 99 :: zcode c) as [|x l IH]; [reflexivity|]. cbn. now rewrite IH.
Qed.

Lemma next_exp_S f st : next_exp (S f) st =
  bind (iter_step (next_exp f) f st) (fun r => match r with SYield t st' => Ret (Some t, st') | SCont st' => next_exp f st' | SStop => Ret (None, st) end).
Proof. reflexivity. Qed.
Lemma nx_value_step k c rest U B : chain_get U B s_value = Some (MPrim PValue) ->
  next_exp (S k) (St (esc s_value :: cname_arg c ++ rest) U B) = next_exp k (St (znum (counter_value (St [] U B) (cname c)) ++ rest) U B).
Proof.
  intros Hv. rewrite next_exp_S, (step_macro _ _ (esc s_value) s_value (MPrim PValue) _ U B eq_refl eq_refl Hv).
  cbn [invoke]. rewrite str_arg_cname. cbn [bind]. reflexivity.
Qed.

Section Numbers2.
  Context (g0 : nat).
  Let nx := next_exp (S (S (S g0))).

  Lemma read_signs_digit g neg c r U B : isdig c = true -> read_signs nx (S g) neg (St (other c :: r) U B) = Ret (neg, St (other c :: r) U B).
  Proof.
    intros Hc. unfold isdig in Hc. cbn [read_signs]. unfold nx. rewrite (nx_plain _ (other c) r U B eq_refl eq_refl). cbn [bind].
    change (is_elem (other c)) with false. change (text1 (other c)) with (Some c). cbn iota.
    replace (c =? 43) with false by lia. replace (c =? 45) with false by lia. change (is_space (other c)) with false. reflexivity.
  Qed.

  Lemma read_signs_minus g neg r U B : read_signs nx (S g) neg (St (other 45 :: r) U B) = read_signs nx g (negb neg) (St r U B).
  Proof.
    cbn [read_signs]. unfold nx. rewrite (nx_plain _ (other 45) r U B eq_refl eq_refl). cbn [bind]. reflexivity.
  Qed.

  Lemma read_integer_signed (neg : bool) n u tl U B g : stopper U B u -> (S (length (digits n)) < g)%nat ->
    read_integer nx g (St ((if neg then [other 45] else []) ++ map other (digits n) ++ u :: tl) U B)
    = Ret ((if neg then - Z.of_N n else Z.of_N n)%Z, St (u :: tl) U B).
  Proof.
    intros Hs Hg. pose proof (digits_value_digits n) as Hv. pose proof (digits_isdig n) as Hd.
    destruct (digits_cons n) as (c & cs & E). rewrite E in *. clear E.
    inversion Hd as [|c' ds' Hc Hd']; subst. cbn [length] in Hg. destruct g as [|[|g]]; try lia.
    assert (Hc' := Hc). unfold isdig in Hc'.
    assert (Hsigns : read_signs nx (S (S g)) false (ros (St ((if neg then [other 45] else []) ++ map other (c :: cs) ++ u :: tl) U B))
                     = Ret (neg, St (map other (c :: cs) ++ u :: tl) U B)).
    { destruct neg; cbn [app map].
      - unfold ros. cbn [input read_optional_spaces]. change (is_space (other 45)) with false. cbn iota.
        unfold set_input. cbn [input ups bottom]. rewrite read_signs_minus.
        now rewrite (read_signs_digit g (negb false) c _ U B Hc).
      - unfold ros. cbn [input read_optional_spaces]. change (is_space (other c)) with false. cbn iota. unfold set_input. cbn [input ups bottom].
        now rewrite (read_signs_digit (S g) false c _ U B Hc). }
    unfold read_integer. rewrite Hsigns. cbn [bind map app]. unfold nx at 1. rewrite (nx_plain _ (other c) _ U B eq_refl eq_refl). cbn [bind].
    change (is_elem (other c)) with false. change (text1 (other c)) with (Some c). cbn iota. rewrite Hc'.
    rewrite (read_seq_digits u tl U B Hs cs [] (S (S g)) Hd' ltac:(lia)). cbn [bind rev app]. rewrite Hv. reflexivity.
  Qed.

  Lemma read_integer_znum z u tl U B g : stopper U B u -> (S (length (digits (Z.abs_N z))) < g)%nat ->
    read_integer nx g (St (znum z ++ u :: tl) U B) = Ret (z, St (u :: tl) U B).
  Proof.
    intros Hs Hg. unfold znum. rewrite <- app_assoc. rewrite (read_integer_signed (z <? 0)%Z (Z.abs_N z) u tl U B g Hs Hg).
    f_equal. f_equal. destruct (Z.ltb_spec z 0); lia.
  Qed.

  (* \value{zc..} in front of a number reader: expanded by the first look of readOptionalSigns, it leaves the digits of the counter *)
  Lemma read_integer_value c u tl U B g : chain_get U B s_value = Some (MPrim PValue) ->
    stopper U B u -> (S (length (digits (Z.abs_N (counter_value (St [] U B) (cname c))))) < g)%nat ->
    read_integer nx g (St (esc s_value :: cname_arg c ++ u :: tl) U B) = Ret (counter_value (St [] U B) (cname c), St (u :: tl) U B).
  Proof.
    intros Hv Hs Hg. set (z := counter_value (St [] U B) (cname c)) in *.
    rewrite <- (read_integer_znum z u tl U B g Hs Hg).
    assert (Hz : exists t0 l0, znum z = other t0 :: l0).
    { unfold znum. destruct (z <? 0)%Z; [eexists _, _; reflexivity|]. destruct (digits_cons (Z.abs_N z)) as (d & ds & ->). eexists _, _; reflexivity. }
    destruct Hz as (t0 & l0 & Ez).
    assert (Hnx : nx (St (esc s_value :: cname_arg c ++ u :: tl) U B) = nx (St (znum z ++ u :: tl) U B)).
    { unfold nx. rewrite (nx_value_step _ c (u :: tl) U B Hv). fold z. rewrite Ez. cbn [app].
      now rewrite (nx_plain (S g0) (other t0) _ U B eq_refl eq_refl), (nx_plain (S (S g0)) (other t0) _ U B eq_refl eq_refl). }
    destruct g as [|g]; [lia|].
    assert (Hr1 : ros (St (esc s_value :: cname_arg c ++ u :: tl) U B) = St (esc s_value :: cname_arg c ++ u :: tl) U B) by reflexivity.
    assert (Hr2 : ros (St (znum z ++ u :: tl) U B) = St (znum z ++ u :: tl) U B) by (rewrite Ez; reflexivity).
    unfold read_integer. rewrite Hr1, Hr2.
    assert (Hsg : forall neg st, read_signs nx (S g) neg st = bind (nx st) (fun r =>
              match r with
              | (None, st') => Ret (neg, st')
              | (Some t, st') =>
                  if is_elem t then Ret (neg, push_tok t st')
                  else match text1 t with
                       | None => Unsupp 2
                       | Some c =>
                           if c =? 43 then read_signs nx g neg st'
                           else if c =? 45 then read_signs nx g (negb neg) st'
                           else if is_space t then read_signs nx g neg st'
                           else Ret (neg, push_tok t st')
                       end
              end)) by reflexivity.
    rewrite !Hsg, Hnx. reflexivity.
  Qed.
End Numbers2.

(* ---- the heap invariant: switches and counters ---- *)
Definition cval (B : Engine.frame) (c : Z) : Z := counter_value (St [] [] B) (cname c).
Definition CtR (cs : list (Z * Z)) (B : Engine.frame) : Prop :=
  forall c, cval B c = match alookup c cs with Some v => v | None => 0%Z end.
Definition Heap (e : env) (B : Engine.frame) : Prop := SwR (switches e) B /\ CtR (counters e) B.

Lemma Heap_init : Heap empty_env base_frame.
Proof. split; [apply SwR_init|intros c; reflexivity]. Qed.
Lemma CtR_cnt e B c : CtR (counters e) B -> cval B c = cnt e c.
Proof. intros H. apply H. Qed.

Lemma cval_add_other B k v c : seqb (ckey (cname c)) k = false -> cval ((k, v) :: B) c = cval B c.
Proof. intros H. unfold cval, counter_value. cbn [bottom findm]. now rewrite H. Qed.

Lemma Heap_add_mname e B nm v : Heap e B -> Heap e ((mname nm, v) :: B).
Proof. intros [H1 H2]. split; [now apply SwR_add_mname|]. intros c. rewrite cval_add_other by reflexivity. apply H2. Qed.

Lemma SwR_add_ckey sws B c v : SwR sws B -> SwR sws ((ckey (cname c), v) :: B).
Proof.
  intros H sw. specialize (H sw). destruct (alookup sw sws) as [b|].
  - destruct H as (n & H1 & H2 & H3 & H4). exists n. cbn [findm].
    change (seqb (ifname sw) (ckey (cname c))) with false. replace (seqb (setname sw true) (ckey (cname c))) with false by reflexivity.
    replace (seqb (setname sw false) (ckey (cname c))) with false by reflexivity.
    replace (seqb (cellkey n sw) (ckey (cname c))) with false by (unfold cellkey, ckey, ifname; cbn [seqb]; destruct (n =? 0); reflexivity).
    cbn iota. auto.
  - cbn [findm]. change (seqb (ifname sw) (ckey (cname c))) with false. exact H.
Qed.

Lemma Heap_setc e B c z : Heap e B -> Heap (with_counters e (aset c z (counters e))) ((ckey (cname c), MCount z) :: B).
Proof.
  intros [H1 H2]. split; [now apply SwR_add_ckey|]. intros c'. cbn [with_counters counters]. rewrite alookup_aset.
  destruct (Z.eqb_spec c' c) as [->|Hne].
  - unfold cval, counter_value. cbn [bottom findm]. now rewrite seqb_refl.
  - rewrite cval_add_other; [apply H2|]. apply seqb_neq. unfold ckey. intros E. apply Hne, cname_inj. congruence.
Qed.

Lemma Heap_setsw e B sw b0 b n : Heap e B -> alookup sw (switches e) = Some b0 -> findm (ifname sw) B = Some (MIf (cellkey n sw)) ->
  Heap (with_switches e (aset sw b (switches e))) ((cellkey n sw, MCell b) :: B).
Proof.
  intros [H1 H2] Ha Hk. split; [now apply (SwR_set _ _ sw b0)|]. intros c. rewrite cval_add_other; [apply H2|].
  unfold cellkey, ckey, ifname. cbn [seqb]. destruct (0 =? n); reflexivity.
Qed.

Lemma Heap_newsw e B sw : Heap e B -> alookup sw (switches e) = None ->
  let key := cellkey (N.of_nat (length B)) sw in
  Heap (with_switches e (aset sw false (switches e)))
       ((key, MCell false) :: (setname sw false, MIfSet key false) :: (setname sw true, MIfSet key true) :: (ifname sw, MIf key) :: B).
Proof.
  intros [H1 H2] Ha key. split; [now apply SwR_new|]. intros c.
  rewrite !cval_add_other; [apply H2|reflexivity|reflexivity|reflexivity|].
  unfold key, cellkey, ckey, ifname. cbn [seqb]. destruct (0 =? N.of_nat (length B)); reflexivity.
Qed.

Lemma Rfg_add_swkey G fs U B k v : swkey k = true -> (forall id, k <> mname id) -> Rfg G fs U B -> Rfg G fs U ((k, v) :: B).
Proof.
  intros Hsw Hk (mfs & mg & E & HF & [HB1 HB2] & Hok). exists mfs, mg. split; [exact E|]. split; [exact HF|]. split; [|exact Hok]. split.
  - intros id. cbn [findm]. rewrite (seqb_neq (mname id) k) by (intros E'; now apply (Hk id)). apply HB1.
  - intros k' Hk' Hsw'. cbn [findm]. destruct (seqb k' k) eqn:Ek; [apply seqb_eq in Ek; subst k'; congruence|now apply HB2].
Qed.

(* ---- an operand in front of a number reader ---- *)
Definition opd_len (e : env) (a : operand) : nat :=
  match a with OLit z => length (digits (Z.to_N z)) | OCnt c => S (length (digits (Z.abs_N (cnt e c)))) end.

Lemma read_integer_opd g0 e a u tl U B g : opd_ok a = true -> CtR (counters e) B ->
  chain_get U B s_value = Some (MPrim PValue) -> stopper U B u -> (opd_len e a < g)%nat ->
  read_integer (next_exp (S (S (S g0)))) g (St (pop a ++ u :: tl) U B) = Ret (opval e a, St (u :: tl) U B).
Proof.
  intros Ha HC Hv Hs Hg. destruct a as [z|c]; cbn [pop opval opd_len opd_ok] in *.
  - apply Z.leb_le in Ha. rewrite (read_integer_digits (S g0) (Z.to_N z) u tl U B g Hs Hg). now rewrite Z2N.id.
  - assert (Hcv : counter_value (St [] U B) (cname c) = cnt e c) by apply (CtR_cnt e B c HC).
    change (esc s_value :: bg :: map letter (cname c) ++ [eg]) with (esc s_value :: cname_arg c).
    cbn [app].
    rewrite (read_integer_value g0 c u tl U B g Hv Hs); [now rewrite Hcv|rewrite Hcv; exact Hg].
Qed.

Section ExecG2.
  Context (G : MacroLang.meaning -> Prop).

(* conditionals of F2 other than switches *)
Lemma exec_cond2 fs U B t th el r e0 : Rfg G fs U B -> CtR (counters e0) B -> f2_test t = true ->
  match t with TSwitch _ => False | _ => True end ->
  (forall k, walks (print th) k k) -> (forall e, el = Some e -> forall k, walks (print e) k k) ->
  exists Xt Xe, Forall (fun x => is_elem x = true) Xe /\ (forall r', exec (St (Xt ++ r') U B) Xe (St r' U B)) /\
  exec (St (print_test t ++ print th ++ else_part el ++ esc s_fi :: r) U B) []
       (St ((if eval_test e0 t then Xt ++ print th else print (else_nodes el)) ++ r) U B).
Proof.
  intros HR HC Ht Hns Hth Hel.
  assert (Hrelax : chain_get U B s_relax = Some (MPrim PRelax)) by (apply (prim_lookupg G fs); [exact HR|not_mname|reflexivity]).
  assert (Hvalue : chain_get U B s_value = Some (MPrim PValue)) by (apply (prim_lookupg G fs); [exact HR|not_mname|reflexivity]).
  destruct t as [| |a rl b|a| |sw| | |]; try discriminate Ht; try contradiction.
  - exists [], []. split; [constructor|]. split; [intros r'; apply ex_refl|]. eapply (ex_cont O); [|apply ex_refl].
    cbn [print_test app]. rewrite (step_macro _ _ _ s_iftrue (MPrim PIftrue)); [|reflexivity|reflexivity|apply (prim_lookupg G fs); [exact HR|not_mname|reflexivity]].
    cbn [invoke]. pose proof (if_invoke_cond [] th el r true U B (Forall_nil _) Hth Hel) as Hi. cbn [app] in Hi. rewrite Hi. reflexivity.
  - exists [], []. split; [constructor|]. split; [intros r'; apply ex_refl|]. eapply (ex_cont O); [|apply ex_refl].
    cbn [print_test app]. rewrite (step_macro _ _ _ s_iffalse (MPrim PIffalse)); [|reflexivity|reflexivity|apply (prim_lookupg G fs); [exact HR|not_mname|reflexivity]].
    cbn [invoke]. pose proof (if_invoke_cond [] th el r false U B (Forall_nil _) Hth Hel) as Hi. cbn [app] in Hi. rewrite Hi. reflexivity.
  - cbn [f2_test] in Ht. apply andb_true_iff in Ht as [Ha Hb].
    exists [esc s_relax], [prim_elem PRelax]. split; [constructor; [reflexivity|constructor]|].
    split; [intros r'; apply (exec_relax G fs), HR|].
    set (la := opd_len e0 a). set (lb := opd_len e0 b).
    eapply (ex_cont (S (S (S (la + lb))))); [|apply ex_refl].
    cbn [print_test]. cbn [app]. repeat (rewrite <- app_assoc; cbn [app]).
    rewrite (step_macro _ _ _ s_ifnum (MPrim PIfnum)); [|reflexivity|reflexivity|apply (prim_lookupg G fs); [exact HR|not_mname|reflexivity]].
    cbn [invoke].
    assert (Hros1 : forall l, ros (St (pop a ++ l) U B) = St (pop a ++ l) U B).
    { intros l. destruct a as [z|c]; cbn [pop]; [destruct (digits_cons (Z.to_N z)) as (d & ds & ->)|]; reflexivity. }
    rewrite Hros1. rewrite (read_integer_opd (la + lb) e0 a (rel_tok rl)); [|exact Ha|exact HC|exact Hvalue|apply stopper_rel|subst la lb; lia].
    cbn [bind]. replace (ros (St (rel_tok rl :: pop b ++ esc s_relax :: print th ++ else_part el ++ esc s_fi :: r) U B))
      with (St (rel_tok rl :: pop b ++ esc s_relax :: print th ++ else_part el ++ esc s_fi :: r) U B) by (destruct rl; reflexivity).
    cbn [input]. replace (is_elem (rel_tok rl)) with false by (destruct rl; reflexivity). unfold set_input. cbn [input ups bottom].
    rewrite (read_integer_opd (la + lb) e0 b (esc s_relax)); [|exact Hb|exact HC|exact Hvalue|now apply stopper_relax|subst la lb; lia].
    cbn [bind].
    assert (Hif : if_invoke (relz rl (opval e0 a) (opval e0 b)) (St (esc s_relax :: print th ++ else_part el ++ esc s_fi :: r) U B)
                  = Ret (St ((if relz rl (opval e0 a) (opval e0 b) then [esc s_relax] ++ print th else print (else_nodes el)) ++ r) U B)).
    { change (esc s_relax :: print th ++ else_part el ++ esc s_fi :: r) with ([esc s_relax] ++ print th ++ else_part el ++ esc s_fi :: r).
      apply if_invoke_cond; [constructor; [reflexivity|constructor]|exact Hth|exact Hel]. }
    cbn [eval_test]. destruct rl; cbn [rel_tok ttext other seqb N.eqb Pos.eqb andb relz] in *; try (rewrite Hif; reflexivity).
    rewrite Z.gtb_ltb in Hif. rewrite Hif, Z.gtb_ltb. reflexivity.
  - cbn [f2_test] in Ht.
    exists [esc s_relax], [prim_elem PRelax]. split; [constructor; [reflexivity|constructor]|].
    split; [intros r'; apply (exec_relax G fs), HR|].
    set (la := opd_len e0 a).
    eapply (ex_cont (S (S (S la)))); [|apply ex_refl].
    cbn [print_test]. cbn [app]. repeat (rewrite <- app_assoc; cbn [app]).
    rewrite (step_macro _ _ _ s_ifodd (MPrim PIfodd)); [|reflexivity|reflexivity|apply (prim_lookupg G fs); [exact HR|not_mname|reflexivity]].
    cbn [invoke].
    rewrite (read_integer_opd la e0 a (esc s_relax)); [|exact Ht|exact HC|exact Hvalue|now apply stopper_relax|subst la; lia].
    cbn [bind eval_test].
    change (esc s_relax :: print th ++ else_part el ++ esc s_fi :: r) with ([esc s_relax] ++ print th ++ else_part el ++ esc s_fi :: r).
    rewrite (if_invoke_cond [esc s_relax] th el r (Z.odd (opval e0 a)) U B); [|constructor; [reflexivity|constructor]|exact Hth|exact Hel].
    reflexivity.
Qed.

Lemma exec_case fs U B a b0 r el tl e0 : Rfg G fs U B -> CtR (counters e0) B -> opd_ok a = true ->
  (forall k, walks (print b0) k k) -> Forall (fun b => forall k, walks (print b) k k) r ->
  (forall e, el = Some e -> forall k, walks (print e) k k) ->
  exists Xt Xe, Forall (fun x => is_elem x = true) Xe /\ (forall r', exec (St (Xt ++ r') U B) Xe (St r' U B)) /\
  exec (St (print_node (NCase a (b0 :: r) el) ++ tl) U B) []
       (St (Xt ++ print (case_branch (opval e0 a) (b0 :: r) el) ++ tl) U B).
Proof.
  intros HR HC Ha Hb0 Hr Hel. set (z := opval e0 a).
  exists (if (z =? 0)%Z then [esc s_relax] else []), (if (z =? 0)%Z then [prim_elem PRelax] else []).
  split; [destruct (z =? 0)%Z; [constructor; [reflexivity|constructor]|constructor]|].
  split; [intros r'; destruct (z =? 0)%Z; [apply (exec_relax G fs), HR|apply ex_refl]|].
  set (la := opd_len e0 a).
  eapply (ex_cont (S (S (S la)))); [|apply ex_refl].
  rewrite print_case_node. cbn [app]. rewrite <- app_assoc. cbn [app].
  rewrite (step_macro _ _ _ s_ifcase (MPrim PIfcase)); [|reflexivity|reflexivity|apply (prim_lookupg G fs); [exact HR|not_mname|reflexivity]].
  cbn [invoke].
  rewrite (read_integer_opd la e0 a (esc s_relax)); [|exact Ha|exact HC|apply (prim_lookupg G fs); [exact HR|not_mname|reflexivity]
                                                      |apply stopper_relax, (prim_lookupg G fs); [exact HR|not_mname|reflexivity]|subst la; lia].
  cbn [bind input]. fold z.
  repeat (rewrite <- app_assoc; cbn [app]).
  change (esc s_relax :: print b0 ++ ?l) with ([esc s_relax] ++ print b0 ++ l).
  rewrite (tprocess_case [esc s_relax] b0 r el tl z); [|constructor; [reflexivity|constructor]|exact Hb0|exact Hr|exact Hel].
  unfold set_input. cbn [ups bottom]. rewrite <- app_assoc. reflexivity.
Qed.

(* \stepcounter{c}  \setcounter{c}{n}  \addtocounter{c}{n} *)
Lemma int_arg_znum g0 z r U B g : chain_get U B s_relax = Some (MPrim PRelax) -> (S (length (digits (Z.abs_N z))) < g)%nat ->
  int_arg (next_exp (S (S (S g0)))) g (St (bg :: znum z ++ eg :: r) U B) = Ret (z, St r U B).
Proof.
  intros Hrelax Hg. unfold int_arg, ros. cbn [input read_optional_spaces]. change (is_space bg) with false. cbn iota.
  unfold set_input. cbn [input ups bottom]. unfold read_token. change (is_bgroup bg) with true. cbn iota.
  rewrite (read_group_app (znum z) O [] (eg :: r) O (depth_znum z O)). cbn [read_group].
  change (is_bgroup eg) with false. change (is_egroup eg) with true. cbn iota. rewrite app_nil_r, rev_involutive.
  assert (Hpl : forallb plainchar (znum z) = true).
  { unfold znum. rewrite forallb_app. apply andb_true_iff. split; [destruct (z <? 0)%Z; reflexivity|].
    clear. generalize (digits (Z.abs_N z)). intros l. induction l as [|c l IH]; [reflexivity|]. cbn [map forallb]. now rewrite IH. }
  rewrite Hpl. unfold set_input. cbn [input ups bottom]. change (Tok CC_ESCAPE s_relax) with (esc s_relax).
  rewrite (read_integer_znum g0 z (esc s_relax) r U B g (stopper_relax U B Hrelax) Hg). cbn [bind input ups bottom].
  now rewrite drop_relax_tok.
Qed.

Lemma exec_step fs U B c r : Rfg G fs U B ->
  exec (St (esc s_stepcounter :: cname_arg c ++ r) U B) [prim_elem PStepcounter]
       (St r U ((ckey (cname c), MCount (cval B c + 1)) :: B)).
Proof.
  intros HR. eapply (ex_cont O).
  2: { eapply (ex_yield O); [apply step_elem; reflexivity|apply ex_refl]. }
  rewrite (step_macro _ _ _ s_stepcounter (MPrim PStepcounter)); [|reflexivity|reflexivity|apply (prim_lookupg G fs); [exact HR|not_mname|reflexivity]].
  cbn [invoke]. rewrite str_arg_cname. reflexivity.
Qed.
Lemma exec_setc fs U B c z r : Rfg G fs U B ->
  exec (St (esc s_setcounter :: cname_arg c ++ bg :: znum z ++ eg :: r) U B) [prim_elem PSetcounter]
       (St r U ((ckey (cname c), MCount z) :: B)).
Proof.
  intros HR. set (lz := length (digits (Z.abs_N z))). eapply (ex_cont (S (S (S (S lz))))).
  2: { eapply (ex_yield O); [apply step_elem; reflexivity|apply ex_refl]. }
  rewrite (step_macro _ _ _ s_setcounter (MPrim PSetcounter)); [|reflexivity|reflexivity|apply (prim_lookupg G fs); [exact HR|not_mname|reflexivity]].
  cbn [invoke]. rewrite str_arg_cname. cbn [bind].
  rewrite (int_arg_znum (S lz) z r U B); [reflexivity|apply (prim_lookupg G fs); [exact HR|not_mname|reflexivity]|subst lz; lia].
Qed.
Lemma exec_addc fs U B c z r : Rfg G fs U B ->
  exec (St (esc s_addtocounter :: cname_arg c ++ bg :: znum z ++ eg :: r) U B) [prim_elem PAddtocounter]
       (St r U ((ckey (cname c), MCount (cval B c + z)) :: B)).
Proof.
  intros HR. set (lz := length (digits (Z.abs_N z))). eapply (ex_cont (S (S (S (S lz))))).
  2: { eapply (ex_yield O); [apply step_elem; reflexivity|apply ex_refl]. }
  rewrite (step_macro _ _ _ s_addtocounter (MPrim PAddtocounter)); [|reflexivity|reflexivity|apply (prim_lookupg G fs); [exact HR|not_mname|reflexivity]].
  cbn [invoke]. rewrite str_arg_cname. cbn [bind].
  rewrite (int_arg_znum (S lz) z r U B); [reflexivity|apply (prim_lookupg G fs); [exact HR|not_mname|reflexivity]|subst lz; lia].
Qed.
End ExecG2.

(* ---- the body of a parameterless \def, handed back as it is: words and definitions whose ##k \def itself reduces ---- *)
Lemma simV f : forall src e out e' out',
  forallb fv_node src = true -> eval f e out (subst 50 [] src) = Ok e' out' -> gsafe f e out (subst 50 [] src) = true ->
  forall U B rest, Rfg good2 (frames e) U B -> Heap e B ->
  exists T U' B',
    exec (St (printb src ++ rest) U B) T (St rest U' B') /\ Rfg good2 (frames e') U' B' /\ Heap e' B' /\ length U' = length U /\
    words_text (rev out') = words_text (rev out) ++ text_of T.
Proof.
  induction f as [|f IH]; intros src e out e' out' HF Hev Hgs U B rest HR HS; [discriminate Hev|].
  destruct src as [|n src].
  { change (subst 50 [] []) with (@nil node) in Hev. rewrite eval_nil in Hev. injection Hev as <- <-. exists [], U, B.
    repeat split; [apply ex_refl|exact HR|exact (proj1 HS)|exact (proj2 HS)|now rewrite app_nil_r]. }
  cbn [forallb] in HF. apply andb_true_iff in HF as [Hn Hns].
  assert (Esub : subst 50 [] (n :: src) = sbn [] 49 n ++ subst 50 [] src) by (rewrite (subst_S [] 49 (n :: src)), (subst_S [] 49 src); reflexivity).
  rewrite Esub in Hev, Hgs. clear Esub.
  cbn [printb]. rewrite <- app_assoc.
  destruct n; try discriminate Hn.
  - (* word *)
    cbn [sbn app] in Hev, Hgs.
    destruct (eval_budget f e out _ _ _ Hev) as [Hno|(budget & Hs)]; [exfalso; now apply (Hno e' out')|].
    assert (HR1 : Rfg good2 (frames (tick e budget)) U B) by exact HR.
    rewrite (eval_word f e out _ budget Hs) in Hev. rewrite (gsafe_word f e out _ budget Hs) in Hgs.
    destruct (IH _ _ _ _ _ Hns Hev Hgs U B rest HR1 HS) as (T & U' & B' & Hex & HR' & HS' & Hlen & Htxt).
    exists (wprint w ++ T), U', B'. repeat split; [|exact HR'|exact (proj1 HS')|exact (proj2 HS')|exact Hlen|].
    + eapply exec_trans; [apply exec_plain, plain_wprint|exact Hex].
    + rewrite Htxt, words_text_snoc, text_of_app, (text_of_plain _ (plain_wprint w)). now rewrite app_assoc.
  - (* a definition with ##k *)
    destruct default; [discriminate Hn|]. cbn [fv_node] in Hn. apply andb_true_iff in Hn as [Hn Hb]. apply andb_true_iff in Hn as [H1 H9]. apply andb_true_iff in H1 as [Hu H1].
    apply Nat.leb_le in H1, H9.
    cbn [sbn option_map app] in Hev, Hgs. rewrite (subst_fi0 [] nparams 49 body BODY_DEPTH Hb) in Hev, Hgs.
    destruct (rh_printb nparams body Hb) as [Erh Hfb]. remember (lower 50 body) as body' eqn:Ebody'.
    destruct (eval_budget f e out _ _ _ Hev) as [Hno|(budget & Hs)]; [exfalso; now apply (Hno e' out')|].
    assert (HR1 : Rfg good2 (frames (tick e budget)) U B) by exact HR.
    rewrite (eval_def f e out _ budget Hs) in Hev. rewrite (gsafe_def f e out _ budget Hs) in Hgs.
    apply andb_true_iff in Hgs as [Hun Hg2].
    set (m := {| m_n := nparams; m_default := None; m_body := body' |}) in *.
    assert (Hm : good2 m).
    { left. unfold good2c. cbn [m_default m m_n m_body]. split; [exact H9|]. left. split; [exact H1|]. now apply fb_fb3l. }
    rewrite printb_def. cbn [app]. repeat (rewrite <- app_assoc; cbn [app]).
    pose proof (exec_def2 good2 _ U B global name nparams (printb body) (printb src ++ rest) HR1 H1
                  (depth_Wlb _ (fi_Wl _ _ _ _ Hb) O)) as Hex0. cbv zeta in Hex0.
    rewrite Erh, (rh_ptext _ Hu) in Hex0.
    change (MDef (param_text nparams) (printb body')) with (mean_of m) in Hex0.
    set (st := (if global then add_global else add_local) (mname name) (mean_of m) (St (printb src ++ rest) U B)) in *.
    assert (Hst : exists U0 B0, st = St (printb src ++ rest) U0 B0 /\ length U0 = length U /\
                   Rfg good2 ((if global then def_global else def_local) name m (frames (tick e budget))) U0 B0 /\ Heap e B0).
    { subst st. destruct global.
      - exists U, ((mname name, mean_of m) :: B). split; [reflexivity|]. split; [reflexivity|].
        split; [now apply Rfg_def_global|now apply Heap_add_mname].
      - pose proof (Rfg_def_local good2 _ U B name m Hm HR1) as Hl. cbv zeta in Hl.
        unfold add_local in *. cbn [ups] in *. destruct U as [|u U]; cbn [ups bottom set_ups set_bottom add_global input] in *.
        + eexists [], _. split; [reflexivity|]. split; [reflexivity|]. split; [exact Hl|now apply Heap_add_mname].
        + eexists (_ :: U), B. split; [reflexivity|]. split; [reflexivity|]. split; [exact Hl|exact HS]. }
    destruct Hst as (U0 & B0 & Est & Hlen0 & HR0 & HS0). rewrite Est in Hex0.
    destruct (IH _ _ _ _ _ Hns Hev Hg2 U0 B0 rest HR0 HS0) as (T & U' & B' & Hex & HR' & HS' & Hlen & Htxt).
    exists ([prim_elem (PDef global)] ++ T), U', B'. repeat split; [|exact HR'|exact (proj1 HS')|exact (proj2 HS')|lia|].
    + eapply exec_trans; [exact Hex0|exact Hex].
    + rewrite Htxt, text_of_app. replace (text_of [prim_elem (PDef global)]) with (@nil tok) by (destruct global; reflexivity). reflexivity.
Qed.

(* ---- the simulation on F2 ---- *)
Lemma sim2 f : forall e out ns e' out',
  forallb f2_node ns = true -> eval f e out ns = Ok e' out' -> gsafe f e out ns = true ->
  forall U B rest, Rfg good2 (frames e) U B -> Heap e B -> safe_rest rest ->
  exists T U' B',
    exec (St (print ns ++ rest) U B) T (St rest U' B') /\ Rfg good2 (frames e') U' B' /\ Heap e' B' /\ length U' = length U /\
    words_text (rev out') = words_text (rev out) ++ text_of T.
Proof.
  induction f as [|f IH]; intros e out ns e' out' HF Hev Hgs U B rest HR HS Hsafe; [discriminate Hev|].
  destruct ns as [|n ns].
  { rewrite eval_nil in Hev. injection Hev as <- <-. exists [], U, B. repeat split; [apply ex_refl|exact HR|exact (proj1 HS)|exact (proj2 HS)|now rewrite app_nil_r]. }
  cbn [forallb] in HF. apply andb_true_iff in HF as [Hn Hns].
  destruct (eval_budget f e out n ns _ Hev) as [Hno|(budget & Hs)]; [exfalso; now apply (Hno e' out')|].
  assert (HR1 : Rfg good2 (frames (tick e budget)) U B) by exact HR.
  cbn [print]. rewrite <- app_assoc.
  destruct n; try discriminate Hn.
  - (* word *)
    rewrite (eval_word f e out ns budget Hs) in Hev. rewrite (gsafe_word f e out ns budget Hs) in Hgs.
    destruct (IH _ _ _ _ _ Hns Hev Hgs U B rest HR1 HS Hsafe) as (T & U' & B' & Hex & HR' & HS' & Hlen & Htxt).
    exists (wprint w ++ T), U', B'. repeat split; [|exact HR'|exact (proj1 HS')|exact (proj2 HS')|exact Hlen|].
    + eapply exec_trans; [apply exec_plain, plain_wprint|exact Hex].
    + rewrite Htxt, words_text_snoc, text_of_app, (text_of_plain _ (plain_wprint w)). now rewrite app_assoc.
  - (* group *)
    cbn [f2_node] in Hn.
    rewrite (eval_group f e out ns budget Hs) in Hev. rewrite (gsafe_group f e out ns budget Hs) in Hgs.
    apply andb_true_iff in Hgs as [Hg1 Hg2].
    destruct (eval f (with_frames (tick e budget) ([] :: frames (tick e budget))) out body) as [e2 out2| |] eqn:Eb; try discriminate Hev.
    rewrite print_group. cbn [app]. rewrite <- app_assoc. cbn [app].
    destruct (IH _ _ _ _ _ Hn Eb Hg1 ([] :: U) B (eg :: print ns ++ rest) (Rfg_push good2 _ _ _ HR1) HS (conj eq_refl eq_refl))
      as (T1 & U1 & B1 & Hex1 & HR1' & HS1 & Hlen1 & Htxt1).
    destruct U1 as [|u1 U1]; [discriminate Hlen1|].
    assert (HR2 : Rfg good2 (frames (with_frames e2 (tl (frames e2)))) U1 B1) by (apply (Rfg_pop good2 _ u1); exact HR1').
    destruct (IH _ _ _ _ _ Hns Hev Hg2 U1 B1 rest HR2 HS1 Hsafe) as (T2 & U2 & B2 & Hex2 & HR2' & HS2 & Hlen2 & Htxt2).
    exists ([prim_elem PBgroup] ++ T1 ++ [prim_elem PEgroup] ++ T2), U2, B2. repeat split; [|exact HR2'|exact (proj1 HS2)|exact (proj2 HS2)|cbn in Hlen1; lia|].
    + eapply exec_trans; [apply (exec_bgroup good2 _ _ _ _ HR1)|].
      eapply exec_trans; [exact Hex1|].
      eapply exec_trans; [apply (exec_egroup good2 _ _ _ _ _ HR1')|exact Hex2].
    + rewrite Htxt2, Htxt1, !text_of_app. cbn [text_of filter prim_elem is_elem]. cbn. now rewrite <- !app_assoc.
  - (* definition *)
    cbn [f2_node] in Hn.
    rewrite (eval_def f e out ns budget Hs) in Hev. rewrite (gsafe_def f e out ns budget Hs) in Hgs.
    apply andb_true_iff in Hgs as [Hun Hg2].
    set (m := {| m_n := nparams; m_default := default; m_body := body |}) in *.
    destruct default as [dd|].
    { (* \newcommand{\name}[n+1][dd]{body}: global *)
      apply andb_true_iff in Hn as [Hn Hbody]. apply andb_true_iff in Hn as [Hn Hdw]. apply andb_true_iff in Hn as [Hgl Hnp]. apply andb_true_iff in Hgl as [Hu Hgl].
      subst global. apply Nat.leb_le in Hnp.
      assert (Hm : good2 m) by (left; unfold good2c; cbn [m_default m m_n m_body]; repeat split; assumption).
      rewrite print_newcommand. cbn [app]. repeat (rewrite <- app_assoc; cbn [app]).
      assert (Hnoprim : match chain_get U B (mname name) with Some (MDef _ _) | Some (MNew _ _ _) | None => True | _ => False end).
      { rewrite (Rfg_lookup good2 _ _ _ name HR1). destruct (lookup_frames name (frames (tick e budget))) as [m0|]; [|exact I].
        cbn [option_map]. unfold mean_of. destruct (m_default m0); exact I. }
      pose proof (exec_newcommand good2 _ U B name nparams dd (printb body) (print ns ++ rest) HR1 Hnp Hdw
                    (depth_Wlb _ (good2_body_W m Hm) O) Hnoprim) as Hex0.
      change (MNew (S nparams) (Some (print dd)) (printb body)) with (mean_of m) in Hex0.
      pose proof (Rfg_def_global good2 _ U B name m Hm Hun HR1) as HR0.
      destruct (IH _ _ _ _ _ Hns Hev Hg2 U _ rest HR0 (Heap_add_mname _ _ name (mean_of m) HS) Hsafe) as (T & U' & B' & Hex & HR' & HS' & Hlen & Htxt).
      exists ([prim_elem (PNewcommand false)] ++ T), U', B'. repeat split; [|exact HR'|exact (proj1 HS')|exact (proj2 HS')|exact Hlen|].
      + eapply exec_trans; [exact Hex0|exact Hex].
      + rewrite Htxt, text_of_app. reflexivity. }
    apply andb_true_iff in Hn as [Hnp Hbody]. apply Nat.leb_le in Hnp.
    assert (Hm : good2 m).
    { apply orb_true_iff in Hbody as [Hb|Hb].
      - left. unfold good2c. cbn [m_default m m_n m_body]. split; [exact Hnp|].
        apply andb_true_iff in Hb as [H1 Hb]. apply Nat.leb_le in H1. left. now split.
      - apply andb_true_iff in Hb as [H0 Hb]. apply Nat.eqb_eq in H0. apply orb_true_iff in Hb as [Hb|Hb].
        + left. unfold good2c. cbn [m_default m m_n m_body]. split; [exact Hnp|]. right. now split.
        + right. unfold goodv. cbn [m_default m m_n m_body]. now repeat split. }
    rewrite print_def. cbn [app]. repeat (rewrite <- app_assoc; cbn [app]).
    pose proof (exec_def good2 _ U B global name nparams (printb body) (print ns ++ rest) HR1
                  (depth_Wlb _ (good2_body_W m Hm) O)) as Hex0. cbv zeta in Hex0.
    change (MDef (param_text nparams) (printb body)) with (mean_of m) in Hex0.
    set (st := (if global then add_global else add_local) (mname name) (mean_of m) (St (print ns ++ rest) U B)) in *.
    assert (Hst : exists U0 B0, st = St (print ns ++ rest) U0 B0 /\ length U0 = length U /\
                   Rfg good2 ((if global then def_global else def_local) name m (frames (tick e budget))) U0 B0 /\ Heap e B0).
    { subst st. destruct global.
      - exists U, ((mname name, mean_of m) :: B). split; [reflexivity|]. split; [reflexivity|].
        split; [now apply Rfg_def_global|now apply Heap_add_mname].
      - pose proof (Rfg_def_local good2 _ U B name m Hm HR1) as Hl. cbv zeta in Hl.
        unfold add_local in *. cbn [ups] in *. destruct U as [|u U]; cbn [ups bottom set_ups set_bottom add_global input] in *.
        + eexists [], _. split; [reflexivity|]. split; [reflexivity|]. split; [exact Hl|now apply Heap_add_mname].
        + eexists (_ :: U), B. split; [reflexivity|]. split; [reflexivity|]. split; [exact Hl|exact HS]. }
    destruct Hst as (U0 & B0 & Est & Hlen0 & HR0 & HS0). rewrite Est in Hex0.
    destruct (IH _ _ _ _ _ Hns Hev Hg2 U0 B0 rest HR0 HS0 Hsafe) as (T & U' & B' & Hex & HR' & HS' & Hlen & Htxt).
    exists ([prim_elem (PDef global)] ++ T), U', B'. repeat split; [|exact HR'|exact (proj1 HS')|exact (proj2 HS')|lia|].
    + eapply exec_trans; [exact Hex0|exact Hex].
    + rewrite Htxt, text_of_app. replace (text_of [prim_elem (PDef global)]) with (@nil tok) by (destruct global; reflexivity). reflexivity.
  - (* let *)
    rewrite (eval_let f e out ns budget Hs) in Hev. rewrite (gsafe_let f e out ns budget Hs) in Hgs.
    destruct (lookup_frames target (frames (tick e budget))) as [m|] eqn:El; [|discriminate Hev].
    pose proof (Rfg_good good2 _ _ _ _ _ HR1 El) as Hm.
    assert (Hlk : chain_get U B (mname target) = Some (mean_of m)) by (rewrite (Rfg_lookup good2 _ _ _ target HR1), El; reflexivity).
    rewrite print_let. cbn [app].
    pose proof (exec_let good2 _ U B name target (mean_of m) (print ns ++ rest) HR1 Hlk) as Hex0.
    pose proof (Rfg_def_local good2 _ U B name m Hm HR1) as HR0. cbv zeta in HR0.
    set (st := add_local (mname name) (mean_of m) (St (print ns ++ rest) U B)) in *.
    assert (Hst : st = St (print ns ++ rest) (ups (add_local (mname name) (mean_of m) (St [] U B))) (bottom (add_local (mname name) (mean_of m) (St [] U B)))
                  /\ length (ups (add_local (mname name) (mean_of m) (St [] U B))) = length U
                  /\ Heap e (bottom (add_local (mname name) (mean_of m) (St [] U B)))).
    { subst st. unfold add_local, add_global, set_ups, set_bottom. cbn [ups bottom input].
      destruct U; (split; [reflexivity|split; [reflexivity|]]); [now apply Heap_add_mname|exact HS]. }
    destruct Hst as (Est & Hlen0 & HS0). rewrite Est in Hex0.
    destruct (IH _ _ _ _ _ Hns Hev Hgs _ _ rest HR0 HS0 Hsafe) as (T & U' & B' & Hex & HR' & HS' & Hlen & Htxt).
    exists ([prim_elem PLet] ++ T), U', B'. repeat split; [|exact HR'|exact (proj1 HS')|exact (proj2 HS')|lia|].
    + eapply exec_trans; [exact Hex0|exact Hex].
    + rewrite Htxt, text_of_app. reflexivity.
  - (* call *)
    cbn [f2_node] in Hn. apply andb_true_iff in Hn as [Hn Hok]. apply andb_true_iff in Hn as [Ho Ha].
    destruct (lookup_frames name (frames (tick e budget))) as [m|] eqn:El;
      [|rewrite (eval_call_none f e out ns budget Hs name opt args El) in Hev; discriminate Hev].
    pose proof (Rfg_good good2 _ _ _ _ _ HR1 El) as Hm.
    rewrite (eval_call_good f e out ns budget Hs name opt args m El) in Hev.
    rewrite (gsafe_call_good f e out ns budget Hs name opt args m El) in Hgs.
    destruct (Nat.eqb (length args) (m_n m)) eqn:Elen; [|discriminate Hev]. apply Nat.eqb_eq in Elen.
    destruct (Nat.ltb 4000 (length (subst 50 (call_args m opt args) (m_body m)))); [discriminate Hev|].
    apply andb_true_iff in Hgs as [Hg1 Hg2]. apply andb_true_iff in Hg1 as [Hom Hg1].
    destruct (eval f (tick e budget) out (subst 50 (call_args m opt args) (m_body m))) as [e2 out2| |] eqn:Eb; try discriminate Hev.
    rewrite print_dcall. cbn [app]. rewrite <- app_assoc. rewrite Elen in Hok |- *.
    assert (Hlk : chain_get U B (mname name) = Some (mean_of m)) by (rewrite (Rfg_lookup good2 _ _ _ name HR1), El; reflexivity).
    assert (Hsafe' : safe_rest (print ns ++ rest)) by (apply safe_print; [exact Hns|exact Hsafe]).
    destruct Hm as [Hm|(Ed & En & Hv)].
    2: { (* a parameterless \def handing back a body with ##k: the definitions there are made by \def's own reduction *)
      destruct opt as [x|]; [rewrite Ed in Hom; discriminate Hom|]. rewrite En in Elen. destruct args; [|discriminate Elen].
      unfold call_args in Eb, Hg1. rewrite Ed in Eb, Hg1. unfold mean_of in Hlk. rewrite Ed, En in Hlk.
      cbn [opt_toks app]. change (print_dargs (m_n m) 1 []) with (@nil tok). cbn [app].
      destruct (simV f (m_body m) _ _ _ _ Hv Eb Hg1 U B (print ns ++ rest) HR1 HS) as (T1 & U1 & B1 & Hex1 & HR1' & HS1 & Hlen1 & Htxt1).
      destruct (IH _ _ _ _ _ Hns Hev Hg2 U1 B1 rest HR1' HS1 Hsafe) as (T2 & U2 & B2 & Hex2 & HR2' & HS2 & Hlen2 & Htxt2).
      exists (T1 ++ T2), U2, B2. repeat split; [|exact HR2'|exact (proj1 HS2)|exact (proj2 HS2)|lia|].
      + eapply (exec_trans _ []); [apply (exec_call U B name (printb (m_body m)) _ Hlk)|]. eapply exec_trans; [exact Hex1|exact Hex2].
      + rewrite Htxt2, Htxt1, text_of_app. now rewrite app_assoc. }
    destruct (exec_call2 U B name m opt args (print ns ++ rest) Hm Hlk Ho Ha Elen Hom Hsafe' Hok) as [Hex0 HA].
    destruct (IH _ _ _ _ _ HA Eb Hg1 U B (print ns ++ rest) HR1 HS Hsafe') as (T1 & U1 & B1 & Hex1 & HR1' & HS1 & Hlen1 & Htxt1).
    destruct (IH _ _ _ _ _ Hns Hev Hg2 U1 B1 rest HR1' HS1 Hsafe) as (T2 & U2 & B2 & Hex2 & HR2' & HS2 & Hlen2 & Htxt2).
    exists (T1 ++ T2), U2, B2. repeat split; [|exact HR2'|exact (proj1 HS2)|exact (proj2 HS2)|lia|].
    + eapply (exec_trans _ []); [exact Hex0|]. eapply exec_trans; [exact Hex1|exact Hex2].
    + rewrite Htxt2, Htxt1, text_of_app. now rewrite app_assoc.
  - (* \expandafter\a\b *)
    rewrite (eval_expandafter f e out ns budget Hs) in Hev. rewrite (gsafe_expandafter f e out ns budget Hs) in Hgs.
    destruct (lookup_frames a (frames (tick e budget))) as [ma|] eqn:Ea; [|discriminate Hev].
    destruct (lookup_frames b (frames (tick e budget))) as [mb|] eqn:Eb0; [|discriminate Hev].
    destruct (m_n mb) as [|k0] eqn:Enb; [|discriminate Hev]. destruct (m_default mb) eqn:Edb; [discriminate Hev|].
    destruct (m_default ma) eqn:Eda; [discriminate Hev|].
    apply andb_true_iff in Hgs as [Hg0 Hgs]. apply andb_true_iff in Hg0 as [Hfa Hne]. apply andb_true_iff in Hfa as [Hua Hfa].
    rewrite (subst_A 50 [] _ Hfa) in Hev, Hgs.
    destruct (take_groups (m_n ma) (m_body mb) []) as [[args after]|] eqn:Et; [|discriminate Hev].
    apply andb_true_iff in Hgs as [Hg1 Hg2].
    destruct (eval f (tick e budget) out (NCall a None args :: after)) as [e2 out2| |] eqn:Eb; try discriminate Hev.
    destruct (take_print _ _ _ _ _ Et Hfa (Forall_nil _)) as (Eprint & Hargs & Hafter). cbn [rev print_args app] in Eprint.
    assert (Hlk : chain_get U B (mname b) = Some (MDef [] (print (m_body mb)))).
    { rewrite (Rfg_lookup good2 _ _ _ b HR1), Eb0. cbn [option_map]. unfold mean_of. rewrite Edb, Enb, (printb_Al _ Hfa). reflexivity. }
    assert (Hne' : print (m_body mb) <> []).
    { destruct (m_body mb) as [|x l]; [discriminate Hne|]. cbn [forallb] in Hfa. apply andb_true_iff in Hfa as [Hx _].
      destruct (safe_first x (fa_f2 x Hx)) as (t0 & l' & E & _). cbn [print]. rewrite E. discriminate. }
    assert (Hu' : undelim (length args) = true) by (rewrite (take_len _ _ _ _ _ Et); exact Hua).
    assert (HF' : forallb f2_node (NCall a None args :: after) = true).
    { cbn [forallb f2_node opt_ok]. rewrite (Forall_forallb2 _ _ Hargs), (dargs_ok_undelim _ Hu'). cbn [andb]. now apply fa_f2l. }
    destruct (IH _ _ _ _ _ HF' Eb Hg1 U B (print ns ++ rest) HR1 HS (safe_print _ _ Hns Hsafe)) as (T1 & U1 & B1 & Hex1 & HR1' & HS1 & Hlen1 & Htxt1).
    destruct (IH _ _ _ _ _ Hns Hev Hg2 U1 B1 rest HR1' HS1 Hsafe) as (T2 & U2 & B2 & Hex2 & HR2' & HS2 & Hlen2 & Htxt2).
    exists (T1 ++ T2), U2, B2. repeat split; [|exact HR2'|exact (proj1 HS2)|exact (proj2 HS2)|lia|].
    + cbn [print_node app]. eapply (exec_trans _ []); [apply (exec_expandafter good2 _ U B a b _ _ HR1 Hlk Hne')|].
      replace (esc (mname a) :: print (m_body mb) ++ print ns ++ rest) with (print (NCall a None args :: after) ++ print ns ++ rest).
      2: { cbn [print]. rewrite (print_call _ _ _ Hu'), Eprint. cbn [opt_toks app]. now rewrite <- !app_assoc. }
      eapply exec_trans; [exact Hex1|exact Hex2].
    + rewrite Htxt2, Htxt1, text_of_app. now rewrite app_assoc.
  - (* conditional *)
    cbn [f2_node] in Hn. apply andb_true_iff in Hn as [Hn Hel]. apply andb_true_iff in Hn as [Ht Hth].
    rewrite (eval_cond f e out ns budget Hs) in Hev. rewrite (gsafe_cond f e out ns budget Hs) in Hgs. cbv zeta in Hgs.
    apply andb_true_iff in Hgs as [Hg1 Hg2]. apply andb_true_iff in Hg1 as [Hdecl Hg1].
    set (br := if eval_test (tick e budget) t then thn else match els with Some x => x | None => [] end) in *.
    destruct (eval f (tick e budget) out br) as [e2 out2| |] eqn:Eb; try discriminate Hev.
    rewrite print_cond. rewrite <- !app_assoc. cbn [app].
    assert (Hel' : forall e0, els = Some e0 -> forallb f2_node e0 = true) by (intros e0 ->; exact Hel).
    assert (Hex0' : exists Xt X, Forall (fun x => is_elem x = true) X /\ (forall r', exec (St (Xt ++ r') U B) X (St r' U B)) /\
              exec (St (print_test t ++ print thn ++ else_part els ++ esc s_fi :: print ns ++ rest) U B) []
                   (St ((if eval_test (tick e budget) t then Xt ++ print thn else print (else_nodes els)) ++ print ns ++ rest) U B)).
    { destruct t as [| |a0 r0 b0|a0| |sw| | |] eqn:Et; try discriminate Ht;
        try (apply (exec_cond2 good2 _ U B _ thn els (print ns ++ rest) (tick e budget) HR1 (proj2 HS) Ht I (walks_Wl _ (f2_Wl _ Hth))
                      (fun e0 He0 => walks_Wl _ (f2_Wl _ (Hel' e0 He0))))).
      (* a switch: declared (gdef_safe), so its three macros and its cell are in the bottom frame *)
      exists [], []. split; [constructor|]. split; [intros r'; apply ex_refl|].
      pose proof (proj1 HS sw) as Hsw. cbn [eval_test]. change (switches (tick e budget)) with (switches e) in *.
      destruct (alookup sw (switches e)) as [bsw|]; [|discriminate Hdecl]. destruct Hsw as (n & H1 & _ & _ & H4).
      cbn [print_test app]. exact (exec_switch good2 _ U B sw bsw n thn els (print ns ++ rest) HR1 H1 H4 (walks_Wl _ (f2_Wl _ Hth))
                                      (fun e0 He0 => walks_Wl _ (f2_Wl _ (Hel' e0 He0)))). }
    destruct Hex0' as (Xt & X & HX & HXe & Hex0).
    assert (Hbr : forallb f2_node br = true) by (subst br; destruct (eval_test (tick e budget) t); [exact Hth|destruct els as [x|]; [now apply Hel'|reflexivity]]).
    destruct (IH _ _ _ _ _ Hbr Eb Hg1 U B (print ns ++ rest) HR1 HS (safe_print _ _ Hns Hsafe)) as (T1 & U1 & B1 & Hex1 & HR1' & HS1 & Hlen1 & Htxt1).
    destruct (IH _ _ _ _ _ Hns Hev Hg2 U1 B1 rest HR1' HS1 Hsafe) as (T2 & U2 & B2 & Hex2 & HR2' & HS2 & Hlen2 & Htxt2).
    exists ((if eval_test (tick e budget) t then X else []) ++ T1 ++ T2), U2, B2. repeat split; [|exact HR2'|exact (proj1 HS2)|exact (proj2 HS2)|lia|].
    + eapply (exec_trans _ []); [exact Hex0|]. subst br. destruct (eval_test (tick e budget) t).
      * rewrite <- app_assoc. eapply exec_trans; [apply HXe|eapply exec_trans; [exact Hex1|exact Hex2]].
      * cbn [app]. replace (print (else_nodes els)) with (print match els with Some x => x | None => [] end) by (destruct els; reflexivity).
        eapply exec_trans; [exact Hex1|exact Hex2].
    + rewrite Htxt2, Htxt1, !text_of_app.
      replace (text_of (if eval_test (tick e budget) t then X else [])) with (@nil tok)
        by (destruct (eval_test (tick e budget) t); [now rewrite text_of_elems|reflexivity]).
      cbn [app]. now rewrite app_assoc.
  - (* \ifcase *)
    cbn [f2_node] in Hn. apply andb_true_iff in Hn as [Hn Hel]. apply andb_true_iff in Hn as [Hh Hbs].
    destruct (case_head_inv _ _ Hh) as (b0 & r & -> & Ha).
    rewrite (eval_case f e out ns budget Hs) in Hev. rewrite (gsafe_case f e out ns budget Hs) in Hgs.
    apply andb_true_iff in Hgs as [Hg1 Hg2].
    set (z := opval (tick e budget) a) in *.
    set (br := case_branch z (b0 :: r) els) in *.
    destruct (eval f (tick e budget) out br) as [e2 out2| |] eqn:Eb; try discriminate Hev.
    pose proof (forallb2_Forall _ _ Hbs) as HbsF. inversion HbsF as [|x l Hb0 Hr]; subst.
    assert (Hel' : forall e0, els = Some e0 -> forallb f2_node e0 = true) by (intros e0 ->; exact Hel).
    destruct (exec_case good2 _ U B a b0 r els (print ns ++ rest) (tick e budget) HR1 (proj2 HS) Ha (walks_Wl _ (f2_Wl _ Hb0))
               (Forall_impl _ (fun b Hb => walks_Wl b (f2_Wl b Hb)) Hr)
               (fun e0 He0 => walks_Wl _ (f2_Wl _ (Hel' e0 He0)))) as (Xt & X & HX & HXe & Hex0).
    assert (Hbr : forallb f2_node br = true).
    { subst br. unfold case_branch. destruct ((0 <=? z) && (z <? Z.of_nat (length (b0 :: r))))%Z.
      - generalize (Z.to_nat z). clear -HbsF. induction HbsF as [|b l Hb _ IHl]; intros [|k]; try reflexivity; [exact Hb|apply IHl].
      - destruct els as [x|]; [now apply Hel'|reflexivity]. }
    destruct (IH _ _ _ _ _ Hbr Eb Hg1 U B (print ns ++ rest) HR1 HS (safe_print _ _ Hns Hsafe)) as (T1 & U1 & B1 & Hex1 & HR1' & HS1 & Hlen1 & Htxt1).
    destruct (IH _ _ _ _ _ Hns Hev Hg2 U1 B1 rest HR1' HS1 Hsafe) as (T2 & U2 & B2 & Hex2 & HR2' & HS2 & Hlen2 & Htxt2).
    exists (X ++ T1 ++ T2), U2, B2. repeat split; [|exact HR2'|exact (proj1 HS2)|exact (proj2 HS2)|lia|].
    + eapply (exec_trans _ []); [exact Hex0|]. eapply exec_trans; [apply HXe|eapply exec_trans; [exact Hex1|exact Hex2]].
    + rewrite Htxt2, Htxt1, !text_of_app, (text_of_elems X HX). cbn [app]. now rewrite app_assoc.
  - (* \zs..true / \zs..false *)
    rewrite (eval_setsw f e out ns budget Hs) in Hev. rewrite (gsafe_setsw f e out ns budget Hs) in Hgs.
    apply andb_true_iff in Hgs as [Hdecl Hg2]. change (switches (tick e budget)) with (switches e) in *.
    pose proof (proj1 HS name) as Hsw. destruct (alookup name (switches e)) as [b0|] eqn:Eal; [|discriminate Hdecl].
    destruct Hsw as (n & H1 & H2 & H3 & H4).
    assert (Hset : findm (setname name b) B = Some (MIfSet (cellkey n name) b)) by (destruct b; assumption).
    pose proof (exec_setsw good2 _ U B name b n (print ns ++ rest) HR1 Hset) as Hex0.
    assert (HR0 : Rfg good2 (frames (with_switches (tick e budget) (aset name b (switches e)))) U ((cellkey n name, MCell b) :: B))
      by (apply Rfg_add_swkey; [reflexivity|intros id; unfold cellkey, mname; discriminate|exact HR1]).
    pose proof (Heap_setsw (tick e budget) _ name b0 b n HS Eal H1) as HS0.
    destruct (IH _ _ _ _ _ Hns Hev Hg2 U _ rest HR0 HS0 Hsafe) as (T & U' & B' & Hex & HR' & HS' & Hlen & Htxt).
    exists T, U', B'. repeat split; [|exact HR'|exact (proj1 HS')|exact (proj2 HS')|exact Hlen|exact Htxt].
    cbn [print_node app]. eapply (exec_trans _ []); [exact Hex0|exact Hex].
  - (* \newif *)
    rewrite (eval_newsw f e out ns budget Hs) in Hev. rewrite (gsafe_newsw f e out ns budget Hs) in Hgs.
    change (switches (tick e budget)) with (switches e) in *.
    pose proof (exec_newif good2 _ U B name (print ns ++ rest) HR1) as Hex0.
    pose proof (proj1 HS name) as Hsw. unfold new_switch in *.
    destruct (alookup name (switches e)) as [b0|] eqn:Eal.
    + destruct Hsw as (n & H1 & _). rewrite H1 in Hex0.
      destruct (IH _ _ _ _ _ Hns Hev Hgs U B rest HR1 HS Hsafe) as (T & U' & B' & Hex & HR' & HS' & Hlen & Htxt).
      exists ([prim_elem PNewif] ++ T), U', B'. repeat split; [|exact HR'|exact (proj1 HS')|exact (proj2 HS')|exact Hlen|].
      * cbn [print_node app]. eapply (exec_trans _ [prim_elem PNewif]); [exact Hex0|exact Hex].
      * rewrite Htxt. reflexivity.
    + rewrite Hsw in Hex0. cbv zeta in Hex0.
      set (key := cellkey (N.of_nat (length B)) name) in *.
      set (B0 := (key, MCell false) :: (setname name false, MIfSet key false) :: (setname name true, MIfSet key true) :: (ifname name, MIf key) :: B) in *.
      assert (HR0 : Rfg good2 (frames (with_switches (tick e budget) (aset name false (switches e)))) U B0).
      { destruct HR1 as (mfs & mg & E & HF & [HB1 HB2] & Hok). exists mfs, mg. split; [exact E|]. split; [exact HF|]. split; [|exact Hok].
        split.
        - intros id. subst B0. cbn [findm]. change (seqb (mname id) key) with false.
          replace (seqb (mname id) (setname name false)) with false by reflexivity.
          replace (seqb (mname id) (setname name true)) with false by reflexivity.
          change (seqb (mname id) (ifname name)) with false. apply HB1.
        - intros k Hk Hsw'. subst B0. cbn [findm].
          destruct (seqb k key) eqn:E1; [apply seqb_eq in E1; subst k; discriminate Hsw'|].
          destruct (seqb k (setname name false)) eqn:E2; [apply seqb_eq in E2; subst k; discriminate Hsw'|].
          destruct (seqb k (setname name true)) eqn:E3; [apply seqb_eq in E3; subst k; discriminate Hsw'|].
          destruct (seqb k (ifname name)) eqn:E4; [apply seqb_eq in E4; subst k; discriminate Hsw'|].
          now apply HB2. }
      pose proof (Heap_newsw (tick e budget) B name HS Eal) as HS0. cbv zeta in HS0. fold key in HS0. fold B0 in HS0.
      destruct (IH _ _ _ _ _ Hns Hev Hgs U B0 rest HR0 HS0 Hsafe) as (T & U' & B' & Hex & HR' & HS' & Hlen & Htxt).
      exists ([prim_elem PNewif] ++ T), U', B'. repeat split; [|exact HR'|exact (proj1 HS')|exact (proj2 HS')|exact Hlen|].
      * cbn [print_node app]. eapply (exec_trans _ [prim_elem PNewif]); [exact Hex0|exact Hex].
      * rewrite Htxt. reflexivity.
  - (* \stepcounter *)
    rewrite (eval_step f e out ns budget Hs) in Hev. rewrite (gsafe_step f e out ns budget Hs) in Hgs.
    pose proof (exec_step good2 _ U B c (print ns ++ rest) HR1) as Hex0. rewrite (CtR_cnt (tick e budget) B c (proj2 HS)) in Hex0.
    assert (HR0 : Rfg good2 (frames (with_counters (tick e budget) (aset c (cnt (tick e budget) c + 1)%Z (counters (tick e budget))))) U
                    ((ckey (cname c), MCount (cnt (tick e budget) c + 1)) :: B))
      by (apply Rfg_add_swkey; [reflexivity|intros id; unfold ckey, mname; discriminate|exact HR1]).
    pose proof (Heap_setc (tick e budget) B c (cnt (tick e budget) c + 1)%Z HS) as HS0.
    destruct (IH _ _ _ _ _ Hns Hev Hgs U _ rest HR0 HS0 Hsafe) as (T & U' & B' & Hex & HR' & HS' & Hlen & Htxt).
    exists ([prim_elem PStepcounter] ++ T), U', B'. repeat split; [|exact HR'|exact (proj1 HS')|exact (proj2 HS')|exact Hlen|].
    + cbn [print_node app]. eapply (exec_trans _ [prim_elem PStepcounter]); [exact Hex0|exact Hex].
    + rewrite Htxt. reflexivity.
  - (* \setcounter *)
    rewrite (eval_setc f e out ns budget Hs) in Hev. rewrite (gsafe_setc f e out ns budget Hs) in Hgs.
    pose proof (exec_setc good2 _ U B c z (print ns ++ rest) HR1) as Hex0.
    assert (HR0 : Rfg good2 (frames (with_counters (tick e budget) (aset c z (counters (tick e budget))))) U ((ckey (cname c), MCount z) :: B))
      by (apply Rfg_add_swkey; [reflexivity|intros id; unfold ckey, mname; discriminate|exact HR1]).
    pose proof (Heap_setc (tick e budget) B c z HS) as HS0.
    destruct (IH _ _ _ _ _ Hns Hev Hgs U _ rest HR0 HS0 Hsafe) as (T & U' & B' & Hex & HR' & HS' & Hlen & Htxt).
    exists ([prim_elem PSetcounter] ++ T), U', B'. repeat split; [|exact HR'|exact (proj1 HS')|exact (proj2 HS')|exact Hlen|].
    + cbn [print_node app]. repeat (rewrite <- app_assoc; cbn [app]). eapply (exec_trans _ [prim_elem PSetcounter]); [exact Hex0|exact Hex].
    + rewrite Htxt. reflexivity.
  - (* \addtocounter *)
    rewrite (eval_addc f e out ns budget Hs) in Hev. rewrite (gsafe_addc f e out ns budget Hs) in Hgs.
    pose proof (exec_addc good2 _ U B c z (print ns ++ rest) HR1) as Hex0. rewrite (CtR_cnt (tick e budget) B c (proj2 HS)) in Hex0.
    assert (HR0 : Rfg good2 (frames (with_counters (tick e budget) (aset c (cnt (tick e budget) c + z)%Z (counters (tick e budget))))) U
                    ((ckey (cname c), MCount (cnt (tick e budget) c + z)) :: B))
      by (apply Rfg_add_swkey; [reflexivity|intros id; unfold ckey, mname; discriminate|exact HR1]).
    pose proof (Heap_setc (tick e budget) B c (cnt (tick e budget) c + z)%Z HS) as HS0.
    destruct (IH _ _ _ _ _ Hns Hev Hgs U _ rest HR0 HS0 Hsafe) as (T & U' & B' & Hex & HR' & HS' & Hlen & Htxt).
    exists ([prim_elem PAddtocounter] ++ T), U', B'. repeat split; [|exact HR'|exact (proj1 HS')|exact (proj2 HS')|exact Hlen|].
    + cbn [print_node app]. repeat (rewrite <- app_assoc; cbn [app]). eapply (exec_trans _ [prim_elem PAddtocounter]); [exact Hex0|exact Hex].
    + rewrite Htxt. reflexivity.
Qed.

Theorem engine_simulates_F2 fuel p e out :
  in_F2 p = true -> den fuel p = Ok e out -> gdef_safe fuel p = true ->
  exists fuel' st' T,
    run fuel' (init (print p)) [] = Done st' T /\
    text_of T = words_text (rev out) /\
    ups st' = [] /\
    (forall id, findm (mname id) (bottom st') = option_map mean_of (alookup id (last (frames e) []))) /\
    (forall k, (forall id, k <> mname id) -> swkey k = false -> findm k (bottom st') = findm k base_frame).
Proof.
  intros HF Hden Hsafe. unfold in_F2 in HF. unfold den in Hden. unfold gdef_safe in Hsafe.
  destruct (sim2 fuel empty_env [] p e out HF Hden Hsafe [] base_frame [] (Rfg_init good2) Heap_init I) as (T & U' & B' & Hex & HR & HS & Hlen & Htxt).
  destruct U' as [|u U']; [|discriminate Hlen]. rewrite app_nil_r in Hex.
  destruct (exec_run _ _ _ Hex eq_refl) as (fuel' & Hrun).
  exists fuel', (St [] [] B'), T. split; [exact (Hrun [])|]. split; [cbn in Htxt; now rewrite Htxt|]. split; [reflexivity|].
  destruct HR as (mfs & mg & E & HF2 & HB & _). inversion HF2; subst. rewrite E. cbn [app last bottom]. exact HB.
Qed.

(* F3: nested definitions with parameters of their own (##k); in_F3 = in_F2 since [f2_node] covers them *)
Theorem engine_simulates_F3 fuel p e out :
  in_F3 p = true -> den fuel p = Ok e out -> gdef_safe fuel p = true ->
  exists fuel' st' T,
    run fuel' (init (print p)) [] = Done st' T /\
    text_of T = words_text (rev out) /\
    ups st' = [] /\
    (forall id, findm (mname id) (bottom st') = option_map mean_of (alookup id (last (frames e) []))) /\
    (forall k, (forall id, k <> mname id) -> swkey k = false -> findm k (bottom st') = findm k base_frame).
Proof. exact (engine_simulates_F2 fuel p e out). Qed.

(* ============================================================================================== *)
(* Delimited parameters in the engine, at token level (MacroSpec's parameter texts: literal prefix,  *)
(* undelimited and delimited parameters; calls written with the braces { } the Tokenizer makes).     *)
(* Not part of run . print = den: the program printer has no delimiters.                            *)
(* ============================================================================================== *)
Fixpoint render_args_bg (l : list pkind) (args : list (list tok)) : list tok :=
  match l, args with
  | k :: r, a :: ar =>
      match k with
      | PU => bg :: a ++ eg :: render_args_bg r ar
      | PD d more => a ++ d :: more ++ render_args_bg r ar
      end
  | _, _ => []
  end.
Definition render_call_bg (p : pattern) (args : list (list tok)) : list tok := pre p ++ render_args_bg (ps p) args.
Definition pendb (p : option (list tok)) : list tok := match p with Some a => bg :: a ++ [eg] | None => [] end.

Lemma read_argument_bal a rest : balanced a = true -> read_argument (bg :: a ++ eg :: rest) = (Some a, rest).
Proof. intros Hb. apply read_argument_bg. unfold balanced in Hb. destruct (depth_after a O) as [[|n]|]; try discriminate; reflexivity. Qed.

Lemma match_params_bg l : forall i args params pend rest,
  call_ok l args = true -> pend_ok pend = true -> (i + length l <= 10)%nat ->
  match_pattern (render_params i l) false (pend_flag pend) params (pendb pend ++ render_args_bg l args ++ rest) =
  MOk (rev params ++ pend_list pend ++ map Some args) rest.
Proof.
  induction l as [|k l IH]; intros i args params pend rest Hok Hp Hi.
  - destruct args; [|discriminate]. cbn [render_params render_args_bg app map]. rewrite app_nil_r.
    destruct pend as [a0|]; cbn [pend_flag pendb pend_list match_pattern].
    + cbn [pend_ok] in Hp. change ((bg :: a0 ++ [eg]) ++ rest) with (bg :: (a0 ++ [eg]) ++ rest).
      rewrite <- app_assoc. cbn [app]. rewrite (read_argument_bal a0 rest Hp). cbn [rev]. reflexivity.
    + now rewrite app_nil_r.
  - destruct args as [|a args]; [destruct k; discriminate|].
    cbn [length] in Hi. cbn [render_params]. rewrite mp_hash_digit by lia.
    assert (Hstep : forall r' tail,
              (if pend_flag pend then let '(x, s') := read_argument (pendb pend ++ tail) in match_pattern r' false true (x :: params) s'
               else match_pattern r' false true params (pendb pend ++ tail)) =
              match_pattern r' false true (pend_list pend ++ params) tail).
    { intros r' tail. destruct pend as [a0|]; cbn [pend_flag pendb pend_list app]; [|reflexivity].
      cbn [pend_ok] in Hp. rewrite <- app_assoc. cbn [app]. now rewrite (read_argument_bal a0 tail Hp). }
    rewrite Hstep. clear Hstep.
    assert (Hrev : forall tl, rev (pend_list pend ++ params) ++ tl = rev params ++ pend_list pend ++ tl).
    { intros tl. destruct pend; cbn [pend_list app rev]; [now rewrite <- app_assoc | reflexivity]. }
    destruct k as [|d more].
    + cbn [call_ok] in Hok. apply andb_true_iff in Hok. destruct Hok as (Hb & Hok).
      cbn [delim app render_args_bg].
      assert (E : (bg :: a ++ eg :: render_args_bg l args) ++ rest = pendb (Some a) ++ render_args_bg l args ++ rest).
      { cbn [pendb app]. rewrite <- !app_assoc. reflexivity. }
      change (bg :: (a ++ eg :: render_args_bg l args) ++ rest) with ((bg :: a ++ eg :: render_args_bg l args) ++ rest).
      rewrite E. change true with (pend_flag (Some a)).
      rewrite (IH (S i) args (pend_list pend ++ params) (Some a) rest Hok) by (assumption || lia).
      cbn [pend_list map app]. rewrite Hrev. reflexivity.
    + cbn [call_ok] in Hok. repeat (apply andb_true_iff in Hok; destruct Hok as (Hok & ?)).
      cbn [delim render_args_bg]. rewrite <- !app_comm_cons. rewrite mp_delim by assumption.
      rewrite <- !app_assoc. cbn [app].
      match goal with H : forallb (fun t => negb (tok_eqb t d)) a = true |- _ => rewrite (read_until_spec d a [] _ H) end.
      cbn [rev app]. rewrite <- ?app_assoc.
      match goal with H : forallb lit_ok more = true |- _ => rewrite (lits_consumed more _ _ _ H) end.
      change false with (pend_flag None) at 2. change (render_args_bg l args ++ rest) with (pendb None ++ render_args_bg l args ++ rest).
      match goal with H : call_ok l args = true |- _ => rewrite (IH (S i) args (Some a :: pend_list pend ++ params) None rest H) by (reflexivity || lia) end.
      cbn [pend_list map app rev]. rewrite <- app_assoc. cbn [app]. rewrite Hrev. reflexivity.
Qed.

Lemma match_roundtrip_bg p args rest :
  pattern_ok p = true -> call_ok (ps p) args = true ->
  match_pattern (render_pattern p) false false [None] (render_call_bg p args ++ rest) = MOk (None :: map Some args) rest.
Proof.
  intros Hp Hc. unfold pattern_ok in Hp. apply andb_true_iff in Hp. destruct Hp as (Hpre & Hn). apply Nat.leb_le in Hn.
  unfold render_pattern, render_call_bg. rewrite <- app_assoc. rewrite (lits_consumed (pre p) _ _ _ Hpre).
  change false with (pend_flag None) at 2. change (render_args_bg (ps p) args ++ rest) with (pendb None ++ render_args_bg (ps p) args ++ rest).
  rewrite (match_params_bg (ps p) 1 args [None] None rest Hc) by (reflexivity || lia).
  reflexivity.
Qed.

(* one iteration of the engine on a call of a \def macro with delimited parameters *)
Lemma engine_delimited_call nx g nm p b args rest U B :
  pattern_ok p = true -> call_ok (ps p) args = true -> body_ok false b = true -> render_pattern p <> [] ->
  chain_get U B nm = Some (MDef (render_pattern p) (render_body b)) ->
  iter_step nx g (St (Tok CC_ESCAPE nm :: render_call_bg p args ++ rest) U B) = Ret (SCont (St (subst_body args b ++ rest) U B)).
Proof.
  intros Hp Hc Hb Hne Hlk.
  rewrite (step_macro nx g (Tok CC_ESCAPE nm) nm (MDef (render_pattern p) (render_body b)) _ U B eq_refl eq_refl Hlk).
  cbn [invoke input]. unfold definition_invoke. destruct (render_pattern p) eqn:E; [contradiction|]. rewrite <- E.
  rewrite (match_roundtrip_bg p args rest Hp Hc), (expand_def_subst b false args Hb). reflexivity.
Qed.

(* \def itself on such a parameter text: nothing in it is a brace, it does not begin with a blank *)
Lemma has_nested_lits l r : forallb lit_ok l = true -> has_nested (l ++ r) = has_nested r.
Proof.
  induction l as [|t l IH]; intros H; [reflexivity|]. cbn [forallb] in H. apply andb_true_iff in H as [Ht Hl].
  unfold lit_ok in Ht. apply negb_true_iff in Ht. cbn [app has_nested]. rewrite Ht. now apply IH.
Qed.
Lemma has_nested_params l : forall i args, call_ok l args = true -> has_nested (render_params i l) = false.
Proof.
  induction l as [|k l IH]; intros i args H; [reflexivity|]. destruct args as [|a args]; [destruct k; discriminate H|].
  cbn [render_params has_nested]. change (is_param hash_tok) with true. cbn iota. change (is_param (digit_tok i)) with false. cbn iota.
  destruct k as [|d more]; cbn [call_ok] in H.
  - apply andb_true_iff in H as [_ H]. cbn [delim app]. now apply (IH (S i) args).
  - repeat (apply andb_true_iff in H; destruct H as (H & ?)). cbn [delim].
    rewrite (has_nested_lits (d :: more)); [now apply (IH (S i) args)|]. cbn [forallb]. apply andb_true_iff. split; assumption.
Qed.
Lemma ros_head l : match l with t :: _ => is_space t = false | [] => True end -> read_optional_spaces l = l.
Proof. destruct l as [|t l]; intros H; [reflexivity|]. cbn [read_optional_spaces]. now rewrite H. Qed.

Lemma def_invoke_pattern gl nm p body args tl U B :
  pattern_ok p = true -> call_ok (ps p) args = true ->
  forallb (fun t => negb (is_bgroup t)) (render_pattern p) = true ->
  match render_pattern p with t :: _ => is_space t = false | [] => True end ->
  depth_after body O = Some O ->
  def_invoke gl (St (Tok CC_ESCAPE nm :: render_pattern p ++ bg :: body ++ eg :: tl) U B)
  = Ret (push_tok (prim_elem (PDef gl)) ((if gl then add_global else add_local) nm (MDef (render_pattern p) body) (St tl U B))).
Proof.
  intros Hp Hc Hnb Hsp Hb. unfold def_invoke, ros. cbn [input read_optional_spaces].
  change (is_space (Tok CC_ESCAPE nm)) with false. cbn iota. unfold set_input. cbn [input ups bottom].
  assert (Hros : read_optional_spaces (render_pattern p ++ bg :: body ++ eg :: tl) = render_pattern p ++ bg :: body ++ eg :: tl).
  { apply ros_head. destruct (render_pattern p) as [|t l]; [reflexivity|exact Hsp]. }
  rewrite Hros.
  assert (HnbF : Forall (fun t => is_bgroup t = false) (render_pattern p)).
  { apply Forall_forall. intros t Ht. rewrite forallb_forall in Hnb. specialize (Hnb t Ht). now apply negb_true_iff in Hnb. }
  rewrite (read_args_nobg _ [] _ HnbF). cbn [rev app input ups bottom read_optional_spaces].
  change (is_space bg) with false. cbn iota.
  unfold read_token. change (is_bgroup bg) with true. cbn iota.
  rewrite (read_group_app body O [] (eg :: tl) O Hb). cbn [read_group]. change (is_bgroup eg) with false. change (is_egroup eg) with true. cbn iota.
  rewrite app_nil_r, rev_involutive.
  assert (Hnest : has_nested (render_pattern p) = false).
  { unfold pattern_ok in Hp. apply andb_true_iff in Hp as [Hpre _]. unfold render_pattern. rewrite (has_nested_lits _ _ Hpre).
    now apply (has_nested_params (ps p) 1 args). }
  rewrite Hnest. reflexivity.
Qed.

(* \def\nm<parameter text>{<body>} followed by a conforming call \nm<arguments>: the engine defines the macro, yields the \def
   instance, and replaces the call by the body with every #k replaced by the k-th argument; the text after the call is untouched *)
Theorem engine_delimited_parameters p b args rest nm :
  pattern_ok p = true -> call_ok (ps p) args = true -> body_ok false b = true -> render_pattern p <> [] ->
  forallb (fun t => negb (is_bgroup t)) (render_pattern p) = true ->
  match render_pattern p with t :: _ => is_space t = false | [] => True end ->
  depth_after (render_body b) O = Some O ->
  exec (init (esc s_def :: Tok CC_ESCAPE nm :: render_pattern p ++ bg :: render_body b ++ eg ::
              Tok CC_ESCAPE nm :: render_call_bg p args ++ rest))
       [prim_elem (PDef false)]
       (St (subst_body args b ++ rest) [] ((nm, MDef (render_pattern p) (render_body b)) :: base_frame)).
Proof.
  intros Hp Hc Hb Hne Hnb Hsp Hbal. unfold init. eapply (ex_cont O).
  - rewrite (step_macro _ _ (esc s_def) s_def (MPrim (PDef false)) _ [] base_frame eq_refl eq_refl eq_refl).
    cbn [invoke]. rewrite (def_invoke_pattern false nm p (render_body b) args _ [] base_frame Hp Hc Hnb Hsp Hbal). reflexivity.
  - unfold add_local, add_global, push_tok, set_input, set_bottom. cbn [ups bottom input].
    eapply (ex_yield O); [apply step_elem; reflexivity|].
    eapply (ex_cont O); [|apply ex_refl].
    apply (engine_delimited_call _ _ nm p b args rest [] _ Hp Hc Hb Hne). cbn [chain_get findm]. now rewrite seqb_refl.
Qed.

(* ============================================================================================== *)
(* Engine frames refine Model/Context.v (C04): for every injective coding of macro names by numbers *)
(* and every coding of meanings by values that maps the unrecognized class of a name to VUnrec of   *)
(* its code, the engine's context operations are Context.v's push(None) / pop(None) / addLocal /    *)
(* addGlobal / lookup / __getitem__ on the abstracted state (no category changes, no \let tokens,   *)
(* no object frames: cats = cur = 0, lets = [], fobj = None).                                       *)
(* ============================================================================================== *)
Section ContextRefinement.
  Context (cn : list N -> N) (cv : Engine.meaning -> Scope.value).
  Context (Hinj : forall a b, cn a = cn b -> a = b) (Hunrec : forall k, cv (MUnrec k) = Scope.VUnrec (cn k)).

  Definition abs_frame (f : Engine.frame) : Context.frame :=
    {| Context.macros := map (fun kv => (cn (fst kv), cv (snd kv))) f; Context.lets := []; Context.cats := O; Context.fobj := None |}.
  Definition abs_state (s : Engine.state) : Context.state :=
    {| Context.ups := map abs_frame (ups s); Context.bottom := abs_frame (bottom s);
       Context.heap := [default_table]; Context.cur := O; Context.m_cells := [] |}.

  Lemma abs_find k f : Scope.find (cn k) (Context.macros (abs_frame f)) = option_map cv (findm k f).
  Proof.
    induction f as [|[k' v] f IH]; [reflexivity|]. cbn [abs_frame Context.macros map fst snd Scope.find findm] in *.
    destruct (seqb k k') eqn:E.
    - apply seqb_eq in E. subst k'. now rewrite N.eqb_refl.
    - destruct (N.eqb_spec (cn k') (cn k)) as [Hc|Hc]; [|exact IH].
      apply Hinj in Hc. subst k'. now rewrite seqb_refl in E.
  Qed.

  Lemma abs_lookup s k : Context.lookup (abs_state s) (cn k) = option_map cv (Engine.lookup s k).
  Proof.
    unfold Context.lookup, Engine.lookup, abs_state. cbn [Context.ups Context.bottom].
    induction (ups s) as [|f U IH]; cbn [map Context.chain_get Engine.chain_get]; rewrite abs_find; [reflexivity|].
    destruct (findm k f); [reflexivity|exact IH].
  Qed.

  Lemma abs_push s : abs_state (push_frame s) = Context.push None (abs_state s).
  Proof. reflexivity. Qed.
  Lemma abs_pop s : abs_state (pop_frame s) = Context.pop None (abs_state s).
  Proof.
    unfold pop_frame, Context.pop, abs_state, Context.map_methods, Context.set_ups, Context.set_cur, Context.top.
    cbn [ups bottom set_ups Context.ups Context.bottom Context.heap Context.cur Context.m_cells].
    destruct (ups s) as [|f [|f' U]]; reflexivity.
  Qed.
  Lemma abs_add_global k v s : abs_state (add_global k v s) = Context.add_global (cn k) (cv v) (abs_state s).
  Proof. reflexivity. Qed.
  Lemma abs_add_local k v s : abs_state (add_local k v s) = Context.add_local (cn k) (cv v) (abs_state s).
  Proof. unfold add_local. destruct (ups s) as [|f U] eqn:E; unfold abs_state, Context.add_local, Context.upd_top; cbn; rewrite ?E; reflexivity. Qed.
  Lemma abs_getitem k s :
    Context.getitem (cn k) (abs_state s) = (abs_state (fst (getitem k s)), cv (snd (getitem k s))).
  Proof.
    unfold Context.getitem, getitem. rewrite abs_lookup. destruct (Engine.lookup s k) as [v|]; [reflexivity|].
    cbn [option_map fst snd]. now rewrite abs_add_global, Hunrec.
  Qed.
End ContextRefinement.

Lemma context_refines (cn : list N -> N) (cv : Engine.meaning -> Scope.value) :
  (forall a b, cn a = cn b -> a = b) -> (forall k, cv (MUnrec k) = Scope.VUnrec (cn k)) ->
  forall (s : Engine.state) (k : list N) (v : Engine.meaning),
    Context.lookup (abs_state cn cv s) (cn k) = option_map cv (Engine.lookup s k) /\
    Context.getitem (cn k) (abs_state cn cv s) = (abs_state cn cv (fst (getitem k s)), cv (snd (getitem k s))) /\
    abs_state cn cv (push_frame s) = Context.push None (abs_state cn cv s) /\
    abs_state cn cv (pop_frame s) = Context.pop None (abs_state cn cv s) /\
    abs_state cn cv (add_local k v s) = Context.add_local (cn k) (cv v) (abs_state cn cv s) /\
    abs_state cn cv (add_global k v s) = Context.add_global (cn k) (cv v) (abs_state cn cv s).
Proof.
  intros Hinj Hun s k v. repeat split.
  - now apply abs_lookup.
  - now apply abs_getitem.
  - apply abs_pop.
  - apply abs_add_local.
Qed.

End DL.
