From Coq Require Import List NArith ZArith Bool Lia Arith.
Import ListNotations.
From Verif Require Import Val Catcodes Tokenizer.
Local Open Scope N_scope.

(* ------------------------------------------------------------------------------------------- *)
(* next_char: progress, category soundness, nothing dropped is delivered                        *)

Lemma next_char_props t : forall n l, (length l <= n)%nat ->
  forall k c rest, next_char t l = CChar k c rest ->
    (length rest < length l)%nat /\ k = which_code t c /\ dropped k = false.
Proof.
  induction n as [|n IH]; intros l Hl k c rest H.
  - destruct l; [discriminate | cbn in Hl; lia].
  - destruct l as [|a r]; [discriminate|].
    cbn [next_char] in H.
    destruct (which_code t a =? CC_SUPER) eqn:Hs.
    + destruct r as [|c2 r2].
      * inversion H; subst. apply N.eqb_eq in Hs. cbn [length]. repeat split; try lia. rewrite Hs. reflexivity.
      * destruct (c2 =? a) eqn:He.
        -- destruct r2 as [|x r3].
           ++ inversion H; subst. apply N.eqb_eq in Hs. cbn [length]. repeat split; try lia. rewrite Hs. reflexivity.
           ++ destruct (dropped (which_code t (flip64 x))) eqn:Hd.
              ** apply IH in H; [|cbn in Hl |- *; lia]. destruct H as (H1 & H2 & H3). cbn [length] in *. repeat split; auto; lia.
              ** inversion H; subst. cbn [length]. repeat split; auto; lia.
        -- inversion H; subst. apply N.eqb_eq in Hs. cbn [length]. repeat split; try lia. rewrite Hs. reflexivity.
    + destruct (dropped (which_code t a)) eqn:Hd.
      * apply IH in H; [|cbn in Hl |- *; lia]. destruct H as (H1 & H2 & H3). cbn [length] in *. repeat split; auto; lia.
      * inversion H; subst. cbn [length]. repeat split; auto; lia.
Qed.

Lemma next_char_length t l k c rest : next_char t l = CChar k c rest -> (length rest < length l)%nat.
Proof. intros H. eapply (next_char_props t (length l) l); eauto. Qed.
Lemma next_char_cat t l k c rest : next_char t l = CChar k c rest -> k = which_code t c.
Proof. intros H. eapply (next_char_props t (length l) l); eauto. Qed.
Lemma next_char_not_dropped t l k c rest : next_char t l = CChar k c rest -> dropped k = false.
Proof. intros H. eapply (next_char_props t (length l) l); eauto. Qed.

Lemma readline_length l : (length (readline l) <= length l)%nat.
Proof. induction l as [|c r IH]; cbn; [lia|]. destruct (c =? 10); lia. Qed.

(* the control-word loop: enough fuel, and the rest never grows *)
Lemma cw_fuel_props t : forall n acc l, (length l < n)%nat ->
  exists w rest, cw_fuel n t acc l = Some (w, rest) /\ (length rest <= length l)%nat.
Proof.
  induction n as [|n IH]; intros acc l Hl; [lia|].
  cbn [cw_fuel]. destruct (next_char t l) as [|k c rest] eqn:Hn.
  - exists (rev acc), []. split; [reflexivity | cbn; lia].
  - pose proof (next_char_length _ _ _ _ _ Hn) as Hlen.
    destruct (k =? CC_LETTER).
    + destruct (IH (c :: acc) rest) as (w & r & Hw & Hr); [lia|]. exists w, r. split; [assumption | lia].
    + exists (rev acc), (c :: rest). split; [reflexivity | cbn; lia].
Qed.

(* ------------------------------------------------------------------------------------------- *)
(* the whichCode chain only answers codes 0..15, and the token-class table is defined where needed *)

Lemma which_chain_in t c ks : In (which_chain t c ks) (CC_OTHER :: ks).
Proof.
  induction ks as [|k ks IH]; cbn; [left; reflexivity|].
  destruct (mem c (cls t k)); [right; left; reflexivity|].
  destruct IH as [IH|IH]; [left; assumption | right; right; assumption].
Qed.

Lemma which_code_in t c : In (which_code t c) (CC_OTHER :: gen_chain).
Proof. apply which_chain_in. Qed.

(* regenerated-table obligations (finite, by computation) *)
Lemma gen_chain_complete :
  forallb (fun k => existsb (N.eqb k) gen_chain) [0;1;2;3;4;5;6;7;8;9;10;11;13;14;15] = true.
Proof. vm_compute. reflexivity. Qed.
Lemma gen_chain_nodup_range :
  forallb (fun k => (k <? 16) && negb (k =? 12)) gen_chain = true /\ length gen_chain = 15%nat.
Proof. vm_compute. split; reflexivity. Qed.
(* a class is registered exactly for the categories that reach tokenClasses[...] and it carries that category *)
Lemma gen_token_classes_sound :
  forallb (fun k => match nth (N.to_nat k) gen_token_class_cat None with Some k' => k' =? k | None => false end)
          [1;2;3;4;6;7;8;11;12] = true.
Proof. vm_compute. reflexivity. Qed.
Lemma gen_default_disjoint :
  forallb (fun c => (length (filter (fun l => mem c l) gen_default_table) <=? 1)%nat) (concat gen_default_table) = true.
Proof. vm_compute. reflexivity. Qed.
Lemma gen_verbatim_only_letters :
  forallb (fun k => match nth (N.to_nat k) gen_verbatim_table [] with [] => true | _ => k =? 11 end)
          [0;1;2;3;4;5;6;7;8;9;10;11;12;13;14;15] = true.
Proof. vm_compute. reflexivity. Qed.

Lemma class_tok_defined k c :
  In k [1;2;3;4;6;7;8;11;12] -> class_tok k c = Some (Tok k [c]).
Proof.
  intros Hin. pose proof gen_token_classes_sound as H.
  rewrite forallb_forall in H. specialize (H k Hin). unfold class_tok.
  destruct (nth (N.to_nat k) gen_token_class_cat None) as [k'|]; [|discriminate].
  apply N.eqb_eq in H. now subst.
Qed.

Lemma code_cases k : In k (CC_OTHER :: gen_chain) -> In k [0;1;2;3;4;5;6;7;8;9;10;11;12;13;14;15].
Proof.
  intros H. pose proof gen_chain_nodup_range as (Hr & _). rewrite forallb_forall in Hr.
  assert (Hk : k <? 16 = true).
  { destruct H as [<-|H]; [reflexivity|]. specialize (Hr k H). now apply andb_true_iff in Hr. }
  apply N.ltb_lt in Hk.
  assert (Hz : (N.to_nat k < 16)%nat) by lia.
  rewrite <- (N2Nat.id k). remember (N.to_nat k) as m eqn:Hm. clear -Hz.
  do 16 (destruct m as [|m]; [cbn; tauto|]). lia.
Qed.

(* ------------------------------------------------------------------------------------------- *)
(* step: never crashes, always consumes input                                                   *)

Lemma step_not_crash t s : step t s <> Crash.
Proof.
  unfold step. destruct (next_char t (inp s)) as [|k c rest] eqn:Hn; [discriminate|].
  pose proof (next_char_cat _ _ _ _ _ Hn) as Hk. pose proof (next_char_not_dropped _ _ _ _ _ Hn) as Hd.
  assert (Hin : In k [0;1;2;3;4;5;6;7;8;9;10;11;12;13;14;15]) by (subst k; apply code_cases, which_code_in).
  cbn in Hin.
  repeat (destruct Hin as [<-|Hin]); try contradiction; cbn in Hd; try discriminate;
    cbn [N.eqb orb CC_LETTER CC_OTHER CC_SPACE CC_EOL CC_ESCAPE CC_COMMENT CC_ACTIVE Pos.eqb];
    try (rewrite class_tok_defined by (cbn; tauto); discriminate);
    try (destruct (lx s); try destruct (prev_is _ _); discriminate).
  (* escape *)
  destruct (next_char t rest) as [|k1 c1 rest1] eqn:Hn1; [discriminate|].
  destruct (k1 =? CC_LETTER).
  - destruct (cw_fuel_props t (S (length rest1)) [c1] rest1) as (w & r & Hw & _); [lia|]. rewrite Hw. discriminate.
  - destruct (k1 =? CC_EOL); discriminate.
Qed.

Definition next_state (r : sres) : option tst := match r with Emit _ s | Skip s => Some s | _ => None end.

Lemma step_consumes t s s' : next_state (step t s) = Some s' -> (length (inp s') < length (inp s))%nat.
Proof.
  unfold step. destruct (next_char t (inp s)) as [|k c rest] eqn:Hn; [discriminate|].
  pose proof (next_char_length _ _ _ _ _ Hn) as Hlen.
  pose proof (readline_length rest) as Hrl.
  destruct ((k =? CC_LETTER) || (k =? CC_OTHER)).
  { destruct (class_tok k c); cbn; [|discriminate]. intros H; inversion H; subst; cbn; lia. }
  destruct (k =? CC_SPACE).
  { destruct (lx s); cbn; intros H; inversion H; subst; cbn; lia. }
  destruct (k =? CC_EOL).
  { destruct (lx s); cbn; try (intros H; inversion H; subst; cbn; lia).
    destruct (prev_is (prev s) par_tok); cbn; intros H; inversion H; subst; cbn; destruct (c =? 10); lia. }
  destruct (k =? CC_ESCAPE).
  { destruct (next_char t rest) as [|k1 c1 rest1] eqn:Hn1.
    - cbn. intros H; inversion H; subst; cbn. lia.
    - pose proof (next_char_length _ _ _ _ _ Hn1) as Hlen1.
      destruct (k1 =? CC_LETTER).
      + destruct (cw_fuel_props t (S (length rest1)) [c1] rest1) as (w & r & Hw & Hr); [lia|]. rewrite Hw.
        cbn. intros H; inversion H; subst; cbn. lia.
      + destruct (k1 =? CC_EOL); cbn; intros H; inversion H; subst; cbn; lia. }
  destruct (k =? CC_COMMENT).
  { cbn. intros H; inversion H; subst; cbn. lia. }
  destruct (k =? CC_ACTIVE).
  { cbn. intros H; inversion H; subst; cbn. lia. }
  destruct (class_tok k c); cbn; [|discriminate]. intros H; inversion H; subst; cbn; lia.
Qed.

(* M1 + M2 for every schedule of table changes *)
Lemma run_sched_total chg : forall fuel n t s acc,
  (length (inp s) < fuel)%nat -> exists l, run_sched fuel chg n t s acc = RToks l.
Proof.
  induction fuel as [|f IH]; intros n t s acc Hf; [lia|].
  cbn [run_sched]. destruct (step t s) as [tk s'|s'| |] eqn:Hs.
  - apply IH. pose proof (step_consumes t s s') as H. rewrite Hs in H. specialize (H eq_refl). lia.
  - apply IH. pose proof (step_consumes t s s') as H. rewrite Hs in H. specialize (H eq_refl). lia.
  - eexists; reflexivity.
  - exfalso. eapply step_not_crash; eauto.
Qed.

Lemma tokenize_sched_total chg t l : exists toks, tokenize_sched chg t l = RToks toks.
Proof. unfold tokenize_sched. apply run_sched_total. cbn. lia. Qed.

(* ------------------------------------------------------------------------------------------- *)
(* M4: every character token carries the category the table in force gives its character        *)

Definition char_token_sound (t : table) (tk : tok) : Prop :=
  match tk with
  | Tok k [c] => k = CC_ESCAPE \/ k = CC_SPACE \/ which_code t c = k
  | Tok k _ => k = CC_ESCAPE
  end.

Lemma step_token_sound t s tk s' : step t s = Emit tk s' -> char_token_sound t tk.
Proof.
  unfold step. destruct (next_char t (inp s)) as [|k c rest] eqn:Hn; [discriminate|].
  pose proof (next_char_cat _ _ _ _ _ Hn) as Hk. pose proof (next_char_not_dropped _ _ _ _ _ Hn) as Hd.
  assert (Hin : In k [0;1;2;3;4;5;6;7;8;9;10;11;12;13;14;15]) by (subst k; apply code_cases, which_code_in).
  cbn in Hin.
  repeat (destruct Hin as [Hin|Hin]); try contradiction; rewrite <- Hin in *; cbn in Hd; try discriminate;
    cbn [N.eqb orb CC_LETTER CC_OTHER CC_SPACE CC_EOL CC_ESCAPE CC_COMMENT CC_ACTIVE Pos.eqb];
    try (rewrite class_tok_defined by (cbn; tauto); intros H; inversion H; subst; cbn; auto);
    try (destruct (lx s); try destruct (prev_is _ _); intros H; inversion H; subst; cbn; auto; fail).
  - (* escape *)
    destruct (next_char t rest) as [|k1 c1 rest1] eqn:Hn1.
    + intros H; inversion H; subst; cbn; auto.
    + destruct (k1 =? CC_LETTER).
      * destruct (cw_fuel _ _ _ _) as [[w r]|]; [|discriminate]. intros H; inversion H; subst.
        destruct w as [|? [|? ?]]; cbn; auto.
      * destruct (k1 =? CC_EOL); intros H; inversion H; subst; cbn; auto.
Qed.

(* ------------------------------------------------------------------------------------------- *)
(* M7: table algebra                                                                             *)

Lemma mem_remove_same c l : mem c (remove_char c l) = false.
Proof.
  unfold mem, remove_char. induction l as [|x l IH]; cbn; [reflexivity|].
  destruct (x =? c) eqn:E; cbn; [assumption|]. rewrite N.eqb_sym, E. cbn. assumption.
Qed.

Lemma mem_remove_other c d l : d <> c -> mem d (remove_char c l) = mem d l.
Proof.
  intros Hd. unfold mem, remove_char. induction l as [|x l IH]; cbn; [reflexivity|].
  destruct (x =? c) eqn:E; cbn.
  - apply N.eqb_eq in E. subst x. destruct (d =? c) eqn:E2; [apply N.eqb_eq in E2; contradiction|]. cbn. assumption.
  - now rewrite IH.
Qed.

Lemma mem_app c l1 l2 : mem c (l1 ++ l2) = mem c l1 || mem c l2.
Proof. unfold mem. apply existsb_app. Qed.

Lemma cls_map_remove t c k : cls (map (remove_char c) t) k = remove_char c (cls t k).
Proof.
  unfold cls. generalize (N.to_nat k) as n. induction t as [|l t IH]; intros [|n]; cbn; auto; apply IH.
Qed.

Lemma cls_append_at t n c k :
  cls (append_at n c t) k = if (Nat.eqb (N.to_nat k) n) && (Nat.ltb n (length t)) then cls t k ++ [c] else cls t k.
Proof.
  unfold cls. generalize (N.to_nat k) as m. revert n. induction t as [|l t IH]; intros n m.
  - cbn. destruct m, n; cbn; try reflexivity; rewrite ?andb_false_r; reflexivity.
  - destruct n as [|n], m as [|m]; cbn [append_at nth Nat.eqb length]; try reflexivity.
    rewrite IH. cbn [Nat.ltb Nat.leb]. reflexivity.
Qed.

(* a character that is in no class answers OTHER; after set_catcode c k (k <> 12, k in the chain, table of 16 rows) it answers k *)
Lemma which_chain_none t c ks : (forall k, In k ks -> mem c (cls t k) = false) -> which_chain t c ks = CC_OTHER.
Proof.
  induction ks as [|k ks IH]; intros H; cbn; [reflexivity|].
  rewrite (H k) by (left; reflexivity). apply IH. intros k' Hk'. apply H. right; assumption.
Qed.

Lemma which_chain_only t c ks k :
  In k ks -> mem c (cls t k) = true -> (forall k', In k' ks -> k' <> k -> mem c (cls t k') = false) ->
  which_chain t c ks = k.
Proof.
  induction ks as [|k0 ks IH]; intros Hin Hm Ho; [contradiction|].
  cbn. destruct (N.eq_dec k0 k) as [->|Hne].
  - now rewrite Hm.
  - rewrite (Ho k0) by (try (left; reflexivity); assumption).
    apply IH; [destruct Hin; [contradiction|assumption] | assumption | intros k' Hk' Hn; apply Ho; [right; assumption|assumption]].
Qed.

Lemma set_catcode_same t c k :
  length t = 16%nat -> In k gen_chain ->
  which_code (set_catcode t c k) c = k.
Proof.
  intros Hlen Hin. unfold which_code, set_catcode.
  pose proof gen_chain_nodup_range as (Hr & _). rewrite forallb_forall in Hr.
  pose proof (Hr k Hin) as Hk. apply andb_true_iff in Hk. destruct Hk as (Hk16 & Hk12).
  apply N.ltb_lt in Hk16. apply negb_true_iff in Hk12. unfold CC_OTHER. rewrite Hk12.
  apply which_chain_only; [assumption| |].
  - rewrite cls_append_at, map_length, Hlen, Nat.eqb_refl.
    assert ((N.to_nat k <? 16)%nat = true) as -> by (apply Nat.ltb_lt; lia).
    cbn [andb]. rewrite mem_app. unfold mem at 2. cbn [existsb]. rewrite N.eqb_refl. cbn [orb]. now rewrite orb_true_r.
  - intros k' _ Hne. rewrite cls_append_at.
    assert (Nat.eqb (N.to_nat k') (N.to_nat k) = false) as -> by (apply Nat.eqb_neq; lia).
    cbn [andb]. rewrite cls_map_remove. apply mem_remove_same.
Qed.

Lemma set_catcode_other_code t c :
  which_code (set_catcode t c CC_OTHER) c = CC_OTHER.
Proof.
  unfold which_code, set_catcode. cbn [N.eqb CC_OTHER Pos.eqb]. apply which_chain_none.
  intros k _. rewrite cls_map_remove. apply mem_remove_same.
Qed.

Lemma which_chain_ext t t' c ks :
  (forall k, In k ks -> mem c (cls t' k) = mem c (cls t k)) -> which_chain t' c ks = which_chain t c ks.
Proof.
  induction ks as [|k ks IH]; intros H; cbn; [reflexivity|].
  rewrite (H k) by (left; reflexivity). destruct (mem c (cls t k)); [reflexivity|].
  apply IH. intros k' Hk'. apply H. right; assumption.
Qed.

Lemma set_catcode_other_char t c k d : d <> c -> which_code (set_catcode t c k) d = which_code t d.
Proof.
  intros Hd. unfold which_code, set_catcode. apply which_chain_ext. intros k' _.
  destruct (k =? CC_OTHER).
  - rewrite cls_map_remove. now apply mem_remove_other.
  - rewrite cls_append_at. destruct (_ && _).
    + rewrite mem_app, cls_map_remove, mem_remove_other by assumption. cbn.
      destruct (d =? c) eqn:E; [apply N.eqb_eq in E; contradiction|]. now rewrite orb_false_r.
    + rewrite cls_map_remove. now apply mem_remove_other.
Qed.

Lemma set_catcode_length t c k : length (set_catcode t c k) = length t.
Proof.
  unfold set_catcode. destruct (k =? CC_OTHER); [apply map_length|].
  rewrite <- (map_length (remove_char c) t). generalize (map (remove_char c) t) as u. generalize (N.to_nat k) as n.
  intros n u. revert n. induction u as [|l u IH]; intros [|n]; cbn; auto.
Qed.

(* ------------------------------------------------------------------------------------------- *)
(* M8: under a table that knows only letters (the verbatim table), tokenizing is the identity     *)

Definition only_letters (t : table) : Prop :=
  forall c, which_code t c = CC_LETTER \/ which_code t c = CC_OTHER.

Lemma verbatim_only_letters : only_letters verbatim_table.
Proof.
  intros c. unfold which_code, verbatim_table.
  destruct (mem c (cls gen_verbatim_table CC_LETTER)) eqn:Hm.
  - left. apply which_chain_only.
    + pose proof gen_chain_complete as H. rewrite forallb_forall in H.
      specialize (H 11). cbn in H. assert (Hx : existsb (N.eqb 11) gen_chain = true) by (apply H; tauto).
      apply existsb_exists in Hx. destruct Hx as (x & Hx & E). apply N.eqb_eq in E. now subst x.
    + assumption.
    + intros k' Hk' Hne. pose proof gen_verbatim_only_letters as H. rewrite forallb_forall in H.
      pose proof (code_cases k' (or_intror Hk')) as Hc. specialize (H k' Hc). unfold cls.
      destruct (nth (N.to_nat k') gen_verbatim_table []); [reflexivity|]. apply N.eqb_eq in H. contradiction.
  - right. apply which_chain_none. intros k Hk.
    pose proof gen_verbatim_only_letters as H. rewrite forallb_forall in H.
    pose proof (code_cases k (or_intror Hk)) as Hc. specialize (H k Hc). unfold cls in *.
    destruct (nth (N.to_nat k) gen_verbatim_table []) eqn:E; [reflexivity|]. apply N.eqb_eq in H. subst k.
    unfold CC_LETTER in Hm. rewrite E in Hm. exact Hm.
Qed.

Lemma next_char_only_letters t c r : only_letters t -> next_char t (c :: r) = CChar (which_code t c) c r.
Proof.
  intros Ho. cbn [next_char]. destruct (Ho c) as [H|H]; rewrite H; reflexivity.
Qed.

Lemma step_only_letters t st p c r : only_letters t ->
  step t {| lx := st; prev := p; inp := c :: r |} =
  let tk := Tok (which_code t c) [c] in Emit tk {| lx := SM; prev := Some tk; inp := r |}.
Proof.
  intros Ho. unfold step. cbn [inp]. rewrite next_char_only_letters by assumption.
  destruct (Ho c) as [H|H]; rewrite H; cbn [N.eqb orb CC_LETTER CC_OTHER Pos.eqb];
    rewrite class_tok_defined by (cbn; tauto); reflexivity.
Qed.

Lemma run_only_letters t : only_letters t -> forall l fuel n st p acc, (length l < fuel)%nat ->
  run_sched fuel (fun _ t => t) n t {| lx := st; prev := p; inp := l |} acc =
  RToks (rev acc ++ map (fun c => Tok (which_code t c) [c]) l).
Proof.
  intros Ho. induction l as [|c r IH]; intros fuel n st p acc Hf.
  - destruct fuel; [cbn in Hf; lia|]. cbn. now rewrite app_nil_r.
  - destruct fuel; [cbn in Hf; lia|]. cbn [run_sched]. rewrite step_only_letters by assumption. cbv beta iota zeta.
    rewrite IH by (cbn in Hf; lia). cbn [rev map]. now rewrite <- app_assoc.
Qed.

Lemma tokenize_only_letters t l : only_letters t ->
  tokenize t l = RToks (map (fun c => Tok (which_code t c) [c]) l).
Proof.
  intros Ho. unfold tokenize, tokenize_sched, init_state. rewrite run_only_letters by (assumption || (cbn; lia)). reflexivity.
Qed.

(* ------------------------------------------------------------------------------------------- *)
(* M5: the Model is exactly the prescribed stream (Spec/Lexer.v)                                  *)
(* ---- grouping restores the category table ---- *)
Lemma apply_gops_bal ops : forall ex stack cur rest, bal (length ex) ops = true ->
  exists cur', apply_gops (ex ++ stack) cur (ops ++ rest) = apply_gops stack cur' rest.
Proof.
  induction ops as [|[c k] ops IH]; intros ex stack cur rest Hb; cbn [bal] in Hb; cbn [app apply_gops].
  - destruct ex as [|e ex]; [|discriminate Hb]. exists cur. reflexivity.
  - destruct (k =? 16) eqn:E16.
    + exact (IH (cur :: ex) stack cur rest Hb).
    + destruct (k =? 17) eqn:E17.
      * destruct ex as [|e ex]; [discriminate Hb|]. cbn [length] in Hb. cbn [app]. exact (IH ex stack e rest Hb).
      * exact (IH ex stack (set_catcode cur c k) rest Hb).
Qed.

Lemma group_restores_table ops : forall stack cur c c' rest, bal 0 ops = true ->
  apply_gops stack cur ((c, 16) :: ops ++ (c', 17) :: rest) = apply_gops stack cur rest.
Proof.
  intros stack cur c c' rest Hb. cbn [apply_gops]. replace (16 =? 16) with true by reflexivity.
  destruct (apply_gops_bal ops [] (cur :: stack) cur ((c', 17) :: rest) Hb) as (cur' & H). cbn [app] in H. rewrite H.
  cbn [apply_gops]. replace (17 =? 16) with false by reflexivity. replace (17 =? 17) with true by reflexivity. reflexivity.
Qed.

Lemma gops_assign_innermost stack cur c k rest : k <? 16 = true ->
  apply_gops stack cur ((c, k) :: rest) = apply_gops stack (set_catcode cur c k) rest.
Proof.
  intros Hk. cbn [apply_gops]. apply N.ltb_lt in Hk.
  destruct (k =? 16) eqn:E1; [apply N.eqb_eq in E1; lia|]. destruct (k =? 17) eqn:E2; [apply N.eqb_eq in E2; lia|]. reflexivity.
Qed.

From Verif Require Import Lexer.

Lemma dec_next_char t : forall n l, (length l <= n)%nat -> Dec t l (next_char t l).
Proof.
  induction n as [|n IH]; intros l Hl.
  - destruct l; [constructor | cbn in Hl; lia].
  - destruct l as [|a r]; [constructor|]. cbn [next_char].
    destruct (which_code t a =? CC_SUPER) eqn:Hs.
    + apply N.eqb_eq in Hs. destruct r as [|c2 r2].
      * rewrite Hs. now constructor.
      * destruct (c2 =? a) eqn:He.
        -- apply N.eqb_eq in He. subst c2. destruct r2 as [|x r3].
           ++ rewrite Hs. now constructor.
           ++ destruct (dropped (which_code t (flip64 x))) eqn:Hd.
              ** apply DecHatDrop; auto. apply IH. cbn in Hl. lia.
              ** now apply DecHat.
        -- apply N.eqb_neq in He. rewrite Hs. now apply DecSuperSingle.
    + apply N.eqb_neq in Hs. destruct (dropped (which_code t a)) eqn:Hd.
      * apply DecDrop; auto. apply IH. cbn in Hl. lia.
      * now apply DecPlain.
Qed.

Lemma dec_functional t l r : Dec t l r -> r = next_char t l.
Proof.
  induction 1 as [|c r Hs Hd|c r res Hs Hd _ IH|c Hs|c d r Hs Hne|c x r Hs Hd|c x r res Hs Hd _ IH|c Hs]; cbn [next_char].
  - reflexivity.
  - apply N.eqb_neq in Hs. now rewrite Hs, Hd.
  - apply N.eqb_neq in Hs. now rewrite Hs, Hd.
  - rewrite Hs, N.eqb_refl. reflexivity.
  - rewrite Hs, N.eqb_refl. apply N.eqb_neq in Hne. now rewrite Hne.
  - rewrite Hs, !N.eqb_refl. now rewrite Hd.
  - rewrite Hs, !N.eqb_refl. now rewrite Hd.
  - rewrite Hs, !N.eqb_refl. reflexivity.
Qed.

Lemma dec_iff t l r : Dec t l r <-> next_char t l = r.
Proof. split; [intros H; symmetry; now apply dec_functional | intros <-; apply (dec_next_char t (length l)); lia]. Qed.

Lemma letter_run_cw t : forall n l acc, (length l < n)%nat ->
  exists w rest, cw_fuel n t acc l = Some (rev acc ++ w, rest) /\ LetterRun t l w rest.
Proof.
  induction n as [|n IH]; intros l acc Hn; [lia|].
  cbn [cw_fuel]. destruct (next_char t l) as [|k c r] eqn:Hc.
  - exists [], []. rewrite app_nil_r. split; [reflexivity|]. apply LREnd. now apply dec_iff.
  - destruct (k =? CC_LETTER) eqn:Hk.
    + apply N.eqb_eq in Hk. subst k. pose proof (next_char_length _ _ _ _ _ Hc) as Hlen.
      destruct (IH r (c :: acc)) as (w & rest & Hw & Hr); [lia|].
      exists (c :: w), rest. split.
      * rewrite Hw. cbn [rev]. now rewrite <- app_assoc.
      * eapply LRLetter; [apply dec_iff; eassumption | assumption].
    + apply N.eqb_neq in Hk. exists [], (c :: r). rewrite app_nil_r. split; [reflexivity|].
      eapply LRStop; [apply dec_iff; eassumption | assumption].
Qed.

Lemma letter_run_functional t l w rest : LetterRun t l w rest ->
  forall w' rest', LetterRun t l w' rest' -> w' = w /\ rest' = rest.
Proof.
  induction 1 as [l Hd|l k c r Hd Hk|l c r w rest Hd _ IH]; intros w' rest' H'; inversion H' as [l0 Hd'|l0 k' c' r' Hd' Hk'|l0 c' r' w0 rest0 Hd' Hr']; subst;
    apply dec_functional in Hd; apply dec_functional in Hd'; rewrite <- Hd in Hd'; try discriminate; inversion Hd'; subst; auto; try contradiction.
  destruct (IH _ _ Hr') as (-> & ->). auto.
Qed.

(* soundness: what the Model does in one turn is what the rules prescribe *)
Lemma step_lex t s : LexStep t s (step t s).
Proof.
  unfold step. destruct (next_char t (inp s)) as [|k c rest] eqn:Hn.
  { apply LxEnd. now apply dec_iff. }
  pose proof (next_char_cat _ _ _ _ _ Hn) as Hk. pose proof (next_char_not_dropped _ _ _ _ _ Hn) as Hd.
  apply dec_iff in Hn.
  assert (Hin : In k [0;1;2;3;4;5;6;7;8;9;10;11;12;13;14;15]) by (subst k; apply code_cases, which_code_in).
  cbn in Hin.
  repeat (destruct Hin as [Hin|Hin]); try contradiction; rewrite <- Hin in *; cbn in Hd; try discriminate;
    cbn [N.eqb orb CC_LETTER CC_OTHER CC_SPACE CC_EOL CC_ESCAPE CC_COMMENT CC_ACTIVE Pos.eqb];
    try (rewrite class_tok_defined by (cbn; tauto); eapply (LxChar t s _ c rest); [exact Hn | unfold significant, CC_BGROUP, CC_EGROUP, CC_MATH, CC_ALIGN, CC_PARAM, CC_SUPER, CC_SUB, CC_LETTER, CC_OTHER; tauto]).
  - (* escape *)
    destruct (next_char t rest) as [|k1 c1 rest1] eqn:Hn1.
    + eapply LxCtrlEnd; [exact Hn | now apply dec_iff].
    + pose proof Hn1 as Hn1'. apply dec_iff in Hn1'. destruct (k1 =? CC_LETTER) eqn:Hk1.
      * apply N.eqb_eq in Hk1. subst k1.
        destruct (letter_run_cw t (S (length rest1)) rest1 [c1]) as (w & rest2 & Hw & Hr); [lia|].
        rewrite Hw. cbn [rev app]. eapply LxCtrlWord; eauto.
      * apply N.eqb_neq in Hk1. destruct (k1 =? CC_EOL) eqn:Hk2.
        -- apply N.eqb_eq in Hk2. subst k1. eapply LxCtrlEol; eauto.
        -- apply N.eqb_neq in Hk2. eapply LxCtrlSym; eauto.
  - (* eol *)
    destruct (lx s) eqn:Hl.
    + destruct (prev_is (prev s) par_tok) eqn:Hp.
      * now eapply (LxEolParAgain t s c rest).
      * now eapply (LxEolPar t s c rest).
    + now eapply (LxEolM t s c rest).
    + now eapply (LxEolS t s c rest).
  - (* space *)
    destruct (lx s) eqn:Hl.
    + rewrite <- Hl. eapply (LxSpaceSkip t s c rest); [exact Hn | rewrite Hl; discriminate].
    + now eapply (LxSpaceM t s c rest).
    + rewrite <- Hl. eapply (LxSpaceSkip t s c rest); [exact Hn | rewrite Hl; discriminate].
  - (* active *) now eapply (LxActive t s c rest).
  - (* comment *) now eapply (LxComment t s c rest).
Qed.

(* completeness: the rules prescribe nothing else (LexStep is a function) *)
Lemma lex_step_functional t s r : LexStep t s r -> r = step t s.
Proof.
  intros H. unfold step.
  inversion H as [s0 Hd|s0 k c r0 Hd Hsig|s0 c r0 Hd Hl|s0 c r0 Hd Hl|s0 c r0 Hd Hl|s0 c r0 Hd Hl|s0 c r0 Hd Hl Hp|s0 c r0 Hd Hl Hp
                  |s0 c r0 Hd|s0 c r0 Hd|s0 c r0 c1 r1 w rest Hd Hd1 Hr|s0 c r0 k1 c1 r1 Hd Hd1 Hk1 Hk2|s0 c r0 c1 r1 Hd Hd1|s0 c r0 Hd Hd1];
    subst; apply dec_functional in Hd; rewrite <- Hd.
  - reflexivity.
  - unfold significant, CC_BGROUP, CC_EGROUP, CC_MATH, CC_ALIGN, CC_PARAM, CC_SUPER, CC_SUB, CC_LETTER, CC_OTHER in Hsig.
    repeat (destruct Hsig as [Hsig|Hsig]); subst k;
      cbn [N.eqb orb CC_LETTER CC_OTHER CC_SPACE CC_EOL CC_ESCAPE CC_COMMENT CC_ACTIVE Pos.eqb];
      rewrite class_tok_defined by (cbn; tauto); reflexivity.
  - cbn [N.eqb orb CC_LETTER CC_OTHER CC_SPACE Pos.eqb]. rewrite Hl. reflexivity.
  - cbn [N.eqb orb CC_LETTER CC_OTHER CC_SPACE Pos.eqb]. destruct (lx s); [reflexivity|contradiction|reflexivity].
  - cbn [N.eqb orb CC_LETTER CC_OTHER CC_SPACE CC_EOL Pos.eqb]. rewrite Hl. reflexivity.
  - cbn [N.eqb orb CC_LETTER CC_OTHER CC_SPACE CC_EOL Pos.eqb]. rewrite Hl. reflexivity.
  - cbn [N.eqb orb CC_LETTER CC_OTHER CC_SPACE CC_EOL Pos.eqb]. rewrite Hl, Hp. reflexivity.
  - cbn [N.eqb orb CC_LETTER CC_OTHER CC_SPACE CC_EOL Pos.eqb]. rewrite Hl, Hp. reflexivity.
  - reflexivity.
  - reflexivity.
  - cbn [N.eqb orb CC_LETTER CC_OTHER CC_SPACE CC_EOL CC_ESCAPE Pos.eqb].
    apply dec_functional in Hd1. rewrite <- Hd1. cbn [N.eqb CC_LETTER Pos.eqb].
    destruct (letter_run_cw t (S (length r1)) r1 [c1]) as (w' & rest' & Hw & Hr'); [lia|].
    destruct (letter_run_functional _ _ _ _ Hr _ _ Hr') as (-> & ->). rewrite Hw. reflexivity.
  - cbn [N.eqb orb CC_LETTER CC_OTHER CC_SPACE CC_EOL CC_ESCAPE Pos.eqb].
    apply dec_functional in Hd1. rewrite <- Hd1.
    apply N.eqb_neq in Hk1. apply N.eqb_neq in Hk2. rewrite Hk1, Hk2. reflexivity.
  - cbn [N.eqb orb CC_LETTER CC_OTHER CC_SPACE CC_EOL CC_ESCAPE Pos.eqb].
    apply dec_functional in Hd1. rewrite <- Hd1. reflexivity.
  - cbn [N.eqb orb CC_LETTER CC_OTHER CC_SPACE CC_EOL CC_ESCAPE Pos.eqb].
    apply dec_functional in Hd1. rewrite <- Hd1. reflexivity.
Qed.

(* run level, fixed table *)
Lemma run_lex t : forall fuel n s acc, (length (inp s) < fuel)%nat ->
  exists l, run_sched fuel (fun _ t => t) n t s acc = RToks (rev acc ++ l) /\ Lex t s l.
Proof.
  induction fuel as [|f IH]; intros n s acc Hf; [lia|].
  cbn [run_sched]. pose proof (step_lex t s) as Hs. destruct (step t s) as [tk s'|s'| |] eqn:E.
  - pose proof (step_consumes t s s') as Hc. rewrite E in Hc. specialize (Hc eq_refl).
    destruct (IH (S n) s' (tk :: acc)) as (l & Hl & HL); [lia|]. exists (tk :: l). split.
    + rewrite Hl. cbn [rev]. now rewrite <- app_assoc.
    + eapply LexEmit; eauto.
  - pose proof (step_consumes t s s') as Hc. rewrite E in Hc. specialize (Hc eq_refl).
    destruct (IH n s' acc) as (l & Hl & HL); [lia|]. exists l. split; [assumption|]. eapply LexSkip; eauto.
  - exists []. rewrite app_nil_r. split; [reflexivity|]. now apply LexDone.
  - exfalso. eapply step_not_crash; eauto.
Qed.

Lemma lex_functional t s l : Lex t s l -> forall l', Lex t s l' -> l' = l.
Proof.
  induction 1 as [s H|s tk s' l H _ IH|s s' l H _ IH]; intros l' H'; apply lex_step_functional in H;
    inversion H' as [s0 H0|s0 tk0 s0' l0 H0 HL0|s0 s0' l0 H0 HL0]; subst; apply lex_step_functional in H0; rewrite <- H in H0;
    try discriminate; try reflexivity.
  - inversion H0; subst. f_equal. now apply IH.
  - inversion H0; subst. now apply IH.
Qed.

Lemma tokenize_lex t l : exists toks, tokenize t l = RToks toks /\ Lex t (init_state l) toks.
Proof.
  unfold tokenize, tokenize_sched. destruct (run_lex t (S (length l)) 0 (init_state l) []) as (toks & H & HL); [cbn; lia|].
  exists toks. split; assumption.
Qed.

Lemma lex_tokenize t l toks : Lex t (init_state l) toks -> tokenize t l = RToks toks.
Proof.
  intros HL. destruct (tokenize_lex t l) as (toks' & H & HL'). rewrite H. f_equal. eapply lex_functional; eauto.
Qed.
