(* Proofs for C11, part 1: the end-pattern scan of VerbatimEnvironment.invoke and the delimiter scan of \verb. *)
From Coq Require Import List NArith ZArith Bool Arith Lia.
Import ListNotations.
From Verif Require Import Val Catcodes Tokenizer Lexer Verbatim Source Verb TokenizerProofs.
Local Open Scope N_scope.

(* ---- small list facts ---- *)
Lemma nlist_eqb_true a b : nlist_eqb a b = true <-> a = b.
Proof. unfold nlist_eqb. destruct (list_eq_dec N.eq_dec a b); split; intros; congruence. Qed.
Lemma nlist_eqb_refl a : nlist_eqb a a = true.
Proof. now apply nlist_eqb_true. Qed.
Lemma nlist_eqb_false a b : nlist_eqb a b = false <-> a <> b.
Proof. unfold nlist_eqb. destruct (list_eq_dec N.eq_dec a b); split; intros; congruence. Qed.

Lemma skipn_map' {A B} (f : A -> B) : forall n l, skipn n (map f l) = map f (skipn n l).
Proof. induction n; destruct l; cbn; auto. Qed.
Lemma firstn_map' {A B} (f : A -> B) : forall n l, firstn n (map f l) = map f (firstn n l).
Proof. induction n; destruct l; cbn; auto. now rewrite IHn. Qed.

(* boolean suffix test on strings: len(l) >= len(p) and l[-len(p):] == p *)
Definition suffixb (p l : list N) : bool := (length p <=? length l)%nat && nlist_eqb (last_n (length p) l) p.

Lemma suffixb_spec p l : suffixb p l = true <-> is_suffix p l.
Proof.
  unfold suffixb, is_suffix, last_n. split.
  - intros H. apply andb_prop in H. destruct H as [Hl He]. apply Nat.leb_le in Hl. apply nlist_eqb_true in He.
    exists (firstn (length l - length p) l). rewrite <- He at 2. now rewrite firstn_skipn.
  - intros (q & ->). rewrite app_length. apply andb_true_intro. split; [apply Nat.leb_le; lia|].
    apply nlist_eqb_true. replace (length q + length p - length p)%nat with (length q + 0)%nat by lia.
    rewrite skipn_app. rewrite skipn_all2 by lia. cbn. now replace (length q + 0 - length q)%nat with 0%nat by lia.
Qed.

Lemma suffixb_false p l : suffixb p l = false <-> ~ is_suffix p l.
Proof. rewrite <- suffixb_spec. destruct (suffixb p l); split; intros; congruence. Qed.

(* ---- the tail test of the Python on the token list = the suffix test on the string ---- *)
Lemma items_eq_vitems w p : items_eq (map vitem w) p = nlist_eqb w p.
Proof.
  revert p. induction w as [|c w IH]; intros [|d p].
  - reflexivity.
  - cbn [map items_eq]. symmetry. apply nlist_eqb_false. discriminate.
  - cbn [map items_eq]. symmetry. apply nlist_eqb_false. discriminate.
  - cbn [map items_eq vitem vtok item_is]. rewrite IH.
    destruct (N.eq_dec c d) as [->|Hcd].
    + rewrite nlist_eqb_refl. cbn [andb]. destruct (nlist_eqb w p) eqn:E.
      * apply nlist_eqb_true in E. subst. symmetry. apply nlist_eqb_refl.
      * apply nlist_eqb_false in E. symmetry. apply nlist_eqb_false. congruence.
    + replace (nlist_eqb [c] [d]) with false by (symmetry; apply nlist_eqb_false; congruence). cbn [andb].
      symmetry. apply nlist_eqb_false. congruence.
Qed.

Lemma tail_is_vitems l p : p <> [] -> tail_is (ISelf :: map vitem l) p = suffixb p l.
Proof.
  intros Hp. unfold tail_is, suffixb, last_n. cbn [length]. rewrite map_length.
  destruct (Nat.le_gt_cases (length p) (length l)) as [Hle|Hgt].
  - replace (length p <=? S (length l))%nat with true by (symmetry; apply Nat.leb_le; lia).
    replace (length p <=? length l)%nat with true by (symmetry; apply Nat.leb_le; lia).
    replace (S (length l) - length p)%nat with (S (length l - length p)) by lia. cbn [skipn andb].
    rewrite skipn_map'. apply items_eq_vitems.
  - replace (length p <=? length l)%nat with false by (symmetry; apply Nat.leb_gt; lia). cbn [andb].
    destruct (length p <=? S (length l))%nat eqn:E; [|reflexivity]. apply Nat.leb_le in E.
    replace (S (length l) - length p)%nat with 0%nat by lia. cbn [skipn andb].
    destruct p; [congruence|]. reflexivity.
Qed.

Lemma drop_last_vitems l n : (n <= length l)%nat ->
  drop_last_n n (ISelf :: map vitem l) = ISelf :: map vitem (drop_last_n n l).
Proof.
  intros H. unfold drop_last_n. cbn [length]. rewrite map_length.
  replace (S (length l) - n)%nat with (S (length l - n)) by lia. cbn [firstn]. now rewrite firstn_map'.
Qed.

(* ---- string search: the reference function ---- *)
Fixpoint find_end (p1 p2 pre rest : list N) : option (nat * list N * list N) :=
  match rest with
  | [] => None
  | c :: r =>
    let pre' := pre ++ [c] in
    if suffixb p1 pre' then Some (1%nat, drop_last_n (length p1) pre', r)
    else if suffixb p2 pre' then Some (2%nat, drop_last_n (length p2) pre', r)
    else find_end p1 p2 pre' r
  end.

Definition after_state (c : N) (r : list N) : tst := {| lx := SM; prev := Some (vtok c); inp := r |}.

Lemma suffixb_length p l : suffixb p l = true -> (length p <= length l)%nat.
Proof. unfold suffixb. intros H. apply andb_prop in H. now apply Nat.leb_le. Qed.

(* the Model's loop is this string search (every pull under the verbatim table yields one character) *)
Lemma scan_find p1 p2 : p1 <> [] -> p2 <> [] ->
  forall rest pre fuel l0 pv, (length rest < fuel)%nat ->
  scan fuel p1 p2 (ISelf :: map vitem pre) {| lx := l0; prev := pv; inp := rest |} =
  match find_end p1 p2 pre rest with
  | Some (w, content, r) =>
    VEnd (ISelf :: map vitem content) w {| lx := SM; prev := Some (vtok (last (firstn (length rest - length r) rest) 0)); inp := r |}
  | None => VEof (ISelf :: map vitem (pre ++ rest))
  end.
Proof.
  intros H1 H2. induction rest as [|c r IH]; intros pre fuel l0 pv Hf.
  - destruct fuel; [cbn in Hf; lia|]. cbn. now rewrite app_nil_r.
  - destruct fuel; [cbn in Hf; lia|]. cbn [scan find_end].
    rewrite (step_only_letters verbatim_table l0 pv c r verbatim_only_letters). cbv zeta.
    change (Tok (which_code verbatim_table c) [c]) with (vtok c). cbv beta iota.
    replace ((ISelf :: map vitem pre) ++ [ITok (vtok c)]) with (ISelf :: map vitem (pre ++ [c]))
      by (cbn; now rewrite map_app).
    rewrite !tail_is_vitems by assumption.
    destruct (suffixb p1 (pre ++ [c])) eqn:E1.
    + rewrite drop_last_vitems by now apply suffixb_length. f_equal. f_equal. f_equal.
      cbn [length]. replace (S (length r) - length r)%nat with 1%nat by lia. reflexivity.
    + destruct (suffixb p2 (pre ++ [c])) eqn:E2.
      * rewrite drop_last_vitems by now apply suffixb_length. f_equal. f_equal. f_equal.
        cbn [length]. replace (S (length r) - length r)%nat with 1%nat by lia. reflexivity.
      * rewrite IH by (cbn in Hf; lia). destruct (find_end p1 p2 (pre ++ [c]) r) as [[[w content] r']|] eqn:Ef.
        -- f_equal. f_equal. f_equal. f_equal.
           assert (Hr' : (length r' <= length r)%nat).
           { clear -Ef. revert Ef. generalize (pre ++ [c]). induction r as [|d r IHr]; intros q Ef; cbn in Ef; [discriminate|].
             destruct (suffixb p1 (q ++ [d])); [inversion Ef; subst; cbn; lia|].
             destruct (suffixb p2 (q ++ [d])); [inversion Ef; subst; cbn; lia|]. apply IHr in Ef. cbn. lia. }
           cbn [length]. replace (S (length r) - length r')%nat with (S (length r - length r')) by lia.
           cbn [firstn]. destruct (firstn (length r - length r') r) eqn:Efn.
           ++ (* cannot be empty: at least one more character was consumed *)
              exfalso. assert (length r' < length r)%nat.
              { clear -Ef. revert Ef. generalize (pre ++ [c]). induction r as [|d r IHr]; intros q Ef; cbn in Ef; [discriminate|].
                destruct (suffixb p1 (q ++ [d])); [inversion Ef; subst; cbn; lia|].
                destruct (suffixb p2 (q ++ [d])); [inversion Ef; subst; cbn; lia|]. apply IHr in Ef. cbn. lia. }
              assert (Hl : length (firstn (length r - length r') r) = (length r - length r')%nat) by (apply firstn_length_le; lia).
              rewrite Efn in Hl. cbn in Hl. lia.
           ++ reflexivity.
        -- now rewrite <- app_assoc.
Qed.

(* ---- the reference function finds the first complete end delimiter ---- *)
Lemma find_end_some p1 p2 : forall rest pre w content r,
  find_end p1 p2 pre rest = Some (w, content, r) ->
  exists k, (1 <= k <= length rest)%nat /\ r = skipn k rest /\
    (w = 1%nat /\ is_suffix p1 (pre ++ firstn k rest) /\ content = drop_last_n (length p1) (pre ++ firstn k rest) \/
     w = 2%nat /\ ~ is_suffix p1 (pre ++ firstn k rest) /\ is_suffix p2 (pre ++ firstn k rest) /\
       content = drop_last_n (length p2) (pre ++ firstn k rest)) /\
    forall j, (1 <= j < k)%nat -> ~ is_suffix p1 (pre ++ firstn j rest) /\ ~ is_suffix p2 (pre ++ firstn j rest).
Proof.
  induction rest as [|c rest IH]; intros pre w content r H; cbn in H; [discriminate|].
  destruct (suffixb p1 (pre ++ [c])) eqn:E1.
  { inversion H; subst. exists 1%nat. cbn [firstn skipn length].
    split; [lia|]. split; [reflexivity|]. split.
    - left. split; [reflexivity|]. split; [now apply suffixb_spec|reflexivity].
    - intros j Hj. lia. }
  destruct (suffixb p2 (pre ++ [c])) eqn:E2.
  { inversion H; subst. exists 1%nat. cbn [firstn skipn length].
    split; [lia|]. split; [reflexivity|]. split.
    - right. split; [reflexivity|]. split; [now apply suffixb_false|]. split; [now apply suffixb_spec|reflexivity].
    - intros j Hj. lia. }
  apply IH in H. destruct H as (k & Hk & Hr & Hw & Hmin). exists (S k). cbn [firstn skipn length].
  replace (pre ++ c :: firstn k rest) with ((pre ++ [c]) ++ firstn k rest) by now rewrite <- app_assoc.
  split; [lia|]. split; [assumption|]. split; [assumption|].
  intros j Hj. destruct j as [|j]; [lia|].
  change (firstn (S j) (c :: rest)) with (c :: firstn j rest).
  replace (pre ++ c :: firstn j rest) with ((pre ++ [c]) ++ firstn j rest) by now rewrite <- app_assoc.
  destruct j as [|j].
  - change (firstn 0 rest) with (@nil N). rewrite app_nil_r. split; now apply suffixb_false.
  - apply Hmin. lia.
Qed.

Lemma find_end_none p1 p2 : forall rest pre,
  find_end p1 p2 pre rest = None ->
  forall j, (1 <= j <= length rest)%nat -> ~ is_suffix p1 (pre ++ firstn j rest) /\ ~ is_suffix p2 (pre ++ firstn j rest).
Proof.
  induction rest as [|c rest IH]; intros pre H j Hj; cbn in *; [lia|].
  destruct (suffixb p1 (pre ++ [c])) eqn:E1; [discriminate|].
  destruct (suffixb p2 (pre ++ [c])) eqn:E2; [discriminate|].
  destruct j as [|j]; [lia|].
  change (firstn (S j) (c :: rest)) with (c :: firstn j rest).
  replace (pre ++ c :: firstn j rest) with ((pre ++ [c]) ++ firstn j rest) by now rewrite <- app_assoc.
  destruct j as [|j].
  - change (firstn 0 rest) with (@nil N). rewrite app_nil_r. split; now apply suffixb_false.
  - apply IH; [assumption|lia].
Qed.

(* ---- M1: string-search correctness of the scan, for every input ---- *)
Lemma nonempty_not_suffix_nil (p : list N) : p <> [] -> ~ is_suffix p [].
Proof. intros Hp (q & Hq). destruct q; destruct p; cbn in Hq; congruence. Qed.

Theorem scan_first_occurrence p1 p2 (s : list N) (l0 : lst) (pv : option tok) :
  p1 <> [] -> p2 <> [] ->
  let st := {| lx := l0; prev := pv; inp := s |} in
  let run := scan (S (length s)) p1 p2 [ISelf] st in
  (* a complete end delimiter occurs: the scan stops at the earliest position where one ends *)
  (forall k, ends_at p1 p2 s k -> (forall j, (j < k)%nat -> ~ ends_at p1 p2 s j) ->
     exists w st', run = VEnd (ISelf :: map vitem (firstn (k - length (if Nat.eqb w 1 then p1 else p2)) s)) w st' /\
       inp st' = skipn k s /\ lx st' = SM /\
       (w = 1%nat /\ is_suffix p1 (firstn k s) \/ w = 2%nat /\ ~ is_suffix p1 (firstn k s) /\ is_suffix p2 (firstn k s))) /\
  (* no complete end delimiter: every character is content *)
  ((forall k, ~ ends_at p1 p2 s k) -> run = VEof (ISelf :: map vitem s)).
Proof.
  intros H1 H2 st run. subst run st.
  pose proof (scan_find p1 p2 H1 H2 s [] (S (length s)) l0 pv (Nat.lt_succ_diag_r _)) as Hs. cbn [map app] in Hs.
  split.
  - intros k (Hk & Hend) Hmin. rewrite Hs. destruct (find_end p1 p2 [] s) as [[[w content] r]|] eqn:Ef.
    + apply find_end_some in Ef. destruct Ef as (k' & Hk' & Hr & Hw & Hmin'). cbn [app] in *.
      assert (k' = k).
      { destruct (Nat.lt_trichotomy k' k) as [Hlt|[Heq|Hgt]]; [|assumption|].
        - exfalso. apply (Hmin k' Hlt). split; [lia|]. destruct Hw as [(_ & Hw & _)|(_ & _ & Hw & _)]; tauto.
        - exfalso. destruct k as [|k].
          + cbn [firstn] in Hend. destruct Hend as [He|He]; [exact (nonempty_not_suffix_nil p1 H1 He) | exact (nonempty_not_suffix_nil p2 H2 He)].
          + destruct (Hmin' (S k)) as (Ha & Hb); [lia|]. tauto. }
      subst k'. exists w. eexists. split; [|split; [|split]].
      * f_equal. f_equal. f_equal.
        destruct Hw as [(-> & Hsuf & ->)|(-> & _ & Hsuf & ->)]; cbn [Nat.eqb]; unfold drop_last_n;
          rewrite firstn_length_le by lia; rewrite firstn_firstn; f_equal; lia.
      * cbn. assumption.
      * reflexivity.
      * destruct Hw as [(-> & Hsuf & _)|(-> & Hn & Hsuf & _)]; [left|right]; tauto.
    + exfalso. destruct k as [|k].
      * cbn [firstn] in Hend. destruct Hend as [He|He]; [exact (nonempty_not_suffix_nil p1 H1 He) | exact (nonempty_not_suffix_nil p2 H2 He)].
      * destruct (find_end_none p1 p2 s [] Ef (S k)) as (Ha & Hb); [lia|]. cbn [app] in *. tauto.
  - intros Hno. rewrite Hs. destruct (find_end p1 p2 [] s) as [[[w content] r]|] eqn:Ef; [|reflexivity].
    exfalso. apply find_end_some in Ef. destruct Ef as (k' & Hk' & Hr & Hw & _). cbn [app] in *.
    apply (Hno k'). split; [lia|]. destruct Hw as [(_ & Hw & _)|(_ & _ & Hw & _)]; tauto.
Qed.

(* the form the property uses: a body that contains no complete end delimiter, closed by one of the two *)
Definition clean_body (p1 p2 body p : list N) : Prop :=
  forall j, (j < length body + length p)%nat -> ~ ends_at p1 p2 (body ++ p) j.

Lemma firstn_app_le {A} (a b : list A) k : (k <= length a)%nat -> firstn k (a ++ b) = firstn k a.
Proof. intros H. rewrite firstn_app. replace (k - length a)%nat with 0%nat by lia. cbn. now rewrite app_nil_r. Qed.

Lemma last_app_nonempty {A} (a b : list A) d : b <> [] -> last (a ++ b) d = last b d.
Proof.
  intros Hb. induction a as [|x a IH]; [reflexivity|]. cbn [app].
  assert (Hne : a ++ b <> []) by (destruct a; cbn; [assumption|discriminate]).
  destruct (a ++ b) as [|y l] eqn:E; [congruence|].
  change (last (x :: y :: l) d) with (last (y :: l) d). exact IH.
Qed.

Theorem scan_body p1 p2 (body p rest : list N) (l0 : lst) (pv : option tok) :
  p1 <> [] -> p2 <> [] -> p = p1 \/ p = p2 -> clean_body p1 p2 body p ->
  (p = p2 -> ~ is_suffix p1 (body ++ p2)) ->
  exists w st',
    scan (S (length (body ++ p ++ rest))) p1 p2 [ISelf] {| lx := l0; prev := pv; inp := body ++ p ++ rest |}
      = VEnd (ISelf :: map vitem body) w st' /\
    inp st' = rest /\ lx st' = SM /\ items_text (ISelf :: map vitem body) = body.
Proof.
  intros H1 H2 Hp Hclean H12.
  destruct (scan_first_occurrence p1 p2 (body ++ p ++ rest) l0 pv H1 H2) as (HA & _).
  set (k := (length body + length p)%nat).
  assert (Hfk : firstn k (body ++ p ++ rest) = body ++ p).
  { rewrite app_assoc. rewrite firstn_app_le by (rewrite app_length; lia). apply firstn_all2. rewrite app_length. lia. }
  assert (Hend : ends_at p1 p2 (body ++ p ++ rest) k).
  { split; [rewrite !app_length; lia|]. rewrite Hfk. destruct Hp as [->| ->]; [left|right]; now exists body. }
  assert (Hmin : forall j, (j < k)%nat -> ~ ends_at p1 p2 (body ++ p ++ rest) j).
  { intros j Hj (Hjl & Hs). apply (Hclean j Hj). split; [rewrite app_length; lia|].
    rewrite app_assoc in Hs. rewrite firstn_app_le in Hs by (rewrite app_length; lia). exact Hs. }
  destruct (HA k Hend Hmin) as (w & st' & Hrun & Hinp & Hlx & Hw).
  exists w, st'. split; [|split; [|split]].
  - rewrite Hrun. f_equal. f_equal. f_equal.
    assert (Hlen : length (if Nat.eqb w 1 then p1 else p2) = length p).
    { rewrite Hfk in Hw. destruct Hw as [(-> & Hs)|(-> & Hn & Hs)]; cbn [Nat.eqb].
      - destruct Hp as [->| ->]; [reflexivity|]. exfalso. now apply H12.
      - destruct Hp as [->| ->]; [|reflexivity]. exfalso. apply Hn. now exists body. }
    rewrite Hlen. unfold k. replace (length body + length p - length p)%nat with (length body) by lia.
    rewrite firstn_app_le by lia. apply firstn_all.
  - rewrite Hinp. unfold k. rewrite app_assoc. rewrite skipn_app. rewrite skipn_all2 by (rewrite app_length; lia).
    rewrite app_length. now replace (length body + length p - (length body + length p))%nat with 0%nat by lia.
  - assumption.
  - unfold items_text. cbn [flat_map item_text app]. clear. induction body as [|c b IHb]; [reflexivity|]. cbn. f_equal.
    apply IHb.
Qed.

(* the two end patterns of an environment: the first ends with the group-closing character, the second does not *)
Lemma end_patterns_distinct esc bg eg name body :
  last (s_end ++ name) 0 <> eg -> ~ is_suffix (end_pattern1 esc bg eg name) (body ++ end_pattern2 esc name).
Proof.
  intros Hl (q & Hq). apply (f_equal (fun l => last l 0)) in Hq. unfold end_pattern1, end_pattern2 in Hq.
  rewrite last_app_nonempty in Hq by discriminate.
  assert (E : q ++ esc :: s_end ++ bg :: name ++ [eg] = (q ++ esc :: s_end ++ bg :: name) ++ [eg]).
  { unfold s_end. cbn [app]. rewrite <- app_assoc. reflexivity. }
  rewrite E in Hq. rewrite last_last in Hq. change (esc :: s_end ++ name) with ([esc] ++ (s_end ++ name)) in Hq.
  rewrite last_app_nonempty in Hq by (unfold s_end; discriminate). contradiction.
Qed.

(* ---- M1 + M2 for VerbatimEnvironment.invoke: content = body, character for character; the rest is untouched ---- *)
Theorem verbatim_invoke_body esc bg eg name (body rest : list N) (which : bool) (l0 : lst) (pv : option tok) :
  let p1 := end_pattern1 esc bg eg name in
  let p2 := end_pattern2 esc name in
  let p := if which then p1 else p2 in
  clean_body p1 p2 body p -> last (s_end ++ name) 0 <> eg ->
  exists w st' toks,
    verbatim_invoke esc bg eg name {| lx := l0; prev := pv; inp := body ++ p ++ rest |} = VEnd (ISelf :: map ITok toks) w st' /\
    tokenize verbatim_table body = RToks toks /\          (* the content is the body, one token per character (C01-M8) *)
    flat_map (fun t => match t with Tok _ x => x end) toks = body /\
    items_text (ISelf :: map ITok toks) = body /\
    inp st' = rest /\ lx st' = SM.                         (* nothing of the following text is consumed or left over *)
Proof.
  intros p1 p2 p Hclean Hlast.
  destruct (scan_body p1 p2 body p rest l0 pv) as (w & st' & Hrun & Hinp & Hlx & Htxt).
  - unfold p1, end_pattern1. discriminate.
  - unfold p2, end_pattern2. discriminate.
  - unfold p. destruct which; tauto.
  - exact Hclean.
  - intros _. now apply end_patterns_distinct.
  - exists w, st', (map vtok body). unfold verbatim_invoke. cbn [inp]. fold p1. fold p2. rewrite map_map. fold vitem.
    change (fun x : N => ITok (vtok x)) with vitem. rewrite Hrun. repeat split; try assumption.
    + unfold vtok. apply (tokenize_only_letters verbatim_table body verbatim_only_letters).
    + clear. induction body as [|c b IH]; [reflexivity|]. cbn. now f_equal.
Qed.

(* ---- M3: \verb ---- *)
Lemma pull1_char l0 pv c r :
  pull1 {| lx := l0; prev := pv; inp := c :: r |} = Some (Some (vtok c, after_state c r)).
Proof.
  unfold pull1. cbn [inp length pull]. rewrite (step_only_letters verbatim_table l0 pv c r verbatim_only_letters). reflexivity.
Qed.

Lemma tok_eqb_vtok c d : tok_eqb (vtok c) (vtok d) = true <-> c = d.
Proof.
  unfold vtok, tok_eqb. split.
  - intros H. apply andb_prop in H. destruct H as [_ H]. destruct (list_eq_dec N.eq_dec [c] [d]) as [E|E]; [congruence|discriminate].
  - intros ->. rewrite N.eqb_refl. destruct (list_eq_dec N.eq_dec [d] [d]); [reflexivity|congruence].
Qed.

Lemma verb_loop_body d : forall body fuel acc l0 pv rest, ~ In d body -> (length (body ++ d :: rest) < fuel)%nat ->
  verb_loop fuel (vtok d) acc {| lx := l0; prev := pv; inp := body ++ d :: rest |} =
  Some (rev acc ++ map vtok body, true, after_state d rest).
Proof.
  induction body as [|c b IH]; intros fuel acc l0 pv rest Hn Hf.
  - destruct fuel; [cbn in Hf; lia|]. cbn [verb_loop app].
    rewrite (step_only_letters verbatim_table l0 pv d rest verbatim_only_letters). cbv zeta.
    change (Tok (which_code verbatim_table d) [d]) with (vtok d). cbv beta iota.
    replace (tok_eqb (vtok d) (vtok d)) with true by (symmetry; now apply tok_eqb_vtok).
    cbn [map]. rewrite app_nil_r. reflexivity.
  - destruct fuel; [cbn in Hf; lia|]. cbn [verb_loop app].
    rewrite (step_only_letters verbatim_table l0 pv c (b ++ d :: rest) verbatim_only_letters). cbv zeta.
    change (Tok (which_code verbatim_table c) [c]) with (vtok c).
    cbv beta iota. destruct (tok_eqb (vtok c) (vtok d)) eqn:E.
    + apply tok_eqb_vtok in E. subst c. exfalso. apply Hn. now left.
    + rewrite IH; [|intros Hi; apply Hn; now right|cbn in Hf; cbn; lia].
      cbn [rev map]. now rewrite <- app_assoc.
Qed.

Lemma verbatim_braces_same_code : which_code verbatim_table 123 = which_code verbatim_table 125.
Proof. vm_compute. reflexivity. Qed.

(* for every delimiter d (other than '*' unless the star is there) and every body without the closing character:
   the content is the body; the text after the second delimiter is handed back untouched.
   [closing d] is d itself, except that plasTeX closes an opening brace with the closing brace. *)
Definition closing (d : N) : N := if d =? 123 then 125 else d.

Theorem verb_delims (star : bool) (d : N) (body rest : list N) (l0 : lst) (pv : option tok) :
  (star = false -> d <> 42) -> ~ In (closing d) body ->
  verb_invoke {| lx := l0; prev := pv; inp := (if star then [42] else []) ++ d :: body ++ closing d :: rest |} =
  BEnd star (vtok (closing d)) (map vtok body) true (after_state (closing d) rest) /\
  flat_map (fun t => match t with Tok _ x => x end) (map vtok body) = body.
Proof.
  intros Hstar Hbody. split.
  2:{ clear. induction body as [|c b IH]; [reflexivity|]. cbn. now f_equal. }
  unfold verb_invoke.
  assert (Hdelim : forall l1 p1,
    match pull1 {| lx := l1; prev := p1; inp := d :: body ++ closing d :: rest |} with
    | None => BCrash
    | Some None => BNoDelim star
    | Some (Some (d0, st3)) =>
      let d' := if tok_text_is d0 123 then match d0 with Tok k _ => Tok k [125] end else d0 in
      match verb_loop (S (length (inp st3))) d' [] st3 with
      | None => BCrash
      | Some (content, closed, st4) => BEnd star d' content closed st4
      end
    end = BEnd star (vtok (closing d)) (map vtok body) true (after_state (closing d) rest)).
  { intros l1 p1. rewrite pull1_char. cbv zeta.
    assert (Hd : (if tok_text_is (vtok d) 123 then match vtok d with Tok k _ => Tok k [125] end else vtok d) = vtok (closing d)).
    { unfold closing, tok_text_is, vtok. destruct (d =? 123) eqn:E.
      - apply N.eqb_eq in E. subst d. rewrite nlist_eqb_refl. now rewrite verbatim_braces_same_code.
      - apply N.eqb_neq in E. replace (nlist_eqb [d] [123]) with false; [reflexivity|].
        symmetry. apply nlist_eqb_false. congruence. }
    rewrite Hd. unfold after_state at 1 2. cbn [inp].
    rewrite verb_loop_body by (assumption || lia). reflexivity. }
  destruct star.
  - cbn [app]. rewrite pull1_char.
    replace (tok_text_is (vtok 42) 42) with true by (unfold tok_text_is, vtok; now rewrite nlist_eqb_refl).
    unfold after_state at 1. apply Hdelim.
  - cbn [app]. rewrite pull1_char.
    replace (tok_text_is (vtok d) 42) with false.
    + apply Hdelim.
    + symmetry. unfold tok_text_is, vtok. apply nlist_eqb_false. intros E. inversion E. now apply Hstar.
Qed.

(* ---- "text after it is processed normally again" ----
   After the scan the tokenizer is in state M with exactly the following text unread; the only trace of the verbatim
   material is the remembered previous token, which the lexical rules consult solely to collapse repeated \par tokens.
   Hence the tokens of the following text are those the same text gets after any ordinary letter. *)
Definition same_but_prev (s1 s2 : tst) : Prop :=
  lx s1 = lx s2 /\ inp s1 = inp s2 /\ prev_is (prev s1) par_tok = prev_is (prev s2) par_tok.

Lemma step_prev_irrel t s1 s2 : same_but_prev s1 s2 ->
  match step t s1, step t s2 with
  | Emit tk1 a, Emit tk2 b => tk1 = tk2 /\ a = b
  | Skip a, Skip b => same_but_prev a b
  | Done, Done => True
  | Crash, Crash => True
  | _, _ => False
  end.
Proof.
  destruct s1 as [l1 p1 i1], s2 as [l2 p2 i2]. intros (Hl & Hi & Hp). cbn [lx inp prev] in *. subst l2 i2.
  unfold step. cbn [lx inp prev]. destruct (next_char t i1) as [|k c rest]; [exact I|]. rewrite Hp.
  assert (Hsb : forall l r, same_but_prev {| lx := l; prev := p1; inp := r |} {| lx := l; prev := p2; inp := r |})
    by (intros; repeat split; assumption).
  destruct ((k =? CC_LETTER) || (k =? CC_OTHER)).
  { destruct (class_tok k c); [split; reflexivity | exact I]. }
  destruct (k =? CC_SPACE).
  { destruct l1; [apply Hsb | split; reflexivity | apply Hsb]. }
  destruct (k =? CC_EOL).
  { destruct l1; [|split; reflexivity|apply Hsb].
    destruct (prev_is p2 par_tok); [apply Hsb | split; reflexivity]. }
  destruct (k =? CC_ESCAPE).
  { destruct (next_char t rest) as [|k1 c1 rest1]; [split; reflexivity|].
    destruct (k1 =? CC_LETTER).
    - destruct (cw_fuel (S (length rest1)) t [c1] rest1) as [[w r2]|]; [split; reflexivity | exact I].
    - destruct (k1 =? CC_EOL); split; reflexivity. }
  destruct (k =? CC_COMMENT); [apply Hsb|].
  destruct (k =? CC_ACTIVE); [split; reflexivity|].
  destruct (class_tok k c); [split; reflexivity | exact I].
Qed.

Lemma lex_prev_irrel t s1 l : Lex t s1 l -> forall s2, same_but_prev s1 s2 -> Lex t s2 l.
Proof.
  induction 1 as [s H|s tk s' l H _ IH|s s' l H _ IH]; intros s2 Hr;
    apply lex_step_functional in H; pose proof (step_prev_irrel t s s2 Hr) as Hs; rewrite <- H in Hs;
    pose proof (step_lex t s2) as H2; destruct (step t s2) as [tk2 b|b| |]; try contradiction.
  - now apply LexDone.
  - destruct Hs as (-> & ->). eapply LexEmit; [exact H2|]. apply IH. repeat split.
  - eapply LexSkip; [exact H2|]. now apply IH.
Qed.

Theorem following_text_normal (t0 : table) (a d : N) (rest : list N) (l : list tok) :
  which_code t0 a = CC_LETTER ->
  run_from t0 (after_state d rest) = RToks l ->
  tokenize t0 (a :: rest) = RToks (Tok CC_LETTER [a] :: l).
Proof.
  intros Ha Hrun. unfold run_from in Hrun.
  destruct (run_lex t0 (S (length (inp (after_state d rest)))) 0 (after_state d rest) []) as (l' & Hl' & HL); [lia|].
  rewrite Hl' in Hrun. cbn [rev app] in Hrun. inversion Hrun; subst l'. clear Hrun Hl'.
  apply lex_tokenize. eapply LexEmit.
  - pose proof (step_lex t0 (init_state (a :: rest))) as Hs. unfold step in Hs. cbn [init_state inp lx prev] in Hs.
    assert (Hn : next_char t0 (a :: rest) = CChar CC_LETTER a rest).
    { cbn [next_char]. rewrite Ha. reflexivity. }
    rewrite Hn in Hs. cbn [N.eqb CC_LETTER Pos.eqb orb] in Hs. rewrite class_tok_defined in Hs by (cbn; tauto). exact Hs.
  - apply (lex_prev_irrel t0 _ _ HL). unfold after_state. repeat split. cbn [prev prev_is vtok tok_eqb par_tok].
    destruct (list_eq_dec N.eq_dec [d] [112; 97; 114]) as [E|_]; [inversion E|].
    destruct (list_eq_dec N.eq_dec [a] [112; 97; 114]) as [E|_]; [inversion E|]. now rewrite !andb_false_r.
Qed.

(* non-vacuity *)
Example verbatim_example :
  let body := [120; 92; 121; 123; 122; 125; 37; 113; 32; 32; 10; 92; 101; 110; 100; 123; 118] in     (* x\y{z}%q<sp><sp><nl>\end{v *)
  verbatim_invoke 92 123 125 [118] (init_state (body ++ end_pattern1 92 123 125 [118] ++ [90]))
  = VEnd (ISelf :: map vitem body) 1 (after_state 125 [90]).
Proof. vm_compute. reflexivity. Qed.
