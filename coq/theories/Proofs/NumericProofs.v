(* C05 -- proofs about Model/Numeric.v: regenerated tables, enable-level balance of the numeric readers,
   reading printed integer literals (M1), exact value of printed dimensions (M2). *)
From Coq Require Import List ZArith Bool QArith Qabs Lia.
From Verif Require Import Val Units Numeric.
Import ListNotations.
Local Open Scope Z_scope.

(* ================================================================ regenerated tables (finite obligations) *)

Definition s_pt := [112; 116]. Definition s_pc := [112; 99]. Definition s_in := [105; 110]. Definition s_bp := [98; 112].
Definition s_cm := [99; 109]. Definition s_mm := [109; 109]. Definition s_dd := [100; 100]. Definition s_cc := [99; 99].
Definition s_sp := [115; 112]. Definition s_ex := [101; 120]. Definition s_em := [101; 109].
Definition s_fil := [102; 105; 108]. Definition s_fill := [102; 105; 108; 108]. Definition s_filll := [102; 105; 108; 108; 108].

(* TeX's table (tex.web 458): a unit is num/den points; one point is 65536 sp *)
Definition tex_units : list (list Z * Q) :=
  [(s_pt, 1 # 1); (s_pc, 12 # 1); (s_in, 7227 # 100); (s_bp, 7227 # 7200); (s_cm, 7227 # 254); (s_mm, 7227 # 2540);
   (s_dd, 1238 # 1157); (s_cc, 14856 # 1157); (s_sp, 1 # 65536)]%Q.

Definition factor_ok (e : list Z * Q) : bool :=
  match dimen_of_unit (fst e) with
  | Some q => Qeq_bool q (snd e * (65536 # 1))
  | None => false
  end.

Lemma unit_factors_tex : forallb factor_ok tex_units = true.
Proof. vm_compute. reflexivity. Qed.

Lemma unit_factor_tex : forall u q, In (u, q) tex_units -> exists f, dimen_of_unit u = Some f /\ (f == q * (65536 # 1))%Q.
Proof.
  intros u q Hin.
  pose proof (proj1 (forallb_forall factor_ok tex_units) unit_factors_tex (u, q) Hin) as H.
  unfold factor_ok in H. cbn [fst snd] in H.
  destruct (dimen_of_unit u) as [f|]; [|discriminate].
  exists f. split; [reflexivity|]. apply Qeq_bool_eq. exact H.
Qed.

(* every unit the readers accept is handled by dimen.__new__ (no ValueError path), and is not empty *)
Lemma units_handled :
  forallb (fun u => match dimen_of_unit u with Some _ => negb (match u with [] => true | _ => false end) | None => false end)
          (dimen_units ++ mudimen_units ++ fil_units ++ fil_units_minus) = true.
Proof. vm_compute. reflexivity. Qed.

(* the fil orders are the offsets 2e9, 4e9, 6e9 on top of the amount 1 *)
Lemma fil_encoding :
  dimen_of_unit s_fil = Some (1 + two_e9)%Q /\ dimen_of_unit s_fill = Some (1 + four_e9)%Q /\ dimen_of_unit s_filll = Some (1 + six_e9)%Q.
Proof. vm_compute. repeat split. Qed.

(* both readStretch and readShrink try the longest keyword first (otherwise `fill` would be read as fil followed by l) *)
Lemma fil_units_longest_first : fil_units = [s_filll; s_fill; s_fil] /\ fil_units_minus = [s_filll; s_fill; s_fil].
Proof. split; reflexivity. Qed.

Lemma dimen_units_tex : dimen_units = [s_pt; s_pc; s_in; s_bp; s_cm; s_mm; s_dd; s_cc; s_sp; s_ex; s_em].
Proof. reflexivity. Qed.

(* digit sets: exactly TeX's (upper-case A-F only for hexadecimal) *)
Lemma digit_sets_tex :
  dec_digits = [48; 49; 50; 51; 52; 53; 54; 55; 56; 57] /\ oct_digits = [48; 49; 50; 51; 52; 53; 54; 55] /\
  hex_digits = [48; 49; 50; 51; 52; 53; 54; 55; 56; 57; 65; 66; 67; 68; 69; 70].
Proof. repeat split; reflexivity. Qed.

(* ================================================================ small facts *)

(* ================================================================ M6 (numeric part): the enable level is restored *)

Ltac break_match :=
  match goal with
  | H : context [match ?x with _ => _ end] |- _ => destruct x eqn:?
  end.

Lemma read_integer_level : forall o s lvl v s' lvl', read_integer o s lvl = Ok v s' lvl' -> lvl' = lvl.
Proof.
  intros o s lvl v s' lvl' H. unfold read_integer in H.
  repeat (break_match; try discriminate); inversion H; lia.
Qed.

Lemma read_decimal_level : forall s lvl v s' lvl', read_decimal s lvl = Ok v s' lvl' -> lvl' = lvl.
Proof.
  intros s lvl v s' lvl' H. unfold read_decimal in H.
  repeat (break_match; try discriminate); try (inversion H; lia).
  all: match goal with
       | Hi : read_integer _ _ _ = Ok _ _ _ |- _ => apply read_integer_level in Hi; inversion H; lia
       end.
Qed.

Lemma read_unit_level : forall u s lvl v s' lvl', read_unit_of_measure u s lvl = Ok v s' lvl' -> lvl' = lvl.
Proof.
  intros u s lvl v s' lvl' H. unfold read_unit_of_measure in H.
  repeat (break_match; try discriminate); inversion H; lia.
Qed.

Lemma read_dimen_level : forall u s lvl v s' lvl', read_dimen u s lvl = Ok v s' lvl' -> lvl' = lvl.
Proof.
  intros u s lvl v s' lvl' H. unfold read_dimen in H.
  repeat (break_match; try discriminate); try (inversion H; lia).
  all: repeat match goal with
       | Hi : read_decimal _ _ = Ok _ _ _ |- _ => apply read_decimal_level in Hi
       | Hi : read_unit_of_measure _ _ _ = Ok _ _ _ |- _ => apply read_unit_level in Hi
       end; inversion H; lia.
Qed.

Lemma read_fil_part_level : forall kw u f s lvl v s' lvl', read_fil_part kw u f s lvl = Ok v s' lvl' -> lvl' = lvl.
Proof.
  intros kw u f s lvl v s' lvl' H. unfold read_fil_part in H.
  repeat (break_match; try discriminate); try (inversion H; lia).
  match goal with Hi : read_dimen _ _ _ = Ok _ _ _ |- _ => apply read_dimen_level in Hi end. inversion H; lia.
Qed.

Lemma read_glue_level : forall u s lvl v s' lvl', read_glue u s lvl = Ok v s' lvl' -> lvl' = lvl.
Proof.
  intros u s lvl v s' lvl' H. unfold read_glue in H.
  repeat (break_match; try discriminate); try (inversion H; lia).
  all: repeat match goal with
       | Hi : read_dimen _ _ _ = Ok _ _ _ |- _ => apply read_dimen_level in Hi
       | Hi : read_fil_part _ _ _ _ _ = Ok _ _ _ |- _ => apply read_fil_part_level in Hi
       end; inversion H; lia.
Qed.

(* ================================================================ M1: reading printed integer literals *)
From Verif Require Import NumericSpec.

Lemma ros_blanks : forall n s, read_optional_spaces (blanks n ++ s) = read_optional_spaces s.
Proof. induction n as [|n IH]; intros s; [reflexivity|]. cbn. exact (IH s). Qed.

Lemma expand1_plain : forall lvl cat c, has_macro cat = false -> expand1 lvl (Ch cat c) = Some (Ch cat c).
Proof.
  intros lvl cat c H. cbn [expand1]. rewrite H. unfold has_macro in H.
  repeat (apply orb_false_elim in H; destruct H as [H ?]).
  rewrite H. match goal with E : (cat =? 2) = false |- _ => rewrite E end. reflexivity.
Qed.

Lemma has_macro_11_12 : forall cat, cat = 11 \/ cat = 12 -> has_macro cat = false.
Proof. intros cat [H|H]; subst; reflexivity. Qed.

Lemma signs_loop_blanks : forall lvl n sg s, signs_loop lvl sg (blanks n ++ s) = signs_loop lvl sg s.
Proof. induction n as [|n IH]; intros sg s; [reflexivity|]. cbn. exact (IH sg s). Qed.

Lemma signs_loop_minus : forall lvl sg r, signs_loop lvl sg (Ch 12 45 :: r) = signs_loop lvl (- sg) r.
Proof. reflexivity. Qed.
Lemma signs_loop_plus : forall lvl sg r, signs_loop lvl sg (Ch 12 43 :: r) = signs_loop lvl sg r.
Proof. reflexivity. Qed.

Lemma signs_loop_print : forall lvl l sg s, signs_loop lvl sg (print_sign_list l ++ s) = signs_loop lvl (sg * sign_list_value l) s.
Proof.
  induction l as [|[m n] l IH]; intros sg s.
  - cbn [print_sign_list sign_list_value app]. f_equal. lia.
  - cbn [print_sign_list sign_list_value]. rewrite <- app_comm_cons, <- app_assoc. destruct m; cbn [sign_tok].
    + rewrite signs_loop_minus, signs_loop_blanks, IH. f_equal. lia.
    + rewrite signs_loop_plus, signs_loop_blanks, IH. f_equal. lia.
Qed.

(* a token at which the sign loop stops *)
Definition stops_signs (t : tok) : Prop :=
  match t with Cs _ _ => True | Ch cat c => c <> 43 /\ c <> 45 /\ cat <> 10 end.

Lemma signs_loop_stop : forall lvl sg t t' r, expand1 lvl t = Some t' -> stops_signs t' -> signs_loop lvl sg (t :: r) = HOk sg (t' :: r).
Proof.
  intros lvl sg t t' r He Hs. cbn [signs_loop]. rewrite He. destruct t' as [cat c|k e]; [|reflexivity].
  destruct Hs as (H1 & H2 & H3).
  replace (c =? 43) with false by (symmetry; apply Z.eqb_neq; exact H1).
  replace (c =? 45) with false by (symmetry; apply Z.eqb_neq; exact H2).
  replace (cat =? 10) with false by (symmetry; apply Z.eqb_neq; exact H3). reflexivity.
Qed.

Lemma read_signs_print : forall lvl sr t t' r, expand1 lvl t = Some t' -> stops_signs t' ->
  read_optional_signs lvl (print_signs sr ++ t :: r) = HOk (sign_value sr) (t' :: r).
Proof.
  intros lvl [lead l] t t' r He Hs. unfold read_optional_signs, print_signs, sign_value. cbn [sr_lead sr_signs].
  rewrite <- app_assoc, ros_blanks.
  (* after the leading blanks the next token is a sign or the stopping token: read_optional_spaces leaves it *)
  assert (Hros : read_optional_spaces (print_sign_list l ++ t :: r) = print_sign_list l ++ t :: r).
  { destruct l as [|[m n] l]; cbn.
    - destruct t as [cat c|k e]; [|reflexivity].
      destruct (cat =? 10) eqn:E; [|reflexivity]. exfalso.
      apply Z.eqb_eq in E. subst cat. cbn in He. inversion He; subst t'. destruct Hs as (_ & _ & H). lia.
    - destruct m; reflexivity. }
  rewrite Hros, signs_loop_print, (signs_loop_stop lvl _ t t' r He Hs). f_equal. lia.
Qed.

(* ---- digit runs *)

Lemma digit_tok_inv : forall set t, digit_tok set t -> exists cat c, t = Ch cat c /\ has_macro cat = false /\ memz c set = true /\ cat <> 10.
Proof. intros set t (cat & c & -> & Hc & Hm). exists cat, c. repeat split; auto using has_macro_11_12. destruct Hc; lia. Qed.

(* what readSequence leaves: a token that is not expanded while a number is scanned stays as it is; otherwise the next token,
   expanded; a blank is taken when optspace *)
Definition seq_rest (lvl : Z) (optspace : bool) (rest : list tok) : list tok :=
  match rest with
  | [] => []
  | t :: r => if stops_unexpanded t then rest else
              match expand1 lvl t with
              | Some (Ch cat c) => if optspace && (cat =? 10) then r else Ch cat c :: r
              | Some t' => t' :: r
              | None => rest
              end
  end.

(* the token after the digits ends the run: it is one that is left unexpanded, or it exists in the Model and is not one more
   digit *)
Definition ends_run (lvl : Z) (set : list Z) (rest : list tok) : Prop :=
  match rest with
  | [] => True
  | t :: _ => stops_unexpanded t = true \/
              exists t', expand1 lvl t = Some t' /\ match t' with Ch _ c => memz c set = false | Cs _ _ => True end
  end.

Lemma plain_not_stop : forall cat c, has_macro cat = false -> stops_unexpanded (Ch cat c) = false.
Proof. intros cat c H. exact H. Qed.

Lemma read_sequence_run : forall lvl set optspace ds rest,
  Forall (digit_tok set) ds -> ends_run lvl set rest ->
  read_sequence lvl set optspace (ds ++ rest) = HOk (codes ds) (seq_rest lvl optspace rest).
Proof.
  intros lvl set optspace ds rest Hds Hend. induction Hds as [|d ds Hd Hds IH].
  - cbn [app codes map]. destruct rest as [|t r]; [reflexivity|].
    cbn [read_sequence seq_rest]. destruct (stops_unexpanded t) eqn:Es; [reflexivity|].
    destruct Hend as [Hs|(t' & He & Ht')]; [congruence|]. rewrite He.
    destruct t' as [cat c|k e]; [|reflexivity]. rewrite Ht'. destruct (optspace && (cat =? 10)); reflexivity.
  - destruct (digit_tok_inv _ _ Hd) as (cat & c & -> & Hm & Hin & _).
    cbn [app read_sequence]. rewrite (plain_not_stop cat c Hm), (expand1_plain lvl cat c Hm), Hin, IH. reflexivity.
Qed.

(* digit values: Python's int() on the digit string = positional value *)
Lemma digit_val_tex : forall c, memz c tex_hex = true -> digit_val c = Some (tex_digit_value c) /\ 0 <= tex_digit_value c < 16.
Proof.
  intros c H. unfold memz, tex_hex in H. cbn in H.
  repeat (apply orb_prop in H; destruct H as [H|H]; [apply Z.eqb_eq in H; subst c; vm_compute; repeat split; congruence|]).
  discriminate.
Qed.

Lemma tex_sets_sub : forall c, (memz c tex_dec = true -> memz c tex_hex = true /\ tex_digit_value c < 10) /\
                               (memz c tex_oct = true -> memz c tex_hex = true /\ tex_digit_value c < 8).
Proof.
  intros c. split; intros H; unfold memz, tex_dec, tex_oct in H; cbn in H;
  repeat (apply orb_prop in H; destruct H as [H|H]; [apply Z.eqb_eq in H; subst c; vm_compute; repeat split; congruence|]);
  discriminate.
Qed.

Lemma int_of_acc_pos : forall base ds acc, (forall c, In c ds -> memz c tex_hex = true /\ tex_digit_value c < base) ->
  int_of_acc base acc ds = Some (fold_left (fun a d => a * base + tex_digit_value d) ds acc).
Proof.
  intros base ds. induction ds as [|d ds IH]; intros acc H; [reflexivity|].
  cbn [int_of_acc fold_left]. destruct (H d (or_introl eq_refl)) as (Hm & Hlt).
  destruct (digit_val_tex d Hm) as (-> & _).
  replace (tex_digit_value d <? base) with true by (symmetry; apply Z.ltb_lt; exact Hlt).
  apply IH. intros c Hc. apply H. right. exact Hc.
Qed.

Lemma codes_digits : forall set ds, Forall (digit_tok set) ds -> forall c, In c (codes ds) -> memz c set = true.
Proof.
  intros set ds H. induction H as [|d ds Hd _ IH]; intros c Hc; [destruct Hc|].
  destruct Hd as (cat & c' & -> & _ & Hm). cbn in Hc. destruct Hc as [<-|Hc]; auto.
Qed.

Lemma pos_value_fold : forall base ds acc, fold_left (fun a d => a * base + tex_digit_value d) ds acc
                                          = acc * base ^ Z.of_nat (length ds) + pos_value base ds.
Proof.
  intros base ds. unfold pos_value. induction ds as [|d ds IH]; intros acc.
  - cbn. lia.
  - cbn [fold_left length]. rewrite IH. rewrite (IH (0 * base + tex_digit_value d)).
    rewrite Nat2Z.inj_succ, Z.pow_succ_r by lia. lia.
Qed.

Lemma int_of_pos_value : forall base set ds, (forall c, memz c set = true -> memz c tex_hex = true /\ tex_digit_value c < base) ->
  Forall (digit_tok set) ds -> int_of base (codes ds) = Some (pos_value base (codes ds)).
Proof.
  intros base set ds Hset Hds. unfold int_of, pos_value. apply int_of_acc_pos.
  intros c Hc. apply Hset. eapply codes_digits; eauto.
Qed.

(* the first token after the literal: looked at (expanded) and pushed back *)
Definition peek (lvl : Z) (s : list tok) : list tok :=
  match s with
  | [] => []
  | u :: r => match expand1 lvl u with Some u' => u' :: r | None => s end
  end.

(* the token after the constant (and its optional blank) is not a register: a register there multiplies the constant
   (kept by the maintainers for 5\mycount; TeX would read 5 and leave the register -- known finding) *)
Definition no_register_next (s : list tok) : Prop :=
  match s with [] => True | u :: _ => is_register u = false end.

Lemma digit_stops_signs : forall set cat c, (forall x, memz x set = true -> memz x tex_hex = true) ->
  (cat = 11 \/ cat = 12) -> memz c set = true -> stops_signs (Ch cat c).
Proof.
  intros set cat c Hs Hc Hm. cbn. apply Hs in Hm. repeat split.
  - intros ->. discriminate. - intros ->. discriminate. - destruct Hc; lia.
Qed.

Theorem read_integer_dec : forall sr d ds rest lvl0,
  Forall (digit_tok tex_dec) (d :: ds) ->
  ends_run (lvl0 - 1) tex_dec rest ->
  no_register_next (seq_rest (lvl0 - 1) true rest) ->
  read_integer true (print_signs sr ++ (d :: ds) ++ rest) lvl0 =
  Ok (sign_value sr * pos_value 10 (codes (d :: ds))) (seq_rest (lvl0 - 1) true rest) lvl0.
Proof.
  intros sr d ds rest lvl0 Hds Hend Hnext.
  inversion Hds as [|d' ds' Hd Hds']; subst.
  destruct Hd as (cat & c & -> & Hcat & Hm).
  assert (Hsub : forall x, memz x tex_dec = true -> memz x tex_hex = true /\ tex_digit_value x < 10) by (intros x; apply tex_sets_sub).
  unfold read_integer. cbn [app].
  rewrite (read_signs_print (lvl0 - 1) sr (Ch cat c) (Ch cat c)).
  2: { apply expand1_plain, has_macro_11_12, Hcat. }
  2: { apply (digit_stops_signs tex_dec cat c); auto. intros x Hx. exact (proj1 (Hsub x Hx)). }
  rewrite (expand1_plain _ _ _ (has_macro_11_12 _ Hcat)).
  change digits10 with tex_dec. rewrite Hm.
  change dec_digits with tex_dec. rewrite (read_sequence_run _ _ true ds rest Hds' Hend).
  change (c :: codes ds) with (codes (Ch cat c :: ds)).
  rewrite (int_of_pos_value 10 tex_dec _ Hsub Hds).
  replace (lvl0 - 1 + 1) with lvl0 by lia.
  destruct (seq_rest (lvl0 - 1) true rest) as [|u r2] eqn:Es; [reflexivity|].
  cbn [no_register_next] in Hnext. rewrite Hnext. reflexivity.
Qed.

Lemma pos_value_leading_zero : forall base ds, pos_value base (48 :: ds) = pos_value base ds.
Proof. intros. unfold pos_value. cbn [fold_left]. reflexivity. Qed.

Theorem read_integer_oct : forall sr ds rest lvl0,
  Forall (digit_tok tex_oct) ds ->
  ends_run (lvl0 - 1) tex_oct rest ->
  read_integer true (print_signs sr ++ Ch 12 39 :: ds ++ rest) lvl0 =
  Ok (sign_value sr * pos_value 8 (codes ds)) (seq_rest (lvl0 - 1) true rest) lvl0.
Proof.
  intros sr ds rest lvl0 Hds Hend.
  assert (Hsub : forall x, memz x tex_oct = true -> memz x tex_hex = true /\ tex_digit_value x < 8) by (intros x; apply tex_sets_sub).
  unfold read_integer.
  rewrite (read_signs_print (lvl0 - 1) sr (Ch 12 39) (Ch 12 39)); [|reflexivity|cbn; lia].
  change (expand1 (lvl0 - 1) (Ch 12 39)) with (Some (Ch 12 39)).
  change (memz 39 digits10) with false. change (39 =? 39) with true. cbv iota.
  change oct_digits with tex_oct. rewrite (read_sequence_run _ _ true ds rest Hds Hend).
  assert (H0 : digit_tok tex_oct (Ch 12 48)) by (exists 12, 48; repeat split; auto).
  pose proof (int_of_pos_value 8 tex_oct (Ch 12 48 :: ds) Hsub (Forall_cons _ H0 Hds)) as Hi.
  change (codes (Ch 12 48 :: ds)) with (48 :: codes ds) in Hi. rewrite Hi, pos_value_leading_zero.
  replace (lvl0 - 1 + 1) with lvl0 by lia. reflexivity.
Qed.

Theorem read_integer_hex : forall sr ds rest lvl0,
  Forall (digit_tok tex_hex) ds ->
  ends_run (lvl0 - 1) tex_hex rest ->
  read_integer true (print_signs sr ++ Ch 12 34 :: ds ++ rest) lvl0 =
  Ok (sign_value sr * pos_value 16 (codes ds)) (seq_rest (lvl0 - 1) true rest) lvl0.
Proof.
  intros sr ds rest lvl0 Hds Hend.
  assert (Hsub : forall x, memz x tex_hex = true -> memz x tex_hex = true /\ tex_digit_value x < 16).
  { intros x Hx. split; [exact Hx|]. apply digit_val_tex in Hx. lia. }
  unfold read_integer.
  rewrite (read_signs_print (lvl0 - 1) sr (Ch 12 34) (Ch 12 34)); [|reflexivity|cbn; lia].
  change (expand1 (lvl0 - 1) (Ch 12 34)) with (Some (Ch 12 34)).
  change (memz 34 digits10) with false. change (34 =? 39) with false. change (34 =? 34) with true. cbv iota.
  change hex_digits with tex_hex. rewrite (read_sequence_run _ _ true ds rest Hds Hend).
  assert (H0 : digit_tok tex_hex (Ch 12 48)) by (exists 12, 48; repeat split; auto).
  pose proof (int_of_pos_value 16 tex_hex (Ch 12 48 :: ds) Hsub (Forall_cons _ H0 Hds)) as Hi.
  change (codes (Ch 12 48 :: ds)) with (48 :: codes ds) in Hi. rewrite Hi, pos_value_leading_zero.
  replace (lvl0 - 1 + 1) with lvl0 by lia. reflexivity.
Qed.

(* `c : the character code of the next token, whatever its category; `\c for a one-character control sequence *)
Theorem read_integer_char : forall sr t c rest lvl0,
  ord_tok t = Some c ->
  read_integer true (print_signs sr ++ Ch 12 96 :: t :: rest) lvl0 = Ok (sign_value sr * c) rest lvl0.
Proof.
  intros sr t c rest lvl0 Ho. unfold read_integer.
  rewrite (read_signs_print (lvl0 - 1) sr (Ch 12 96) (Ch 12 96)); [|reflexivity|cbn; lia].
  change (expand1 (lvl0 - 1) (Ch 12 96)) with (Some (Ch 12 96)).
  change (memz 96 digits10) with false. change (96 =? 39) with false. change (96 =? 34) with false. change (96 =? 96) with true.
  cbv iota. rewrite Ho. replace (lvl0 - 1 + 1) with lvl0 by lia. reflexivity.
Qed.

(* an internal register (count, or a dimen / glue register coerced to its value in sp) *)
Theorem read_integer_register : forall sr k e rest lvl0,
  lvl0 <= 0 -> is_param k = true ->
  read_integer true (print_signs sr ++ Cs k e :: rest) lvl0 = Ok (sign_value sr * as_number k) rest lvl0.
Proof.
  intros sr k e rest lvl0 Hl Hp. unfold read_integer.
  assert (He : expand1 (lvl0 - 1) (Cs k e) = Some (Cs k true)).
  { assert (Hlt : (0 <=? lvl0 - 1) = false) by (apply Z.leb_gt; lia).
    destruct k; try discriminate; destruct e; cbn [expand1 is_param andb]; rewrite ?Hlt; reflexivity. }
  rewrite (read_signs_print (lvl0 - 1) sr (Cs k e) (Cs k true) rest He I).
  assert (He2 : expand1 (lvl0 - 1) (Cs k true) = Some (Cs k true)) by (destruct k; reflexivity).
  rewrite He2, Hp. replace (lvl0 - 1 + 1) with lvl0 by lia. reflexivity.
Qed.

(* the known finding, on the faithful Model: a decimal constant followed by a register is multiplied by it *)
Theorem read_integer_register_after_decimal_refuted :
  exists rest, read_integer true ([Ch 12 51] ++ rest) 0 <> Ok 3 (seq_rest (-1) true rest) 0.
Proof. exists [Cs (KCount 5) false]. vm_compute. discriminate. Qed.

(* ================================================================ M2: exact value of printed dimensions *)

Lemma pow10_eq : forall n, pow10 n = pow10p n.
Proof. induction n as [|n IH]; [reflexivity|]. cbn. rewrite IH. reflexivity. Qed.

Lemma point_tok_inv : forall p, point_tok p -> exists cat c, p = Ch cat c /\ has_macro cat = false /\ is_point c = true /\ memz c tex_dec = false /\ cat <> 10.
Proof.
  intros p (cat & c & -> & Hcat & Hc). exists cat, c. repeat split; auto using has_macro_11_12.
  - destruct Hc; subst; reflexivity.
  - destruct Hc; subst; reflexivity.
  - destruct Hcat; lia.
Qed.

Lemma expand1_idem : forall lvl t t', expand1 lvl t = Some t' -> expand1 lvl t' = Some t'.
Proof.
  intros lvl t t' E. destruct t as [cat c|k e]; cbn [expand1] in E.
  - destruct (cat =? 1); [inversion E; reflexivity|]. destruct (cat =? 2); [inversion E; reflexivity|].
    destruct (has_macro cat) eqn:Hm; [discriminate|]. inversion E; subst. apply expand1_plain, Hm.
  - destruct k; destruct e; try discriminate; try (inversion E; reflexivity);
      (destruct (_ && (0 <=? lvl)); [discriminate|]); inversion E; reflexivity.
Qed.

Lemma peek_idem : forall lvl s, peek lvl (peek lvl s) = peek lvl s.
Proof.
  intros lvl [|u r]; [reflexivity|]. cbn [peek]. destruct (expand1 lvl u) as [u'|] eqn:E; cbn [peek]; [|rewrite E; reflexivity].
  rewrite (expand1_idem _ _ _ E). reflexivity.
Qed.

(* the token after an integer part without a point exists in the Model (readDecimal looks at it through the expanding iterator)
   and is not a point *)
Definition not_point_next (lvl : Z) (s : list tok) : Prop :=
  match s with
  | [] => True
  | t :: _ => exists t', expand1 lvl t = Some t' /\ forall cat c, t' = Ch cat c -> is_point c = false
  end.

(* after the digits of an integer part: readSequence leaves the next token (expanded or not), readDecimal then expands it *)
Lemma dec_tail : forall lvl rest, not_point_next lvl rest ->
  match seq_rest lvl false rest with
  | [] => rest = []
  | u :: r2 => exists u', expand1 lvl u = Some u' /\ peek lvl rest = u' :: r2 /\ (forall cat c, u' = Ch cat c -> is_point c = false)
  end.
Proof.
  intros lvl [|t r] H; [reflexivity|]. cbn [seq_rest not_point_next peek] in *. destruct H as (t' & He & Hp).
  destruct (stops_unexpanded t).
  - exists t'. rewrite He. auto.
  - rewrite He. destruct t' as [cat c|k e]; cbn [andb].
    + exists (Ch cat c). rewrite (expand1_idem _ _ _ He). auto.
    + exists (Cs k e). rewrite (expand1_idem _ _ _ He). auto.
Qed.

Definition dec_rest (lvl : Z) (d : declit) (rest : list tok) : list tok :=
  match d_point d with Some _ => seq_rest lvl true rest | None => peek lvl rest end.

Lemma dec_of_value : forall ip fp, Forall (digit_tok tex_dec) ip -> Forall (digit_tok tex_dec) fp ->
  exists q, dec_of (codes ip) (match codes fp with [] => [48] | _ => codes fp end) = Some q /\
            (q == inject_Z (pos_value 10 (codes ip)) + Qmake (pos_value 10 (codes fp)) (pow10p (length fp)))%Q.
Proof.
  intros ip fp Hip Hfp.
  assert (Hsub : forall x, memz x tex_dec = true -> memz x tex_hex = true /\ tex_digit_value x < 10) by (intros x; apply tex_sets_sub).
  unfold dec_of. rewrite (int_of_pos_value 10 tex_dec ip Hsub Hip).
  destruct fp as [|f fp'].
  - cbn [codes map]. eexists. split; [reflexivity|]. cbn. unfold Qeq. cbn. lia.
  - change (match codes (f :: fp') with [] => [48] | _ :: _ => codes (f :: fp') end) with (codes (f :: fp')).
    rewrite (int_of_pos_value 10 tex_dec (f :: fp') Hsub Hfp). eexists. split; [reflexivity|].
    unfold codes at 3. rewrite map_length, pow10_eq. reflexivity.
Qed.

Lemma codes_nil_match : forall (fp : list tok), match codes fp with [] => [48] | _ => codes fp end = match fp with [] => [48] | _ => codes fp end.
Proof. intros [|f fp]; reflexivity. Qed.

Lemma point_stops_signs : forall cat c, is_point c = true -> cat <> 10 -> stops_signs (Ch cat c).
Proof.
  intros cat c Hp Hc. unfold is_point in Hp. apply orb_prop in Hp. cbn.
  destruct Hp as [Hp|Hp]; apply Z.eqb_eq in Hp; subst c; repeat split; try lia; exact Hc.
Qed.

Theorem read_decimal_print : forall lvl sr d rest,
  declit_ok d ->
  ends_run lvl tex_dec rest ->
  (d_point d = None -> not_point_next lvl rest) ->
  exists q, read_decimal (print_signs sr ++ print_dec d ++ rest) lvl = Ok q (dec_rest lvl d rest) lvl /\
            (q == inject_Z (sign_value sr) * dec_value d)%Q.
Proof.
  intros lvl sr [ip pt fp] rest (Hip & Hfp & Hpt) Hend Hnp. unfold print_dec, dec_value, dec_rest. cbn [d_ip d_point d_fp] in *.
  assert (Hsub : forall x, memz x tex_dec = true -> memz x tex_hex = true) by (intros x Hx; apply (proj1 (tex_sets_sub x)), Hx).
  unfold read_decimal.
  destruct ip as [|i ip'].
  - (* no integer part: the literal starts with the point *)
    destruct pt as [p|]; [|destruct Hpt as (Hne & _); congruence].
    destruct (point_tok_inv p Hpt) as (cat & c & -> & Hm & Hp & Hnd & Hc10).
    cbn [app]. rewrite (read_signs_print lvl sr (Ch cat c) (Ch cat c)); [|apply expand1_plain, Hm|].
    2: { apply point_stops_signs; assumption. }
    rewrite (expand1_plain _ _ _ Hm). change digits10 with tex_dec. rewrite Hnd, Hp.
    change dec_digits with tex_dec. rewrite (read_sequence_run lvl tex_dec true fp rest Hfp Hend).
    destruct (dec_of_value [] fp (Forall_nil _) Hfp) as (q & Hq & Hv).
    change (codes []) with (@nil Z) in Hq. rewrite codes_nil_match in Hq.
    (* dec_of [48] fs and dec_of [] fs agree *)
    assert (Hq' : dec_of [48] (match fp with [] => [48] | _ :: _ => codes fp end) = Some q).
    { unfold dec_of in *. change (int_of 10 [48]) with (Some 0). change (int_of 10 []) with (Some 0) in Hq. exact Hq. }
    replace (match codes fp with [] => [48] | _ :: _ => codes fp end) with (match fp with [] => [48] | _ :: _ => codes fp end)
      by (symmetry; apply codes_nil_match).
    rewrite Hq'. exists (inject_Z (sign_value sr) * q)%Q. split; [reflexivity|]. rewrite Hv. reflexivity.
  - (* integer part *)
    inversion Hip as [|i' ip'' Hi Hip']; subst.
    destruct Hi as (cat & c & -> & Hcat & Hm).
    rewrite <- !app_assoc. cbn [app].
    rewrite (read_signs_print lvl sr (Ch cat c) (Ch cat c)); [|apply expand1_plain, has_macro_11_12, Hcat|].
    2: { apply (digit_stops_signs tex_dec cat c); auto. }
    rewrite (expand1_plain _ _ _ (has_macro_11_12 _ Hcat)). change digits10 with tex_dec. rewrite Hm.
    change dec_digits with tex_dec.
    destruct pt as [p|].
    + (* ip . fp *)
      destruct (point_tok_inv p Hpt) as (cat2 & c2 & -> & Hm2 & Hp2 & Hnd2 & Hc10).
      assert (Hend2 : ends_run lvl tex_dec ((Ch cat2 c2 :: fp) ++ rest)).
      { cbn [ends_run app]. right. exists (Ch cat2 c2). split; [apply expand1_plain, Hm2|exact Hnd2]. }
      rewrite (read_sequence_run lvl tex_dec false ip' _ Hip' Hend2).
      cbn [app seq_rest]. rewrite (plain_not_stop _ _ Hm2), (expand1_plain _ _ _ Hm2). cbn [andb].
      rewrite (expand1_plain _ _ _ Hm2), Hp2.
      rewrite (read_sequence_run lvl tex_dec true fp rest Hfp Hend).
      destruct (dec_of_value (Ch cat c :: ip') fp Hip Hfp) as (q & Hq & Hv).
      change (c :: codes ip') with (codes (Ch cat c :: ip')).
      rewrite codes_nil_match in Hq.
      replace (match codes fp with [] => [48] | _ :: _ => codes fp end) with (match fp with [] => [48] | _ :: _ => codes fp end)
        by (symmetry; apply codes_nil_match).
      rewrite Hq. exists (inject_Z (sign_value sr) * q)%Q. split; [reflexivity|]. rewrite Hv. reflexivity.
    + (* ip alone *)
      destruct Hpt as (_ & ->). cbn [app].
      rewrite (read_sequence_run lvl tex_dec false ip' rest Hip' Hend).
      destruct (dec_of_value (Ch cat c :: ip') [] Hip (Forall_nil _)) as (q & Hq & Hv).
      change (c :: codes ip') with (codes (Ch cat c :: ip')).
      cbn [codes map] in Hq. change (map (fun t : tok => match t with Ch _ c0 => c0 | Cs _ _ => 0 end) ip') with (codes ip') in Hq.
      change (c :: codes ip') with (codes (Ch cat c :: ip')) in Hq.
      pose proof (dec_tail lvl rest (Hnp eq_refl)) as Ht.
      destruct (seq_rest lvl false rest) as [|u r2].
      * subst rest. rewrite Hq. exists (inject_Z (sign_value sr) * q)%Q. split; [reflexivity|]. rewrite Hv. reflexivity.
      * destruct Ht as (u' & He & Hpk & Hnpt). rewrite He, Hpk. destruct u' as [cat2 c2|k e].
        -- rewrite (Hnpt cat2 c2 eq_refl), Hq. exists (inject_Z (sign_value sr) * q)%Q. split; [reflexivity|]. rewrite Hv. reflexivity.
        -- rewrite Hq. exists (inject_Z (sign_value sr) * q)%Q. split; [reflexivity|]. rewrite Hv. reflexivity.
Qed.

(* ---- keywords *)

Lemma kw_tok_inv : forall t, kw_tok t -> exists cat c, t = Ch cat c /\ has_macro cat = false /\ cat <> 10 /\ is_letter_code c = true.
Proof. intros t (cat & c & -> & Hc & Hl). exists cat, c. repeat split; auto using has_macro_11_12. destruct Hc; lia. Qed.

(* matching a word against tokens that are all characters: succeeds iff the upper-cased codes are the letters;
   on failure the stream is restored *)
Lemma match_word_chars : forall letters toks rest acc,
  Forall kw_tok toks -> length toks = length letters ->
  match_word letters (toks ++ rest) acc =
  if list_eqb (map upper (codes toks)) letters then (true, rest) else (false, rev acc ++ toks ++ rest).
Proof.
  induction letters as [|l ls IH]; intros toks rest acc Hk Hlen.
  - destruct toks; [|discriminate]. reflexivity.
  - destruct toks as [|t toks]; [discriminate|]. inversion Hk as [|? ? Ht Hk']; subst.
    destruct Ht as (cat & c & -> & _ & _). cbn [app match_word is_element tok_upper_is codes map list_eqb].
    destruct (upper c =? l) eqn:E.
    + cbn [andb]. rewrite (IH toks rest (Ch cat c :: acc) Hk' (eq_add_S _ _ Hlen)).
      change (codes toks) with (map (fun t : tok => match t with Ch _ c0 => c0 | Cs _ _ => 0 end) toks).
      destruct (list_eqb _ ls); [reflexivity|]. cbn [rev]. rewrite <- app_assoc. reflexivity.
    + cbn [andb]. reflexivity.
Qed.

Lemma list_eqb_eq : forall a b, list_eqb a b = true <-> a = b.
Proof.
  induction a as [|x a IH]; destruct b as [|y b]; cbn; split; intros H; try discriminate; auto.
  - apply andb_prop in H. destruct H as (H1 & H2). apply Z.eqb_eq in H1. apply IH in H2. congruence.
  - inversion H; subst. rewrite Z.eqb_refl. apply IH. reflexivity.
Qed.

(* in a list of words that all have the length of the printed unit, the loop returns the first word spelled by the tokens *)
Lemma keyword_loop_hit : forall words u toks rest optspace,
  Forall kw_tok toks ->
  Forall (fun w => length w = length toks) words ->
  In u words ->
  map upper (codes toks) = map upper u ->
  (forall w, In w words -> map upper w = map upper u -> w = u) ->
  keyword_loop words optspace (toks ++ rest) = (Some u, if optspace then read_one_optional_space rest else rest).
Proof.
  induction words as [|w ws IH]; intros u toks rest optspace Hk Hlen Hin Hsp Hinj; [destruct Hin|].
  inversion Hlen as [|? ? Hw Hlen']; subst. cbn [keyword_loop].
  rewrite (match_word_chars (map upper w) toks rest [] Hk) by (rewrite map_length; symmetry; exact Hw).
  destruct (list_eqb (map upper (codes toks)) (map upper w)) eqn:E.
  - apply list_eqb_eq in E. assert (w = u) as -> by (apply Hinj; [left; reflexivity|congruence]). reflexivity.
  - cbn [rev app]. destruct Hin as [->|Hin].
    + exfalso. rewrite Hsp in E. assert (list_eqb (map upper u) (map upper u) = true) by (apply list_eqb_eq; reflexivity). congruence.
    + apply IH; auto. intros w' Hw'. apply Hinj. right. exact Hw'.
Qed.

Lemma ros_one_space : forall s, read_optional_spaces (read_one_optional_space s) = read_optional_spaces s.
Proof. intros [|[cat c|k e] r]; try reflexivity. cbn. destruct (cat =? 10) eqn:E; [reflexivity|]. cbn. rewrite E. reflexivity. Qed.

Lemma ros_kw : forall t r, kw_tok t -> read_optional_spaces (t :: r) = t :: r.
Proof. intros t r Ht. destruct (kw_tok_inv t Ht) as (cat & c & -> & _ & Hc & _). cbn. replace (cat =? 10) with false by (symmetry; apply Z.eqb_neq, Hc). reflexivity. Qed.

(* finite facts about the regenerated unit list *)
Lemma dimen_units_len2 : Forall (fun w => length w = 2%nat) dimen_units.
Proof. repeat constructor. Qed.

Lemma dimen_units_inj : forall u w, In u dimen_units -> In w dimen_units -> map upper w = map upper u -> w = u.
Proof.
  intros u w Hu Hw. cbn in Hu, Hw.
  repeat (destruct Hu as [<-|Hu]; [repeat (destruct Hw as [<-|Hw]; [intros E; first [reflexivity | (vm_compute in E; discriminate)]|]); destruct Hw|]).
  destruct Hu.
Qed.

(* no unit starts with t/T, so `true` is never half-matched on a unit; all factors are below the fil offsets *)
Lemma dimen_units_not_t : forallb (fun w => match w with c :: _ => negb (upper c =? 84) | [] => false end) dimen_units = true.
Proof. vm_compute. reflexivity. Qed.

Lemma dimen_units_small :
  forallb (fun w => match dimen_of_unit w with Some f => negb (qle_b two_e9 (qabs f)) | None => false end) dimen_units = true.
Proof. vm_compute. reflexivity. Qed.

Lemma spells_length : forall w l, spells w l -> length l = length w.
Proof. intros w l (_ & H). apply (f_equal (@length Z)) in H. unfold codes in H. rewrite !map_length in H. exact H. Qed.

Lemma upper_eq_first : forall u l c cat r, map upper (codes (Ch cat c :: r)) = map upper u -> u = l :: [] \/ True -> exists c0 u', u = c0 :: u' /\ upper c = upper c0.
Proof. intros u l c cat r H _. destruct u as [|c0 u']; [discriminate|]. cbn in H. inversion H. eauto. Qed.

(* [true] unit, after the blanks have been skipped *)
Lemma read_unit_print : forall tr utoks u f rest lvl0,
  true_part tr -> In u dimen_units -> spells u utoks -> dimen_of_unit u = Some f ->
  forall n1, read_unit_of_measure dimen_units (blanks n1 ++ tr ++ utoks ++ rest) lvl0 = Ok f (read_one_optional_space rest) lvl0.
Proof.
  intros tr utoks u f rest lvl0 Htr Hu Hsp Hf n1.
  pose proof (spells_length _ _ Hsp) as Hlen.
  assert (Hlen2 : length utoks = 2%nat).
  { rewrite Hlen. exact (proj1 (Forall_forall _ _) dimen_units_len2 u Hu). }
  destruct Hsp as (Hk & Hup).
  (* the unit is never mistaken for `true` *)
  assert (Hnot_t : forall r, keyword_loop [kw_true] true (utoks ++ r) = (None, utoks ++ r)).
  { intros r. destruct utoks as [|t0 ut]; [discriminate|]. inversion Hk as [|? ? Ht0 _]; subst.
    destruct Ht0 as (cat & c & -> & _ & _). destruct u as [|c0 u']; [discriminate|].
    assert (Hc : upper c = upper c0) by (cbn in Hup; inversion Hup; reflexivity).
    pose proof (proj1 (forallb_forall _ _) dimen_units_not_t (c0 :: u') Hu) as Hnt. cbn beta iota in Hnt.
    cbn [keyword_loop app map kw_true]. cbn [match_word is_element tok_upper_is].
    change (upper 116) with 84.
    assert (Hidem : upper (upper c0) = upper c0).
    { unfold upper. destruct ((97 <=? c0) && (c0 <=? 122)) eqn:E; [|rewrite E; reflexivity].
      apply andb_prop in E. destruct E as (E1 & E2). apply Z.leb_le in E1, E2.
      replace ((97 <=? c0 - 32) && (c0 - 32 <=? 122)) with false; [reflexivity|].
      symmetry. apply andb_false_iff. left. apply Z.leb_gt. lia. }
    rewrite Hc. apply negb_true_iff in Hnt. rewrite Hnt. reflexivity. }
  assert (Hunits : forall r, keyword_loop dimen_units true (utoks ++ r) = (Some u, read_one_optional_space r)).
  { intros r. apply (keyword_loop_hit dimen_units u utoks r true Hk); auto.
    - apply Forall_forall. intros w Hw. rewrite Hlen2. exact (proj1 (Forall_forall _ _) dimen_units_len2 w Hw).
    - intros w Hw. apply dimen_units_inj; auto. }
  assert (Hhead : exists t0 r0, tr ++ utoks ++ rest = t0 :: r0 /\ kw_tok t0).
  { destruct Htr as [->|(tt & n2 & -> & (Hkt & Hupt))].
    - destruct utoks as [|t0 ut]; [discriminate|]. inversion Hk; subst. cbn. eauto.
    - destruct tt as [|t0 tt']; [discriminate|]. inversion Hkt; subst. cbn. eauto. }
  destruct Hhead as (t0 & r0 & HK & Ht0).
  unfold read_unit_of_measure. rewrite ros_blanks, HK, (ros_kw t0 r0 Ht0).
  destruct (kw_tok_inv t0 Ht0) as (cat0 & c0 & -> & Hm0 & _ & _).
  rewrite (expand1_plain _ _ _ Hm0). cbv zeta. rewrite <- HK.
  unfold read_keyword.
  assert (HrosK : read_optional_spaces (tr ++ utoks ++ rest) = tr ++ utoks ++ rest).
  { rewrite HK. apply ros_kw. exists cat0, c0. destruct Ht0 as (a & b & E & H1 & H2). inversion E; subst. auto. }
  rewrite HrosK.
  destruct Htr as [->|(tt & n2 & -> & (Hkt & Hupt))].
  - cbn [app]. rewrite Hnot_t.
    assert (Hros2 : read_optional_spaces (utoks ++ rest) = utoks ++ rest).
    { destruct utoks as [|t1 ut]; [discriminate|]. inversion Hk; subst. apply ros_kw. assumption. }
    rewrite Hros2, Hunits. cbn [hd_error]. rewrite Hf. replace (lvl0 - 1 + 1) with lvl0 by lia. reflexivity.
  - rewrite <- !app_assoc. cbn [keyword_loop].
    assert (Hlt : length tt = length (map upper kw_true)).
    { apply (f_equal (@length Z)) in Hupt. unfold codes in Hupt. rewrite !map_length in Hupt. rewrite map_length. exact Hupt. }
    rewrite (match_word_chars (map upper kw_true) tt _ [] Hkt Hlt).
    change [116; 114; 117; 101] with kw_true in Hupt. rewrite Hupt.
    assert (list_eqb (map upper kw_true) (map upper kw_true) = true) as -> by (apply list_eqb_eq; reflexivity).
    rewrite ros_one_space, ros_blanks.
    assert (Hros2 : read_optional_spaces (utoks ++ rest) = utoks ++ rest).
    { destruct utoks as [|t1 ut]; [discriminate|]. inversion Hk; subst. apply ros_kw. assumption. }
    rewrite Hros2, Hunits. cbn [hd_error]. rewrite Hf. replace (lvl0 - 1 + 1) with lvl0 by lia. reflexivity.
Qed.

Lemma blank_or_kw_ends : forall lvl n K t0 r0, K = t0 :: r0 -> kw_tok t0 ->
  ends_run lvl tex_dec (blanks n ++ K) /\ not_point_next lvl (blanks n ++ K) /\
  (exists n', peek lvl (blanks n ++ K) = blanks n' ++ K) /\ (exists n', seq_rest lvl true (blanks n ++ K) = blanks n' ++ K).
Proof.
  intros lvl n K t0 r0 -> Ht0. destruct (kw_tok_inv t0 Ht0) as (cat & c & -> & Hm & Hc10 & Hl).
  assert (Hnd : memz c tex_dec = false /\ is_point c = false).
  { unfold is_letter_code in Hl. unfold memz, tex_dec, is_point. cbn [existsb].
    apply orb_prop in Hl. destruct Hl as [Hl|Hl]; apply andb_prop in Hl; destruct Hl as (H1 & H2); apply Z.leb_le in H1, H2;
    split; repeat (apply orb_false_iff; split); try (apply Z.eqb_neq; lia); reflexivity. }
  destruct n as [|m].
  - cbn [blanks repeat app]. repeat split.
    + right. exists (Ch cat c). split; [apply expand1_plain, Hm|apply Hnd].
    + exists (Ch cat c). split; [apply expand1_plain, Hm|]. intros cat' c' E. inversion E; subst. apply Hnd.
    + exists O. cbn [peek]. rewrite (expand1_plain _ _ _ Hm). reflexivity.
    + exists O. cbn [seq_rest]. rewrite (plain_not_stop _ _ Hm), (expand1_plain _ _ _ Hm).
      replace (cat =? 10) with false by (symmetry; apply Z.eqb_neq, Hc10). reflexivity.
  - cbn [blanks repeat app]. repeat split.
    + right. exists blank. split; reflexivity.
    + exists blank. split; [reflexivity|]. intros cat' c' E. inversion E; subst. reflexivity.
    + exists (S m). reflexivity.
    + exists m. reflexivity.
Qed.

Theorem read_dimen_exact : forall sr d n1 tr utoks u f rest lvl0,
  declit_ok d -> true_part tr -> In u dimen_units -> spells u utoks -> dimen_of_unit u = Some f ->
  exists v, read_dimen dimen_units (print_signs sr ++ print_dec d ++ blanks n1 ++ tr ++ utoks ++ rest) lvl0
            = Ok v (read_one_optional_space rest) lvl0 /\
            (v == inject_Z (sign_value sr) * dec_value d * f)%Q.
Proof.
  intros sr d n1 tr utoks u f rest lvl0 Hd Htr Hu Hsp Hf.
  set (K := tr ++ utoks ++ rest).
  assert (HK : exists t0 r0, K = t0 :: r0 /\ kw_tok t0).
  { unfold K. destruct Hsp as (Hk & Hup). pose proof (proj1 (Forall_forall _ _) dimen_units_len2 u Hu) as H2.
    destruct Htr as [->|(tt & n2 & -> & (Hkt & Hupt))].
    - destruct utoks as [|t0 ut]; [destruct u; discriminate|]. inversion Hk; subst. cbn. eauto.
    - destruct tt as [|t0 tt']; [discriminate|]. inversion Hkt; subst. cbn. eauto. }
  destruct HK as (t0 & r0 & HK & Ht0).
  destruct (blank_or_kw_ends (lvl0 - 1) n1 K t0 r0 HK Ht0) as (Hend & Hnp & (np & Hpeek) & (ns & Hseq)).
  (* the head of the decimal literal *)
  assert (Hhead : exists cat c pd, print_dec d = Ch cat c :: pd /\ has_macro cat = false /\ stops_signs (Ch cat c)).
  { destruct d as [ip pt fp]. destruct Hd as (Hip & _ & Hpt). unfold print_dec. cbn [d_ip d_point d_fp] in *.
    destruct ip as [|i ip'].
    - destruct pt as [p|]; [|destruct Hpt; congruence]. destruct (point_tok_inv p Hpt) as (cat & c & -> & Hm & Hp & _ & Hc10).
      exists cat, c, fp. split; [reflexivity|]. split; [exact Hm|]. apply point_stops_signs; auto.
    - inversion Hip as [|? ? Hi _]; subst. destruct Hi as (cat & c & -> & Hcat & Hm).
      exists cat, c, (ip' ++ match pt with Some p => p :: fp | None => [] end).
      split; [reflexivity|]. split; [apply has_macro_11_12, Hcat|].
      apply (digit_stops_signs tex_dec cat c); auto. intros x Hx. apply (proj1 (tex_sets_sub x)), Hx. }
  destruct Hhead as (cat & c & pd & Hpd & Hm & Hstop).
  destruct (read_decimal_print (lvl0 - 1) (mkSR 0 []) d (blanks n1 ++ K) Hd Hend (fun _ => Hnp)) as (q & Hq & Hqv).
  change (print_signs (mkSR 0 [])) with (@nil tok) in Hq. cbn [app] in Hq.
  unfold read_dimen. fold K.
  replace (print_signs sr ++ print_dec d ++ blanks n1 ++ K) with (print_signs sr ++ Ch cat c :: pd ++ blanks n1 ++ K)
    by (rewrite Hpd; reflexivity).
  rewrite (read_signs_print (lvl0 - 1) sr (Ch cat c) (Ch cat c) _ (expand1_plain _ _ _ Hm) Hstop).
  rewrite (expand1_plain _ _ _ Hm). cbv zeta.
  replace (Ch cat c :: pd ++ blanks n1 ++ K) with (print_dec d ++ blanks n1 ++ K) by (rewrite Hpd; reflexivity).
  rewrite Hq.
  assert (Hrest : exists n', dec_rest (lvl0 - 1) d (blanks n1 ++ K) = blanks n' ++ tr ++ utoks ++ rest).
  { unfold dec_rest. destruct (d_point d); [exists ns; exact Hseq|exists np; exact Hpeek]. }
  destruct Hrest as (n' & ->).
  rewrite (read_unit_print tr utoks u f rest (lvl0 - 1) Htr Hu Hsp Hf n').
  pose proof (proj1 (forallb_forall _ _) dimen_units_small u Hu) as Hsmall. cbn beta in Hsmall. rewrite Hf in Hsmall.
  apply negb_true_iff in Hsmall.
  eexists. split.
  - unfold scale_unit. rewrite Hsmall. replace (lvl0 - 1 + 1) with lvl0 by lia. reflexivity.
  - rewrite Hqv. change (sign_value (mkSR 0 [])) with 1. change (inject_Z 1) with 1%Q.
    generalize (inject_Z (sign_value sr)) (dec_value d). intros a b. ring.
Qed.

(* with TeX's own table: the value is sign * decimal * (num/den) * 65536 sp *)
Corollary read_dimen_tex : forall sr d n1 tr utoks u tq rest lvl0,
  declit_ok d -> true_part tr -> In (u, tq) tex_units -> spells u utoks ->
  exists v, read_dimen dimen_units (print_signs sr ++ print_dec d ++ blanks n1 ++ tr ++ utoks ++ rest) lvl0
            = Ok v (read_one_optional_space rest) lvl0 /\
            (v == inject_Z (sign_value sr) * dec_value d * (tq * (65536 # 1)))%Q.
Proof.
  intros sr d n1 tr utoks u tq rest lvl0 Hd Htr Hin Hsp.
  destruct (unit_factor_tex u tq Hin) as (f & Hf & Hfv).
  assert (Hu : In u dimen_units).
  { cbn in Hin. repeat (destruct Hin as [Hin|Hin]; [inversion Hin; subst; cbn; tauto|]). destruct Hin. }
  destruct (read_dimen_exact sr d n1 tr utoks u f rest lvl0 Hd Htr Hu Hsp Hf) as (v & Hv & Hvv).
  exists v. split; [exact Hv|]. rewrite Hvv, Hfv. reflexivity.
Qed.

(* ---- fil orders: a multiple of fil / fill / filll keeps its order, the amount is scaled *)

Lemma fil_scale : forall a off, In off [two_e9; four_e9; six_e9] ->
  (scale_unit a (1 + off) == if qlt_b a 0 then a - off else a + off)%Q.
Proof.
  intros a off Hin.
  assert (Hf : (fill_of (1 + off) == 1)%Q /\ qle_b two_e9 (qabs (1 + off)) = true /\ (qabs (1 + off) - qabs (fill_of (1 + off)) == off)%Q).
  { cbn in Hin. destruct Hin as [<-|[<-|[<-|[]]]]; vm_compute; repeat split; congruence. }
  destruct Hf as (Hf1 & Hbig & Hord). unfold scale_unit. rewrite Hbig.
  assert (Hn : (a * fill_of (1 + off) == a)%Q) by (rewrite Hf1; ring).
  unfold qlt_b. rewrite (Qleb_comp 0%Q 0%Q (Qeq_refl 0%Q) _ _ Hn).
  destruct (Qle_bool 0%Q a); cbn [negb]; rewrite Hn, Hord; reflexivity.
Qed.
