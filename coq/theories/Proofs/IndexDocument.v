(* C18: the first two sentences of the property, end to end on the Model: for every document, given as the list of the
   index entries it SPELLS (makeindex syntax, Spec side of Model/Index.v), parsing each \index argument with index.invoke
   and building the tree with IndexUtils.digest gives exactly one line per distinct spelled key path
   (sort part, display part) per level, carrying one reference per occurrence, in document order, of the spelled type;
   nothing else; siblings in collation order. *)
From Coq Require Import List ZArith Bool Arith Lia Permutation Sorted.
Import ListNotations.
From Verif Require Import Val Index IndexOrder IndexSort IndexDigest IndexParse.
Local Open Scope Z_scope.

Lemma filter_map_comm {A B} (f : A -> B) (P : B -> bool) : forall l, filter P (map f l) = map f (filter (fun x => P (f x)) l).
Proof. induction l as [|x l IH]; simpl; auto. destruct (P (f x)); simpl; rewrite IH; reflexivity. Qed.

Lemma combine_map_both {A B C} (f : A -> B) (h : A -> C) : forall l, combine (map f l) (map h l) = map (fun x => (f x, h x)) l.
Proof. induction l as [|x l IH]; simpl; auto. rewrite IH. reflexivity. Qed.

Section Document.
  Context {K : Type} (ck : str -> K) (keqb kltb : K -> K -> bool) (HK : sto keqb kltb).
  Context (tx : list tok -> str) (src : list tok -> str).
  Context (src_inj : forall a b, src a = src b -> a = b).

  (* what an entry spells *)
  Definition ispec_ok (e : ientry) : Prop := i_levels e <> [] /\ fmt_ok (i_fmt e).
  Definition spelled_path (e : ientry) : path := map (fun l => (tx (sort_part l), l_disp l)) (i_levels e).
  Definition spelled_type (e : ientry) : Z := match i_fmt e with None => 0 | Some (name, _) => fmt_type name end.

  (* the n-th \index command of the document, as index.invoke stores it *)
  Definition stored (p : nat * ientry) : entry := entry_of tx (Z.of_nat (fst p)) (print_entry (snd p)).
  Definition numbered (doc : list ientry) : list (nat * ientry) := combine (seq 0 (length doc)) doc.
  Definition entries_of (doc : list ientry) : list entry := map stored (numbered doc).

  Lemma stored_spec p : ispec_ok (snd p) ->
    labels (stored p) = spelled_path (snd p) /\ pg (stored p) = (spelled_type (snd p), Z.of_nat (fst p)) /\ wf (stored p).
  Proof.
    intros [N F]. unfold stored, entry_of. rewrite (parse_entry_print tx (snd p) N F).
    destruct (i_fmt (snd p)) as [[name args]|] eqn:Ef; unfold labels, pg, wf, spelled_path, spelled_type; cbn [e_key e_sort e_type e_node];
      rewrite Ef, combine_map_both, !map_length; (split; [reflexivity|split; [reflexivity|]]);
      destruct (i_levels (snd p)); [congruence | simpl; lia | congruence | simpl; lia].
  Qed.

  Theorem index_of_document (doc : list ientry) :
    Forall ispec_ok doc ->
    exists t, digest ck keqb kltb tx src (entries_of doc) = Some t /\
      NoDup (map fst (nodes_f [] t)) /\
      (forall q, pages_of (nodes_f [] t) q =
                 map (fun p => (spelled_type (snd p), Z.of_nat (fst p)))
                     (filter (fun p => path_eqb (spelled_path (snd p)) q) (numbered doc))) /\
      (forall q, In q (map fst (nodes_f [] t)) -> q <> [] /\ exists e, In e doc /\ is_prefix q (spelled_path e)) /\
      forest_sortedb ck kltb t = true.
  Proof.
    intro Ok.
    assert (OkN : forall p, In p (numbered doc) -> ispec_ok (snd p)).
    { intros [n e] I. apply in_combine_r in I. rewrite Forall_forall in Ok. apply Ok. exact I. }
    assert (W : Forall wf (entries_of doc)).
    { rewrite Forall_forall. intros x Ix. apply in_map_iff in Ix. destruct Ix as (p & E & Ip). subst x.
      apply (stored_spec p (OkN p Ip)). }
    destruct (merge_complete ck keqb kltb HK tx src src_inj (entries_of doc) W) as (t & D & ND & _ & Pg & Nothing).
    exists t. split; [exact D|]. split; [exact ND|]. split; [|split].
    - intro q. rewrite Pg. unfold entries_of. rewrite filter_map_comm, map_map.
      rewrite (filter_ext_in (fun x => path_eqb (labels (stored x)) q) (fun p => path_eqb (spelled_path (snd p)) q)).
      + apply map_ext_in. intros p Ip. apply filter_In in Ip. destruct Ip as [Ip _]. apply (stored_spec p (OkN p Ip)).
      + intros p Ip. destruct (stored_spec p (OkN p Ip)) as (L & _ & _). rewrite L. reflexivity.
    - intros q Iq. destruct (Nothing q Iq) as (Nq & x & Ix & Px). split; [exact Nq|].
      apply in_map_iff in Ix. destruct Ix as (p & E & Ip). subst x.
      exists (snd p). split.
      + destruct p as [n e]. apply in_combine_r in Ip. exact Ip.
      + destruct (stored_spec p (OkN p Ip)) as (L & _ & _). rewrite <- L. exact Px.
    - eapply (sorted_levels ck keqb kltb HK tx src src_inj); eauto.
  Qed.
End Document.
