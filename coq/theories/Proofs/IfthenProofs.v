From Coq Require Import List ZArith Bool Lia.
Import ListNotations.
From Verif Require Import Val IfthenPrec Ifthen.

(* the regenerated precedence values are used by computation only *)
Ltac prec_values := unfold prec, gen_prec_rel, gen_prec_op, gen_prec_default in *.

Scheme atom_mut := Induction for atom Sort Prop
with term_mut := Induction for term Sort Prop
with expr_mut := Induction for expr Sort Prop.
Combined Scheme aet_mutind from atom_mut, term_mut, expr_mut.

(* postfix form of a tree, split into the part already emitted ("done") and the operators still
   pending on the stack ("pend") when the last token of the sub-expression has been read *)
Definition pend_a (a : atom) : list tok := match a with ACmp _ r _ => [TRel r] | _ => [] end.
Fixpoint post_a (a : atom) : list tok :=
  match a with ACmp x r y => [TNum x; TNum y; TRel r] | ABool b => [TBool b] | AParen e => post_e e end
with post_t (t : term) : list tok := match t with TAtom a => post_a a | TNeg t => post_t t ++ [TNot] end
with post_e (e : expr) : list tok :=
  match e with ETerm t => post_t t | EAnd e t => post_e e ++ post_t t ++ [TAnd] | EOr e t => post_e e ++ post_t t ++ [TOr] end.
Definition done_a (a : atom) : list tok :=
  match a with ACmp x r y => [TNum x; TNum y] | ABool b => [TBool b] | AParen e => post_e e end.
Fixpoint pend_t (t : term) : list tok := match t with TAtom a => pend_a a | TNeg t => pend_t t ++ [TNot] end.
Fixpoint done_t (t : term) : list tok := match t with TAtom a => done_a a | TNeg t => done_t t end.
Definition pend_e (e : expr) : list tok :=
  match e with ETerm t => pend_t t | EAnd _ t => pend_t t ++ [TAnd] | EOr _ t => pend_t t ++ [TOr] end.
Definition done_e (e : expr) : list tok :=
  match e with ETerm t => done_t t | EAnd e t => post_e e ++ done_t t | EOr e t => post_e e ++ done_t t end.

Definition norel (st : list tok) := match st with TRel _ :: _ => False | _ => True end.
Definition low (st : list tok) := match st with [] => True | TLp :: _ => True | _ => False end.
Definition ops (l : list tok) := Forall (fun t => 1 <= prec t) l.

Lemma run_app a b st out :
  run (a ++ b) st out = match run a st out with Some (st', out') => run b st' out' | None => None end.
Proof.
  revert st out; induction a as [|t a IH]; intros st out; cbn [app run]; [reflexivity|].
  destruct (step t st out) as [[st' out']|]; [apply IH|reflexivity].
Qed.

Lemma pop_while1_ops l st out : ops l -> low st -> pop_while 1 (l ++ st) out = (st, rev l ++ out).
Proof.
  revert out; induction l as [|t l IH]; intros out Ho Hl.
  - cbn [app rev]. destruct st as [|[] st]; cbn in *; try contradiction; reflexivity.
  - inversion Ho as [|? ? Ht Hl']; subst. cbn [app pop_while rev].
    destruct (Nat.leb_spec 1 (prec t)); [|lia]. rewrite IH by assumption. now rewrite <- app_assoc.
Qed.

Lemma pop_to_lp_ops l st out : ops l -> pop_to_lp (l ++ TLp :: st) out = Some (st, rev l ++ out).
Proof.
  revert out; induction l as [|t l IH]; intros out Ho; cbn [app rev pop_to_lp]; [reflexivity|].
  inversion Ho as [|? ? Ht Hl']; subst.
  destruct t; prec_values; try lia; rewrite IH by assumption; now rewrite <- app_assoc.
Qed.

Lemma post_done_pend :
  (forall a, post_a a = done_a a ++ pend_a a) /\ (forall t, post_t t = done_t t ++ pend_t t) /\
  (forall e, post_e e = done_e e ++ pend_e e).
Proof.
  apply aet_mutind; cbn; intros; try reflexivity.
  - now rewrite app_nil_r.
  - assumption.
  - match goal with H : post_t _ = _ |- _ => rewrite H end. now rewrite <- app_assoc.
  - assumption.
  - match goal with H : post_t _ = _ |- _ => rewrite H end. now rewrite <- !app_assoc.
  - match goal with H : post_t _ = _ |- _ => rewrite H end. now rewrite <- !app_assoc.
Qed.

Lemma pend_ops : (forall a, ops (pend_a a)) /\ (forall t, ops (pend_t t)) /\ (forall e, ops (pend_e e)).
Proof.
  apply aet_mutind; cbn; intros; unfold ops in *; repeat constructor; prec_values; cbn; auto; try lia;
  try (apply Forall_app; split; auto; repeat constructor; prec_values; cbn; lia).
Qed.

Lemma run_shape :
  (forall a st out, norel st -> run (pr_a a) st out = Some (pend_a a ++ st, rev (done_a a) ++ out)) /\
  (forall t st out, norel st -> run (pr_t t) st out = Some (pend_t t ++ st, rev (done_t t) ++ out)) /\
  (forall e st out, low st -> run (pr_e e) st out = Some (pend_e e ++ st, rev (done_e e) ++ out)).
Proof.
  apply aet_mutind.
  - (* ACmp *) intros a r b st out Hn. cbn. destruct st as [|[] st]; cbn in *; try contradiction; reflexivity.
  - intros b st out Hn. reflexivity.
  - (* paren *) intros e IH st out Hn. cbn [pr_a].
    change (TLp :: pr_e e ++ [TRp]) with ([TLp] ++ pr_e e ++ [TRp]).
    rewrite run_app. cbn [run step]. rewrite run_app. rewrite IH by exact I.
    cbn [run step]. rewrite pop_to_lp_ops by apply pend_ops.
    cbn [pend_a done_a app]. destruct post_done_pend as (_ & _ & He). rewrite He, rev_app_distr, <- app_assoc. reflexivity.
  - intros a IH st out Hn. cbn. apply IH. assumption.
  - (* TNeg *) intros t IH st out Hn. cbn [pr_t run step]. rewrite IH by exact I. cbn [pend_t done_t]. now rewrite <- app_assoc.
  - intros t IH st out Hl. cbn. apply IH. destruct st as [|[] ?]; cbn in *; auto.
  - (* EAnd *) intros e IHe t IHt st out Hl. cbn [pr_e]. rewrite run_app, IHe by assumption. cbn [run step prec].
    rewrite pop_while1_ops by (try apply pend_ops; assumption).
    rewrite IHt by exact I. cbn [pend_e done_e]. destruct post_done_pend as (_ & _ & He). rewrite He.
    rewrite <- !app_assoc. rewrite !rev_app_distr, <- !app_assoc. reflexivity.
  - intros e IHe t IHt st out Hl. cbn [pr_e]. rewrite run_app, IHe by assumption. cbn [run step prec].
    rewrite pop_while1_ops by (try apply pend_ops; assumption).
    rewrite IHt by exact I. cbn [pend_e done_e]. destruct post_done_pend as (_ & _ & He). rewrite He.
    rewrite <- !app_assoc. rewrite !rev_app_distr, <- !app_assoc. reflexivity.
Qed.

Lemma to_postfix_post e : to_postfix (pr_e e) = Some (post_e e).
Proof.
  unfold to_postfix. destruct run_shape as (_ & _ & He). rewrite He by exact I.
  rewrite !app_nil_r, rev_involutive.
  destruct post_done_pend as (_ & _ & Hp). now rewrite Hp.
Qed.

Lemma evalp_app p q s : evalp (p ++ q) s = match evalp p s with Some s' => evalp q s' | None => None end.
Proof.
  revert s; induction p as [|t p IH]; intros s; cbn [app evalp]; [reflexivity|].
  destruct t; try apply IH;
  destruct s as [|[] [|[] s]]; try reflexivity; apply IH.
Qed.

Lemma evalp_post :
  (forall a s, evalp (post_a a) s = Some (VB (den_a a) :: s)) /\
  (forall t s, evalp (post_t t) s = Some (VB (den_t t) :: s)) /\
  (forall e s, evalp (post_e e) s = Some (VB (den_e e) :: s)).
Proof.
  apply aet_mutind; intros; cbn; try reflexivity; auto.
  - rewrite evalp_app, H. reflexivity.
  - rewrite evalp_app, H, evalp_app, H0. reflexivity.
  - rewrite evalp_app, H, evalp_app, H0. reflexivity.
Qed.

Lemma evaluate_denote_nospace e : evaluate (pr_e e) = Some (den_e e).
Proof.
  unfold evaluate. rewrite to_postfix_post.
  destruct evalp_post as (_ & _ & He). now rewrite He.
Qed.

(* blanks anywhere between the tokens change nothing *)
Lemma run_strip ts st out : run ts st out = run (strip_spaces ts) st out.
Proof.
  revert st out; induction ts as [|t ts IH]; intros st out; [reflexivity|].
  destruct t; cbn [strip_spaces run step]; try (destruct (pop_to_lp st out) as [[? ?]|]); try (destruct (pop_while _ st out)); try apply IH; try reflexivity.
Qed.

Lemma evaluate_strip ts : evaluate ts = evaluate (strip_spaces ts).
Proof. unfold evaluate, to_postfix. now rewrite run_strip. Qed.

Lemma evaluate_denote ts e : strip_spaces ts = pr_e e -> evaluate ts = Some (den_e e).
Proof. intros H. rewrite evaluate_strip, H. apply evaluate_denote_nospace. Qed.

Lemma then_else {A} ts e (thn els : A) :
  strip_spaces ts = pr_e e -> ifthenelse ts thn els = Some (if den_e e then thn else els).
Proof. intros H. unfold ifthenelse. rewrite (evaluate_denote _ _ H). now destruct (den_e e). Qed.

(* \not binds tightest, \and/\or associate to the left with equal precedence: by construction of the
   grammar atom/term/expr, [den_e] is that reading. Two sanity lemmas on the reading itself: *)
Lemma den_not_and a b : den_e (EAnd (ETerm (TNeg (TAtom a))) (TAtom b)) = negb (den_a a) && den_a b.
Proof. reflexivity. Qed.
Lemma den_or_and_left a b c :
  den_e (EAnd (EOr (ETerm (TAtom a)) (TAtom b)) (TAtom c)) = (den_a a || den_a b) && den_a c.
Proof. reflexivity. Qed.

(* whiledo: the body runs exactly as many times as the test stays true *)
Section WhileProofs.
  Context {S : Type} (test : S -> option bool) (body : S -> S).
  Fixpoint iter (n : nat) (s : S) : S := match n with O => s | Datatypes.S k => iter k (body s) end.

  Lemma whiledo_count_gen n : forall fuel k s,
    (forall j, (j < n)%nat -> test (iter j s) = Some true) ->
    test (iter n s) = Some false ->
    (n < fuel)%nat ->
    whiledo test body fuel k s = WDone (k + n) (iter n s).
  Proof.
    induction n as [|n IH]; intros fuel k s Htrue Hfalse Hfuel.
    - destruct fuel as [|f]; [lia|]. cbn in *. rewrite Hfalse. now rewrite Nat.add_0_r.
    - destruct fuel as [|f]; [lia|]. cbn [whiledo].
      pose proof (Htrue O ltac:(lia)) as H0; cbn [iter] in H0; rewrite H0. rewrite (IH f (Datatypes.S k) (body s)).
      + cbn [iter]. f_equal. lia.
      + intros j Hj. apply (Htrue (Datatypes.S j)). lia.
      + exact Hfalse.
      + lia.
  Qed.

  Lemma whiledo_count n fuel s :
    (forall j, (j < n)%nat -> test (iter j s) = Some true) ->
    test (iter n s) = Some false -> (n < fuel)%nat ->
    whiledo test body fuel 0 s = WDone n (iter n s).
  Proof. intros. now rewrite (whiledo_count_gen n fuel 0 s). Qed.

  (* and never more: a returned count n means the test was true exactly n times in sequence, then false *)
  Lemma whiledo_sound : forall fuel k s n s',
    whiledo test body fuel k s = WDone n s' ->
    exists m, n = (k + m)%nat /\ s' = iter m s /\ test (iter m s) = Some false /\
              forall j, (j < m)%nat -> test (iter j s) = Some true.
  Proof.
    induction fuel as [|f IH]; intros k s n s' H; cbn in H; [discriminate|].
    destruct (test s) as [[|]|] eqn:Ht; try discriminate.
    - apply IH in H. destruct H as (m & -> & -> & Hf & Ht').
      exists (Datatypes.S m). repeat split; try assumption; try lia.
      intros j Hj. destruct j as [|j]; [exact Ht|]. apply Ht'. lia.
    - inversion H; subst. exists O. repeat split; try assumption; try lia; try (intros j Hj; lia).
  Qed.
End WhileProofs.

(* atoms *)
Lemma isodd_val_spec z : isodd_val z = Z.odd z.
Proof.
  unfold isodd_val. rewrite Zmod_odd. destruct (Z.odd z); reflexivity.
Qed.
Lemma equal_val_spec a b : equal_val a b = true <-> a = b.
Proof. unfold equal_val. destruct (list_eq_dec Z.eq_dec a b); split; congruence. Qed.
