(* C09 -- proofs about Model/Refs.v against Model/RefsSpec.v *)
From Coq Require Import List ZArith Bool Lia.
Import ListNotations.
From Verif Require Import Refs RefsSpec.
Local Open Scope Z_scope.

(* ================================================================================================ *)
(* equality tests *)

Lemma str_eqb_spec : forall a b, str_eqb a b = true <-> a = b.
Proof.
  induction a as [|x a IH]; destruct b as [|y b]; cbn; split; intro H; try reflexivity; try discriminate.
  - apply andb_true_iff in H. destruct H as [H1 H2]. apply Z.eqb_eq in H1. apply IH in H2. subst. reflexivity.
  - inversion H; subst. apply andb_true_iff. split. apply Z.eqb_refl. apply IH. reflexivity.
Qed.

Lemma zeqb_spec : forall a b : Z, Z.eqb a b = true <-> a = b.
Proof. intros. apply Z.eqb_eq. Qed.

Lemma hk_eqb_spec : forall a b, hk_eqb a b = true <-> a = b.
Proof.
  intros [a1 a2] [b1 b2]. unfold hk_eqb. cbn. split; intro H.
  - apply andb_true_iff in H. destruct H as [H1 H2]. apply Z.eqb_eq in H1. apply Z.eqb_eq in H2. subst. reflexivity.
  - inversion H; subst. rewrite !Z.eqb_refl. reflexivity.
Qed.

(* ================================================================================================ *)
(* dictionaries *)

Section DictLemmas.
  Context {K V : Type} (eqb : K -> K -> bool) (eqb_ok : forall a b, eqb a b = true <-> a = b).

  Lemma eqb_refl' : forall a, eqb a a = true.
  Proof. intro a. apply eqb_ok. reflexivity. Qed.

  Lemma eqb_neq : forall a b, a <> b -> eqb a b = false.
  Proof. intros a b H. destruct (eqb a b) eqn:E; [apply eqb_ok in E; contradiction | reflexivity]. Qed.

  Lemma eqb_dec : forall a b : K, a = b \/ a <> b.
  Proof. intros a b. destruct (eqb a b) eqn:E. left. apply eqb_ok. exact E. right. intro H. apply eqb_ok in H. congruence. Qed.

  Lemma dget_dset_same : forall k (v : V) m, dget eqb k (dset eqb k v m) = Some v.
  Proof.
    intros k v m. induction m as [|[k' v'] t IH]; cbn.
    - rewrite eqb_refl'. reflexivity.
    - destruct (eqb k k') eqn:E; cbn; rewrite E; auto.
  Qed.

  Lemma dget_dset_other : forall k k' (v : V) m, k <> k' -> dget eqb k (dset eqb k' v m) = dget eqb k m.
  Proof.
    intros k k' v m Hne. induction m as [|[k2 v2] t IH]; cbn.
    - rewrite (eqb_neq _ _ Hne). reflexivity.
    - destruct (eqb k' k2) eqn:E; cbn.
      + apply eqb_ok in E. subst k2. rewrite (eqb_neq _ _ Hne). reflexivity.
      + destruct (eqb k k2); auto.
  Qed.

  Lemma dget_ddel_other : forall k k' (m : list (K * V)), k <> k' -> dget eqb k (ddel eqb k' m) = dget eqb k m.
  Proof.
    intros k k' m Hne. induction m as [|[k2 v2] t IH]; cbn; auto.
    destruct (eqb k' k2) eqn:E; cbn.
    - apply eqb_ok in E. subst k2. rewrite (eqb_neq _ _ Hne). reflexivity.
    - destruct (eqb k k2); auto.
  Qed.

  Lemma dget_None_iff : forall k (m : list (K * V)), dget eqb k m = None <-> ~ In k (map fst m).
  Proof.
    intros k m. induction m as [|[k' v'] t IH]; cbn.
    - split; auto.
    - destruct (eqb k k') eqn:E.
      + apply eqb_ok in E. subst. split; [discriminate | intro H; exfalso; apply H; auto].
      + split.
        * intros H [H1|H1]. subst. rewrite eqb_refl' in E. discriminate. apply IH in H. contradiction.
        * intro H. apply IH. intro H1. apply H. auto.
  Qed.

  Lemma dget_In : forall k (v : V) m, dget eqb k m = Some v -> In (k, v) m.
  Proof.
    intros k v m. induction m as [|[k' v'] t IH]; cbn; [discriminate|].
    destruct (eqb k k') eqn:E; intro H.
    - apply eqb_ok in E. inversion H. subst. auto.
    - auto.
  Qed.

  Lemma In_dget_nodup : forall k (v : V) m, NoDup (map fst m) -> In (k, v) m -> dget eqb k m = Some v.
  Proof.
    intros k v m. induction m as [|[k' v'] t IH]; cbn; intros Hnd Hin; [contradiction|].
    inversion Hnd as [|? ? Hnotin Hnd']; subst.
    destruct Hin as [Heq|Hin].
    - inversion Heq; subst. rewrite eqb_refl'. reflexivity.
    - destruct (eqb k k') eqn:E.
      + apply eqb_ok in E. subst. exfalso. apply Hnotin. change k' with (fst (k', v)). apply in_map. exact Hin.
      + auto.
  Qed.

  Lemma dget_app : forall k (m1 m2 : list (K * V)),
      dget eqb k (m1 ++ m2) = match dget eqb k m1 with Some v => Some v | None => dget eqb k m2 end.
  Proof.
    intros k m1 m2. induction m1 as [|[k' v'] t IH]; cbn; auto. destruct (eqb k k'); auto.
  Qed.

  Lemma dget_rev_snoc : forall k k' (v : V) m,
      dget eqb k (rev (m ++ [(k', v)])) = if eqb k k' then Some v else dget eqb k (rev m).
  Proof. intros. rewrite rev_app_distr. cbn. reflexivity. Qed.

  Lemma dget_rev_nodup : forall k (m : list (K * V)), NoDup (map fst m) -> dget eqb k (rev m) = dget eqb k m.
  Proof.
    intros k m Hnd. destruct (dget eqb k m) as [v|] eqn:E.
    - apply dget_In in E. apply In_dget_nodup.
      + rewrite map_rev. apply NoDup_rev. exact Hnd.
      + apply in_rev in E. exact E.
    - apply dget_None_iff. apply dget_None_iff in E. rewrite map_rev. intro H. apply E. apply in_rev. exact H.
  Qed.

  Lemma dset_keys : forall k (v : V) m, map fst (dset eqb k v m) = if dmem eqb k m then map fst m else map fst m ++ [k].
  Proof.
    intros k v m. unfold dmem. induction m as [|[k' v'] t IH]; cbn; auto.
    destruct (eqb k k') eqn:E; cbn; auto. rewrite IH. destruct (dget eqb k t); reflexivity.
  Qed.

  Lemma dset_keys_nodup : forall k (v : V) m, NoDup (map fst m) -> NoDup (map fst (dset eqb k v m)).
  Proof.
    intros k v m Hnd. rewrite dset_keys. unfold dmem. destruct (dget eqb k m) eqn:E; auto.
    apply dget_None_iff in E. apply NoDup_rev in Hnd. rewrite <- (rev_involutive (map fst m ++ [k])).
    apply NoDup_rev. rewrite rev_app_distr. cbn. constructor; auto. intro H. apply E. apply in_rev. exact H.
  Qed.

  Lemma ddel_keys_sub : forall k k' (m : list (K * V)), In k (map fst (ddel eqb k' m)) -> In k (map fst m).
  Proof.
    intros k k' m. induction m as [|[k2 v2] t IH]; cbn; auto.
    destruct (eqb k' k2); cbn; intro H; auto. destruct H; auto.
  Qed.

  Lemma ddel_keys_nodup : forall k (m : list (K * V)), NoDup (map fst m) -> NoDup (map fst (ddel eqb k m)).
  Proof.
    intros k m. induction m as [|[k2 v2] t IH]; cbn; intro Hnd; auto.
    inversion Hnd as [|? ? Hnotin Hnd']; subst.
    destruct (eqb k k2); cbn; auto. constructor; auto. intro H. apply Hnotin. eapply ddel_keys_sub. exact H.
  Qed.

  Lemma dget_ddel_same : forall k (m : list (K * V)), NoDup (map fst m) -> dget eqb k (ddel eqb k m) = None.
  Proof.
    intros k m. induction m as [|[k2 v2] t IH]; cbn; intro Hnd; auto.
    inversion Hnd as [|? ? Hnotin Hnd']; subst.
    destruct (eqb k k2) eqn:E; cbn.
    - apply eqb_ok in E. subst. apply dget_None_iff. exact Hnotin.
    - rewrite E. auto.
  Qed.

  Lemma dmem_true : forall k (m : list (K * V)), dmem eqb k m = true <-> dget eqb k m <> None.
  Proof. intros. unfold dmem. destruct (dget eqb k m); split; intro H; congruence. Qed.
End DictLemmas.

(* ================================================================================================ *)
(* structure of the Spec functions along a history *)

Fixpoint cur_after (c : option obj) (es : list event) : option obj :=
  match es with
  | [] => c
  | ECurrent o :: t => cur_after (Some o) t
  | _ :: t => cur_after c t
  end.

Lemma cur_after_app : forall a b c, cur_after c (a ++ b) = cur_after (cur_after c a) b.
Proof. induction a as [|e a IH]; intros; cbn; auto. destruct e; auto. Qed.

Lemma attach_flat_app : forall a b c, attach_flat c (a ++ b) = attach_flat c a ++ attach_flat (cur_after c a) b.
Proof.
  induction a as [|e a IH]; intros b c; cbn; auto.
  destruct e; cbn; auto.
  destruct (name_of l); auto. destruct (match node with Some n => Some n | None => c end); auto.
  cbn. rewrite IH. reflexivity.
Qed.

Lemma requests_app : forall a b, requests (a ++ b) = requests a ++ requests b.
Proof.
  induction a as [|e a IH]; intros b; cbn; auto.
  destruct e; auto. destruct (name_of l); auto. cbn. rewrite IH. reflexivity.
Qed.

Lemma numberings_app : forall a b, numberings (a ++ b) = numberings a ++ numberings b.
Proof.
  induction a as [|e a IH]; intros b; cbn; auto.
  destruct e; auto. cbn. rewrite IH. reflexivity.
Qed.

(* the attachment a single event adds *)
Definition new_att (c : option obj) (e : event) : list (str * obj) := attach_flat c [e].

Lemma attachments_snoc : forall es e, attachments (es ++ [e]) = attachments es ++ new_att (cur_after None es) e.
Proof. intros. unfold attachments. apply attach_flat_app. Qed.

Lemma run_snoc : forall es e, run (es ++ [e]) = step (run es) e.
Proof. intros. unfold run, run_from. rewrite fold_left_app. reflexivity. Qed.

(* ================================================================================================ *)
(* projections of do_label / do_ref *)

Definition eff_node (st : state) (node : option obj) : option obj :=
  match node with Some n => Some n | None => current st end.

Definition labels1 (st : state) (l0 : str) (node : option obj) : list (str * obj) :=
  match name_of l0, eff_node st node with
  | Some k0, Some n => dset str_eqb k0 n (labels st)
  | _, _ => labels st
  end.

Definition ids1 (st : state) (l0 : str) (node : option obj) : list (obj * str) :=
  match name_of l0, eff_node st node with
  | Some k0, Some n => dset Z.eqb n k0 (ids st)
  | _, _ => ids st
  end.

Lemma name_of_None : forall l0, name_of l0 = None -> is_empty (strip l0) = true.
Proof. intros l0. unfold name_of. destruct (is_empty (strip l0)); congruence. Qed.

Lemma name_of_Some : forall l0 k0, name_of l0 = Some k0 -> is_empty (strip l0) = false /\ k0 = strip l0.
Proof. intros l0 k0. unfold name_of. destruct (is_empty (strip l0)); intro H; inversion H; auto. Qed.

Lemma do_label_labels : forall st l0 node, labels (do_label st l0 node) = labels1 st l0 node.
Proof.
  intros st l0 node. unfold do_label, labels1, eff_node, name_of.
  destruct (is_empty (strip l0)); auto.
  destruct (match node with Some n => Some n | None => current st end) as [n|]; cbn.
  - destruct (dmem str_eqb (strip l0) (refs st) && dmem str_eqb (strip l0) (dset str_eqb (strip l0) n (labels st))); cbn; auto.
    destruct (dget str_eqb (strip l0) (refs st)); cbn; auto.
    destruct (dget str_eqb (strip l0) (dset str_eqb (strip l0) n (labels st))); cbn; auto.
  - destruct (dmem str_eqb (strip l0) (refs st) && dmem str_eqb (strip l0) (labels st)); cbn; auto.
    destruct (dget str_eqb (strip l0) (refs st)); cbn; auto.
    destruct (dget str_eqb (strip l0) (labels st)); cbn; auto.
Qed.

Lemma do_label_ids : forall st l0 node, ids (do_label st l0 node) = ids1 st l0 node.
Proof.
  intros st l0 node. unfold do_label, ids1, eff_node, name_of.
  destruct (is_empty (strip l0)); auto.
  destruct (match node with Some n => Some n | None => current st end) as [n|]; cbn.
  - destruct (dmem str_eqb (strip l0) (refs st) && dmem str_eqb (strip l0) (dset str_eqb (strip l0) n (labels st))); cbn; auto.
    destruct (dget str_eqb (strip l0) (refs st)); cbn; auto.
    destruct (dget str_eqb (strip l0) (dset str_eqb (strip l0) n (labels st))); cbn; auto.
  - destruct (dmem str_eqb (strip l0) (refs st) && dmem str_eqb (strip l0) (labels st)); cbn; auto.
    destruct (dget str_eqb (strip l0) (refs st)); cbn; auto.
    destruct (dget str_eqb (strip l0) (labels st)); cbn; auto.
Qed.

Lemma do_label_misc : forall st l0 node,
    nums (do_label st l0 node) = nums st /\ current (do_label st l0 node) = current st /\ nextp (do_label st l0 node) = nextp st.
Proof.
  intros st l0 node. unfold do_label.
  destruct (is_empty (strip l0)); auto.
  destruct (match node with Some n => Some n | None => current st end) as [n|]; cbn.
  - destruct (dmem str_eqb (strip l0) (refs st) && dmem str_eqb (strip l0) (dset str_eqb (strip l0) n (labels st))); cbn; auto.
    destruct (dget str_eqb (strip l0) (refs st)); cbn; auto.
    destruct (dget str_eqb (strip l0) (dset str_eqb (strip l0) n (labels st))); cbn; auto.
  - destruct (dmem str_eqb (strip l0) (refs st) && dmem str_eqb (strip l0) (labels st)); cbn; auto.
    destruct (dget str_eqb (strip l0) (refs st)); cbn; auto.
    destruct (dget str_eqb (strip l0) (labels st)); cbn; auto.
Qed.

(* refs and idrefs after a label: either nothing happens, or the pending list of that name is patched and dropped *)
Lemma do_label_pending : forall st l0 node,
    (refs (do_label st l0 node) = refs st /\ idrefs (do_label st l0 node) = idrefs st /\
     (forall k0, name_of l0 = Some k0 -> dget str_eqb k0 (refs st) = None \/ dget str_eqb k0 (labels1 st l0 node) = None))
    \/
    (exists k0 hs o, name_of l0 = Some k0 /\ dget str_eqb k0 (refs st) = Some hs /\ dget str_eqb k0 (labels1 st l0 node) = Some o /\
                     refs (do_label st l0 node) = ddel str_eqb k0 (refs st) /\
                     idrefs (do_label st l0 node) = fold_left (patch (ids1 st l0 node) k0 o) hs (idrefs st)).
Proof.
  intros st l0 node. unfold do_label, labels1, ids1, eff_node, name_of.
  destruct (is_empty (strip l0)) eqn:Eemp.
  - left. repeat split; auto. intros k0 H. discriminate.
  - destruct (match node with Some n => Some n | None => current st end) as [n|]; cbn.
    + unfold dmem.
      destruct (dget str_eqb (strip l0) (refs st)) as [hs|] eqn:Er; cbn.
      * destruct (dget str_eqb (strip l0) (dset str_eqb (strip l0) n (labels st))) as [o|] eqn:El; cbn.
        -- right. exists (strip l0), hs, o. repeat split; auto.
        -- left. repeat split; auto. intros k0 H. inversion H; subst. right. exact El.
      * left. repeat split; auto. intros k0 H. inversion H; subst. left. exact Er.
    + unfold dmem.
      destruct (dget str_eqb (strip l0) (refs st)) as [hs|] eqn:Er; cbn.
      * destruct (dget str_eqb (strip l0) (labels st)) as [o|] eqn:El; cbn.
        -- right. exists (strip l0), hs, o. repeat split; auto.
        -- left. repeat split; auto. intros k0 H. inversion H; subst. right. exact El.
      * left. repeat split; auto. intros k0 H. inversion H; subst. left. exact Er.
Qed.

(* ================================================================================================ *)
(* patching *)

Definition pv (idm : list (obj * str)) (l : str) (o : obj) (hk : holder * key) (v : tgt) (r : holder) : tgt :=
  if Z.eqb (fst hk) r
  then match id_of idm v with
       | Some i => if str_eqb i l then TObj o else v
       | None => v
       end
  else v.

Lemma dget_patch : forall idm l o r hk m,
    dget hk_eqb hk (patch idm l o m r) = option_map (fun v => pv idm l o hk v r) (dget hk_eqb hk m).
Proof.
  intros idm l o r hk m. induction m as [|[hk' v'] t IH]; cbn; auto.
  destruct (hk_eqb hk hk') eqn:E.
  - apply hk_eqb_spec in E. subst hk'. unfold pv.
    destruct (Z.eqb (fst hk) r); cbn.
    + destruct (id_of idm v') as [i|]; cbn.
      * destruct (str_eqb i l); cbn; rewrite (eqb_refl' hk_eqb hk_eqb_spec); reflexivity.
      * rewrite (eqb_refl' hk_eqb hk_eqb_spec). reflexivity.
    + rewrite (eqb_refl' hk_eqb hk_eqb_spec). reflexivity.
  - assert (Hk : fst (let '(hk0, v) := (hk', v') in
                      if Z.eqb (fst hk0) r
                      then match id_of idm v with Some i => if str_eqb i l then (hk0, TObj o) else (hk', v') | None => (hk', v') end
                      else (hk', v')) = hk').
    { cbn. destruct (Z.eqb (fst hk') r); auto. destruct (id_of idm v'); auto. destruct (str_eqb s l); auto. }
    destruct (let '(hk0, v) := (hk', v') in
              if Z.eqb (fst hk0) r
              then match id_of idm v with Some i => if str_eqb i l then (hk0, TObj o) else (hk', v') | None => (hk', v') end
              else (hk', v')) as [hk2 v2] eqn:E2.
    cbn in Hk. subst hk2. rewrite E. exact IH.
Qed.

Lemma dget_fold_patch : forall idm l o hs hk m,
    dget hk_eqb hk (fold_left (patch idm l o) hs m) = option_map (fun v => fold_left (pv idm l o hk) hs v) (dget hk_eqb hk m).
Proof.
  intros idm l o hs. induction hs as [|r hs IH]; intros hk m; cbn.
  - destruct (dget hk_eqb hk m); reflexivity.
  - rewrite IH. rewrite dget_patch. destruct (dget hk_eqb hk m); reflexivity.
Qed.

Lemma pv_fix : forall idm l o hk r, pv idm l o hk (TObj o) r = TObj o.
Proof.
  intros. unfold pv. destruct (Z.eqb (fst hk) r); auto. destruct (id_of idm (TObj o)); auto. destruct (str_eqb s l); auto.
Qed.

Lemma fold_pv_fix : forall idm l o hk hs, fold_left (pv idm l o hk) hs (TObj o) = TObj o.
Proof. intros. induction hs as [|r hs IH]; cbn; auto. rewrite pv_fix. exact IH. Qed.

Lemma fold_pv_hit : forall idm l o hk hs v,
    id_of idm v = Some l -> In (fst hk) hs -> fold_left (pv idm l o hk) hs v = TObj o.
Proof.
  intros idm l o hk hs. induction hs as [|r hs IH]; intros v Hid Hin; cbn; [contradiction|].
  destruct Hin as [Heq|Hin].
  - subst r. unfold pv at 2. rewrite Z.eqb_refl. rewrite Hid. rewrite (eqb_refl' str_eqb str_eqb_spec). apply fold_pv_fix.
  - unfold pv at 2. destruct (Z.eqb (fst hk) r).
    + rewrite Hid. rewrite (eqb_refl' str_eqb str_eqb_spec). apply fold_pv_fix.
    + apply IH; auto.
Qed.

Lemma fold_pv_miss : forall idm l o hk hs v,
    id_of idm v <> Some l -> fold_left (pv idm l o hk) hs v = v.
Proof.
  intros idm l o hk hs. induction hs as [|r hs IH]; intros v Hid; cbn; auto.
  assert (Hpv : pv idm l o hk v r = v).
  { unfold pv. destruct (Z.eqb (fst hk) r); auto. destruct (id_of idm v) as [i|] eqn:E; auto.
    destruct (str_eqb i l) eqn:E2; auto. apply str_eqb_spec in E2. subst. congruence. }
  rewrite Hpv. apply IH. exact Hid.
Qed.

Lemma pv_cases : forall idm l o hk v r, pv idm l o hk v r = v \/ (pv idm l o hk v r = TObj o /\ id_of idm v = Some l).
Proof.
  intros. unfold pv. destruct (Z.eqb (fst hk) r); auto.
  destruct (id_of idm v) as [i|] eqn:E; auto.
  destruct (str_eqb i l) eqn:E2; auto.
  apply str_eqb_spec in E2. subst. right. split; auto.
Qed.

Lemma fold_pv_cases : forall idm l o hk hs v,
    fold_left (pv idm l o hk) hs v = v \/ (fold_left (pv idm l o hk) hs v = TObj o /\ id_of idm v = Some l).
Proof.
  intros idm l o hk hs. induction hs as [|r hs IH]; intros v; cbn; auto.
  destruct (pv_cases idm l o hk v r) as [E|[E Hid]]; rewrite E.
  - apply IH.
  - right. split; auto. apply fold_pv_fix.
Qed.

(* ================================================================================================ *)
(* do_ref by cases *)

Lemma do_ref_cases : forall st r k l0,
    (name_of l0 = None /\ do_ref st r k l0 = st)
    \/ (exists n o, name_of l0 = Some n /\ dget str_eqb n (labels st) = Some o /\
                    do_ref st r k l0 = mkst (labels st) (refs st) (dset hk_eqb (r, k) (TObj o) (idrefs st)) (ids st) (nums st) (current st) (nextp st))
    \/ (exists n, name_of l0 = Some n /\ dget str_eqb n (labels st) = None /\
                  do_ref st r k l0 = mkst (labels st)
                                          (dset str_eqb n ((match dget str_eqb n (refs st) with Some hs => hs | None => [] end) ++ [r]) (refs st))
                                          (dset hk_eqb (r, k) (TPlace (nextp st) n) (idrefs st)) (ids st) (nums st) (current st) (S (nextp st))).
Proof.
  intros st r k l0. unfold do_ref, name_of. destruct (is_empty (strip l0)).
  - left. auto.
  - right. destruct (dget str_eqb (strip l0) (labels st)) as [o|] eqn:E.
    + left. exists (strip l0), o. auto.
    + right. exists (strip l0). auto.
Qed.

(* ================================================================================================ *)
(* general invariants (no hypothesis on the history) *)

Lemma current_spec : forall es, current (run es) = cur_after None es.
Proof.
  induction es as [|e es IH] using rev_ind; [reflexivity|].
  rewrite run_snoc, cur_after_app. destruct e; cbn [step cur_after current]; auto.
  - destruct (do_label_misc (run es) l node) as [_ [H _]]. rewrite H. exact IH.
  - destruct (do_ref_cases (run es) r k l) as [[_ H]|[[n [o [_ [_ H]]]]|[n [_ [_ H]]]]]; rewrite H; cbn; exact IH.
Qed.

Lemma new_att_label : forall es l0 node,
    new_att (cur_after None es) (ELabel l0 node) =
    match name_of l0, eff_node (run es) node with Some k0, Some n => [(k0, n)] | _, _ => [] end.
Proof.
  intros. unfold new_att, eff_node. cbn. rewrite current_spec.
  destruct (name_of l0); auto; destruct (match node with Some n => Some n | None => cur_after None es end); auto.
Qed.

Lemma labels_spec : forall es l, dget str_eqb l (labels (run es)) = dget str_eqb l (rev (attachments es)).
Proof.
  induction es as [|e es IH] using rev_ind; intro l0; [reflexivity|].
  rewrite run_snoc, attachments_snoc. destruct e; cbn [step]; try (unfold new_att; cbn; rewrite app_nil_r; cbn; apply IH).
  - rewrite do_label_labels, new_att_label. unfold labels1.
    destruct (name_of l) as [k0|]; [|rewrite app_nil_r; apply IH].
    destruct (eff_node (run es) node) as [n|]; [|rewrite app_nil_r; apply IH].
    rewrite dget_rev_snoc. destruct (eqb_dec str_eqb str_eqb_spec l0 k0) as [E|E].
    + subst. rewrite (eqb_refl' str_eqb str_eqb_spec). apply (dget_dset_same str_eqb str_eqb_spec).
    + rewrite (eqb_neq str_eqb str_eqb_spec _ _ E). rewrite (dget_dset_other str_eqb str_eqb_spec); auto.
  - unfold new_att; cbn; rewrite app_nil_r.
    destruct (do_ref_cases (run es) r k l) as [[_ H]|[[n [o [_ [_ H]]]]|[n [_ [_ H]]]]]; rewrite H; cbn; apply IH.
Qed.

(* M3 (general form): the @id of an object is the last label attached to it *)
Lemma ids_spec : forall es o, dget Z.eqb o (ids (run es)) = id_spec es o.
Proof.
  unfold id_spec.
  induction es as [|e es IH] using rev_ind; intro o0; [reflexivity|].
  rewrite run_snoc, attachments_snoc. destruct e; cbn [step]; try (unfold new_att; cbn; rewrite app_nil_r; cbn; apply IH).
  - rewrite do_label_ids, new_att_label. unfold ids1.
    destruct (name_of l) as [k0|]; [|rewrite app_nil_r; apply IH].
    destruct (eff_node (run es) node) as [n|]; [|rewrite app_nil_r; apply IH].
    rewrite map_app. cbn [map]. unfold swap at 2. cbn [fst snd]. rewrite dget_rev_snoc. destruct (eqb_dec Z.eqb zeqb_spec o0 n) as [E|E].
    + subst. rewrite Z.eqb_refl. apply (dget_dset_same Z.eqb zeqb_spec).
    + rewrite (eqb_neq Z.eqb zeqb_spec _ _ E). rewrite (dget_dset_other Z.eqb zeqb_spec); auto.
  - unfold new_att; cbn; rewrite app_nil_r.
    destruct (do_ref_cases (run es) r k l) as [[_ H]|[[n [o [_ [_ H]]]]|[n [_ [_ H]]]]]; rewrite H; cbn; apply IH.
Qed.

Lemma nums_spec : forall es o, dget Z.eqb o (nums (run es)) = dget Z.eqb o (rev (numberings es)).
Proof.
  induction es as [|e es IH] using rev_ind; intro o0; [reflexivity|].
  rewrite run_snoc, numberings_app. destruct e; cbn [step numberings]; try (rewrite app_nil_r; cbn; apply IH).
  - cbn. rewrite dget_rev_snoc. destruct (eqb_dec Z.eqb zeqb_spec o0 o) as [E|E].
    + subst. rewrite Z.eqb_refl. apply (dget_dset_same Z.eqb zeqb_spec).
    + rewrite (eqb_neq Z.eqb zeqb_spec _ _ E). rewrite (dget_dset_other Z.eqb zeqb_spec); auto.
  - rewrite app_nil_r. destruct (do_label_misc (run es) l node) as [H _]. rewrite H. apply IH.
  - rewrite app_nil_r.
    destruct (do_ref_cases (run es) r k l) as [[_ H]|[[n [o1 [_ [_ H]]]]|[n [_ [_ H]]]]]; rewrite H; cbn; apply IH.
Qed.

Lemma refs_keys_nodup : forall es, NoDup (map fst (refs (run es))).
Proof.
  induction es as [|e es IH] using rev_ind; [constructor|].
  rewrite run_snoc. destruct e; cbn [step]; auto.
  - destruct (do_label_pending (run es) l node) as [[H _]|[k0 [hs [o [_ [_ [_ [H _]]]]]]]]; rewrite H; auto.
    apply ddel_keys_nodup. exact IH.
  - destruct (do_ref_cases (run es) r k l) as [[_ H]|[[n [o [_ [_ H]]]]|[n [_ [_ H]]]]]; rewrite H; cbn; auto.
    apply (dset_keys_nodup str_eqb str_eqb_spec). exact IH.
Qed.

(* a name is never both pending and registered *)
Lemma pending_disjoint : forall es l, dget str_eqb l (refs (run es)) <> None -> dget str_eqb l (labels (run es)) = None.
Proof.
  induction es as [|e es IH] using rev_ind; intros l0; [cbn; congruence|].
  rewrite run_snoc. destruct e; cbn [step]; auto.
  - rewrite do_label_labels.
    destruct (do_label_pending (run es) l node) as [[Hr [_ Hd]]|[k0 [hs [o [Hn [_ [_ [Hr _]]]]]]]]; rewrite Hr; intro Hp.
    + unfold labels1 in *. destruct (name_of l) as [k0|]; [|auto]. destruct (eff_node (run es) node) as [n|]; [|auto].
      destruct (eqb_dec str_eqb str_eqb_spec l0 k0) as [E|E].
      * subst. destruct (Hd k0 eq_refl) as [H|H]; [contradiction | exact H].
      * rewrite (dget_dset_other str_eqb str_eqb_spec); auto.
    + assert (E : l0 <> k0).
      { intro E. subst. apply Hp. apply (dget_ddel_same str_eqb str_eqb_spec). apply refs_keys_nodup. }
      rewrite (dget_ddel_other str_eqb str_eqb_spec) in Hp; auto.
      unfold labels1. rewrite Hn. destruct (eff_node (run es) node) as [n|]; auto.
      rewrite (dget_dset_other str_eqb str_eqb_spec); auto.
  - destruct (do_ref_cases (run es) r k l) as [[_ H]|[[n [o [_ [_ H]]]]|[n [_ [Hl H]]]]]; rewrite H; cbn; auto.
    intro Hp. destruct (eqb_dec str_eqb str_eqb_spec l0 n) as [E|E].
    + subst. exact Hl.
    + rewrite (dget_dset_other str_eqb str_eqb_spec) in Hp; auto.
Qed.

Lemma dset_mono : forall (o n : obj) (v : str) m, dget Z.eqb o m <> None -> dget Z.eqb o (dset Z.eqb n v m) <> None.
Proof.
  intros o n v m H. destruct (eqb_dec Z.eqb zeqb_spec o n) as [E|E].
  - subst. rewrite (dget_dset_same Z.eqb zeqb_spec). discriminate.
  - rewrite (dget_dset_other Z.eqb zeqb_spec); auto.
Qed.

(* every object stored in Context.labels or in an idref dictionary carries an @id: the id-generator branch of
   Macro.id is never taken by Context.label's comparison value.id != label *)
Lemma stored_objects_have_ids : forall es,
    (forall l o, dget str_eqb l (labels (run es)) = Some o -> dget Z.eqb o (ids (run es)) <> None) /\
    (forall hk o, dget hk_eqb hk (idrefs (run es)) = Some (TObj o) -> dget Z.eqb o (ids (run es)) <> None).
Proof.
  induction es as [|e es [IHl IHr]] using rev_ind; [split; cbn; intros; discriminate|].
  rewrite run_snoc. destruct e; cbn [step]; auto.
  - assert (Hmono : forall o, dget Z.eqb o (ids (run es)) <> None -> dget Z.eqb o (ids1 (run es) l node) <> None).
    { intros o H. unfold ids1. destruct (name_of l); auto. destruct (eff_node (run es) node); auto. apply dset_mono. exact H. }
    assert (Hl : forall l1 o, dget str_eqb l1 (labels1 (run es) l node) = Some o -> dget Z.eqb o (ids1 (run es) l node) <> None).
    { intros l1 o. unfold labels1, ids1. destruct (name_of l) as [k0|]; [|apply IHl].
      destruct (eff_node (run es) node) as [n|]; [|apply IHl].
      destruct (eqb_dec str_eqb str_eqb_spec l1 k0) as [E|E].
      - subst. rewrite (dget_dset_same str_eqb str_eqb_spec). intro H. inversion H; subst.
        rewrite (dget_dset_same Z.eqb zeqb_spec). discriminate.
      - rewrite (dget_dset_other str_eqb str_eqb_spec); auto. intro H. apply dset_mono. eapply IHl. exact H. }
    rewrite do_label_labels, do_label_ids. split; [exact Hl|].
    destruct (do_label_pending (run es) l node) as [[_ [Hi _]]|[k0 [hs [o [_ [_ [Hlo [_ Hi]]]]]]]]; rewrite Hi; intros hk o1 H.
    + apply Hmono. eapply IHr. exact H.
    + rewrite dget_fold_patch in H. destruct (dget hk_eqb hk (idrefs (run es))) as [v|] eqn:Ev; [|discriminate].
      cbn in H. inversion H as [H1]. clear H.
      destruct (fold_pv_cases (ids1 (run es) l node) k0 o hk hs v) as [E|[E _]]; rewrite E in H1.
      * subst v. apply Hmono. eapply IHr. exact Ev.
      * inversion H1; subst. eapply Hl. exact Hlo.
  - destruct (do_ref_cases (run es) r k l) as [[_ H]|[[n [o [_ [Hl H]]]]|[n [_ [_ H]]]]]; rewrite H; cbn; auto.
    + split; auto. intros hk o1. destruct (eqb_dec hk_eqb hk_eqb_spec hk (r, k)) as [E|E].
      * subst. rewrite (dget_dset_same hk_eqb hk_eqb_spec). intro H1. inversion H1; subst. eapply IHl. exact Hl.
      * rewrite (dget_dset_other hk_eqb hk_eqb_spec); auto. apply IHr.
    + split; auto. intros hk o1. destruct (eqb_dec hk_eqb hk_eqb_spec hk (r, k)) as [E|E].
      * subst. rewrite (dget_dset_same hk_eqb hk_eqb_spec). discriminate.
      * rewrite (dget_dset_other hk_eqb hk_eqb_spec); auto. apply IHr.
Qed.

(* ================================================================================================ *)
(* the resolution invariant *)

Lemma last_ref_snoc_other : forall es e r k, is_ref e = false -> last_ref (es ++ [e]) r k = last_ref es r k.
Proof.
  intros es e r k H. unfold last_ref. rewrite requests_app. destruct e; cbn in *; try discriminate; rewrite app_nil_r; reflexivity.
Qed.

Lemma last_ref_snoc_ref : forall es r0 k0 l0 r k,
    last_ref (es ++ [ERef r0 k0 l0]) r k =
    match name_of l0 with
    | Some n => if hk_eqb (r, k) (r0, k0) then Some n else last_ref es r k
    | None => last_ref es r k
    end.
Proof.
  intros. unfold last_ref. rewrite requests_app. cbn. destruct (name_of l0).
  - rewrite dget_rev_snoc. reflexivity.
  - rewrite app_nil_r. reflexivity.
Qed.

Lemma attachments_snoc_other : forall es e, (match e with ELabel _ _ => false | _ => true end) = true -> attachments (es ++ [e]) = attachments es.
Proof.
  intros es e H. rewrite attachments_snoc. destruct e; try discriminate; unfold new_att; cbn; apply app_nil_r.
Qed.

Lemma attachments_snoc_label : forall es l0 node,
    attachments (es ++ [ELabel l0 node]) =
    attachments es ++ match name_of l0, eff_node (run es) node with Some k0, Some n => [(k0, n)] | _, _ => [] end.
Proof. intros. rewrite attachments_snoc, new_att_label. reflexivity. Qed.

Definition RInv (es : list event) (st : state) : Prop :=
  forall r k,
    match last_ref es r k with
    | None => dget hk_eqb (r, k) (idrefs st) = None
    | Some l =>
        match target es l with
        | Some o => dget hk_eqb (r, k) (idrefs st) = Some (TObj o)
        | None => (exists p, dget hk_eqb (r, k) (idrefs st) = Some (TPlace p l)) /\
                  (exists hs, dget str_eqb l (refs st) = Some hs /\ In r hs)
        end
    end.

Lemma nodup_snoc : forall (A : Type) (l : list A) (a : A), NoDup (l ++ [a]) -> NoDup l /\ ~ In a l.
Proof.
  intros A l a H. split.
  - apply NoDup_remove_1 in H. rewrite app_nil_r in H. exact H.
  - apply NoDup_remove_2 in H. rewrite app_nil_r in H. exact H.
Qed.

Lemma id_spec_In : forall es o i, id_spec es o = Some i -> In i (eff_labels es).
Proof.
  intros es o i H. unfold id_spec in H. apply (dget_In Z.eqb zeqb_spec) in H. apply in_rev in H.
  apply in_map_iff in H. destruct H as [[l1 o1] [H1 H2]]. unfold swap in H1. cbn in H1. inversion H1; subst.
  unfold eff_labels. change i with (fst (i, o)). apply in_map. exact H2.
Qed.

Lemma main_inv : forall es, NoDup (eff_labels es) -> RInv es (run es).
Proof.
  induction es as [|e es IH] using rev_ind; intro Hnd.
  { intros r k. cbn. reflexivity. }
  rewrite run_snoc.
  destruct e.
  - (* ECurrent *)
    unfold eff_labels in Hnd. rewrite attachments_snoc_other in Hnd by reflexivity. specialize (IH Hnd).
    intros r k. specialize (IH r k). rewrite last_ref_snoc_other by reflexivity. unfold target. rewrite attachments_snoc_other by reflexivity. exact IH.
  - (* ENumber *)
    unfold eff_labels in Hnd. rewrite attachments_snoc_other in Hnd by reflexivity. specialize (IH Hnd).
    intros r k. specialize (IH r k). rewrite last_ref_snoc_other by reflexivity. unfold target. rewrite attachments_snoc_other by reflexivity. exact IH.
  - (* ELabel *)
    unfold eff_labels in Hnd. rewrite attachments_snoc_label in Hnd.
    cbn [step].
    destruct (name_of l) as [k0|] eqn:Hn.
    + destruct (eff_node (run es) node) as [n|] eqn:Hen.
      * (* the label attaches (k0, n) *)
        rewrite map_app in Hnd. cbn [map fst] in Hnd. apply nodup_snoc in Hnd. destruct Hnd as [Hnd Hnotin].
        specialize (IH Hnd).
        assert (Ht0 : target es k0 = None). { apply (dget_None_iff str_eqb str_eqb_spec). exact Hnotin. }
        assert (Hl1 : labels1 (run es) l node = dset str_eqb k0 n (labels (run es))). { unfold labels1. rewrite Hn, Hen. reflexivity. }
        assert (Hi1 : ids1 (run es) l node = dset Z.eqb n k0 (ids (run es))). { unfold ids1. rewrite Hn, Hen. reflexivity. }
        assert (Htg : forall l1, target (es ++ [ELabel l node]) l1 =
                                 match target es l1 with Some v => Some v | None => if str_eqb l1 k0 then Some n else None end).
        { intro l1. unfold target. rewrite attachments_snoc_label, Hn, Hen. rewrite dget_app. cbn. reflexivity. }
        destruct (do_label_pending (run es) l node) as [[Hr [Hi Hd]]|[k0' [hs [o [Hn' [Hrs [Hlo [Hr Hi]]]]]]]].
        -- (* nothing pending under that name *)
           assert (Hnop : dget str_eqb k0 (refs (run es)) = None).
           { destruct (Hd k0 Hn) as [H|H]; auto. rewrite Hl1, (dget_dset_same str_eqb str_eqb_spec) in H. discriminate. }
           intros r k. specialize (IH r k). rewrite last_ref_snoc_other by reflexivity. rewrite Hr, Hi.
           destruct (last_ref es r k) as [l1|]; [|exact IH].
           rewrite Htg. destruct (target es l1) as [o1|] eqn:Et; [exact IH|].
           destruct (eqb_dec str_eqb str_eqb_spec l1 k0) as [E|E].
           ++ subst l1. destruct IH as [_ [hs [H _]]]. congruence.
           ++ rewrite (eqb_neq str_eqb str_eqb_spec _ _ E). exact IH.
        -- (* the pending references are patched *)
           rewrite Hn in Hn'. inversion Hn'; subst k0'. clear Hn'.
           rewrite Hl1, (dget_dset_same str_eqb str_eqb_spec) in Hlo. inversion Hlo; subst o. clear Hlo.
           intros r k. specialize (IH r k). rewrite last_ref_snoc_other by reflexivity. rewrite Hr, Hi, dget_fold_patch.
           destruct (last_ref es r k) as [l1|]; [|rewrite IH; reflexivity].
           rewrite Htg. destruct (target es l1) as [o1|] eqn:Et.
           ++ rewrite IH. cbn. f_equal.
              destruct (fold_pv_cases (ids1 (run es) l node) k0 n (r, k) hs (TObj o1)) as [E|[E Hid]]; [exact E|].
              rewrite E. f_equal. rewrite Hi1 in Hid. cbn in Hid.
              destruct (eqb_dec Z.eqb zeqb_spec o1 n) as [E1|E1]; [auto|].
              rewrite (dget_dset_other Z.eqb zeqb_spec) in Hid by exact E1.
              rewrite ids_spec in Hid. apply id_spec_In in Hid. contradiction.
           ++ destruct IH as [[p Hp] [hs' [Hh Hin]]].
              destruct (eqb_dec str_eqb str_eqb_spec l1 k0) as [E|E].
              ** subst l1. rewrite (eqb_refl' str_eqb str_eqb_spec). rewrite Hp. cbn. f_equal.
                 apply fold_pv_hit; [reflexivity|]. cbn. congruence.
              ** rewrite (eqb_neq str_eqb str_eqb_spec _ _ E). split.
                 --- exists p. rewrite Hp. cbn. f_equal. apply fold_pv_miss. cbn. congruence.
                 --- exists hs'. split; auto. rewrite (dget_ddel_other str_eqb str_eqb_spec); auto.
      * (* a name but no object to attach to: nothing is registered *)
        rewrite app_nil_r in Hnd. specialize (IH Hnd).
        assert (Hl1 : labels1 (run es) l node = labels (run es)). { unfold labels1. rewrite Hn, Hen. reflexivity. }
        destruct (do_label_pending (run es) l node) as [[Hr [Hi _]]|[k0' [hs [o [Hn' [Hrs [Hlo _]]]]]]].
        -- intros r k. specialize (IH r k). rewrite last_ref_snoc_other by reflexivity. unfold target in *.
           rewrite attachments_snoc_label, Hn, Hen, app_nil_r, Hr, Hi. exact IH.
        -- exfalso. rewrite Hl1 in Hlo. rewrite (pending_disjoint es k0') in Hlo; congruence.
    + (* empty name *)
      rewrite app_nil_r in Hnd. specialize (IH Hnd).
      destruct (do_label_pending (run es) l node) as [[Hr [Hi _]]|[k0' [hs [o [Hn' _]]]]]; [|congruence].
      intros r k. specialize (IH r k). rewrite last_ref_snoc_other by reflexivity. unfold target in *.
      rewrite attachments_snoc_label, Hn, app_nil_r, Hr, Hi. exact IH.
  - (* ERef *)
    unfold eff_labels in Hnd. rewrite attachments_snoc_other in Hnd by reflexivity. specialize (IH Hnd).
    cbn [step]. unfold RInv, target in *. intros r0 k0. rewrite last_ref_snoc_ref. rewrite attachments_snoc_other by reflexivity.
    destruct (do_ref_cases (run es) r k l) as [[Hn H]|[[n [o [Hn [Hl H]]]]|[n [Hn [Hl H]]]]]; rewrite H, Hn; clear H.
    + apply IH.
    + (* resolved at once *)
      cbn [idrefs refs].
      assert (Ht : dget str_eqb n (attachments es) = Some o).
      { rewrite <- (dget_rev_nodup str_eqb str_eqb_spec) by exact Hnd. rewrite <- labels_spec. exact Hl. }
      destruct (hk_eqb (r0, k0) (r, k)) eqn:E.
      * apply hk_eqb_spec in E. inversion E; subst. rewrite Ht. apply (dget_dset_same hk_eqb hk_eqb_spec).
      * assert (E' : (r0, k0) <> (r, k)). { intro E'. apply hk_eqb_spec in E'. congruence. }
        rewrite (dget_dset_other hk_eqb hk_eqb_spec) by exact E'. apply IH.
    + (* parked *)
      cbn [idrefs refs].
      assert (Ht : dget str_eqb n (attachments es) = None).
      { rewrite <- (dget_rev_nodup str_eqb str_eqb_spec) by exact Hnd. rewrite <- labels_spec. exact Hl. }
      destruct (hk_eqb (r0, k0) (r, k)) eqn:E.
      * apply hk_eqb_spec in E. inversion E; subst. rewrite Ht. split.
        -- eexists. apply (dget_dset_same hk_eqb hk_eqb_spec).
        -- eexists. split. apply (dget_dset_same str_eqb str_eqb_spec). apply in_or_app. right. left. reflexivity.
      * assert (E' : (r0, k0) <> (r, k)). { intro E'. apply hk_eqb_spec in E'. congruence. }
        rewrite (dget_dset_other hk_eqb hk_eqb_spec) by exact E'.
        specialize (IH r0 k0). destruct (last_ref es r0 k0) as [l1|]; [|exact IH].
        destruct (dget str_eqb l1 (attachments es)) as [o1|] eqn:Et; [exact IH|].
        destruct IH as [Hp [hs' [Hh Hin]]]. split; [exact Hp|].
        destruct (eqb_dec str_eqb str_eqb_spec l1 n) as [E1|E1].
        -- subst l1. rewrite Hh. eexists. split. apply (dget_dset_same str_eqb str_eqb_spec). apply in_or_app. left. exact Hin.
        -- exists hs'. split; auto. rewrite (dget_dset_other str_eqb str_eqb_spec); auto.
  - (* EOpen *)
    unfold eff_labels in Hnd. rewrite attachments_snoc_other in Hnd by reflexivity. specialize (IH Hnd).
    intros r k. specialize (IH r k). rewrite last_ref_snoc_other by reflexivity. unfold target. rewrite attachments_snoc_other by reflexivity. exact IH.
  - (* EClose *)
    unfold eff_labels in Hnd. rewrite attachments_snoc_other in Hnd by reflexivity. specialize (IH Hnd).
    intros r k. specialize (IH r k). rewrite last_ref_snoc_other by reflexivity. unfold target. rewrite attachments_snoc_other by reflexivity. exact IH.
Qed.

(* ================================================================================================ *)
(* M1 *)

Theorem resolve_all : forall es, NoDup (eff_labels es) ->
  forall r k l, last_ref es r k = Some l ->
    match target es l with
    | Some o => dget hk_eqb (r, k) (idrefs (run es)) = Some (TObj o)
    | None => exists p, dget hk_eqb (r, k) (idrefs (run es)) = Some (TPlace p l)
    end.
Proof.
  intros es Hnd r k l Hl. pose proof (main_inv es Hnd r k) as H. rewrite Hl in H.
  destruct (target es l); [exact H | destruct H as [H _]; exact H].
Qed.

(* the same as an equation between the final state and the resolution map the Spec defines, for every holder and key
   (also those that never asked for anything) *)
Theorem resolve_map : forall es, NoDup (eff_labels es) ->
  forall r k, option_map res_of (dget hk_eqb (r, k) (idrefs (run es))) = resolution (attachments es) es r k.
Proof.
  intros es Hnd r k. pose proof (main_inv es Hnd r k) as H. unfold resolution. unfold target in H.
  destruct (last_ref es r k) as [l|].
  - destruct (dget str_eqb l (attachments es)) as [o|].
    + rewrite H. reflexivity.
    + destruct H as [[p H] _]. rewrite H. reflexivity.
  - rewrite H. reflexivity.
Qed.

(* ================================================================================================ *)
(* M2 *)

Lemma attach_flat_skeleton : forall es c, attach_flat c (skeleton es) = attach_flat c es.
Proof.
  induction es as [|e es IH]; intro c; cbn; auto.
  destruct e; cbn; auto.
  destruct (name_of l); auto. destruct (match node with Some n => Some n | None => c end); auto. rewrite IH. reflexivity.
Qed.

Theorem order_independent : forall es es',
    skeleton es = skeleton es' ->
    (forall r k, last_ref es r k = last_ref es' r k) ->
    NoDup (eff_labels es) ->
    forall r k, option_map res_of (dget hk_eqb (r, k) (idrefs (run es))) = option_map res_of (dget hk_eqb (r, k) (idrefs (run es'))).
Proof.
  intros es es' Hsk Hlr Hnd r k.
  assert (Hatt : attachments es = attachments es').
  { unfold attachments. rewrite <- (attach_flat_skeleton es), <- (attach_flat_skeleton es'), Hsk. reflexivity. }
  assert (Hnd' : NoDup (eff_labels es')). { unfold eff_labels in *. rewrite <- Hatt. exact Hnd. }
  rewrite (resolve_map es Hnd), (resolve_map es' Hnd'). unfold resolution. rewrite Hlr, Hatt. reflexivity.
Qed.

Lemma dget_rev_app : forall (hk : holder * key) (a b : list ((holder * key) * str)),
    dget hk_eqb hk (rev (a ++ b)) = match dget hk_eqb hk (rev b) with Some v => Some v | None => dget hk_eqb hk (rev a) end.
Proof. intros. rewrite rev_app_distr. apply dget_app. Qed.

(* the concrete variant: one reference moved across a stretch of the document *)
Theorem move_reference : forall a b c r k l,
    (forall l', ~ In ((r, k), l') (requests b)) ->
    NoDup (eff_labels (a ++ ERef r k l :: b ++ c)) ->
    forall r0 k0,
      option_map res_of (dget hk_eqb (r0, k0) (idrefs (run (a ++ ERef r k l :: b ++ c)))) =
      option_map res_of (dget hk_eqb (r0, k0) (idrefs (run (a ++ b ++ ERef r k l :: c)))).
Proof.
  intros a b c r k l Hb Hnd. apply order_independent; auto.
  - unfold skeleton. rewrite !filter_app. cbn. rewrite !filter_app. reflexivity.
  - intros r1 k1. unfold last_ref.
    rewrite !requests_app. cbn [requests]. rewrite !requests_app. cbn [requests].
    assert (Hbn : dget hk_eqb (r, k) (rev (requests b)) = None).
    { apply (dget_None_iff hk_eqb hk_eqb_spec). intro H. apply in_map_iff in H. destruct H as [[hk l'] [H1 H2]]. cbn in H1. subst hk.
      apply in_rev in H2. apply (Hb l'). exact H2. }
    destruct (name_of l) as [n|].
    + change (((r, k), n) :: requests b ++ requests c) with ([((r, k), n)] ++ requests b ++ requests c).
      change (((r, k), n) :: requests c) with ([((r, k), n)] ++ requests c).
      rewrite !dget_rev_app. cbn [rev app dget].
      destruct (dget hk_eqb (r1, k1) (rev (requests c))); auto.
      destruct (hk_eqb (r1, k1) (r, k)) eqn:E.
      * apply hk_eqb_spec in E. inversion E; subst. rewrite Hbn. reflexivity.
      * destruct (dget hk_eqb (r1, k1) (rev (requests b))); auto.
    + rewrite !dget_rev_app. reflexivity.
Qed.

(* ================================================================================================ *)
(* M3 *)

Lemma In_dget_some : forall (o : obj) (i : str) (m : list (obj * str)), In (o, i) m -> exists i', dget Z.eqb o m = Some i'.
Proof.
  intros o i m H. destruct (dget Z.eqb o m) as [i'|] eqn:E; [eauto|].
  apply (dget_None_iff Z.eqb zeqb_spec) in E. exfalso. apply E. change o with (fst (o, i)). apply in_map. exact H.
Qed.

Lemma id_spec_att : forall es o i, id_spec es o = Some i -> In (i, o) (attachments es).
Proof.
  intros es o i H. unfold id_spec in H. apply (dget_In Z.eqb zeqb_spec) in H. apply in_rev in H.
  apply in_map_iff in H. destruct H as [[l1 o1] [H1 H2]]. unfold swap in H1. cbn in H1. inversion H1; subst. exact H2.
Qed.

(* a labelled object has an identifier, and it is one of the labels attached to it *)
Theorem labelled_has_id : forall es l o, In (l, o) (attachments es) ->
  exists i, dget Z.eqb o (ids (run es)) = Some i /\ In (i, o) (attachments es).
Proof.
  intros es l o H. rewrite ids_spec.
  assert (H1 : In (o, l) (rev (map swap (attachments es)))).
  { apply in_rev. rewrite rev_involutive. change (o, l) with (swap (l, o)). apply in_map. exact H. }
  destruct (In_dget_some _ _ _ H1) as [i Hi]. exists i. split; [exact Hi|]. apply id_spec_att. exact Hi.
Qed.

(* the label becomes the identifier (object labelled once) *)
Theorem label_is_id : forall es l o, In (l, o) (attachments es) ->
  (forall l', In (l', o) (attachments es) -> l' = l) -> dget Z.eqb o (ids (run es)) = Some l.
Proof.
  intros es l o H Hone. destruct (labelled_has_id es l o H) as [i [Hi Hin]]. rewrite Hi. f_equal. apply Hone. exact Hin.
Qed.

(* distinct objects never share an identifier *)
Theorem ids_distinct : forall es, NoDup (eff_labels es) ->
  forall o1 o2 i1 i2, o1 <> o2 -> dget Z.eqb o1 (ids (run es)) = Some i1 -> dget Z.eqb o2 (ids (run es)) = Some i2 -> i1 <> i2.
Proof.
  intros es Hnd o1 o2 i1 i2 Hne H1 H2 Heq. subst i2. rewrite ids_spec in H1, H2.
  apply id_spec_att in H1. apply id_spec_att in H2.
  apply (In_dget_nodup str_eqb str_eqb_spec) in H1; [|exact Hnd]. apply (In_dget_nodup str_eqb str_eqb_spec) in H2; [|exact Hnd]. congruence.
Qed.

(* ================================================================================================ *)
(* M4 *)

Theorem pending_drained : forall es l, target es l <> None -> dget str_eqb l (refs (run es)) = None.
Proof.
  intros es l Ht. destruct (dget str_eqb l (refs (run es))) as [hs|] eqn:E; [|reflexivity].
  exfalso. apply Ht. assert (Hp : dget str_eqb l (refs (run es)) <> None) by congruence.
  apply pending_disjoint in Hp. rewrite labels_spec in Hp.
  apply (dget_None_iff str_eqb str_eqb_spec) in Hp. apply (dget_None_iff str_eqb str_eqb_spec).
  intro H. apply Hp. rewrite map_rev. apply in_rev. rewrite rev_involutive. exact H.
Qed.

Theorem no_placeholder_for_labelled : forall es, NoDup (eff_labels es) ->
  forall r k p l, dget hk_eqb (r, k) (idrefs (run es)) = Some (TPlace p l) -> target es l = None.
Proof.
  intros es Hnd r k p l H. pose proof (main_inv es Hnd r k) as Hi.
  destruct (last_ref es r k) as [l1|]; [|congruence].
  destruct (target es l1) as [o|] eqn:Et; [congruence|].
  destruct Hi as [[p' Hp] _]. rewrite Hp in H. inversion H; subst. exact Et.
Qed.

(* an unresolved reference is on the pending list of its name (so that a later label finds it) *)
Theorem unresolved_is_pending : forall es, NoDup (eff_labels es) ->
  forall r k l, last_ref es r k = Some l -> target es l = None ->
    exists hs, dget str_eqb l (refs (run es)) = Some hs /\ In r hs.
Proof.
  intros es Hnd r k l Hl Ht. pose proof (main_inv es Hnd r k) as Hi. rewrite Hl, Ht in Hi. destruct Hi as [_ H]. exact H.
Qed.

(* ================================================================================================ *)
(* M5 *)

Theorem ref_number : forall es, NoDup (eff_labels es) ->
  forall r k l o, last_ref es r k = Some l -> target es l = Some o -> printed (run es) r k = number_spec es o.
Proof.
  intros es Hnd r k l o Hl Ht. pose proof (resolve_all es Hnd r k l Hl) as H. rewrite Ht in H.
  unfold printed, number_spec. rewrite H, nums_spec. reflexivity.
Qed.

(* ================================================================================================ *)
(* LaTeX's group-local rule *)

Lemma well_placed_from_sound : forall es cf ct stk,
    well_placed_from cf ct stk es = true -> attach_tex ct stk es = attach_flat cf es.
Proof.
  induction es as [|e es IH]; intros cf ct stk H; cbn in *; auto.
  destruct e; cbn in *; auto.
  - destruct (name_of l) as [k0|]; auto.
    destruct node as [n|].
    + rewrite (IH _ _ _ H). reflexivity.
    + apply andb_true_iff in H. destruct H as [H1 H2].
      destruct cf as [a|], ct as [b|]; try discriminate.
      * apply Z.eqb_eq in H1. subst. rewrite (IH _ _ _ H2). reflexivity.
      * apply IH. exact H2.
  - destruct stk as [|c stk']; apply IH; exact H.
Qed.

Theorem well_placed_sound : forall es, well_placed es = true -> attachments_tex es = attachments es.
Proof. intros es H. apply well_placed_from_sound. exact H. Qed.

(* M1 with LaTeX's rule as the reference, for documents whose labels are written where both rules agree *)
Theorem resolve_all_tex_partial : forall es, well_placed es = true -> NoDup (map fst (attachments_tex es)) ->
  forall r k l, last_ref es r k = Some l ->
    match target_tex es l with
    | Some o => dget hk_eqb (r, k) (idrefs (run es)) = Some (TObj o)
    | None => exists p, dget hk_eqb (r, k) (idrefs (run es)) = Some (TPlace p l)
    end.
Proof.
  intros es Hwp Hnd r k l Hl. unfold target_tex. rewrite (well_placed_sound es Hwp) in *. apply resolve_all; auto.
Qed.

(* ... and without that restriction the statement is false for the code as it is: a label written after the end of an
   environment that numbered something attaches to that inner object, not to the enclosing one *)
Definition refute_witness : list event :=
  [ECurrent 1; EOpen; ECurrent 2; EClose; ELabel [108] None; ERef 0 0 [108]].

Theorem resolve_all_tex_refuted : exists es,
    NoDup (map fst (attachments_tex es)) /\
    exists r k l o, last_ref es r k = Some l /\ target_tex es l = Some o /\ dget hk_eqb (r, k) (idrefs (run es)) <> Some (TObj o).
Proof.
  exists refute_witness. split.
  - cbn. constructor; [intros []|constructor].
  - exists 0, 0, [108], 1. vm_compute. repeat split; congruence.
Qed.
