(* Proofs about Model/Render.v, second file (properties C13 and C14): the theorems of RenderProofs.v speak about an arbitrary assignment
   of files [fmap]; here the assignment computed by the Model of Renderer.cacheFilenames is shown to have the properties those theorems
   assume (who has a file = level test, names not empty, section-level owners, closedness under nesting), the navigation theorems are
   restated without their bookkeeping hypothesis, and the placement of every text leaf is characterised from below (parentNode chain). *)
From Coq Require Import List ZArith NArith Bool Lia Permutation.
Import ListNotations.
From Verif Require Import Val Filenames FilenamesProofs Render RenderProofs.
Local Open Scope Z_scope.

(* ================================================================================================================== *)
(* Part 6: the assignment computed by [assign]                                                                          *)

Lemma askers_filter : forall lvl n, askers lvl n = filter (fun a => negb (lvl <? a_level a)) (elements n).
Proof.
  intros lvl. induction n as [w|a cs IH] using node_ind2; [reflexivity|]. cbn [askers elements filter].
  assert (E : flat_map (askers lvl) cs = filter (fun a => negb (lvl <? a_level a)) (flat_map elements cs)).
  { induction IH as [|c cs Hc F IHF]; [reflexivity|]. cbn [flat_map]. rewrite filter_app, Hc, IHF. reflexivity. }
  rewrite E. destruct (lvl <? a_level a); reflexivity.
Qed.

Lemma NoDup_map_inj {A B} (f : A -> B) : forall l x y, NoDup (map f l) -> In x l -> In y l -> f x = f y -> x = y.
Proof.
  induction l as [|z l IH]; intros x y ND Hx Hy E; [destruct Hx|]. cbn in ND. inversion ND as [|? ? Hn ND2]; subst.
  destruct Hx as [->|Hx]; destruct Hy as [->|Hy]; [reflexivity| | |exact (IH _ _ ND2 Hx Hy E)].
  - exfalso. apply Hn. rewrite E. apply in_map. exact Hy.
  - exfalso. apply Hn. rewrite <- E. apply in_map. exact Hx.
Qed.

Lemma files_lookup_some : forall x l, (forall y o, In (y, o) l -> exists f, o = Some f) ->
  (In x (map fst l) -> exists f, files_lookup x l = Some f) /\ (~ In x (map fst l) -> files_lookup x l = None).
Proof.
  intros x l. induction l as [|[y o] l IH]; intros H; cbn [files_lookup map fst].
  - split; [intros []|reflexivity].
  - assert (H' : forall y0 o0, In (y0, o0) l -> exists f, o0 = Some f) by (intros y0 o0 Hi; apply (H y0 o0); right; exact Hi).
    destruct (IH H') as [I1 I2]. destruct (x =? y) eqn:E.
    + split; [|intro Hn; exfalso; apply Hn; left; symmetry; apply Z.eqb_eq; exact E].
      intros _. destruct (H y o (or_introl eq_refl)) as [f ->]. exists f. reflexivity.
    + split.
      * intros [Hy|Hi]; [exfalso; apply Z.eqb_neq in E; apply E; symmetry; exact Hy|exact (I1 Hi)].
      * intros Hn. apply I2. intro Hi. apply Hn. right. exact Hi.
Qed.

Lemma files_lookup_in : forall x l f, files_lookup x l = Some f -> In f (file_names l).
Proof.
  intros x l. induction l as [|[y o] l IH]; intros f H; cbn [files_lookup] in H; [discriminate|]. unfold file_names. cbn [flat_map snd].
  apply in_or_app. destruct (x =? y); [left; subst o; left; reflexivity|right; exact (IH _ H)].
Qed.

(* every name the generator issues carries the extension treatment of Filenames.addExtension *)
Lemma wild_for_ext : forall c g alts num v taken name num' v' taken',
  wild_for c g num v taken alts = FYield name num' v' taken' -> exists r, name = add_extension (ext c) r.
Proof.
  intros c g alts. induction alts as [|item alts IH]; intros num v taken name num' v' taken' H; cbn [wild_for] in H; [discriminate|].
  unfold try_item in H. destruct (expand c v num item) as [r nb| |k].
  - destruct (mem (add_extension (ext c) r) taken); [exact (IH _ _ _ _ _ _ _ H)|]. inversion H; subst. exists r. reflexivity.
  - exact (IH _ _ _ _ _ _ _ H).
  - discriminate.
Qed.

Lemma wild_loop_ext : forall fuel c wild g num v taken passes name s',
  wild_loop fuel c wild g num v taken passes = (RName name, s') -> exists r, name = add_extension (ext c) r.
Proof.
  induction fuel as [|f IH]; intros c wild g num v taken passes name s' H; cbn [wild_loop] in H; [discriminate|].
  destruct (wild_for c g num v taken wild) as [nm num' v' taken'|num' v'|e v'] eqn:W.
  - inversion H; subst. exact (wild_for_ext _ _ _ _ _ _ _ _ _ _ W).
  - destruct (100 <? passes + 1)%N; [discriminate|exact (IH _ _ _ _ _ _ _ _ _ H)].
  - discriminate.
Qed.

Lemma static_loop_ext : forall c wild g taken rest num v name s',
  static_loop c wild g num v taken rest = (RName name, s') -> exists r, name = add_extension (ext c) r.
Proof.
  intros c wild g taken rest. induction rest as [|item rest IH]; intros num v name s' H; cbn [static_loop] in H.
  - exact (wild_loop_ext _ _ _ _ _ _ _ _ _ _ H).
  - unfold try_item in H. destruct (expand c v num item) as [r nb| |k].
    + destruct (mem (add_extension (ext c) r) taken); [exact (IH _ _ _ _ H)|]. inversion H; subst. exists r. reflexivity.
    + exact (IH _ _ _ _ H).
    + discriminate.
Qed.

Lemma request_ext : forall c s b name s', request c s b = (RName name, s') -> exists r, name = add_extension (ext c) r.
Proof.
  intros c s b name s' H. unfold request in H. destruct (ph s) as [files|rest w g num|w g num passes|].
  - destruct (split_files files []) as [static wild]. exact (static_loop_ext _ _ _ _ _ _ _ _ _ H).
  - exact (static_loop_ext _ _ _ _ _ _ _ _ _ H).
  - exact (wild_loop_ext _ _ _ _ _ _ _ _ _ _ H).
  - discriminate.
Qed.

Lemma run_ext : forall c reqs s out s', run c s reqs = (out, s') -> forall name, In name (names_of out) -> exists r, name = add_extension (ext c) r.
Proof.
  intros c reqs. induction reqs as [|b reqs IH]; intros s out s' H name Hin; cbn [run] in H.
  - inversion H; subst. destruct Hin.
  - destruct (request c s b) as [r s1] eqn:R1. destruct (run c s1 reqs) as [o2 s2] eqn:R2. inversion H; subst; clear H.
    destruct r as [f| |k|]; cbn [names_of] in Hin; try exact (IH _ _ _ R2 _ Hin).
    destruct Hin as [<-|Hin]; [exact (request_ext _ _ _ _ _ R1)|exact (IH _ _ _ R2 _ Hin)].
Qed.

Lemma add_extension_nonempty : forall e r, e <> [] -> nonempty_s (add_extension e r) = true.
Proof.
  intros e r He. unfold add_extension. destruct r as [|x r].
  - cbn. destruct e; [contradiction|reflexivity].
  - destruct (has_ext (x :: r)); reflexivity.
Qed.

Section Assigned.
  Context (c : rcfg) (doc : node) (st : Filenames.st) (files : fileslist).
  Context (HA : assign c doc = Some (AOk st files)).
  Context (ND : NoDup (sers doc)).
  Notation fm := (the_fmap files).
  Notation lvl := (eff_level c).

  Lemma assigned_keys : map fst files = map a_ser (filter (fun a => negb (lvl <? a_level a)) (elements doc)).
  Proof. destruct (assign_spec c doc st files HA) as [tf [out [_ [_ [K _]]]]]. rewrite K, askers_filter. reflexivity. Qed.

  Lemma assigned_all_some : forall y o, In (y, o) files -> exists f, o = Some f.
  Proof.
    destruct (assign_spec c doc st files HA) as [tf [out [_ [_ [_ [M _]]]]]]. intros y o Hi. apply (in_map snd) in Hi. cbn [snd] in Hi.
    rewrite M in Hi. apply in_map_iff in Hi. destruct Hi as [f [E _]]. exists f. symmetry. exact E.
  Qed.

  (* who has a file: exactly the nodes whose level is at or above the split level ("each sectioning unit at or above the split level is
     written to its own file"; every other node -- "units below it" -- has none and is rendered inside an ancestor's) *)
  Theorem assigned_iff_level : forall a, In a (elements doc) ->
    ((exists f, fm (a_ser a) = Some f) <-> a_level a <= lvl) /\ (fm (a_ser a) = None <-> lvl < a_level a).
  Proof.
    intros a Ha. destruct (files_lookup_some (a_ser a) files assigned_all_some) as [L1 L2]. rewrite assigned_keys in L1, L2.
    assert (K : In (a_ser a) (map a_ser (filter (fun a => negb (lvl <? a_level a)) (elements doc))) <-> a_level a <= lvl).
    { split.
      - intro Hi. apply in_map_iff in Hi. destruct Hi as [a' [E Hi]]. apply filter_In in Hi. destruct Hi as [Hi Hl].
        assert (a' = a) by (apply (NoDup_map_inj a_ser (elements doc)); assumption). subst a'.
        apply negb_true_iff, Z.ltb_ge in Hl. exact Hl.
      - intro Hl. apply in_map. apply filter_In. split; [exact Ha|]. apply negb_true_iff, Z.ltb_ge. exact Hl. }
    unfold the_fmap. split; split.
    - intros [f Hf]. apply K. destruct (in_dec Z.eq_dec (a_ser a) (map a_ser (filter (fun a => negb (lvl <? a_level a)) (elements doc)))) as [Hi|Hn]; [exact Hi|].
      rewrite (L2 Hn) in Hf. discriminate.
    - intro Hl. apply L1. apply K. exact Hl.
    - intro Hn. destruct (Z_lt_le_dec lvl (a_level a)) as [H|H]; [exact H|]. destruct (L1 (proj2 K H)) as [f Hf]. rewrite Hf in Hn. discriminate.
    - intro Hl. apply L2. intro Hi. apply K in Hi. lia.
  Qed.

  (* the names are never empty (every one of them has an extension) *)
  Theorem assigned_nonempty : ext (r_fc c) <> [] -> names_nonempty fm.
  Proof.
    intros He x f Hf. unfold the_fmap in Hf. apply files_lookup_in in Hf.
    destruct (assign_spec c doc st files HA) as [tf [out [_ [R [K [M _]]]]]].
    assert (Hn : In f (names_of out)).
    { assert (E : file_names files = names_of out).
      { unfold file_names. clear - M. revert M. generalize (names_of out). induction files as [|[y o] l IH]; intros [|n ns] M; cbn in *; try discriminate; [reflexivity|].
        inversion M; subst. cbn. f_equal. apply IH. assumption. }
      rewrite <- E. exact Hf. }
    destruct (run_ext _ _ _ _ _ R _ Hn) as [r ->]. apply add_extension_nonempty. exact He.
  Qed.

  Theorem assigned_has_file : ext (r_fc c) <> [] -> forall a, In a (elements doc) -> has_file fm a = (a_level a <=? lvl).
  Proof.
    intros He a Ha. destruct (assigned_iff_level a Ha) as [[A1 A2] [B1 B2]]. unfold has_file.
    destruct (fm (a_ser a)) as [f|] eqn:E.
    - rewrite (assigned_nonempty He _ _ E). symmetry. apply Z.leb_le. apply A1. exists f. reflexivity.
    - symmetry. apply Z.leb_gt. apply B1. reflexivity.
  Qed.

  (* for split levels in the legal range every node with a file is a section-level unit: the owner of its footnotes *)
  Theorem assigned_owner : ext (r_fc c) <> [] -> lvl < ENDSECTIONS_LEVEL -> forall a, In a (elements doc) -> is_owner fm a = has_file fm a.
  Proof.
    intros He Hl a Ha. unfold is_owner. rewrite (assigned_has_file He a Ha). destruct (a_level a <=? lvl) eqn:E; [|apply andb_false_r].
    apply Z.leb_le in E. rewrite andb_true_r. apply Z.ltb_lt. lia.
  Qed.
End Assigned.

(* sections only contain deeper levels (SectionUtils.digest absorbs the items whose level is greater than its own) *)
Definition root_level (n : node) : Z := match n with E a _ => a_level a | T _ => 0 end.
Fixpoint nested (n : node) : Prop :=
  match n with
  | T _ => True
  | E a cs => (fix go (cs : list node) : Prop :=
                 match cs with [] => True | c :: r => (is_sub c = true -> a_level a <= root_level c) /\ nested c /\ go r end) cs
  end.

Lemma nested_kid : forall a cs c, nested (E a cs) -> In c cs -> (is_sub c = true -> a_level a <= root_level c) /\ nested c.
Proof.
  intros a cs c H Hc. cbn [nested] in H. induction cs as [|c0 cs IH]; [destruct Hc|]. destruct H as [H1 [H2 H3]].
  destruct Hc as [->|Hc]; [split; assumption|exact (IH H3 Hc)].
Qed.

Lemma nested_sections : forall n, nested n -> forall b, In b (all_sections n) -> root_level n <= a_level b.
Proof.
  induction n as [w|a cs IH] using node_ind2; intros N b Hb; [destruct Hb|]. cbn [all_sections root_level] in *.
  destruct Hb as [<-|Hb]; [lia|]. apply in_flat_map in Hb. destruct Hb as [c [Hc Hb]]. destruct (is_sub c) eqn:S; [|destruct Hb].
  destruct (nested_kid _ _ _ N Hc) as [K1 K2]. rewrite Forall_forall in IH. specialize (IH _ Hc K2 _ Hb). specialize (K1 S). lia.
Qed.

Lemma all_sections_elements : forall n b, In b (all_sections n) -> In b (elements n).
Proof.
  induction n as [w|a cs IH] using node_ind2; intros b Hb; [destruct Hb|]. cbn [all_sections elements] in *.
  destruct Hb as [->|Hb]; [left; reflexivity|]. right. apply in_flat_map in Hb. destruct Hb as [c [Hc Hb]]. destruct (is_sub c); [|destruct Hb].
  apply in_flat_map. exists c. split; [exact Hc|]. rewrite Forall_forall in IH. exact (IH _ Hc _ Hb).
Qed.

(* an assignment by level on a nested document is closed: the hypothesis of C14_toc_reaches_all holds *)
Lemma closed_by_level : forall fmap lvl n,
  (forall b, In b (elements n) -> has_file fmap b = (a_level b <=? lvl)) -> nested n -> closed fmap n.
Proof.
  intros fmap lvl. induction n as [w|a cs IH] using node_ind2; intros HF N; [exact Logic.I|]. cbn [closed].
  assert (G : forall c, In c cs -> (is_sub c = true -> secfiles fmap c <> [] -> match c with E b _ => has_file fmap b = true | T _ => True end) /\ closed fmap c).
  { intros c Hc. destruct (nested_kid _ _ _ N Hc) as [K1 K2]. split.
    - intros S NE. destruct c as [w|b bcs]; [exact Logic.I|].
      destruct (secfiles fmap (E b bcs)) as [|s l] eqn:SF; [contradiction|].
      assert (Hs : In s (secfiles fmap (E b bcs))) by (rewrite SF; left; reflexivity). unfold secfiles in Hs. apply filter_In in Hs. destruct Hs as [Hs1 Hs2].
      pose proof (nested_sections _ K2 _ Hs1) as L. cbn [root_level] in L.
      assert (Es : In s (elements (E a cs))) by (cbn; right; apply in_flat_map; exists (E b bcs); split; [exact Hc|apply all_sections_elements; exact Hs1]).
      rewrite (HF s Es) in Hs2. apply Z.leb_le in Hs2.
      rewrite HF; [apply Z.leb_le; lia|]. cbn. right. apply in_flat_map. exists (E b bcs). split; [exact Hc|cbn; left; reflexivity].
    - rewrite Forall_forall in IH. apply (IH _ Hc); [|exact K2]. intros b0 Hb0. apply HF. cbn. right. apply in_flat_map. exists c. split; assumption. }
  clear - G. induction cs as [|c cs IHc]; [exact Logic.I|]. destruct (G c (or_introl eq_refl)) as [G1 G2]. split; [exact G1|]. split; [exact G2|].
  apply IHc. intros c0 Hc0. apply G. right. exact Hc0.
Qed.

(* ================================================================================================================== *)
(* Part 7: navigation without the bookkeeping hypothesis                                                                 *)

Lemma NoDup_app_intro {A} : forall (a b : list A), NoDup a -> NoDup b -> (forall x, In x a -> ~ In x b) -> NoDup (a ++ b).
Proof.
  induction a as [|x a IH]; intros b Ha Hb H; [exact Hb|]. inversion Ha; subst. cbn. constructor.
  - intro Hi. apply in_app_or in Hi. destruct Hi as [Hi|Hi]; [contradiction|]. exact (H x (or_introl eq_refl) Hi).
  - apply IH; [assumption|assumption|]. intros y Hy. apply H. right. exact Hy.
Qed.

Lemma NoDup_map_filter {A B} (f : A -> B) (p : A -> bool) : forall l, NoDup (map f l) -> NoDup (map f (filter p l)).
Proof.
  induction l as [|x l IH]; intros H; [constructor|]. cbn in *. inversion H; subst. destruct (p x); [|exact (IH H3)].
  cbn. constructor; [|exact (IH H3)]. intro Hi. apply H2. apply in_map_iff in Hi. destruct Hi as [y [E Hy]]. apply filter_In in Hy.
  rewrite <- E. apply in_map. exact (proj1 Hy).
Qed.

Lemma sections_NoDup : forall n, NoDup (sers n) -> NoDup (map a_ser (all_sections n)).
Proof.
  induction n as [w|a cs IH] using node_ind2; intros ND; [constructor|]. rewrite sers_E in ND. inversion ND as [|x l Hx ND2]; subst.
  cbn [all_sections map]. constructor.
  - intro Hi. apply Hx. apply in_map_iff in Hi. destruct Hi as [b [E Hb]]. apply in_flat_map in Hb. destruct Hb as [c [Hc Hb]].
    destruct (is_sub c); [|destruct Hb]. apply in_flat_map. exists c. split; [exact Hc|]. rewrite <- E. unfold sers. apply in_map. apply all_sections_elements. exact Hb.
  - clear Hx ND. induction IH as [|c cs Hc F IHF]; [constructor|]. cbn [flat_map] in *. rewrite map_app. apply NoDup_app_intro.
    + destruct (is_sub c); [apply Hc; exact (NoDup_app_l _ _ ND2)|constructor].
    + apply IHF. exact (NoDup_app_r _ _ ND2).
    + intros x Hx Hx2. destruct (is_sub c); [|destruct Hx]. refine (NoDup_app_disj _ _ x ND2 _ _).
      * apply in_map_iff in Hx. destruct Hx as [b [E Hb]]. rewrite <- E. unfold sers. apply in_map. apply all_sections_elements. exact Hb.
      * apply in_map_iff in Hx2. destruct Hx2 as [b [E Hb]]. apply in_flat_map in Hb. destruct Hb as [c2 [Hc2 Hb]]. destruct (is_sub c2); [|destruct Hb].
        apply in_flat_map. exists c2. split; [exact Hc2|]. rewrite <- E. unfold sers. apply in_map. apply all_sections_elements. exact Hb.
Qed.

Lemma sub_NoDup : forall n ch0 ch a cs, In (ch, a, cs) (elems_ctx ch0 n) -> NoDup (sers n) -> NoDup (sers (E a cs)).
Proof.
  induction n as [w|a0 cs0 IH] using node_ind2; intros ch0 ch a cs H ND; [destruct H|]. cbn [elems_ctx] in H. destruct H as [H|H].
  - inversion H; subst. exact ND.
  - rewrite sers_E in ND. inversion ND as [|x l _ ND2]; subst. apply in_flat_map in H. destruct H as [c [Hc H]]. rewrite Forall_forall in IH.
    apply (IH _ Hc _ _ _ _ H). clear - ND2 Hc. induction cs0 as [|c0 cs0 IHc]; [destruct Hc|]. cbn [flat_map] in ND2.
    destruct Hc as [->|Hc]; [exact (NoDup_app_l _ _ ND2)|exact (IHc Hc (NoDup_app_r _ _ ND2))].
Qed.

(* the sections of a unit with their ancestor chains *)
Fixpoint secs_ctx (ch : list attrs) (n : node) : list (list attrs * attrs * list node) :=
  match n with
  | T _ => []
  | E a cs => (ch, a, cs) :: flat_map (fun c => if is_sub c then secs_ctx (a :: ch) c else []) cs
  end.

Lemma secs_ctx_sections : forall n ch, map (fun e => snd (fst e)) (secs_ctx ch n) = all_sections n.
Proof.
  induction n as [w|a cs IH] using node_ind2; intros ch; [reflexivity|]. cbn [secs_ctx all_sections map]. f_equal. rewrite map_flat_map.
  induction IH as [|c cs Hc F IHF]; [reflexivity|]. cbn [flat_map]. rewrite IHF. f_equal. destruct (is_sub c); [apply Hc|reflexivity].
Qed.

Lemma secs_ctx_elems : forall n ch e, In e (secs_ctx ch n) -> In e (elems_ctx ch n).
Proof.
  induction n as [w|a cs IH] using node_ind2; intros ch e H; [destruct H|]. cbn [secs_ctx elems_ctx] in *. destruct H as [H|H]; [left; exact H|right].
  apply in_flat_map in H. destruct H as [c [Hc H]]. destruct (is_sub c); [|destruct H]. apply in_flat_map. exists c. split; [exact Hc|].
  rewrite Forall_forall in IH. exact (IH _ Hc _ _ H).
Qed.

Definition docp (p : attrs) : bool := a_level p =? DOCUMENT_LEVEL.

Lemma secs_ctx_doc : forall n ch d, find docp ch = Some d -> (forall b, In b (elements n) -> a_level b <> DOCUMENT_LEVEL) ->
  forall ch' s cs', In (ch', s, cs') (secs_ctx ch n) -> find docp (s :: ch') = Some d.
Proof.
  induction n as [w|a cs IH] using node_ind2; intros ch d Hd HN ch' s cs' H; [destruct H|]. cbn [secs_ctx] in H.
  assert (Ha : docp a = false) by (apply Z.eqb_neq; apply HN; cbn; left; reflexivity).
  destruct H as [H|H].
  - inversion H; subst. cbn [find]. rewrite Ha. exact Hd.
  - apply in_flat_map in H. destruct H as [c [Hc H]]. destruct (is_sub c); [|destruct H]. rewrite Forall_forall in IH.
    apply (IH _ Hc (a :: ch) d) with (cs' := cs'); [cbn [find]; rewrite Ha; exact Hd| |exact H]. intros b Hb. apply HN. cbn. right. apply in_flat_map. exists c. split; assumption.
Qed.

Lemma elems_sub : forall doc ch0 ch a cs e, In (ch, a, cs) (elems_ctx ch0 doc) -> In e (elems_ctx ch (E a cs)) -> In e (elems_ctx ch0 doc).
Proof.
  intros doc ch0 ch a cs e H He. cbn [elems_ctx] in He. destruct He as [<-|He]; [exact H|]. apply in_flat_map in He. destruct He as [c [Hc He]].
  exact (elems_trans doc ch0 ch a cs c e H Hc He).
Qed.

Section NavDoc.
  Context (fmap : Z -> option str).
  Notation hasf := (has_file fmap).

  (* M3, final form: in every document with distinct node identities, from the document-level unit d (the start page) the next-links
     of SectionUtils.links reach every file-producing section of the document; the only assumption on the document is that d is the only
     node of level DOCUMENT_LEVEL below itself *)
  Theorem nav_reaches_all_doc : forall doc chd d dcs,
    NoDup (sers doc) -> In (chd, d, dcs) (elems_ctx [] doc) -> a_level d = DOCUMENT_LEVEL ->
    (forall b, In b (flat_map elements dcs) -> a_level b <> DOCUMENT_LEVEL) -> hasf d = true ->
    forall t, In t (filter hasf (all_sections (E d dcs))) -> exists k, iter_next fmap doc k (a_ser d) = Some (a_ser t).
  Proof.
    intros doc chd d dcs ND Hin Hl HN Hf t Ht.
    set (secs := filter hasf (all_sections (E d dcs))) in *.
    assert (S0 : exists rest, secs = d :: rest).
    { unfold secs. cbn [all_sections filter]. rewrite Hf. eexists. reflexivity. }
    destruct S0 as [rest S0].
    apply (nav_reaches_all fmap doc secs d rest); [| |exact S0|exact Ht].
    - unfold secs. apply NoDup_map_filter. apply sections_NoDup. exact (sub_NoDup doc [] chd d dcs Hin ND).
    - intros s Hs. unfold secs in Hs. apply filter_In in Hs. destruct Hs as [Hs _]. rewrite <- (secs_ctx_sections (E d dcs) chd) in Hs.
      apply in_map_iff in Hs. destruct Hs as [[[ch' s0] cs'] [E0 He]]. cbn in E0. subst s0. exists ch', cs'.
      assert (O : In (ch', s, cs') (elems_ctx [] doc)) by (apply (elems_sub doc [] chd d dcs _ Hin); apply secs_ctx_elems; exact He).
      split; [exact (locate_elems _ _ _ _ _ ND O)|]. unfold document_sections.
      assert (FD : find (fun p => a_level p =? DOCUMENT_LEVEL) (s :: ch') = Some d).
      { cbn [secs_ctx] in He. destruct He as [He|He].
        - inversion He; subst. cbn [find]. rewrite Hl, Z.eqb_refl. reflexivity.
        - apply in_flat_map in He. destruct He as [c [Hc He]]. destruct (is_sub c); [|destruct He].
          apply (secs_ctx_doc c (d :: chd) d) with (cs' := cs'); [cbn [find]; unfold docp; rewrite Hl, Z.eqb_refl; reflexivity| |exact He].
          intros b Hb. apply HN. apply in_flat_map. exists c. split; assumption. }
      rewrite FD. rewrite (locate_elems _ _ _ _ _ ND Hin). reflexivity.
  Qed.
End NavDoc.

(* ================================================================================================================== *)
(* Part 8: where a text leaf ends up, seen from the leaf (parentNode chain)                                             *)

Section Leaves.
  Context (fmap : Z -> option str) (shows : attrs -> bool).
  Notation hasf := (has_file fmap).

  (* the text leaves a node contributes to the file it is in, with their ancestor chains *)
  Fixpoint shown_leaves (ch : list attrs) (n : node) : list (list attrs * Z) :=
    match n with
    | T w => [(ch, w)]
    | E a cs => if hasf a then [] else if shows a then flat_map (fun c => if vis a c then shown_leaves (a :: ch) c else []) cs else []
    end.

  Lemma own_words_leaves : forall n ch, own_words fmap shows n = map snd (shown_leaves ch n).
  Proof.
    induction n as [w|a cs IH] using node_ind2; intros ch; [reflexivity|]. cbn [own_words shown_leaves].
    destruct (hasf a); [reflexivity|]. destruct (shows a); [|reflexivity]. rewrite map_flat_map.
    induction IH as [|c cs Hc F IHF]; [reflexivity|]. cbn [flat_map]. rewrite IHF. f_equal. destruct (vis a c); [apply Hc|reflexivity].
  Qed.

  Lemma shown_leaves_chain : forall n ch ch' w, names_nonempty fmap -> In (ch', w) (shown_leaves ch n) ->
    find (filep fmap) ch' = find (filep fmap) ch /\
    (exists mid, ch' = mid ++ ch /\ Forall (fun p => shows p = true /\ fmap (a_ser p) = None) mid).
  Proof.
    intros n ch ch' w NN. revert ch ch' w. induction n as [w0|a cs IH] using node_ind2; intros ch ch' w H.
    - destruct H as [H|[]]. inversion H; subst. split; [reflexivity|]. exists []. split; [reflexivity|constructor].
    - cbn [shown_leaves] in H. destruct (hasf a) eqn:EF; [destruct H|]. destruct (shows a) eqn:ES; [|destruct H].
      apply in_flat_map in H. destruct H as [c [Hc H]]. destruct (vis a c); [|destruct H]. rewrite Forall_forall in IH.
      destruct (IH _ Hc _ _ _ H) as [F1 [mid [E1 M1]]].
      assert (EN : fmap (a_ser a) = None).
      { unfold has_file in EF. destruct (fmap (a_ser a)) as [f|] eqn:EM; [|reflexivity]. rewrite (NN _ _ EM) in EF. discriminate. }
      split.
      + rewrite F1. cbn [find]. unfold filep at 1. rewrite EN. reflexivity.
      + exists (mid ++ [a]). split; [rewrite E1, <- app_assoc; reflexivity|]. apply Forall_app. split; [exact M1|]. constructor; [split; assumption|constructor].
  Qed.

  (* the property's placement clause, read from the leaf: every text leaf in the body of the file of unit a has a as its NEAREST ancestor
     with a file (every node between the leaf and a has none and shows its content), and it is one of the words of that file's body *)
  Theorem leaf_nearest_unit : forall chp a cs ch' w,
    names_nonempty fmap -> hasf a = true ->
    In (ch', w) (flat_map (fun c => if vis a c then shown_leaves (a :: chp) c else []) cs) ->
    find (filep fmap) ch' = Some a /\
    (exists mid, ch' = mid ++ a :: chp /\ Forall (fun p => shows p = true /\ fmap (a_ser p) = None) mid) /\
    In w (kids_words fmap shows a cs).
  Proof.
    intros chp a cs ch' w NN EF H. apply in_flat_map in H. destruct H as [c [Hc H]]. destruct (vis a c) eqn:EV; [|destruct H].
    destruct (shown_leaves_chain _ _ _ _ NN H) as [F1 M1]. split; [|split; [exact M1|]].
    - rewrite F1. cbn [find]. unfold filep. unfold has_file in EF. destruct (fmap (a_ser a)); [reflexivity|discriminate].
    - unfold kids_words. apply in_flat_map. exists c. split; [exact Hc|]. rewrite EV. rewrite (own_words_leaves c (a :: chp)).
      apply in_map_iff. exists (ch', w). split; [reflexivity|exact H].
  Qed.
End Leaves.

(* document order: the body text of a file is an order-preserving sub-sequence of the text leaves of the unit *)
Inductive subseq {A} : list A -> list A -> Prop :=
| ss_nil : subseq [] []
| ss_skip : forall x l1 l2, subseq l1 l2 -> subseq l1 (x :: l2)
| ss_take : forall x l1 l2, subseq l1 l2 -> subseq (x :: l1) (x :: l2).

Lemma subseq_nil {A} : forall l : list A, subseq [] l.
Proof. induction l; [constructor|apply ss_skip; assumption]. Qed.
Lemma subseq_refl {A} : forall l : list A, subseq l l.
Proof. induction l; [constructor|apply ss_take; assumption]. Qed.
Lemma subseq_app {A} : forall (a b c d : list A), subseq a b -> subseq c d -> subseq (a ++ c) (b ++ d).
Proof. intros a b c d H1 H2. induction H1; cbn; [exact H2|apply ss_skip; assumption|apply ss_take; assumption]. Qed.

Lemma own_words_subseq : forall fmap shows n, subseq (own_words fmap shows n) (leaves n).
Proof.
  intros fmap shows. induction n as [w|a cs IH] using node_ind2; [apply subseq_refl|]. cbn [own_words leaves].
  destruct (has_file fmap a); [apply subseq_nil|]. destruct (shows a); [|apply subseq_nil].
  induction IH as [|c cs Hc F IHF]; [constructor|]. cbn [flat_map]. apply subseq_app; [|exact IHF]. destruct (vis a c); [exact Hc|constructor].
Qed.

Lemma kids_words_subseq : forall fmap shows a cs, subseq (kids_words fmap shows a cs) (leaves (E a cs)).
Proof.
  intros fmap shows a cs. unfold kids_words. cbn [leaves]. induction cs as [|c cs IH]; [constructor|]. cbn [flat_map]. apply subseq_app; [|exact IH].
  destruct (vis a c); [apply own_words_subseq|constructor].
Qed.

(* ================================================================================================================== *)
(* Part 9: end to end -- the assignment computed by the Model fed into the rendering theorems                           *)

Lemma sub_elements : forall doc ch0 ch a cs b, In (ch, a, cs) (elems_ctx ch0 doc) -> In b (elements (E a cs)) -> In b (elements doc).
Proof.
  intros doc ch0 ch a cs b H Hb. rewrite <- (elems_ctx_elements (E a cs) ch) in Hb. apply in_map_iff in Hb. destruct Hb as [e [E0 He]].
  rewrite <- (elems_ctx_elements doc ch0). apply in_map_iff. exists e. split; [exact E0|exact (elems_sub doc ch0 ch a cs e H He)].
Qed.

(* C13, end to end: configuration + document |- files.  For every configuration with a legal split level and a non-empty extension, every
   document whose root is the DOCUMENT_NODE and whose rendered children are document-level units, all linear templates: if the assignment
   succeeds then (1) a node has a file iff its level <= split level, names are pairwise distinct and not empty; (2) one file is written per
   reached unit, with exactly the Spec's words; (3) all files together hold every text leaf exactly once. *)
Theorem split_by_level : forall c ra rcs fnotes st files tmpl layout shows is_note,
  let doc := E ra rcs in
  let fm := the_fmap files in
  assign c doc = Some (AOk st files) -> NoDup (sers doc) -> ext (r_fc c) <> [] ->
  DOCUMENT_LEVEL <= eff_level c -> eff_level c < ENDSECTIONS_LEVEL ->
  tmpl_linear tmpl shows -> layout_linear layout -> notes_listed is_note doc fnotes ->
  a_isdoc ra = true ->
  (forall c0, In c0 rcs -> vis ra c0 = true ->
     match c0 with E da _ => is_note da = false /\ shows da = true | T _ => False end /\ sound fm shows is_note c0) ->
  (forall a, In a (elements doc) -> has_file fm a = (a_level a <=? eff_level c)) /\
  NoDup (file_names files) /\ names_nonempty fm /\
  render fm tmpl layout shows doc fnotes =
    map (fun p => (fname fm (fst p), content fm tmpl layout doc fnotes (fst p) (snd p)))
        (flat_map (fun c0 => if vis ra c0 then producers fm shows c0 else []) rcs) /\
  (forall p, In p (flat_map (fun c0 => if vis ra c0 then producers fm shows c0 else []) rcs) ->
             words (content fm tmpl layout doc fnotes (fst p) (snd p)) = fwords fm shows is_note p) /\
  Permutation (flat_map (fun f => words (snd f)) (render fm tmpl layout shows doc fnotes)) (leaves doc).
Proof.
  intros c ra rcs fnotes st files tmpl layout shows is_note doc fm HA ND He L1 L2 HT HL HF HD HK.
  pose proof (assigned_has_file c doc st files HA ND He) as AF.
  split; [exact AF|]. split; [destruct (assign_spec c doc st files HA) as [tf [out [_ [_ [_ [_ N]]]]]]; exact N|].
  split; [exact (assigned_nonempty c doc st files HA He)|].
  apply (split_partition fm tmpl layout shows is_note HT HL ra rcs fnotes ND HF).
  intros c0 Hc0 V. destruct (HK c0 Hc0 V) as [K1 K2]. split; [exact K2|]. destruct c0 as [w|da dcs]; [destruct K1|]. destruct K1 as [K1 K3].
  cbn [top_unit]. unfold fm, doc in *. split; [|split; assumption].
  assert (Eda : In da (elements doc)) by (cbn; right; apply in_flat_map; exists (E da dcs); split; [exact Hc0|cbn; left; reflexivity]).
  rewrite (assigned_owner c doc st files HA ND He L2 da Eda), (AF da Eda). apply Z.leb_le.
  unfold vis in V. rewrite HD in V. apply Z.eqb_eq in V. rewrite V. exact L1.
Qed.

(* C14: tables of contents reach every file, with the closedness hypothesis discharged for the assignment computed by the Model *)
Theorem toc_reaches_all_assigned : forall c doc st files nonfiles depth ch a cs,
  assign c doc = Some (AOk st files) -> NoDup (sers doc) -> ext (r_fc c) <> [] -> 1 <= depth ->
  In (ch, a, cs) (elems_ctx [] doc) -> nested (E a cs) ->
  forall b, In b (secfiles (the_fmap files) (E a cs)) -> toc_reach (the_fmap files) doc nonfiles depth (a_ser a) (a_ser b).
Proof.
  intros c doc st files nonfiles depth ch a cs HA ND He Hd Hin N b Hb.
  apply (toc_reaches_all (the_fmap files) doc nonfiles depth ND Hd (E a cs) ch a cs eq_refl Hin); [|exact Hb].
  apply (closed_by_level (the_fmap files) (eff_level c)); [|exact N].
  intros b0 Hb0. apply (assigned_has_file c doc st files HA ND He). exact (sub_elements doc [] ch a cs b0 Hin Hb0).
Qed.

(* non-vacuity on the three-file document of RenderProofs.v *)
Lemma ex_assigned :
  NoDup (sers ex_doc) /\ ext (r_fc ex_cfg) <> [] /\ DOCUMENT_LEVEL <= eff_level ex_cfg /\ eff_level ex_cfg < ENDSECTIONS_LEVEL /\ a_isdoc ex_root = true /\
  nested (E ex_docenv [T 1; E ex_sec1 [T 2; E ex_fn [T 3]; T 4]; E ex_sec2 [T 5]]) /\
  a_level ex_docenv = DOCUMENT_LEVEL /\
  (forall b, In b (flat_map elements [T 1; E ex_sec1 [T 2; E ex_fn [T 3]; T 4]; E ex_sec2 [T 5]]) -> a_level b <> DOCUMENT_LEVEL) /\
  In ([ex_sec1; ex_docenv; ex_root], 2)
     (flat_map (fun c => if vis ex_sec1 c then shown_leaves (the_fmap ex_files) std_shows [ex_sec1; ex_docenv; ex_root] c else []) [T 2; E ex_fn [T 3]; T 4]) /\
  has_file (the_fmap ex_files) ex_sec1 = (a_level ex_sec1 <=? eff_level ex_cfg).
Proof.
  split; [vm_compute; repeat constructor; cbn; intuition discriminate|]. split; [discriminate|]. split; [vm_compute; discriminate|].
  split; [reflexivity|]. split; [reflexivity|]. split; [cbn; repeat split; intros; try discriminate; vm_compute; discriminate|].
  split; [reflexivity|]. split.
  - intros b Hb. vm_compute in Hb. destruct Hb as [<-|[<-|[<-|[]]]]; vm_compute; discriminate.
  - split; [vm_compute; left; reflexivity|vm_compute; reflexivity].
Qed.

(* ================================================================================================================== *)
(* Part 10: the hypotheses of the end-to-end theorem as a decision procedure, evaluated by the extracted Model on every case of the
   correspondence (so the evidence counts on how many REAL documents the theorem's premises hold)                       *)

Definition is_nil {A} (l : list A) : bool := match l with [] => true | _ => false end.

Fixpoint sound_b (fmap : Z -> option str) (shows is_note : attrs -> bool) (n : node) : bool :=
  match n with
  | T _ => true
  | E a cs =>
      negb (a_isdoc a) && (negb (is_note a) || negb (shows a)) &&
      (shows a || (is_nil (flat_map (all_files fmap) cs) && (is_note a || is_nil (flat_map leaves cs)))) &&
      forallb (sound_b fmap shows is_note) cs
  end.

Lemma is_nil_true {A} : forall l : list A, is_nil l = true -> l = [].
Proof. intros [|x l] H; [reflexivity|discriminate]. Qed.

Lemma sound_b_sound : forall fmap shows is_note n, sound_b fmap shows is_note n = true -> sound fmap shows is_note n.
Proof.
  intros fmap shows is_note. induction n as [w|a cs IH] using node_ind2; intros H; [exact Logic.I|]. cbn [sound_b] in H.
  apply andb_prop in H. destruct H as [H H4]. apply andb_prop in H. destruct H as [H H3]. apply andb_prop in H. destruct H as [H1 H2].
  cbn [sound]. split; [apply negb_true_iff; exact H1|]. split.
  - intros EN. rewrite EN in H2. cbn in H2. apply negb_true_iff. exact H2.
  - split.
    + intros ES. rewrite ES in H3. cbn in H3. apply andb_prop in H3. destruct H3 as [A B]. split; [exact (is_nil_true _ A)|].
      intros EN. rewrite EN in B. cbn in B. exact (is_nil_true _ B).
    + clear - IH H4. induction IH as [|c cs Hc F IHF]; [exact Logic.I|]. cbn [forallb] in H4. apply andb_prop in H4. destruct H4 as [A B].
      split; [exact (Hc A)|exact (IHF B)].
Qed.

Definition zlist_eqb (a b : list Z) : bool := str_eqb a b.
Fixpoint nodup_b (l : list Z) : bool := match l with [] => true | x :: r => negb (existsb (Z.eqb x) r) && nodup_b r end.

Lemma nodup_b_NoDup : forall l, nodup_b l = true -> NoDup l.
Proof.
  induction l as [|x l IH]; intros H; [constructor|]. cbn [nodup_b] in H. apply andb_prop in H. destruct H as [A B]. constructor; [|exact (IH B)].
  intro Hi. apply negb_true_iff in A. assert (existsb (Z.eqb x) l = true) by (apply existsb_exists; exists x; split; [exact Hi|apply Z.eqb_refl]). congruence.
Qed.

Definition hyps_b (c : rcfg) (doc : node) (fnotes : list Z) (files : fileslist) : bool :=
  match doc with
  | T _ => false
  | E ra rcs =>
      a_isdoc ra && nodup_b (sers doc) && nonempty_s (ext (r_fc c)) &&
      (DOCUMENT_LEVEL <=? eff_level c) && (eff_level c <? ENDSECTIONS_LEVEL) &&
      zlist_eqb fnotes (map a_ser (filter std_note (elements doc))) &&
      forallb (fun c0 => negb (vis ra c0) ||
                         match c0 with
                         | E da _ => negb (std_note da) && std_shows da && sound_b (the_fmap files) std_shows std_note c0
                         | T _ => false
                         end) rcs
  end.

Lemma notes_listed_elements : forall is_note doc,
  map (fun e => a_ser (snd (fst e))) (filter (notep is_note) (elems_ctx [] doc)) = map a_ser (filter is_note (elements doc)).
Proof.
  intros is_note doc. rewrite <- (elems_ctx_elements doc []). generalize (elems_ctx [] doc). intros l.
  induction l as [|e l IH]; [reflexivity|]. cbn [filter map]. unfold notep at 1. destruct (is_note (snd (fst e))); cbn [map]; rewrite IH; reflexivity.
Qed.

(* C13 on a checked case: whenever the decision procedure answers true for a case and the assignment succeeds, everything the end-to-end
   theorem concludes holds for what the extracted Model computes with the table of the shipped templates *)
Theorem checked_case : forall c doc fnotes st files e,
  assign c doc = Some (AOk st files) -> hyps_b c doc fnotes files = true ->
  let fm := the_fmap files in
  (forall a, In a (elements doc) -> has_file fm a = (a_level a <=? eff_level c)) /\
  NoDup (file_names files) /\
  Permutation (flat_map (fun f => words (snd f)) (render fm (std_tmpl e) std_layout std_shows doc fnotes)) (leaves doc) /\
  (forall f, In f (render fm (std_tmpl e) std_layout std_shows doc fnotes) ->
     exists p, fst f = fname fm (fst p) /\ words (snd f) = fwords fm std_shows std_note p).
Proof.
  intros c doc fnotes st files e HA H fm. destruct doc as [w|ra rcs]; [discriminate|]. cbn [hyps_b] in H.
  repeat (apply andb_prop in H; let X := fresh "K" in destruct H as [H X]).
  assert (ND : NoDup (sers (E ra rcs))) by (apply nodup_b_NoDup; exact K4).
  assert (He : ext (r_fc c) <> []) by (intro E0; rewrite E0 in K3; discriminate).
  assert (NL : notes_listed std_note (E ra rcs) fnotes).
  { unfold notes_listed. rewrite notes_listed_elements. unfold zlist_eqb in K0. apply str_eqb_eq. exact K0. }
  destruct (split_by_level c ra rcs fnotes st files (std_tmpl e) std_layout std_shows std_note HA ND He
              (proj1 (Z.leb_le _ _) K2) (proj1 (Z.ltb_lt _ _) K1) (std_tmpl_linear e) std_layout_linear NL H) as [A [B [_ [R [W P]]]]].
  { intros c0 Hc0 V. rewrite forallb_forall in K. specialize (K c0 Hc0). rewrite V in K. cbn in K. destruct c0 as [w|da dcs]; [discriminate|].
    apply andb_prop in K. destruct K as [K K']. apply andb_prop in K. destruct K as [Ka Kb].
    split; [split; [apply negb_true_iff; exact Ka|exact Kb]|apply sound_b_sound; exact K']. }
  split; [exact A|]. split; [exact B|]. split; [exact P|].
  intros f Hf. fold fm in R. rewrite R in Hf. apply in_map_iff in Hf. destruct Hf as [p [E0 Hp]]. exists p. subst f. cbn [fst snd]. split; [reflexivity|exact (W p Hp)].
Qed.

(* the entry point of the extracted Model: the observation of Model/Render.v and, beside it, whether the case satisfies [hyps_b] *)
Definition run_case_checked (v : val) : val :=
  VL [run_case v;
      match v with
      | VL [VI mode; cfgv; treev; fnv] =>
          match get_cfg cfgv, get_node treev, getZs fnv with
          | Some (c, _), Some doc, Some fnotes =>
              match assign c doc with
              | Some (AOk _ files) => ofB (hyps_b c doc fnotes files)
              | _ => VI 0
              end
          | _, _, _ => VI 0
          end
      | _ => VI 0
      end].

Lemma ex_checked : match assign ex_cfg ex_doc with Some (AOk _ files) => hyps_b ex_cfg ex_doc [3] files = true | _ => False end.
Proof. vm_compute. reflexivity. Qed.
