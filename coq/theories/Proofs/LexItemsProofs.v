From Coq Require Import List NArith Bool Lia.
Import ListNotations.
From Verif Require Import Val Catcodes Tokenizer Lexer LexItems TokenizerProofs.
Local Open Scope N_scope.

Section P.
Context (t : table).
Notation code := (which_code t).

Lemma dec_plain c r : plain t c = true -> Dec t (c :: r) (CChar (code c) c r).
Proof.
  unfold plain. intros H. apply andb_true_iff in H. destruct H as (Hs & Hd).
  apply negb_true_iff in Hs. apply negb_true_iff in Hd. apply N.eqb_neq in Hs. now apply DecPlain.
Qed.

Lemma plain_of_code c k : code c = k -> negb (k =? CC_SUPER) && negb (dropped k) = true -> plain t c = true.
Proof. intros <- H. exact H. Qed.

Lemma sigcat_plain c : sigcat (code c) = true -> plain t c = true.
Proof.
  unfold sigcat, plain. intros H.
  repeat (apply orb_true_iff in H; destruct H as [H|H]); apply N.eqb_eq in H; rewrite H; reflexivity.
Qed.

Lemma sigcat_significant k : sigcat k = true -> significant k.
Proof.
  unfold sigcat, significant. intros H.
  repeat (apply orb_true_iff in H; destruct H as [H|H]); apply N.eqb_eq in H; subst; tauto.
Qed.

Definition first_char (l : list N) : option N := match l with [] => None | c :: _ => Some c end.

(* every item starts with a character that is read as itself *)
Lemma item_first_plain i : item_ok t i = true ->
  exists c r, print_item i = c :: r /\ plain t c = true.
Proof.
  destruct i as [c|c cs| |e c w|e c|p body|c]; cbn [item_ok print_item]; intros H.
  - exists c, []. split; [reflexivity | now apply sigcat_plain].
  - cbn [forallb] in H. apply andb_true_iff in H. destruct H as (H & _). apply N.eqb_eq in H.
    exists c, cs. split; [reflexivity | eapply plain_of_code; [exact H | reflexivity]].
  - apply N.eqb_eq in H. exists 10, []. split; [reflexivity | eapply plain_of_code; [exact H | reflexivity]].
  - apply andb_true_iff in H. destruct H as (H & _). apply N.eqb_eq in H.
    exists e, (c :: w). split; [reflexivity | eapply plain_of_code; [exact H | reflexivity]].
  - repeat (apply andb_true_iff in H; destruct H as (H & ?)). apply N.eqb_eq in H.
    exists e, [c]. split; [reflexivity | eapply plain_of_code; [exact H | reflexivity]].
  - apply andb_true_iff in H. destruct H as (H & _). apply N.eqb_eq in H.
    exists p, (body ++ [10]). split; [reflexivity | eapply plain_of_code; [exact H | reflexivity]].
  - apply N.eqb_eq in H. exists c, []. split; [reflexivity | eapply plain_of_code; [exact H | reflexivity]].
Qed.

(* what follows a control word does not start with a letter *)
Lemma rest_not_letter l : items_ok t l = true -> starts_with_letter t l = false ->
  print_items l = [] \/ exists c r, print_items l = c :: r /\ plain t c = true /\ code c <> CC_LETTER.
Proof.
  destruct l as [|i l]; [left; reflexivity|]. intros Hok Hs. right.
  cbn [items_ok] in Hok. apply andb_true_iff in Hok. destruct Hok as (Hok & _). apply andb_true_iff in Hok. destruct Hok as (Hi & _).
  destruct (item_first_plain i Hi) as (c & r & Hp & Hpl).
  exists c, (r ++ print_items l). cbn [print_items flat_map]. rewrite Hp. split; [reflexivity|]. split; [assumption|].
  destruct i as [c0|c0 cs| |e c0 w|e c0|p body|c0]; cbn [print_item] in Hp; inversion Hp; subst; cbn [item_ok] in Hi.
  - cbn in Hs. now apply N.eqb_neq.
  - cbn [forallb] in Hi. apply andb_true_iff in Hi. destruct Hi as (Hi & _). apply N.eqb_eq in Hi. rewrite Hi. discriminate.
  - apply N.eqb_eq in Hi. rewrite Hi. discriminate.
  - apply andb_true_iff in Hi. destruct Hi as (Hi & _). apply N.eqb_eq in Hi. rewrite Hi. discriminate.
  - repeat (apply andb_true_iff in Hi; destruct Hi as (Hi & ?)). apply N.eqb_eq in Hi. rewrite Hi. discriminate.
  - apply andb_true_iff in Hi. destruct Hi as (Hi & _). apply N.eqb_eq in Hi. rewrite Hi. discriminate.
  - apply N.eqb_eq in Hi. rewrite Hi. discriminate.
Qed.

Lemma letter_run w : forall rest,
  forallb (fun x => code x =? CC_LETTER) w = true ->
  (rest = [] \/ exists c r, rest = c :: r /\ plain t c = true /\ code c <> CC_LETTER) ->
  LetterRun t (w ++ rest) w rest.
Proof.
  induction w as [|c w IH]; intros rest Hw Hr.
  - cbn [app]. destruct Hr as [-> | (c & r & -> & Hp & Hn)].
    + apply LREnd. constructor.
    + eapply LRStop; [apply dec_plain; exact Hp | exact Hn].
  - cbn [forallb] in Hw. apply andb_true_iff in Hw. destruct Hw as (Hc & Hw). apply N.eqb_eq in Hc.
    cbn [app]. eapply LRLetter; [| apply IH; assumption].
    rewrite <- Hc. apply dec_plain. eapply plain_of_code; [exact Hc | reflexivity].
Qed.

Lemma readline_body body : forall rest, forallb (fun x => negb (x =? 10)) body = true -> readline (body ++ 10 :: rest) = rest.
Proof.
  induction body as [|x body IH]; intros rest H; [reflexivity|].
  cbn [forallb] in H. apply andb_true_iff in H. destruct H as (Hx & Hb). apply negb_true_iff in Hx.
  cbn [app readline]. rewrite Hx. now apply IH.
Qed.

(* blanks are skipped in states S and N *)
Lemma lex_skip_blanks cs : forall st pv rest toks,
  forallb (fun x => code x =? CC_SPACE) cs = true -> st <> SM ->
  Lex t {| lx := st; prev := pv; inp := rest |} toks ->
  Lex t {| lx := st; prev := pv; inp := cs ++ rest |} toks.
Proof.
  induction cs as [|c cs IH]; intros st pv rest toks H Hst HL; [exact HL|].
  cbn [forallb] in H. apply andb_true_iff in H. destruct H as (Hc & Hcs). apply N.eqb_eq in Hc.
  cbn [app]. eapply LexSkip; [| apply IH; eassumption].
  pose proof (LxSpaceSkip t {| lx := st; prev := pv; inp := c :: cs ++ rest |} c (cs ++ rest)) as L. cbn [lx prev inp] in L.
  apply L; [|exact Hst]. rewrite <- Hc. apply dec_plain. eapply plain_of_code; [exact Hc | reflexivity].
Qed.

Theorem items_lex l : forall st pv,
  items_ok t l = true ->
  Lex t {| lx := st; prev := pv; inp := print_items l |} (lex_items t st pv l).
Proof.
  induction l as [|i l IH]; intros st pv Hok.
  - cbn. apply LexDone. apply LxEnd. constructor.
  - cbn [items_ok] in Hok. apply andb_true_iff in Hok. destruct Hok as (Hok & Hl). apply andb_true_iff in Hok. destruct Hok as (Hi & Hfollow).
    cbn [print_items flat_map]. fold (print_items l).
    destruct i as [c|c cs| |e c w|e c|p body|c]; cbn [item_ok] in Hi; cbn [print_item lex_items app].
    + (* significant character *)
      eapply LexEmit; [| apply IH; exact Hl].
      pose proof (LxChar t {| lx := st; prev := pv; inp := c :: print_items l |} (code c) c (print_items l)) as L. cbn [inp] in L.
      apply L; [apply dec_plain; now apply sigcat_plain | now apply sigcat_significant].
    + (* blanks *)
      cbn [forallb] in Hi. apply andb_true_iff in Hi. destruct Hi as (Hc & Hcs). apply N.eqb_eq in Hc.
      assert (Hd : Dec t (c :: cs ++ print_items l) (CChar CC_SPACE c (cs ++ print_items l))).
      { rewrite <- Hc. apply dec_plain. eapply plain_of_code; [exact Hc | reflexivity]. }
      destruct st.
      * eapply LexSkip; [| apply (lex_skip_blanks cs SN pv (print_items l) _ Hcs); [discriminate | apply IH; exact Hl]].
        pose proof (LxSpaceSkip t {| lx := SN; prev := pv; inp := c :: cs ++ print_items l |} c (cs ++ print_items l)) as L. cbn [lx prev inp] in L.
        apply L; [exact Hd | discriminate].
      * eapply LexEmit; [| apply (lex_skip_blanks cs SS (Some space_tok) (print_items l) _ Hcs); [discriminate | apply IH; exact Hl]].
        pose proof (LxSpaceM t {| lx := SM; prev := pv; inp := c :: cs ++ print_items l |} c (cs ++ print_items l)) as L. cbn [lx inp] in L.
        apply L; [exact Hd | reflexivity].
      * eapply LexSkip; [| apply (lex_skip_blanks cs SS pv (print_items l) _ Hcs); [discriminate | apply IH; exact Hl]].
        pose proof (LxSpaceSkip t {| lx := SS; prev := pv; inp := c :: cs ++ print_items l |} c (cs ++ print_items l)) as L. cbn [lx prev inp] in L.
        apply L; [exact Hd | discriminate].
    + (* newline *)
      apply N.eqb_eq in Hi.
      assert (Hd : Dec t (10 :: print_items l) (CChar CC_EOL 10 (print_items l))).
      { rewrite <- Hi. apply dec_plain. eapply plain_of_code; [exact Hi | reflexivity]. }
      destruct st.
      * destruct (prev_is pv par_tok) eqn:Hp.
        -- eapply LexSkip; [| apply IH; exact Hl].
           pose proof (LxEolParAgain t {| lx := SN; prev := pv; inp := 10 :: print_items l |} 10 (print_items l)) as L. cbn [lx prev inp N.eqb Pos.eqb] in L.
           apply L; [exact Hd | reflexivity | exact Hp].
        -- eapply LexEmit; [| apply IH; exact Hl].
           pose proof (LxEolPar t {| lx := SN; prev := pv; inp := 10 :: print_items l |} 10 (print_items l)) as L. cbn [lx prev inp N.eqb Pos.eqb] in L.
           apply L; [exact Hd | reflexivity | exact Hp].
      * eapply LexEmit; [| apply IH; exact Hl].
        pose proof (LxEolM t {| lx := SM; prev := pv; inp := 10 :: print_items l |} 10 (print_items l)) as L. cbn [lx inp] in L.
        apply L; [exact Hd | reflexivity].
      * eapply LexSkip; [| apply IH; exact Hl].
        pose proof (LxEolS t {| lx := SS; prev := pv; inp := 10 :: print_items l |} 10 (print_items l)) as L. cbn [lx prev inp] in L.
        apply L; [exact Hd | reflexivity].
    + (* control word *)
      apply andb_true_iff in Hi. destruct Hi as (He & Hw). apply N.eqb_eq in He.
      cbn [forallb] in Hw. apply andb_true_iff in Hw. destruct Hw as (Hc & Hw). apply N.eqb_eq in Hc.
      apply negb_true_iff in Hfollow.
      eapply LexEmit; [| apply IH; exact Hl].
      pose proof (LxCtrlWord t {| lx := st; prev := pv; inp := e :: c :: w ++ print_items l |} e (c :: w ++ print_items l) c (w ++ print_items l) w (print_items l)) as L.
      cbn [inp] in L. apply L.
      * rewrite <- He. apply dec_plain. eapply plain_of_code; [exact He | reflexivity].
      * rewrite <- Hc. apply dec_plain. eapply plain_of_code; [exact Hc | reflexivity].
      * apply letter_run; [exact Hw | apply rest_not_letter; assumption].
    + (* control symbol *)
      repeat (apply andb_true_iff in Hi; destruct Hi as (Hi & ?)). apply N.eqb_eq in Hi.
      eapply LexEmit; [| apply IH; exact Hl].
      pose proof (LxCtrlSym t {| lx := st; prev := pv; inp := e :: c :: print_items l |} e (c :: print_items l) (code c) c (print_items l)) as L.
      cbn [inp] in L. apply L.
      * rewrite <- Hi. apply dec_plain. eapply plain_of_code; [exact Hi | reflexivity].
      * now apply dec_plain.
      * apply N.eqb_neq. now apply negb_true_iff.
      * apply N.eqb_neq. now apply negb_true_iff.
    + (* comment *)
      apply andb_true_iff in Hi. destruct Hi as (Hp & Hb). apply N.eqb_eq in Hp.
      eapply LexSkip; [| apply IH; exact Hl].
      pose proof (LxComment t {| lx := st; prev := pv; inp := p :: (body ++ [10]) ++ print_items l |} p ((body ++ [10]) ++ print_items l)) as L.
      cbn [prev inp] in L. rewrite <- app_assoc in L. cbn [app] in L. rewrite (readline_body body (print_items l) Hb) in L.
      rewrite <- app_assoc. cbn [app]. apply L.
      rewrite <- Hp. apply dec_plain. eapply plain_of_code; [exact Hp | reflexivity].
    + (* active *)
      apply N.eqb_eq in Hi.
      eapply LexEmit; [| apply IH; exact Hl].
      pose proof (LxActive t {| lx := st; prev := pv; inp := c :: print_items l |} c (print_items l)) as L. cbn [inp] in L.
      apply L. rewrite <- Hi. apply dec_plain. eapply plain_of_code; [exact Hi | reflexivity].
Qed.

Theorem items_tokenize l : items_ok t l = true -> tokenize t (print_items l) = RToks (lex_items t SN None l).
Proof. intros H. apply lex_tokenize. apply (items_lex l SN None H). Qed.
End P.
