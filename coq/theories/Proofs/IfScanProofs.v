From Coq Require Import List ZArith Bool Lia ZifyBool.
Import ListNotations.
From Verif Require Import Val IfScan Cond.
Local Open Scope Z_scope.

Scheme item_mut := Induction for item Sort Prop
with items_mut := Induction for items Sort Prop
with segs_mut := Induction for segs Sort Prop.
Combined Scheme cond_mutind from item_mut, items_mut, segs_mut.

(* inside a conditional (nesting >= 1) every rendered segment separator is an ordinary token *)
Lemma scan_nested :
  (forall i n cur done els tl,
      scan_go (render_item i ++ tl) n cur done els = scan_go tl n (rev (render_item i) ++ cur) done els) /\
  (forall l n cur done els tl,
      scan_go (render_items l ++ tl) n cur done els = scan_go tl n (rev (render_items l) ++ cur) done els) /\
  (forall s n cur done els tl,
      scan_go (render_segs s ++ tl) (S n) cur done els = scan_go tl (S n) (rev (render_segs s) ++ cur) done els).
Proof.
  apply cond_mutind.
  - intros z n cur done els tl. reflexivity.
  - intros t n cur done els tl. reflexivity.
  - intros name first IHf more IHm n cur done els tl.
    cbn [render_item]. rewrite <- !app_comm_cons. cbn [scan_go].
    rewrite <- !app_assoc. rewrite IHf. rewrite IHm. cbn [app scan_go].
    f_equal. cbn [rev]. rewrite !rev_app_distr. cbn [rev app]. rewrite <- !app_assoc. reflexivity.
  - intros n cur done els tl. reflexivity.
  - intros i IHi r IHr n cur done els tl. cbn [render_items]. rewrite <- app_assoc, IHi, IHr.
    f_equal. rewrite rev_app_distr, <- app_assoc. reflexivity.
  - intros n cur done els tl. reflexivity.
  - intros e seg IHs r IHr n cur done els tl. cbn [render_segs]. rewrite <- app_comm_cons.
    assert (Hsep : forall x, x = KElse \/ x = KOr ->
              scan_go (x :: (render_items seg ++ render_segs r) ++ tl) (S n) cur done els =
              scan_go ((render_items seg ++ render_segs r) ++ tl) (S n) (x :: cur) done els)
      by (intros x [-> | ->]; reflexivity).
    rewrite Hsep by (destruct e; auto). rewrite <- app_assoc, IHs, IHr.
    f_equal. cbn [rev]. rewrite !rev_app_distr. cbn [rev app]. rewrite <- !app_assoc. reflexivity.
Qed.

Lemma scan_items l n cur done els tl :
  scan_go (render_items l ++ tl) n cur done els = scan_go tl n (rev (render_items l) ++ cur) done els.
Proof. destruct scan_nested as (_ & H & _). apply H. Qed.

(* the \or branches at nesting 0, then \fi or \else ... \fi *)
Lemma scan_ors_fi : forall ors cur done tl,
  scan_go (concat (map (fun s => KOr :: render_items s) ors) ++ KFi :: tl) O cur done None =
  Some {| cases := rev done ++ rev cur :: map render_items ors; elsecase := None; rest := tl; terminated := true |}.
Proof.
  induction ors as [|s ors IH]; intros cur done tl.
  - cbn. reflexivity.
  - cbn [map concat]. rewrite <- app_assoc. rewrite <- app_comm_cons. cbn [scan_go].
    rewrite scan_items, app_nil_r, IH. cbn [rev map]. rewrite rev_involutive, <- app_assoc. reflexivity.
Qed.

Lemma scan_ors_else_fi : forall ors cur done e tl,
  scan_go (concat (map (fun s => KOr :: render_items s) ors) ++ KElse :: render_items e ++ KFi :: tl) O cur done None =
  Some {| cases := rev done ++ rev cur :: map render_items ors ++ [render_items e];
          elsecase := Some (S (length done + length ors)); rest := tl; terminated := true |}.
Proof.
  induction ors as [|s ors IH]; intros cur done e tl.
  - cbn [map concat app scan_go length]. rewrite scan_items, app_nil_r. cbn [scan_go rev].
    rewrite rev_involutive, Nat.add_0_r, <- !app_assoc. reflexivity.
  - cbn [map concat]. rewrite <- app_assoc. rewrite <- app_comm_cons. cbn [scan_go].
    rewrite scan_items, app_nil_r, IH. cbn [rev map length]. rewrite rev_involutive, <- !app_assoc.
    cbn [app]. replace (S (length done) + length ors)%nat with (length done + S (length ors))%nat by lia. reflexivity.
Qed.

Definition cases_of (c : cond_text) : list (list ctok) :=
  render_items (c_first c) :: map render_items (c_ors c) ++
  match c_else c with Some e => [render_items e] | None => [] end.

(* M1: scanning the rendering of a conditional's text, followed by \fi and anything, gives back its branches,
   the position of \else, and leaves what follows \fi untouched *)
Lemma scan_render c tl :
  scan (render_cond c ++ KFi :: tl) =
  Some {| cases := cases_of c;
          elsecase := match c_else c with Some _ => Some (S (length (c_ors c))) | None => None end;
          rest := tl; terminated := true |}.
Proof.
  unfold scan, render_cond, cases_of. destruct c as [first ors els]. cbn [c_first c_ors c_else].
  rewrite <- !app_assoc. rewrite scan_items, app_nil_r.
  destruct els as [e|].
  - rewrite <- app_comm_cons, scan_ors_else_fi. cbn [rev app length]. rewrite rev_involutive. reflexivity.
  - cbn [app]. rewrite scan_ors_fi. cbn [rev app]. rewrite rev_involutive, app_nil_r. reflexivity.
Qed.

Lemma nth_map_items (l : list items) n : nth n (map render_items l) [] = render_items (nth n l INil).
Proof. revert n; induction l as [|x l IH]; intros [|n]; cbn; auto. Qed.

(* M2/M3: what is pushed back is TeX's selection *)
Lemma select_render w c tl :
  select w {| cases := cases_of c;
              elsecase := match c_else c with Some _ => Some (S (length (c_ors c))) | None => None end;
              rest := tl; terminated := true |} = render_items (select_spec w c).
Proof.
  destruct c as [first ors els]. unfold select, select_spec, cases_of. cbn [cases elsecase c_first c_ors c_else].
  set (n := length ors).
  assert (Hnth_else : forall e, nth (S n) (render_items first :: map render_items ors ++ [render_items e]) [] = render_items e).
  { intros e. cbn [nth]. rewrite app_nth2; rewrite map_length; [|unfold n; lia]. replace (n - length ors)%nat with O by (unfold n; lia). reflexivity. }
  assert (Hnth_or : forall k tail, (k < n)%nat ->
             nth (S k) (render_items first :: map render_items ors ++ tail) [] = render_items (nth k ors INil)).
  { intros k tail Hk. cbn [nth]. rewrite app_nth1 by (rewrite map_length; exact Hk). apply nth_map_items. }
  destruct els as [e|].
  - destruct w as [[|]|z].
    + reflexivity.
    + apply Hnth_else.
    + destruct (z =? 0) eqn:Hz0.
      * apply Z.eqb_eq in Hz0. subst z. cbn. reflexivity.
      * apply Z.eqb_neq in Hz0.
        destruct (0 <=? z) eqn:H0; destruct (z <? Z.of_nat (S n)) eqn:H1; cbn [andb];
          destruct (0 <? z) eqn:H2; destruct (z <=? Z.of_nat n) eqn:H3; cbn [andb]; try lia; try apply Hnth_else.
        remember (Z.to_nat z - 1)%nat as k eqn:Hk. replace (Z.to_nat z) with (S k) by lia. apply Hnth_or. lia.
  - rewrite app_nil_r. cbn [length]. rewrite map_length. fold n.
    assert (Hnth_none : nth (S n) ((render_items first :: map render_items ors) ++ [[]]) [] = []).
    { rewrite app_nth2; cbn [length]; rewrite map_length; [|unfold n; lia]. replace (S n - S (length ors))%nat with O by (unfold n; lia). reflexivity. }
    destruct w as [[|]|z].
    + reflexivity.
    + apply Hnth_none.
    + destruct (z =? 0) eqn:Hz0.
      * apply Z.eqb_eq in Hz0. subst z. cbn. reflexivity.
      * apply Z.eqb_neq in Hz0.
        destruct (0 <=? z) eqn:H0; destruct (z <? Z.of_nat (S n)) eqn:H1; cbn [andb];
          destruct (0 <? z) eqn:H2; destruct (z <=? Z.of_nat n) eqn:H3; cbn [andb]; try lia; try apply Hnth_none.
        remember (Z.to_nat z - 1)%nat as k eqn:Hk. replace (Z.to_nat z) with (S k) by lia.
        change ((render_items first :: map render_items ors) ++ [[]]) with (render_items first :: map render_items ors ++ [[]]).
        apply Hnth_or. lia.
Qed.

(* M1-M4 together: after processIfContent the stream is exactly TeX's selected branch followed by what came after \fi;
   every token of every other branch, the separators and the \fi are gone *)
Lemma process_spec w c tl :
  process w (render_cond c ++ KFi :: tl) = Some (render_items (select_spec w c) ++ tl).
Proof. unfold process. rewrite scan_render. cbn [rest]. now rewrite select_render. Qed.
