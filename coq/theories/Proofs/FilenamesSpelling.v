(* C15, M7 for every spelling of the documented template grammar: $x and ${ x }, ( width ) with blanks, blanks after "[",
   before "]" and around ",".  Each of the six normalising substitutions of parseFilenames is followed token by token. *)
From Coq Require Import List ZArith NArith Bool Lia ZifyBool.
Import ListNotations.
From Verif Require Import Val Filenames FilenamesProofs FilenamesSpec.
Local Open Scope Z_scope.

(* how a variable is written *)
Record vsty := { v_braced : bool;            (* ${x} rather than $x *)
                 v_in1 : str; v_in2 : str;   (* blanks inside the braces: ${ x } *)
                 v_w1 : str; v_w2 : str }.   (* blanks inside the parentheses of the width: ( 4 ) *)

Inductive stok :=
| SLitT (l : str) | SVarT (x : str) (w : option str) (s : vsty) | SSp
| SLbT (sp : str)            (* "[" and blanks *)
| SRbT (sp : str)            (* blanks and "]" *)
| SCmT (sp1 sp2 : str).      (* blanks "," blanks *)

Definition erase (t : stok) : tok :=
  match t with
  | SLitT l => KLit l | SVarT x w _ => KVar x w | SSp => KSp | SLbT _ => KLb | SRbT _ => KRb | SCmT _ _ => KCm
  end.

Definition pr_width (w : option str) (s : vsty) : str :=
  match w with None => [] | Some d => 40 :: v_w1 s ++ d ++ v_w2 s ++ [41] end.

(* the text of a token after k of the six substitutions (k = 0: as written, k = 6: normalised) *)
Definition prs (k : nat) (t : stok) : str :=
  match t with
  | SLitT l => l
  | SVarT x w s =>
      if Nat.leb 3 k then pr_var x w
      else (if v_braced s
            then (if Nat.leb 2 k then 36 :: 123 :: x ++ [125] else 36 :: 123 :: v_in1 s ++ x ++ v_in2 s ++ [125])
            else (if Nat.leb 1 k then 36 :: 123 :: x ++ [125] else 36 :: x)) ++ pr_width w s
  | SSp => [32]
  | SLbT sp => if Nat.leb 4 k then [91] else 91 :: sp
  | SRbT sp => if Nat.leb 5 k then [93] else sp ++ [93]
  | SCmT sp1 sp2 => if Nat.leb 6 k then [44] else sp1 ++ 44 :: sp2
  end.
Definition prss (k : nat) (ts : list stok) : str := flat_map (prs k) ts.

Definition nonword_next (o : option Z) : Prop := match o with None => True | Some ch => is_word ch = false end.

(* conditions under which the substitutions act token by token; [r] = the tokens that follow *)
Definition stok_ok (t : stok) (r : list stok) : Prop :=
  match t with
  | SLitT l => plain l /\ l <> []
  | SVarT x w s =>
      ident x /\ match w with Some d => digits d | None => True end /\
      spaces (v_in1 s) /\ spaces (v_in2 s) /\ spaces (v_w1 s) /\ spaces (v_w2 s) /\
      (v_braced s = false -> w = None -> nonword_next (hd_error (prss 0 r))) /\   (* $x is not run together with a following word *)
      (w = None -> hd_error (prss 2 r) <> Some 40)
  | SSp => exists ch, (forall k, hd_error (prss k r) = Some ch) /\ after_sep ch = true
  | SLbT sp => spaces sp /\ exists ch, (forall k, hd_error (prss k r) = Some ch) /\ after_sep ch = true
  | SCmT sp1 sp2 => spaces sp1 /\ spaces sp2 /\ exists ch, (forall k, hd_error (prss k r) = Some ch) /\ after_sep ch = true
  | SRbT sp => spaces sp
  end.

Fixpoint stoks_ok (ts : list stok) : Prop :=
  match ts with [] => True | t :: r => stok_ok t r /\ stoks_ok r end.

(* ---- characters ---- *)
Lemma space_facts : forall ch, is_space ch = true ->
  is_word ch = false /\ ch <> 36 /\ ch <> 40 /\ ch <> 41 /\ ch <> 44 /\ ch <> 46 /\ ch <> 91 /\ ch <> 93 /\ ch <> 123 /\ ch <> 125.
Proof. intros ch H. unfold is_space, is_word, is_digit, is_alpha, between in *. lia. Qed.

Lemma spaces_In : forall sp ch, spaces sp -> In ch sp -> is_space ch = true.
Proof. intros sp ch H Hin. unfold spaces in H. rewrite Forall_forall in H. apply H. exact Hin. Qed.

Lemma span_prefix : forall p x r, Forall (fun c => p c = true) x ->
  (match r with [] => True | ch :: _ => p ch = false end) -> span p (x ++ r) = (x, r).
Proof.
  intros p x r H Hr. induction H as [|c x Hc H IH]; cbn [app span].
  - destruct r as [|ch r]; [reflexivity|]. cbn [span]. rewrite Hr. reflexivity.
  - rewrite Hc, IH. reflexivity.
Qed.

Lemma wordy_forall : forall x, wordy x -> Forall (fun c => is_word c = true) x.
Proof. intros x H. exact H. Qed.

(* a variable token at stages 0..2 starts with "$" and none of its other characters is a "$" *)
Lemma var_tail_no_dollar : forall k x w s r ch, stok_ok (SVarT x w s) r -> In ch (tl (prs k (SVarT x w s))) -> ch <> 36.
Proof.
  intros k x w s r ch [[Hx _] [Hw [S1 [S2 [S3 [S4 _]]]]]] Hin.
  assert (Hxc : forall c, In c x -> c <> 36) by (intros c Hc; apply (wordy_In x c Hx) in Hc; apply word_not_sep in Hc; tauto).
  assert (Hsp : forall sp c, spaces sp -> In c sp -> c <> 36) by (intros sp c Hs Hc; apply (spaces_In sp c Hs) in Hc; apply space_facts in Hc; tauto).
  assert (Hd : forall d c, w = Some d -> In c d -> c <> 36).
  { intros d c E Hc. subst w. apply (digits_In d c Hw) in Hc. apply word_not_sep in Hc. tauto. }
  unfold prs in Hin. destruct (Nat.leb 3 k).
  - unfold pr_var in Hin. destruct w as [d|]; cbn [tl] in Hin; split_in Hin; try discriminate; eauto.
  - unfold pr_width in Hin. destruct (v_braced s); destruct (Nat.leb 2 k); destruct (Nat.leb 1 k); destruct w as [d|];
      cbn [tl app] in Hin; split_in Hin; try discriminate; eauto.
Qed.

Definition is_sep (t : stok) : Prop := match t with SSp | SLbT _ | SRbT _ | SCmT _ _ => True | _ => False end.

Lemma sep_chars : forall k t r ch, stok_ok t r -> is_sep t -> In ch (prs k t) -> is_space ch = true \/ ch = 91 \/ ch = 93 \/ ch = 44.
Proof.
  intros k t r ch Hok Hs Hin. destruct t as [l|x w s| |sp|sp|sp1 sp2]; try contradiction; cbn [prs] in Hin.
  - destruct Hin as [E|[]]. subst. left. reflexivity.
  - destruct Hok as [Hsp _]. destruct (Nat.leb 4 k); split_in Hin; auto; left; apply (spaces_In sp); assumption.
  - cbn [stok_ok] in Hok. destruct (Nat.leb 5 k); split_in Hin; auto; left; apply (spaces_In sp); assumption.
  - destruct Hok as [H1 [H2 _]]. destruct (Nat.leb 6 k); split_in Hin; auto; left;
      [apply (spaces_In sp1) | apply (spaces_In sp2)]; assumption.
Qed.

Lemma sep_not_36_125 : forall ch, is_space ch = true \/ ch = 91 \/ ch = 93 \/ ch = 44 -> ch <> 36 /\ ch <> 125.
Proof. intros ch [H|[H|[H|H]]]; [apply space_facts in H; tauto | subst; split; discriminate ..]. Qed.

Lemma prss_cons : forall k t r, prss k (t :: r) = prs k t ++ prss k r.
Proof. reflexivity. Qed.

(* a separator token is the same text at stages j and j+1 unless pass j+1 is "its" pass *)
Lemma sep_same_012 : forall t j, is_sep t -> (j < 3)%nat -> prs j t = prs (S j) t.
Proof.
  intros t j Hs Hj. destruct t; try contradiction; cbn [prs]; try reflexivity;
    destruct j as [|[|[|j]]]; try lia; reflexivity.
Qed.

(* pass 1:  \$(\w+) -> ${\1} *)
Lemma spass_dollar : forall ts, stoks_ok ts -> resub m_dollar 0 (prss 0 ts) = prss 1 ts.
Proof.
  induction ts as [|t ts IH]; intro H; [reflexivity|]. destruct H as [Ht Hr]. specialize (IH Hr). rewrite !prss_cons.
  destruct t as [l|x w s| |sp|sp|sp1 sp2].
  - cbn [prs]. rewrite resub_nomatch; [rewrite IH; reflexivity|]. intros ch t Hc. apply m_dollar_head.
    destruct Ht as [Hp _]. apply (lit_chars l ch Hp) in Hc. apply plain_char in Hc. tauto.
  - pose proof (var_tail_no_dollar 0 x w s ts) as Tl. destruct Ht as [Hx [Hw [S1 [S2 [S3 [S4 [Hnext Hpar]]]]]]].
    assert (Hok : stok_ok (SVarT x w s) ts) by (cbn [stok_ok]; auto 10).
    destruct (v_braced s) eqn:B.
    + (* ${...}: "$" is followed by "{" *)
      cbn [prs Nat.leb]. rewrite B. cbn [prs Nat.leb] in Tl. rewrite B in Tl.
      change (((36 :: 123 :: v_in1 s ++ x ++ v_in2 s ++ [125]) ++ pr_width w s) ++ prss 0 ts)
        with (36 :: ((123 :: v_in1 s ++ x ++ v_in2 s ++ [125]) ++ pr_width w s) ++ prss 0 ts).
      rewrite resub_cons_nomatch.
      * rewrite IH. reflexivity.
      * reflexivity.
      * intros ch t Hc. apply m_dollar_head. apply (Tl ch Hok). exact Hc.
    + (* $x *)
      cbn [prs Nat.leb]. rewrite B. cbn [prs Nat.leb] in Tl. rewrite B in Tl.
      replace (((36 :: x) ++ pr_width w s) ++ prss 0 ts) with ((36 :: x) ++ pr_width w s ++ prss 0 ts) by (lnorm; reflexivity).
      rewrite (resub_match m_dollar (36 :: x) _ (36 :: 123 :: x ++ [125])).
      * rewrite resub_nomatch; [rewrite IH; lnorm; reflexivity|].
        intros ch t Hc. apply m_dollar_head. apply (Tl ch Hok). cbn [tl app]. apply in_or_app. right. exact Hc.
      * discriminate.
      * cbn [app]. unfold m_dollar. destruct Hx as [Hx Hid].
        assert (Sp : span is_word (x ++ pr_width w s ++ prss 0 ts) = (x, pr_width w s ++ prss 0 ts)).
        { apply span_prefix; [exact Hx|]. destruct w as [d|]; cbn [pr_width app]; [reflexivity|].
          specialize (Hnext eq_refl eq_refl). destruct (prss 0 ts); [exact I | exact Hnext]. }
        rewrite Sp. cbn [fst]. destruct x as [|c0 x']; [cbn in Hid; discriminate|]. reflexivity.
  - cbn [prs]. rewrite (resub_nomatch m_dollar [32]); [rewrite IH; reflexivity|]. intros ch t [Hc|[]]. subst. reflexivity.
  - rewrite <- (sep_same_012 (SLbT sp) 0 I) by lia. rewrite resub_nomatch; [rewrite IH; reflexivity|].
    intros ch t Hc. apply m_dollar_head. apply (sep_chars 0 _ ts ch Ht I) in Hc. apply sep_not_36_125 in Hc. tauto.
  - rewrite <- (sep_same_012 (SRbT sp) 0 I) by lia. rewrite resub_nomatch; [rewrite IH; reflexivity|].
    intros ch t Hc. apply m_dollar_head. apply (sep_chars 0 _ ts ch Ht I) in Hc. apply sep_not_36_125 in Hc. tauto.
  - rewrite <- (sep_same_012 (SCmT sp1 sp2) 0 I) by lia. rewrite resub_nomatch; [rewrite IH; reflexivity|].
    intros ch t Hc. apply m_dollar_head. apply (sep_chars 0 _ ts ch Ht I) in Hc. apply sep_not_36_125 in Hc. tauto.
Qed.

Lemma head_nonword_spaces : forall sp ch tl, spaces sp -> is_word ch = false ->
  match sp ++ ch :: tl with [] => True | c :: _ => is_word c = false end.
Proof.
  intros [|b sp] ch tl H Hc; cbn [app]; [exact Hc|]. inversion H; subst. apply space_facts in H2. tauto.
Qed.

Lemma m_braced_spaced : forall x i1 i2 tl, ident x -> spaces i1 -> spaces i2 ->
  m_braced (36 :: 123 :: i1 ++ x ++ i2 ++ 125 :: tl) =
  Some (36 :: 123 :: x ++ [125], length (36 :: 123 :: i1 ++ x ++ i2 ++ [125])).
Proof.
  intros x i1 i2 tl Hx H1 H2. pose proof (ident_ne x Hx) as Hne. destruct Hx as [Hx _]. unfold m_braced.
  assert (E1 : span is_space (i1 ++ x ++ i2 ++ 125 :: tl) = (i1, x ++ i2 ++ 125 :: tl)).
  { apply span_prefix; [exact H1|]. destruct x as [|c x']; [congruence|]. cbn [app]. inversion Hx; subst. apply word_not_space. assumption. }
  rewrite E1.
  assert (E2 : span is_word (x ++ i2 ++ 125 :: tl) = (x, i2 ++ 125 :: tl)).
  { apply span_prefix; [exact Hx|]. apply head_nonword_spaces; [exact H2 | reflexivity]. }
  rewrite E2.
  assert (E3 : span is_space (i2 ++ 125 :: tl) = (i2, 125 :: tl)) by (apply span_app; [exact H2 | reflexivity]).
  rewrite E3. destruct x as [|c x']; [congruence|]. unfold c_dollar, c_lbrace, c_rbrace. f_equal. f_equal. llen.
Qed.

(* pass 2:  \${\s*(\w+)\s*} -> ${\1} *)
Lemma spass_braced : forall ts, stoks_ok ts -> resub m_braced 0 (prss 1 ts) = prss 2 ts.
Proof.
  induction ts as [|t ts IH]; intro H; [reflexivity|]. destruct H as [Ht Hr]. specialize (IH Hr). rewrite !prss_cons.
  destruct t as [l|x w s| |sp|sp|sp1 sp2].
  - cbn [prs]. rewrite resub_nomatch; [rewrite IH; reflexivity|]. intros ch t Hc. apply m_braced_head.
    destruct Ht as [Hp _]. apply (lit_chars l ch Hp) in Hc. apply plain_char in Hc. tauto.
  - pose proof (var_tail_no_dollar 1 x w s ts) as Tl. destruct Ht as [Hx [Hw [S1 [S2 [S3 [S4 [Hnext Hpar]]]]]]].
    assert (Hok : stok_ok (SVarT x w s) ts) by (cbn [stok_ok]; auto 10).
    assert (Hwd : forall ch, In ch (pr_width w s) -> ch <> 36).
    { intros ch Hc. unfold pr_width in Hc. destruct w as [d|]; [|destruct Hc]. split_in Hc; try discriminate.
      - apply (spaces_In _ ch S3) in Hc. apply space_facts in Hc. tauto.
      - apply (digits_In d ch Hw) in Hc. apply word_not_sep in Hc. tauto.
      - apply (spaces_In _ ch S4) in Hc. apply space_facts in Hc. tauto. }
    cbn [prs Nat.leb].
    assert (G : forall i1 i2, spaces i1 -> spaces i2 ->
              resub m_braced 0 (((36 :: 123 :: i1 ++ x ++ i2 ++ [125]) ++ pr_width w s) ++ prss 1 ts) =
              ((36 :: 123 :: x ++ [125]) ++ pr_width w s) ++ prss 2 ts).
    { intros i1 i2 H1 H2.
      replace (((36 :: 123 :: i1 ++ x ++ i2 ++ [125]) ++ pr_width w s) ++ prss 1 ts)
        with ((36 :: 123 :: i1 ++ x ++ i2 ++ [125]) ++ pr_width w s ++ prss 1 ts) by (lnorm; reflexivity).
      rewrite (resub_match m_braced (36 :: 123 :: i1 ++ x ++ i2 ++ [125]) _ (36 :: 123 :: x ++ [125])).
      - rewrite resub_nomatch; [rewrite IH; lnorm; reflexivity|]. intros ch t Hc. apply m_braced_head. apply Hwd. exact Hc.
      - discriminate.
      - replace ((36 :: 123 :: i1 ++ x ++ i2 ++ [125]) ++ pr_width w s ++ prss 1 ts)
          with (36 :: 123 :: i1 ++ x ++ i2 ++ 125 :: (pr_width w s ++ prss 1 ts)) by (lnorm; reflexivity).
        apply m_braced_spaced; assumption. }
    destruct (v_braced s).
    + apply G; assumption.
    + apply (G [] []); constructor.
  - cbn [prs]. rewrite (resub_nomatch m_braced [32]); [rewrite IH; reflexivity|]. intros ch t [Hc|[]]. subst. reflexivity.
  - rewrite <- (sep_same_012 (SLbT sp) 1 I) by lia. rewrite resub_nomatch; [rewrite IH; reflexivity|].
    intros ch t Hc. apply m_braced_head. apply (sep_chars 1 _ ts ch Ht I) in Hc. apply sep_not_36_125 in Hc. tauto.
  - rewrite <- (sep_same_012 (SRbT sp) 1 I) by lia. rewrite resub_nomatch; [rewrite IH; reflexivity|].
    intros ch t Hc. apply m_braced_head. apply (sep_chars 1 _ ts ch Ht I) in Hc. apply sep_not_36_125 in Hc. tauto.
  - rewrite <- (sep_same_012 (SCmT sp1 sp2) 1 I) by lia. rewrite resub_nomatch; [rewrite IH; reflexivity|].
    intros ch t Hc. apply m_braced_head. apply (sep_chars 1 _ ts ch Ht I) in Hc. apply sep_not_36_125 in Hc. tauto.
Qed.

Lemma m_fmt_spaced : forall d w1 w2 tl, digits d -> spaces w1 -> spaces w2 ->
  m_fmt (125 :: 40 :: w1 ++ d ++ w2 ++ 41 :: tl) = Some (46 :: d ++ [125], length (125 :: 40 :: w1 ++ d ++ w2 ++ [41])).
Proof.
  intros d w1 w2 tl [Hne Hd] H1 H2. unfold m_fmt.
  assert (Hdw : Forall (fun c => is_word c = true) d).
  { apply Forall_forall. intros c Hc. rewrite Forall_forall in Hd. apply digit_word. apply Hd. exact Hc. }
  assert (E1 : span is_space (w1 ++ d ++ w2 ++ 41 :: tl) = (w1, d ++ w2 ++ 41 :: tl)).
  { apply span_prefix; [exact H1|]. destruct d as [|c d']; [congruence|]. cbn [app]. inversion Hdw; subst. apply word_not_space. assumption. }
  rewrite E1.
  assert (E2 : span is_digit (d ++ w2 ++ 41 :: tl) = (d, w2 ++ 41 :: tl)).
  { apply span_prefix; [exact Hd|]. destruct w2 as [|b w2']; cbn [app]; [reflexivity|]. inversion H2; subst.
    destruct (is_digit b) eqn:Db; [|reflexivity]. apply digit_word in Db. apply space_facts in H3. destruct H3 as [H3 _]. congruence. }
  rewrite E2.
  assert (E3 : span is_space (w2 ++ 41 :: tl) = (w2, 41 :: tl)) by (apply span_app; [exact H2 | reflexivity]).
  rewrite E3. destruct d as [|c d']; [congruence|]. unfold c_dot, c_rbrace. f_equal. f_equal. llen.
Qed.

Lemma var_stage2 : forall x w s, prs 2 (SVarT x w s) = (36 :: 123 :: x ++ [125]) ++ pr_width w s.
Proof. intros x w s. cbn [prs Nat.leb]. destruct (v_braced s); reflexivity. Qed.

(* pass 3:  \}\(\s*(\d+)\s*\) -> .\1} *)
Lemma spass_fmt : forall ts, stoks_ok ts -> resub m_fmt 0 (prss 2 ts) = prss 3 ts.
Proof.
  induction ts as [|t ts IH]; intro H; [reflexivity|]. destruct H as [Ht Hr]. specialize (IH Hr). rewrite !prss_cons.
  destruct t as [l|x w s| |sp|sp|sp1 sp2].
  - cbn [prs]. rewrite resub_nomatch; [rewrite IH; reflexivity|]. intros ch t Hc. apply m_fmt_head.
    destruct Ht as [Hp _]. apply (lit_chars l ch Hp) in Hc. apply plain_char in Hc. tauto.
  - destruct Ht as [Hx [Hw [S1 [S2 [S3 [S4 [Hnext Hpar]]]]]]]. rewrite var_stage2.
    assert (Hpre : forall ch t, In ch (36 :: 123 :: x) -> m_fmt (ch :: t) = None).
    { intros ch t Hc. apply m_fmt_head. split_in Hc; try discriminate. destruct Hx as [Hx _].
      apply (wordy_In x ch Hx) in Hc. apply word_not_sep in Hc. tauto. }
    change (prs 3 (SVarT x w s)) with (pr_var x w). destruct w as [d|]; cbn [pr_width pr_var].
    + replace (((36 :: 123 :: x ++ [125]) ++ 40 :: v_w1 s ++ d ++ v_w2 s ++ [41]) ++ prss 2 ts)
        with ((36 :: 123 :: x) ++ (125 :: 40 :: v_w1 s ++ d ++ v_w2 s ++ [41]) ++ prss 2 ts) by (lnorm; reflexivity).
      rewrite resub_nomatch; [|exact Hpre].
      rewrite (resub_match m_fmt (125 :: 40 :: v_w1 s ++ d ++ v_w2 s ++ [41]) _ (46 :: d ++ [125])).
      * rewrite IH. lnorm. reflexivity.
      * discriminate.
      * replace ((125 :: 40 :: v_w1 s ++ d ++ v_w2 s ++ [41]) ++ prss 2 ts)
          with (125 :: 40 :: v_w1 s ++ d ++ v_w2 s ++ 41 :: prss 2 ts) by (lnorm; reflexivity).
        apply m_fmt_spaced; assumption.
    + rewrite app_nil_r.
      replace ((36 :: 123 :: x ++ [125]) ++ prss 2 ts) with ((36 :: 123 :: x) ++ 125 :: [] ++ prss 2 ts) by (lnorm; reflexivity).
      rewrite resub_nomatch; [|exact Hpre]. rewrite resub_cons_nomatch.
      * rewrite IH. lnorm. reflexivity.
      * cbn [app]. apply m_fmt_no_paren. apply Hpar. reflexivity.
      * intros ch t [].
  - cbn [prs]. rewrite (resub_nomatch m_fmt [32]); [rewrite IH; reflexivity|]. intros ch t [Hc|[]]. subst. reflexivity.
  - rewrite <- (sep_same_012 (SLbT sp) 2 I) by lia. rewrite resub_nomatch; [rewrite IH; reflexivity|].
    intros ch t Hc. apply m_fmt_head. apply (sep_chars 2 _ ts ch Ht I) in Hc. apply sep_not_36_125 in Hc. tauto.
  - rewrite <- (sep_same_012 (SRbT sp) 2 I) by lia. rewrite resub_nomatch; [rewrite IH; reflexivity|].
    intros ch t Hc. apply m_fmt_head. apply (sep_chars 2 _ ts ch Ht I) in Hc. apply sep_not_36_125 in Hc. tauto.
  - rewrite <- (sep_same_012 (SCmT sp1 sp2) 2 I) by lia. rewrite resub_nomatch; [rewrite IH; reflexivity|].
    intros ch t Hc. apply m_fmt_head. apply (sep_chars 2 _ ts ch Ht I) in Hc. apply sep_not_36_125 in Hc. tauto.
Qed.

(* from stage 3 on, literal and variable tokens are in their final form *)
Lemma litvar_stage3 : forall k t, (3 <= k)%nat -> (match t with SLitT _ | SVarT _ _ _ => True | _ => False end) ->
  prs k t = pr_tok_int (erase t).
Proof.
  intros k t Hk Ht. destruct t as [l|x w s| | | |]; try contradiction; cbn [prs erase pr_tok_int]; [reflexivity|].
  replace (Nat.leb 3 k) with true by (symmetry; apply Nat.leb_le; exact Hk). reflexivity.
Qed.

Lemma litvar_tok_ok : forall t r, stok_ok t r -> (match t with SLitT _ | SVarT _ _ _ => True | _ => False end) -> tok_ok (erase t) None.
Proof.
  intros t r H Ht. destruct t as [l|x w s| | | |]; try contradiction; cbn [erase tok_ok stok_ok] in *; [exact H|]. tauto.
Qed.

Lemma litvar_chars : forall k t r ch, (3 <= k)%nat -> stok_ok t r -> (match t with SLitT _ | SVarT _ _ _ => True | _ => False end) ->
  In ch (prs k t) -> is_space ch = false /\ ch <> 91 /\ ch <> 93 /\ ch <> 44.
Proof.
  intros k t r ch Hk Hok Ht Hin. rewrite (litvar_stage3 k t Hk Ht) in Hin.
  apply (int_tok_chars (erase t) None ch (litvar_tok_ok t r Hok Ht)); [|exact Hin]. destruct t; try contradiction; exact I.
Qed.

Lemma next_char : forall k ts ch, (forall j, hd_error (prss j ts) = Some ch) -> after_sep ch = true ->
  exists r, prss k ts = ch :: r /\ is_space ch = false /\ ch <> 93 /\ ch <> 44.
Proof.
  intros k ts ch H A. destruct (hd_error_cons _ _ (H k)) as [r E]. exists r. split; [exact E|]. apply after_sep_facts. exact A.
Qed.

(* pass 4:  \[\s* -> [ *)
Lemma spass_lbrack : forall ts, stoks_ok ts -> resub m_lbrack 0 (prss 3 ts) = prss 4 ts.
Proof.
  induction ts as [|t ts IH]; intro H; [reflexivity|]. destruct H as [Ht Hr]. specialize (IH Hr). rewrite !prss_cons.
  destruct t as [l|x w s| |sp|sp|sp1 sp2].
  - cbn [prs]. rewrite resub_nomatch; [rewrite IH; reflexivity|]. intros ch t Hc. apply m_lbrack_head.
    apply (litvar_chars 3 (SLitT l) ts ch) in Hc; [tauto | lia | exact Ht | exact I].
  - rewrite (litvar_stage3 3 (SVarT x w s)), (litvar_stage3 4 (SVarT x w s)) by (try lia; exact I).
    rewrite resub_nomatch; [rewrite IH; reflexivity|]. intros ch t Hc. apply m_lbrack_head.
    rewrite <- (litvar_stage3 3 (SVarT x w s)) in Hc by (try lia; exact I).
    apply (litvar_chars 3 (SVarT x w s) ts ch) in Hc; [tauto | lia | exact Ht | exact I].
  - cbn [prs]. rewrite (resub_nomatch m_lbrack [32]); [rewrite IH; reflexivity|]. intros ch t [Hc|[]]. subst. reflexivity.
  - destruct Ht as [Hsp [ch [Hn A]]]. destruct (next_char 3 ts ch Hn A) as [r [E [S1 _]]]. cbn [prs Nat.leb].
    rewrite (resub_match m_lbrack (91 :: sp) (prss 3 ts) [91]).
    + rewrite IH. reflexivity.
    + discriminate.
    + cbn [app]. unfold m_lbrack. rewrite E.
      assert (Sp : span is_space (sp ++ ch :: r) = (sp, ch :: r)) by (apply span_app; assumption).
      rewrite Sp. reflexivity.
  - cbn [prs Nat.leb]. rewrite resub_nomatch; [rewrite IH; reflexivity|]. intros ch t Hc. apply m_lbrack_head.
    split_in Hc; try discriminate. apply (spaces_In sp ch Ht) in Hc. apply space_facts in Hc. tauto.
  - destruct Ht as [H1 [H2 _]]. cbn [prs Nat.leb]. rewrite resub_nomatch; [rewrite IH; reflexivity|]. intros ch t Hc. apply m_lbrack_head.
    split_in Hc; try discriminate; [apply (spaces_In sp1 ch H1) in Hc | apply (spaces_In sp2 ch H2) in Hc]; apply space_facts in Hc; tauto.
Qed.

Lemma rb_blanks : forall sp ch r, spaces sp -> is_space ch = false -> ch <> 93 ->
  resub m_rbrack 0 (sp ++ ch :: r) = sp ++ resub m_rbrack 0 (ch :: r).
Proof.
  intros sp ch r H Hs Hc. induction H as [|b sp Hb H IH]; [reflexivity|]. cbn [app resub].
  assert (M : m_rbrack (b :: sp ++ ch :: r) = None).
  { unfold m_rbrack. change (b :: sp ++ ch :: r) with ((b :: sp) ++ ch :: r).
    rewrite (span_app is_space (b :: sp) ch r); [|constructor; assumption|exact Hs].
    destruct ch as [|p|p]; try reflexivity. do 7 (destruct p as [p|p|]; try reflexivity). congruence. }
  rewrite M. rewrite IH. reflexivity.
Qed.

(* pass 5:  \s*\] -> ] *)
Lemma spass_rbrack : forall ts, stoks_ok ts -> resub m_rbrack 0 (prss 4 ts) = prss 5 ts.
Proof.
  induction ts as [|t ts IH]; intro H; [reflexivity|]. destruct H as [Ht Hr]. specialize (IH Hr). rewrite !prss_cons.
  destruct t as [l|x w s| |sp|sp|sp1 sp2].
  - cbn [prs]. rewrite resub_nomatch; [rewrite IH; reflexivity|]. intros ch t Hc.
    apply (litvar_chars 4 (SLitT l) ts ch) in Hc; [apply m_rbrack_head; tauto | lia | exact Ht | exact I].
  - rewrite (litvar_stage3 4 (SVarT x w s)), (litvar_stage3 5 (SVarT x w s)) by (try lia; exact I).
    rewrite resub_nomatch; [rewrite IH; reflexivity|]. intros ch t Hc.
    rewrite <- (litvar_stage3 4 (SVarT x w s)) in Hc by (try lia; exact I).
    apply (litvar_chars 4 (SVarT x w s) ts ch) in Hc; [apply m_rbrack_head; tauto | lia | exact Ht | exact I].
  - destruct Ht as [ch [Hn A]]. destruct (next_char 4 ts ch Hn A) as [r [E [S1 [S2 _]]]]. cbn [prs].
    rewrite E. rewrite (rb_blanks [32] ch r); [rewrite <- E, IH; reflexivity | repeat constructor | exact S1 | exact S2].
  - cbn [prs Nat.leb]. rewrite (resub_nomatch m_rbrack [91]); [rewrite IH; reflexivity|]. intros ch t [Hc|[]]. subst. reflexivity.
  - cbn [prs Nat.leb]. cbn [stok_ok] in Ht. rewrite (resub_match m_rbrack (sp ++ [93]) (prss 4 ts) [93]).
    + rewrite IH. reflexivity.
    + intro E. apply app_eq_nil in E. destruct E; discriminate.
    + rewrite <- app_assoc. cbn [app]. unfold m_rbrack. assert (N93 : is_space 93 = false) by reflexivity.
      rewrite (span_app is_space sp 93 (prss 4 ts) Ht N93). f_equal. f_equal. llen.
  - destruct Ht as [H1 [H2 [ch [Hn A]]]]. destruct (next_char 4 ts ch Hn A) as [r [E [S1 [S2 _]]]]. cbn [prs Nat.leb].
    rewrite <- app_assoc. cbn [app]. assert (N44 : is_space 44 = false) by reflexivity. assert (D44 : 44 <> 93) by discriminate.
    rewrite (rb_blanks sp1 44 _ H1 N44 D44). cbn [resub].
    rewrite (m_rbrack_head 44 _ N44 D44). rewrite E. rewrite (rb_blanks sp2 ch r H2 S1 S2). rewrite <- E, IH. lnorm. reflexivity.
Qed.

(* pass 6:  \s*,\s* -> , *)
Lemma spass_comma : forall ts, stoks_ok ts -> resub m_comma 0 (prss 5 ts) = prss 6 ts.
Proof.
  induction ts as [|t ts IH]; intro H; [reflexivity|]. destruct H as [Ht Hr]. specialize (IH Hr). rewrite !prss_cons.
  destruct t as [l|x w s| |sp|sp|sp1 sp2].
  - cbn [prs]. rewrite resub_nomatch; [rewrite IH; reflexivity|]. intros ch t Hc.
    apply (litvar_chars 5 (SLitT l) ts ch) in Hc; [apply m_comma_head; tauto | lia | exact Ht | exact I].
  - rewrite (litvar_stage3 5 (SVarT x w s)), (litvar_stage3 6 (SVarT x w s)) by (try lia; exact I).
    rewrite resub_nomatch; [rewrite IH; reflexivity|]. intros ch t Hc.
    rewrite <- (litvar_stage3 5 (SVarT x w s)) in Hc by (try lia; exact I).
    apply (litvar_chars 5 (SVarT x w s) ts ch) in Hc; [apply m_comma_head; tauto | lia | exact Ht | exact I].
  - destruct Ht as [ch [Hn A]]. destruct (next_char 5 ts ch Hn A) as [r [E [S1 [_ S3]]]]. cbn [prs].
    change ([32] ++ prss 5 ts) with (32 :: [] ++ prss 5 ts). rewrite resub_cons_nomatch.
    + rewrite IH. reflexivity.
    + cbn [app]. unfold m_comma. rewrite E. cbn [span]. change (is_space 32) with true. cbv iota. rewrite S1.
      destruct ch as [|p|p]; try reflexivity. do 6 (destruct p as [p|p|]; try reflexivity). congruence.
    + intros c t [].
  - cbn [prs Nat.leb]. rewrite (resub_nomatch m_comma [91]); [rewrite IH; reflexivity|]. intros ch t [Hc|[]]. subst. reflexivity.
  - cbn [prs Nat.leb]. rewrite (resub_nomatch m_comma [93]); [rewrite IH; reflexivity|]. intros ch t [Hc|[]]. subst. reflexivity.
  - destruct Ht as [H1 [H2 [ch [Hn A]]]]. destruct (next_char 5 ts ch Hn A) as [r [E [S1 _]]]. cbn [prs Nat.leb].
    rewrite (resub_match m_comma (sp1 ++ 44 :: sp2) (prss 5 ts) [44]).
    + rewrite IH. reflexivity.
    + intro E0. apply app_eq_nil in E0. destruct E0; discriminate.
    + rewrite <- app_assoc. cbn [app]. unfold m_comma. assert (N44 : is_space 44 = false) by reflexivity.
      rewrite (span_app is_space sp1 44 _ H1 N44). rewrite E.
      rewrite (span_app is_space sp2 ch r H2 S1). cbn [fst]. unfold c_comma. f_equal. f_equal. llen.
Qed.

Theorem spelled_normalise_passes : forall ts, stoks_ok ts ->
  resub m_comma 0 (resub m_rbrack 0 (resub m_lbrack 0 (resub m_fmt 0 (resub m_braced 0 (resub m_dollar 0 (prss 0 ts)))))) = prss 6 ts.
Proof.
  intros ts H. rewrite (spass_dollar ts H), (spass_braced ts H), (spass_fmt ts H), (spass_lbrack ts H), (spass_rbrack ts H).
  apply spass_comma. exact H.
Qed.

Lemma stage6_erase : forall ts, prss 6 ts = pr_ints (map erase ts).
Proof.
  induction ts as [|t ts IH]; [reflexivity|]. rewrite prss_cons. unfold pr_ints in *. cbn [map flat_map]. rewrite IH. f_equal.
  destruct t as [l|x w s| | | |]; reflexivity.
Qed.

(* ---- templates written in any spelling ---- *)
Definition spell_ok (t : stok) : Prop :=
  match t with
  | SVarT _ _ s => spaces (v_in1 s) /\ spaces (v_in2 s) /\ spaces (v_w1 s) /\ spaces (v_w2 s)
  | SLbT sp | SRbT sp => spaces sp
  | SCmT sp1 sp2 => spaces sp1 /\ spaces sp2
  | _ => True
  end.

(* "$x" (no braces, no width) must not be run together with a literal that starts with a word character *)
Fixpoint unbraced_ok (ts : list stok) : Prop :=
  match ts with
  | [] => True
  | t :: r =>
      (match t, r with
       | SVarT _ None s, SLitT (c :: _) :: _ => v_braced s = false -> is_word c = false
       | _, _ => True
       end) /\ unbraced_ok r
  end.

Lemma var_head : forall k x w s, exists tl, prs k (SVarT x w s) = 36 :: tl.
Proof.
  intros k x w s. cbn [prs]. destruct (Nat.leb 3 k); [destruct w; eexists; reflexivity|].
  destruct (v_braced s); destruct (Nat.leb 2 k); destruct (Nat.leb 1 k); eexists; reflexivity.
Qed.

(* the first character of what follows, by the kind of the next token *)
Lemma next_class : forall k r, toks_ok (map erase r) -> Forall spell_ok r ->
  match r with
  | [] => hd_error (prss k r) = None
  | t' :: _ => exists ch, hd_error (prss k r) = Some ch /\
                 match t' with
                 | SLitT l => hd_error l = Some ch /\ special ch = false
                 | SVarT _ _ _ => ch = 36 | SSp => ch = 32 | SLbT _ => ch = 91
                 | SRbT _ => is_space ch = true \/ ch = 93
                 | SCmT _ _ => is_space ch = true \/ ch = 44
                 end
  end.
Proof.
  intros k [|t' r'] Hok Hsp; [reflexivity|]. cbn [map toks_ok] in Hok. destruct Hok as [Ht _]. inversion Hsp as [|? ? Hs _]; subst.
  rewrite prss_cons. destruct t' as [l|x w s| |sp|sp|sp1 sp2]; cbn [erase tok_ok spell_ok] in *.
  - destruct Ht as [Hp Hne]. destruct l as [|c l]; [congruence|]. exists c. cbn [prs app hd_error]. split; [reflexivity|]. split; [reflexivity|].
    inversion Hp; subst. assumption.
  - destruct (var_head k x w s) as [tl E]. rewrite E. exists 36. split; reflexivity.
  - exists 32. split; reflexivity.
  - exists 91. cbn [prs]. destruct (Nat.leb 4 k); split; reflexivity.
  - cbn [prs]. destruct (Nat.leb 5 k); [exists 93; split; [reflexivity | right; reflexivity]|].
    destruct sp as [|b sp]; [exists 93; split; [reflexivity | right; reflexivity]|]. exists b. split; [reflexivity|]. left. inversion Hs; subst. assumption.
  - destruct Hs as [H1 H2]. cbn [prs]. destruct (Nat.leb 6 k); [exists 44; split; [reflexivity | right; reflexivity]|].
    destruct sp1 as [|b sp]; [exists 44; split; [reflexivity | right; reflexivity]|]. exists b. split; [reflexivity|]. left. inversion H1; subst. assumption.
Qed.

(* after a separator the old (spelling-free) first character is the first character at every stage *)
Lemma first_stable : forall r ch, toks_ok (map erase r) -> Forall spell_ok r ->
  first_of (map erase r) = Some ch -> after_sep ch = true -> forall k, hd_error (prss k r) = Some ch.
Proof.
  intros r ch Hok Hsp F A k. pose proof (next_class k r Hok Hsp) as N. destruct r as [|t' r']; [discriminate|].
  destruct N as [c [E C]]. rewrite E. f_equal. cbn [map first_of] in F.
  destruct t' as [l|x w s| |sp|sp|sp1 sp2]; cbn [erase first_of] in F.
  - destruct C as [C _]. congruence.
  - congruence.
  - inversion F; subst. discriminate.
  - congruence.
  - inversion F; subst. discriminate.
  - inversion F; subst. discriminate.
Qed.

Theorem spelled_toks_ok : forall sts, toks_ok (map erase sts) -> Forall spell_ok sts -> unbraced_ok sts -> stoks_ok sts.
Proof.
  induction sts as [|t r IH]; intros Hok Hsp Hub; [exact I|]. cbn [map toks_ok] in Hok. destruct Hok as [Ht Hr].
  inversion Hsp as [|? ? Hs Hsr]; subst. destruct Hub as [Hu Hur]. split; [|apply IH; assumption].
  destruct t as [l|x w s| |sp|sp|sp1 sp2]; cbn [erase tok_ok stok_ok spell_ok] in *.
  - exact Ht.
  - destruct Ht as [Hx Hw]. destruct Hs as [S1 [S2 [S3 S4]]].
    split; [exact Hx|]. split; [exact Hw|]. split; [exact S1|]. split; [exact S2|]. split; [exact S3|]. split; [exact S4|]. split.
    + intros B W. subst w. pose proof (next_class 0 r Hr Hsr) as N. destruct r as [|t' r']; [rewrite N; exact I|].
      destruct N as [c [E C]]. rewrite E. cbn [nonword_next].
      destruct t' as [l'|x' w' s'| |sp'|sp'|sp1' sp2'].
      * destruct C as [C _]. destruct l' as [|c' l'']; [discriminate|]. cbn in C. inversion C; subst. apply Hu. exact B.
      * subst c. reflexivity.
      * subst c. reflexivity.
      * subst c. reflexivity.
      * destruct C as [C|C]; [apply space_facts in C; tauto | subst; reflexivity].
      * destruct C as [C|C]; [apply space_facts in C; tauto | subst; reflexivity].
    + intros W. pose proof (next_class 2 r Hr Hsr) as N. destruct r as [|t' r']; [rewrite N; discriminate|].
      destruct N as [c [E C]]. rewrite E. intro F. inversion F; subst c.
      destruct t' as [l'|x' w' s'| |sp'|sp'|sp1' sp2']; try discriminate.
      * destruct C as [_ C]. discriminate.
      * destruct C as [C|C]; discriminate.
      * destruct C as [C|C]; discriminate.
  - destruct Ht as [ch [F A]]. exists ch. split; [|exact A]. apply first_stable; assumption.
  - split; [exact Hs|]. destruct Ht as [ch [F A]]. exists ch. split; [|exact A]. apply first_stable; assumption.
  - exact Hs.
  - destruct Hs as [H1 H2]. split; [exact H1|]. split; [exact H2|]. destruct Ht as [ch [F A]]. exists ch. split; [|exact A]. apply first_stable; assumption.
Qed.

(* ---- str.strip() ---- *)
Lemma last_char_s : forall ts, stoks_ok ts -> last_ok (map erase ts) -> exists pre c, prss 0 ts = pre ++ [c] /\ is_space c = false.
Proof.
  induction ts as [|t ts IH]; intros H L; [destruct L|]. destruct ts as [|t' r].
  - destruct H as [Ht _]. unfold prss. cbn [flat_map]. rewrite app_nil_r.
    destruct t as [l|x w s| |sp|sp|sp1 sp2]; cbn [map erase last_ok] in L; try destruct L.
    + destruct Ht as [Hp Hne]. destruct (exists_last Hne) as [l' [c E]]. subst l. exists l', c. split; [reflexivity|].
      assert (Hc : In c (l' ++ [c])) by (apply in_or_app; right; left; reflexivity).
      apply (lit_chars _ c Hp) in Hc. apply plain_char in Hc. tauto.
    + destruct Ht as [Hx [Hw _]]. cbn [prs Nat.leb]. destruct w as [d|]; cbn [pr_width].
      * destruct (v_braced s).
        { exists ((36 :: 123 :: v_in1 s ++ x ++ v_in2 s ++ [125]) ++ 40 :: v_w1 s ++ d ++ v_w2 s), 41. split; [lnorm; reflexivity | reflexivity]. }
        { exists ((36 :: x) ++ 40 :: v_w1 s ++ d ++ v_w2 s), 41. split; [lnorm; reflexivity | reflexivity]. }
      * rewrite app_nil_r. destruct (v_braced s).
        { eexists (36 :: 123 :: v_in1 s ++ x ++ v_in2 s), 125. split; [lnorm; reflexivity | reflexivity]. }
        { pose proof (ident_ne x Hx) as Hne. destruct (exists_last Hne) as [x' [c E]]. subst x. exists (36 :: x'), c. split; [reflexivity|].
          destruct Hx as [Hx _]. apply word_not_space. apply (wordy_In _ c Hx). apply in_or_app. right. left. reflexivity. }
    + exists sp, 93. split; reflexivity.
  - destruct H as [_ Hr]. cbn [map last_ok] in L. destruct (IH Hr L) as [pre [c [E Hc]]]. exists (prs 0 t ++ pre), c.
    split; [|exact Hc]. rewrite prss_cons, E. rewrite app_assoc. reflexivity.
Qed.

Lemma normalise_canonical : forall static wild,
  Forall wf_name1 static -> (match wild with Some w => wf_wild w | None => True end) ->
  normalise (pr_surf (template_toks static wild)) = pr_ints (template_toks static wild).
Proof.
  intros static wild Hs Hw. pose proof (template_items_ok static wild Hs Hw) as Ok. pose proof (template_toks_ok static wild Hs Hw) as Tok.
  unfold normalise, template_toks in *. destruct (template_items static wild) as [|i items]; [reflexivity|].
  rewrite (strip_printed i items Ok). apply normalise_passes. exact Tok.
Qed.

(* M7 for every spelling: if the tokens [sts], with their spelling erased, are the tokens of the template, every blank run
   consists of white space, and no "$x" is run together with a following word, then parseFilenames on the text as written
   returns the template *)
Theorem parse_spelled_template : forall static wild sts,
  Forall wf_name1 static -> (match wild with Some w => wf_wild w | None => True end) ->
  map erase sts = template_toks static wild -> Forall spell_ok sts -> unbraced_ok sts ->
  parse_filenames (prss 0 sts) = Some (template_files static wild).
Proof.
  intros static wild sts Hs Hw E Hsp Hub.
  pose proof (template_toks_ok static wild Hs Hw) as Tok. rewrite <- E in Tok.
  pose proof (spelled_toks_ok sts Tok Hsp Hub) as Sok.
  rewrite <- (parse_print_template static wild Hs Hw). unfold parse_filenames.
  rewrite (normalise_canonical static wild Hs Hw). rewrite <- E.
  assert (N : normalise (prss 0 sts) = pr_ints (map erase sts)); [|rewrite N; reflexivity].
  unfold normalise.
  assert (St : strip (prss 0 sts) = prss 0 sts).
  { pose proof (template_items_ok static wild Hs Hw) as Ok. unfold template_toks in E.
    destruct (template_items static wild) as [|i items] eqn:Ei.
    - cbn [join_items] in E. destruct sts; [reflexivity|discriminate].
    - assert (L : last_ok (map erase sts)) by (rewrite E; apply last_ok_items; exact Ok).
      destruct (last_char_s sts Sok L) as [pre [c [Ep Hc]]].
      assert (Hfirst : forall c0 r0, prss 0 sts = c0 :: r0 -> is_space c0 = false).
      { intros c0 r0 E0. inversion Ok as [|? ? Hi _]; subst.
        destruct (item_first i (flat_map (fun j => KSp :: j) items) Hi) as [ch [F A]].
        change (i ++ flat_map (fun j => KSp :: j) items) with (join_items (i :: items)) in F. rewrite <- E in F.
        pose proof (first_stable sts ch Tok Hsp F A 0) as F0. rewrite E0 in F0. cbn [hd_error] in F0. inversion F0; subst.
        apply after_sep_facts in A. tauto. }
      unfold strip. rewrite (dropspace_id _ Hfirst). rewrite Ep. rewrite rev_app_distr. cbn [rev app].
      rewrite dropspace_id.
      + cbn [rev]. rewrite rev_involutive. reflexivity.
      + intros c0 r0 E0. inversion E0; subst. exact Hc. }
  rewrite St. rewrite (spelled_normalise_passes sts Sok). apply stage6_erase.
Qed.

(* non-vacuity: the docstring's way of writing   index [$id, sect$num(4)]   and a blank-rich variant of it *)
Example spelled_example :
  let static := [[SLit [105;110;100;101;120]]] in
  let w := {| w_pre := []; w_alt0 := [SVar [105;100] None]; w_alts := [[SLit [115;101;99;116]; SVar k_num (Some [52])]]; w_post := [] |} in
  let plain_sty := {| v_braced := false; v_in1 := []; v_in2 := []; v_w1 := []; v_w2 := [] |} in
  let rich_sty := {| v_braced := true; v_in1 := [32]; v_in2 := [32;32]; v_w1 := [32]; v_w2 := [9] |} in
  let sts1 := [SLitT [105;110;100;101;120]; SSp; SLbT []; SVarT [105;100] None plain_sty; SCmT [] [32];
               SLitT [115;101;99;116]; SVarT k_num (Some [52]) plain_sty; SRbT []] in
  let sts2 := [SLitT [105;110;100;101;120]; SSp; SLbT [32;32]; SVarT [105;100] None rich_sty; SCmT [32] [32];
               SLitT [115;101;99;116]; SVarT k_num (Some [52]) rich_sty; SRbT [32]] in
  (* index [$id, sect$num(4)] *)
  prss 0 sts1 = [105;110;100;101;120;32;91;36;105;100;44;32;115;101;99;116;36;110;117;109;40;52;41;93] /\
  map erase sts1 = template_toks static (Some w) /\ Forall spell_ok sts1 /\ unbraced_ok sts1 /\
  map erase sts2 = template_toks static (Some w) /\ Forall spell_ok sts2 /\ unbraced_ok sts2 /\
  parse_filenames (prss 0 sts1) = Some (template_files static (Some w)) /\
  parse_filenames (prss 0 sts2) = Some (template_files static (Some w)).
Proof.
  cbv zeta. repeat split; try reflexivity; try (repeat constructor; fail); try discriminate.
Qed.

(* the property in one statement, from the template as written (any spelling) *)
Theorem spelled_string_meets_spec : forall c static wild sts vars0 reserved reqs,
  legacy_reset c = false -> legacy_words c = false -> legacy_passes c = false ->
  Forall wf_name1 static -> (match wild with Some w => wf_wild w | None => True end) ->
  map erase sts = template_toks static wild -> Forall spell_ok sts -> unbraced_ok sts ->
  Forall name_ok (fst (template_names static wild)) -> Forall name_ok (snd (template_names static wild)) ->
  lookup k_num vars0 = None -> Forall no_num reqs ->
  exists files,
    parse_filenames (prss 0 sts) = Some files /\
    map fst (fst (run c {| ph := PFresh files; vars := vars0; inval := reserved |} reqs)) =
    s_run c (s_init (fst (template_names static wild)) (snd (template_names static wild)) vars0 reserved) reqs.
Proof.
  intros c static wild sts vars0 reserved reqs H1 H2 H3 Hs Hw E Hsp Hub Hn1 Hn2 Hv Hr. exists (template_files static wild). split.
  - apply parse_spelled_template; assumption.
  - apply model_meets_spec; try assumption. apply split_template.
Qed.
