(* Printing of the programs of Spec/MacroLang.v to TOKENS (the list the Tokenizer gives for the source text the
   harness prints: harness/enginelang.py style 'f'; compared on every run, stream `print` of C02), the fragments of
   the language the engine theorem speaks about, and the side condition under which plasTeX's \gdef and TeX's agree.

   Printing choices (they are what "print" means in  run (print p) = den p):
     macro  id  ->  control word  zq<code id>     word w -> the letters W<code w> followed by one space token
     code 0 = "", code (+p) = "p" ++ bits, code (-p) = "n" ++ bits; bits = binary digits of p, least significant first,
     without the leading one, a = 0, b = 1  (injective: [zcode_inj]; only letters; never a primitive's name, never "if..")
     {group}   \def\zq..#1..#n{body}   \gdef..   \zq..{arg1}..{argn}   #k   ##
     \newcommand{\zq..}[n+1][default]{body} (a definition with a default)   \zq..[opt]{arg1}..{argn}   \let\zq..=\zq..
     \iftrue | \iffalse | \ifodd<decimal digits>\relax | \ifnum<decimal digits><rel><decimal digits>\relax   then-branch  [\else else-branch]  \fi
     \ifcase<decimal digits>\relax branch0 \or branch1 ... [\else else-branch] \fi      (at least one branch)
     an operand of \ifnum / \ifodd / \ifcase may also be \value{zc..};  \stepcounter{zc..}  \setcounter{zc..}{n}  \addtocounter{zc..}{n} *)
From Coq Require Import List NArith ZArith Bool.
Import ListNotations.
From Verif Require Import Val Tokenizer Expand MacroLang Engine.
Local Open Scope N_scope.

(* ---- names ---- *)
Fixpoint pcode (p : positive) : list N :=
  match p with xH => [] | xO q => 97 :: pcode q | xI q => 98 :: pcode q end.
Definition zcode (z : Z) : list N :=
  match z with Z0 => [] | Zpos p => 112 :: pcode p | Zneg p => 110 :: pcode p end.
Definition mname (id : Z) : list N := 122 :: 113 :: zcode id.

(* switches (\newif): switch n is \ifzs<code n>, set by \zs<code n>true / \zs<code n>false *)
Definition sname (sw : Z) : list N := 122 :: 115 :: zcode sw.
Definition ifname (sw : Z) : list N := 105 :: 102 :: sname sw.
Definition setname (sw : Z) (b : bool) : list N := sname sw ++ (if b then s_true else s_false).
(* names of the switch family, and the keys under which the engine keeps class attributes *)
Definition swkey (k : list N) : bool :=
  match k with 0 :: _ => true | 122 :: 115 :: _ => true | 105 :: 102 :: 122 :: 115 :: _ => true | _ => false end.

Definition letter (c : N) : tok := Tok CC_LETTER [c].
Definition other (c : N) : tok := Tok CC_OTHER [c].
Definition esc (n : list N) : tok := Tok CC_ESCAPE n.
Definition bg : tok := Tok CC_BGROUP [123].
Definition eg : tok := Tok CC_EGROUP [125].
Definition sp : tok := Tok CC_SPACE [32].
Definition lbr : tok := Tok CC_OTHER [91].
Definition rbr : tok := Tok CC_OTHER [93].

Definition wprint (w : Z) : list tok := letter 87 :: map letter (zcode w) ++ [sp].

(* ---- decimal digits of a natural number, most significant first ---- *)
Fixpoint digs_lsd (fuel : nat) (n : N) : list N :=
  match fuel with
  | O => []
  | S f => (48 + n mod 10) :: (if n <? 10 then [] else digs_lsd f (n / 10))
  end.
Definition digits (n : N) : list N := rev (digs_lsd (S (N.to_nat (N.size n))) n).

Definition rel_tok (r : rel) : tok := other (match r with RLt => 60 | RGt => 62 | REq => 61 end).

(* counters: counter c is zc<code c>; an operand is a non-negative literal or \value{zc..}; an integer argument may be negative *)
Definition cname (c : Z) : list N := 122 :: 99 :: zcode c.
Definition pop (o : operand) : list tok :=
  match o with
  | OLit z => map other (digits (Z.to_N z))
  | OCnt c => esc s_value :: bg :: map letter (cname c) ++ [eg]
  end.
Definition znum (z : Z) : list tok := (if (z <? 0)%Z then [other 45] else []) ++ map other (digits (Z.abs_N z)).
Definition cname_arg (c : Z) : list tok := bg :: map letter (cname c) ++ [eg].

Definition print_test (t : test) : list tok :=
  match t with
  | TTrue => [esc s_iftrue]
  | TFalse => [esc s_iffalse]
  | TNum a r b => esc s_ifnum :: pop a ++ rel_tok r :: pop b ++ [esc s_relax]
  | TOdd a => esc s_ifodd :: pop a ++ [esc s_relax]
  | TSwitch sw => [esc (ifname sw)]
  | _ => []
  end.

(* ---- delimiter assignment: the delimiter tokens written after parameter i (1-based) of a \def macro with np parameters
        ([] = undelimited: the argument is written in braces).  Delimiter tokens are punctuation characters that no printed
        program text contains.  The assignment is a parameter of the printer (type class: implicit argument of print, mean_of,
        in_F3 ...; NoDelims = the printing without delimiters) ---- *)
Definition dchar (c : N) : bool := (c =? 33) || (c =? 44) || (c =? 46) || (c =? 58) || (c =? 59).      (* ! , . : ; *)
Definition dtok_ok (t : tok) : bool := match t with Tok k [c] => (k =? CC_OTHER) && dchar c | _ => false end.
Class Delims := { dl : nat -> nat -> list tok; dl_ok : forall np i, forallb dtok_ok (dl np i) = true }.
#[export] Instance NoDelims : Delims := {| dl := fun _ _ => []; dl_ok := fun _ _ => eq_refl |}.

Section WithDelims.
Context `{D : Delims}.

Definition undelim (np : nat) : bool := forallb (fun i => match dl np i with [] => true | _ => false end) (seq 1 np).
Definition param_text (np : nat) : list tok := flat_map (fun i => hash_tok :: other (48 + N.of_nat i) :: dl np i) (seq 1 np).

(* doubled parameter text ##1..##n of a definition written inside a body *)
Definition param_text2 (np : nat) : list tok := flat_map (fun i => [hash_tok; hash_tok; other (48 + N.of_nat i)]) (seq 1 np).

(* body mode: how the body of a definition is written.  #k = parameter of the macro the body belongs to; a definition inside the
   body writes its own parameters ##k, in its parameter text and in its body (NParam2 k) *)
Fixpoint printb_node (n : node) : list tok :=
  let print := fix print (l : list node) : list tok := match l with [] => [] | x :: r => printb_node x ++ print r end in
  match n with
  | NWord w => wprint w
  | NGroup b => bg :: print b ++ [eg]
  | NDef g nm np None b => esc (if g then s_gdef else s_def) :: esc (mname nm) :: param_text2 np ++ bg :: print b ++ [eg]
  | NDef _ nm np (Some d) b =>
      esc s_newcommand :: bg :: esc (mname nm) :: eg :: lbr :: map other (digits (N.of_nat (S np))) ++ rbr :: lbr :: print d ++ rbr ::
      bg :: print b ++ [eg]
  | NCall nm o args =>
      esc (mname nm) :: match o with Some x => lbr :: print x ++ [rbr] | None => [] end ++
      (fix pargs (i : nat) (l : list (list node)) : list tok :=
         match l with
         | [] => []
         | a :: r => match dl (length args) i with [] => bg :: print a ++ eg :: pargs (S i) r | d => print a ++ d ++ pargs (S i) r end
         end) 1%nat args
  | NLet nm tg => [esc s_let; esc (mname nm); other 61; esc (mname tg)]
  | NNewSwitch sw => [esc s_newif; esc (ifname sw)]
  | NSetSwitch sw b => [esc (setname sw b)]
  | NParam k => [hash_tok; other (48 + N.of_nat k)]
  | NParam2 k => [hash_tok; hash_tok; other (48 + N.of_nat k)]
  | NExpandAfter a b => [esc s_expandafter; esc (mname a); esc (mname b)]
  | NHash => [hash_tok; hash_tok]
  | NCond t th el =>
      print_test t ++ print th ++ match el with Some e => esc s_else :: print e | None => [] end ++ [esc s_fi]
  | NStep c => esc s_stepcounter :: cname_arg c
  | NSetC c z => esc s_setcounter :: cname_arg c ++ bg :: znum z ++ [eg]
  | NAddC c z => esc s_addtocounter :: cname_arg c ++ bg :: znum z ++ [eg]
  | NCase a (b0 :: bs) el =>
      esc s_ifcase :: pop a ++ esc s_relax :: print b0 ++
      (fix pors (l : list (list node)) : list tok := match l with [] => [] | b :: r => esc s_or :: print b ++ pors r end) bs ++
      match el with Some e => esc s_else :: print e | None => [] end ++ [esc s_fi]
  | _ => []
  end.
Fixpoint printb (l : list node) : list tok := match l with [] => [] | x :: r => printb_node x ++ printb r end.

(* top mode: program text.  The body of a definition is written in body mode *)
Fixpoint print_node (n : node) : list tok :=
  let print := fix print (l : list node) : list tok := match l with [] => [] | x :: r => print_node x ++ print r end in
  match n with
  | NWord w => wprint w
  | NGroup b => bg :: print b ++ [eg]
  | NDef g nm np None b => esc (if g then s_gdef else s_def) :: esc (mname nm) :: param_text np ++ bg :: printb b ++ [eg]
  | NDef _ nm np (Some d) b =>
      (* \newcommand{\nm}[np+1][d]{b}: the optional argument is #1 *)
      esc s_newcommand :: bg :: esc (mname nm) :: eg :: lbr :: map other (digits (N.of_nat (S np))) ++ rbr :: lbr :: print d ++ rbr ::
      bg :: printb b ++ [eg]
  | NCall nm o args =>
      esc (mname nm) :: match o with Some x => lbr :: print x ++ [rbr] | None => [] end ++
      (fix pargs (i : nat) (l : list (list node)) : list tok :=
         match l with
         | [] => []
         | a :: r => match dl (length args) i with [] => bg :: print a ++ eg :: pargs (S i) r | d => print a ++ d ++ pargs (S i) r end
         end) 1%nat args
  | NLet nm tg => [esc s_let; esc (mname nm); other 61; esc (mname tg)]
  | NNewSwitch sw => [esc s_newif; esc (ifname sw)]
  | NSetSwitch sw b => [esc (setname sw b)]
  | NParam k => [hash_tok; other (48 + N.of_nat k)]
  | NExpandAfter a b => [esc s_expandafter; esc (mname a); esc (mname b)]
  | NHash => [hash_tok; hash_tok]
  | NCond t th el =>
      print_test t ++ print th ++ match el with Some e => esc s_else :: print e | None => [] end ++ [esc s_fi]
  | NStep c => esc s_stepcounter :: cname_arg c
  | NSetC c z => esc s_setcounter :: cname_arg c ++ bg :: znum z ++ [eg]
  | NAddC c z => esc s_addtocounter :: cname_arg c ++ bg :: znum z ++ [eg]
  | NCase a (b0 :: bs) el =>
      esc s_ifcase :: pop a ++ esc s_relax :: print b0 ++
      (fix pors (l : list (list node)) : list tok := match l with [] => [] | b :: r => esc s_or :: print b ++ pors r end) bs ++
      match el with Some e => esc s_else :: print e | None => [] end ++ [esc s_fi]
  | _ => []
  end.
Fixpoint print (l : list node) : list tok := match l with [] => [] | x :: r => print_node x ++ print r end.

(* ---- fragment F1: words, groups, parameterless \def / \gdef, calls without arguments, \iftrue / \iffalse / \ifnum on
        non-negative literals, with and without \else; nested to any depth, also inside bodies and branches ---- *)
Definition f1_test (t : test) : bool :=
  match t with
  | TTrue | TFalse => true
  | TNum (OLit a) _ (OLit b) => (0 <=? a)%Z && (0 <=? b)%Z
  | TOdd (OLit a) => (0 <=? a)%Z
  | _ => false
  end.
Fixpoint f1_node (n : node) : bool :=
  match n with
  | NWord _ => true
  | NGroup b => forallb f1_node b
  | NDef _ _ np d b => Nat.eqb np 0 && (match d with None => true | Some _ => false end) && forallb f1_node b
  | NCall _ o a => (match o with None => true | Some _ => false end) && (match a with [] => true | _ => false end)
  | NCond t th el => f1_test t && forallb f1_node th && match el with Some e => forallb f1_node e | None => true end
  | _ => false
  end.
Definition in_F1 (p : list node) : bool := forallb f1_node p.

(* ---- fragment F2 = F1 + undelimited parameters + \ifcase:  \def\zq..#1..#n{body} with n <= 9, calls \zq..{arg1}..{argn}, #k in bodies.
   Three kinds of node lists:
     "argument"  (no #k at all; definitions only without parameters; any depth)                       [fa_node]
     "body of a macro with n parameters" (#k with 1 <= k <= n; definitions inside a body have no parameters of their own -
        nested definitions with parameters need ## and are not in F2 -; nesting depth bounded, because the reference
        evaluator substitutes with fuel 50: MacroLang.subst 50)                                        [fb_node n]
     "program text" (definitions with up to 9 parameters whose bodies are bodies as above - or arguments, when n = 0 -,
        calls whose arguments are arguments)                                                           [f2_node]       ---- *)
(* tests of F2: those of F1, also on counter operands, and switches *)
Definition opd_ok (o : operand) : bool := match o with OLit z => (0 <=? z)%Z | OCnt _ => true end.
Definition f2_test (t : test) : bool :=
  match t with
  | TTrue | TFalse | TSwitch _ => true
  | TNum a _ b => opd_ok a && opd_ok b
  | TOdd a => opd_ok a
  | _ => false
  end.

Definition is_none {A} (o : option A) : bool := match o with None => true | Some _ => false end.
(* optional arguments and their defaults: plain words (no bracket can hide in them) *)
Definition is_word (x : node) : bool := match x with NWord _ => true | _ => false end.
Definition opt_ok (o : option (list node)) : bool := match o with None => true | Some x => forallb is_word x end.

(* \ifcase on a non-negative literal with at least one branch *)
Definition case_head (a : operand) (bs : list (list node)) : bool :=
  match bs with _ :: _ => opd_ok a | [] => false end.

Fixpoint fa_node (x : node) : bool :=
  match x with
  | NWord _ | NLet _ _ | NNewSwitch _ | NSetSwitch _ _ | NStep _ | NSetC _ _ | NAddC _ _ | NExpandAfter _ _ => true
  | NGroup b => forallb fa_node b
  | NDef _ _ np d b => Nat.eqb np 0 && is_none d && forallb fa_node b
  | NCall _ o a => undelim (length a) && opt_ok o && forallb (forallb fa_node) a
  | NCond t th el => f2_test t && forallb fa_node th && match el with Some e => forallb fa_node e | None => true end
  | NCase a bs el => case_head a bs && forallb (forallb fa_node) bs && match el with Some e => forallb fa_node e | None => true end
  | _ => false
  end.

(* [d] bounds the depth at which a parameter may occur (the evaluator's substitution has fuel); argument text, which has no
   parameter, may sit at any depth: the result of a substitution contains the arguments *)
Fixpoint fb_node (n : nat) (x : node) (d : nat) {struct x} : bool :=
  match x with
  | NWord _ | NLet _ _ | NNewSwitch _ | NSetSwitch _ _ | NStep _ | NSetC _ _ | NAddC _ _ | NExpandAfter _ _ => true
  | NParam k => Nat.leb 1 k && Nat.leb k n
  | NGroup b => fa_node x || match d with O => false | S d' => forallb (fun y => fb_node n y d') b end
  | NDef _ _ np dflt b =>
      fa_node x || (Nat.eqb np 0 && is_none dflt && match d with O => false | S d' => forallb (fun y => fb_node n y d') b end)
  | NCall _ o a =>
      fa_node x || (undelim (length a) && opt_ok o && forallb (fun arg => match d with O => false | S d' => forallb (fun y => fb_node n y d') arg end) a)
  | NCond t th el =>
      fa_node x ||
      (f2_test t &&
       match d with
       | O => false
       | S d' => forallb (fun y => fb_node n y d') th &&
                 match el with Some e => forallb (fun y => fb_node n y d') e | None => true end
       end)
  | NCase a bs el =>
      fa_node x ||
      (case_head a bs &&
       match d with
       | O => false
       | S d' => forallb (forallb (fun y => fb_node n y d')) bs &&
                 match el with Some e => forallb (fun y => fb_node n y d') e | None => true end
       end)
  | _ => false
  end.

(* the body of a definition with m parameters of its own (##k) written inside the body of a macro with n parameters (#k) *)
Fixpoint fi_node (n m : nat) (x : node) (d : nat) {struct x} : bool :=
  match x with
  | NWord _ | NLet _ _ | NNewSwitch _ | NSetSwitch _ _ | NStep _ | NSetC _ _ | NAddC _ _ | NExpandAfter _ _ => true
  | NParam k => Nat.leb 1 k && Nat.leb k n
  | NParam2 k => Nat.leb 1 k && Nat.leb k m
  | NGroup b => match d with O => false | S d' => forallb (fun y => fi_node n m y d') b end
  | NCall _ o a => undelim (length a) && opt_ok o && forallb (fun arg => match d with O => false | S d' => forallb (fun y => fi_node n m y d') arg end) a
  | NCond t th el =>
      f2_test t &&
      match d with
      | O => false
      | S d' => forallb (fun y => fi_node n m y d') th && match el with Some e => forallb (fun y => fi_node n m y d') e | None => true end
      end
  | NCase a bs el =>
      case_head a bs &&
      match d with
      | O => false
      | S d' => forallb (forallb (fun y => fi_node n m y d')) bs && match el with Some e => forallb (fun y => fi_node n m y d') e | None => true end
      end
  | _ => false
  end.

(* bodies that may also contain definitions with parameters of their own (nested definitions): only in the body of a macro that has
   parameters itself (n >= 1: a parameterless \def returns its body as it is, without turning ## into #), not inside call arguments,
   and the inner body contains no further definition *)
Fixpoint fb3_node (n : nat) (x : node) (d : nat) {struct x} : bool :=
  fb_node n x d ||
  match x with
  | NGroup b => match d with O => false | S d' => forallb (fun y => fb3_node n y d') b end
  | NDef g _ np dflt b =>
      Nat.leb 1 n &&
      match d with
      | O => false
      | S d' =>
          match dflt with
          | None => undelim np && Nat.leb 1 np && Nat.leb np 9 && forallb (fun y => fi_node n np y d') b
          | Some dd => undelim np && g && Nat.leb (S np) 9 && forallb is_word dd && forallb (fun y => fi_node n (S np) y d') b
          end
      end
  | NCond t th el =>
      f2_test t &&
      match d with
      | O => false
      | S d' => forallb (fun y => fb3_node n y d') th && match el with Some e => forallb (fun y => fb3_node n y d') e | None => true end
      end
  | NCase a bs el =>
      case_head a bs &&
      match d with
      | O => false
      | S d' => forallb (forallb (fun y => fb3_node n y d')) bs && match el with Some e => forallb (fun y => fb3_node n y d') e | None => true end
      end
  | _ => false
  end.
Definition BODY_DEPTH : nat := 49.      (* MacroLang.subst is called with fuel 50 = S BODY_DEPTH *)

(* the body of a parameterless \def is handed back as it is (no expandDef): a definition with parameters written there keeps its ##k
   until \def itself (DefCommand) removes one level of # from its parameter text and its body.  Such a body: words and definitions
   \def\zq..##1..##k{..} with 1 <= k <= 9 whose own body holds words, ##k, groups, calls, conditionals *)
Definition fv_node (x : node) : bool :=
  match x with
  | NWord _ => true
  | NDef _ _ np None b => undelim np && Nat.leb 1 np && Nat.leb np 9 && forallb (fun y => fi_node 0 np y BODY_DEPTH) b
  | _ => false
  end.

(* arguments of delimited parameters are plain words (no delimiter token can hide in them) *)
Definition dargs_ok (n : nat) : nat -> list (list node) -> bool :=
  fix go (i : nat) (l : list (list node)) {struct l} : bool :=
  match l with
  | [] => true
  | a :: r => (match dl n i with [] => true | _ => forallb is_word a end) && go (S i) r
  end.

Fixpoint f2_node (x : node) : bool :=
  match x with
  | NWord _ | NLet _ _ | NNewSwitch _ | NSetSwitch _ _ | NStep _ | NSetC _ _ | NAddC _ _ => true
  | NExpandAfter _ _ => true      (* what it needs of the two macros is checked along the evaluation: [gsafe] *)
  | NGroup b => forallb f2_node b
  | NDef g _ np d b =>
      match d with
      | None => Nat.leb np 9 && ((Nat.leb 1 np && forallb (fun y => fb3_node np y BODY_DEPTH) b) ||
                                 (Nat.eqb np 0 && (forallb fa_node b || forallb fv_node b)))
      | Some dd => undelim np && g && Nat.leb (S np) 9 && forallb is_word dd && forallb (fun y => fb3_node (S np) y BODY_DEPTH) b
      end
  | NCall _ o a => opt_ok o && forallb (forallb fa_node) a && dargs_ok (length a) 1 a
  | NCond t th el => f2_test t && forallb f2_node th && match el with Some e => forallb f2_node e | None => true end
  | NCase a bs el => case_head a bs && forallb (forallb f2_node) bs && match el with Some e => forallb f2_node e | None => true end
  | _ => false
  end.
Definition in_F2 (p : list node) : bool := forallb f2_node p.
(* ---- fragment F3 = F2 + definitions with parameters of their own written inside the body of a macro that has parameters:
        \def\zq..#1{.. \def\zq..##1##2{.. #1 .. ##2 ..} ..}  and  \newcommand{\zq..}[k][dflt]{.. ##1 ..}  (bodies in body mode, [printb]);
        when the outer macro is called, #k is replaced and ##k becomes #k ([MacroLang.subst] / [MacroLang.lower], expandDef).
        Restrictions ([fb3_node], [fi_node]): the nested definition is not inside a call argument and its body holds no further
        definition; the outer macro has at least one parameter - or none at all, and then its body is made of words and such
        \def's only ([fv_node]: the body is handed back as it is, \def itself reduces ## to #).
        Since stage 4 [f2_node] describes this larger fragment: [in_F2] and [in_F3] are the same predicate (the theorems stated
        with in_F2 became stronger). ---- *)
Definition in_F3 (p : list node) : bool := in_F2 p.

(* ---- \gdef: TeX replaces the meaning at every level, plasTeX only writes the global frame (DESIGN C04, observation).
        They agree when no open group holds a local definition of that name at the moment of the \gdef.  [gdef_safe]
        checks exactly that along the evaluation of the program (same recursion, same fuel and budget as [eval]).
        (\newcommand is global in plasTeX by design, hence printed for global definitions only.)
        It also checks that an optional argument [..] is only written after a macro that has one (the reference
        evaluator ignores a superfluous one, TeX would print it), and that a switch is declared (\newif) before it is
        tested or set (the reference evaluator reads an undeclared switch as false; in TeX it is an undefined macro);
        and, for \expandafter\a\b, that \b is a parameterless \def whose body is non-empty argument text. ---- *)
Definition unshadowed (nm : Z) (fs : list MacroLang.frame) : bool :=
  forallb (fun f => match alookup nm f with None => true | Some _ => false end) (removelast fs).

Definition tick (e : env) (budget : nat) : env :=
  {| frames := frames e; counters := counters e; switches := switches e; steps := budget |}.
Definition with_frames (e : env) (fs : list MacroLang.frame) : env :=
  {| frames := fs; counters := counters e; switches := switches e; steps := steps e |}.

(* \expandafter\a\b: the arguments of \a are the brace groups the body of \b starts with (the same function as inside MacroLang.eval) *)
Fixpoint take_groups (k : nat) (l : list node) (acc : list (list node)) : option (list (list node) * list node) :=
  match k with
  | O => Some (rev acc, l)
  | S k' => match l with NGroup g :: l' => take_groups k' l' (g :: acc) | _ => None end
  end.

Fixpoint gsafe (fuel : nat) (e : env) (out : list Z) (ns : list node) : bool :=
  match fuel with O => true | S f =>
  match ns with
  | [] => true
  | n :: rest =>
    match steps e with O => true | S budget =>
    let e := tick e budget in
    match n with
    | NWord w => gsafe f e (w :: out) rest
    | NGroup b =>
        gsafe f (with_frames e ([] :: frames e)) out b &&
        match eval f (with_frames e ([] :: frames e)) out b with
        | Ok e' out' => gsafe f (with_frames e' (tl (frames e'))) out' rest
        | _ => true
        end
    | NDef g nm np d b =>
        (if g then unshadowed nm (frames e) else true) &&
        gsafe f (with_frames e ((if g then def_global else def_local) nm {| m_n := np; m_default := d; m_body := b |} (frames e))) out rest
    | NLet nm tg =>
        match lookup_frames tg (frames e) with
        | Some m => gsafe f (with_frames e (def_local nm m (frames e))) out rest
        | None => true
        end
    | NCall nm o a =>
        match lookup_frames nm (frames e) with
        | None => true
        | Some m =>
          let args := match m_default m with Some d => (match o with Some x => x | None => d end) :: a | None => a end in
          let body := subst 50 args (m_body m) in
          (match o, m_default m with Some _, None => false | _, _ => true end) &&
          gsafe f e out body &&
          match eval f e out body with Ok e' out' => gsafe f e' out' rest | _ => true end
        end
    | NCond t th el =>
        let b := if eval_test e t then th else match el with Some x => x | None => [] end in
        (match t with TSwitch sw => match alookup sw (switches e) with Some _ => true | None => false end | _ => true end) &&
        gsafe f e out b &&
        match eval f e out b with Ok e' out' => gsafe f e' out' rest | _ => true end
    | NSetSwitch sw b =>
        (match alookup sw (switches e) with Some _ => true | None => false end) &&
        gsafe f {| frames := frames e; counters := counters e; switches := aset sw b (switches e); steps := steps e |} out rest
    | NNewSwitch sw =>
        gsafe f {| frames := frames e; counters := counters e;
                   switches := match alookup sw (switches e) with Some _ => switches e | None => aset sw false (switches e) end;
                   steps := steps e |} out rest
    | NStep c => gsafe f {| frames := frames e; counters := aset c (cnt e c + 1)%Z (counters e); switches := switches e; steps := steps e |} out rest
    | NSetC c z => gsafe f {| frames := frames e; counters := aset c z (counters e); switches := switches e; steps := steps e |} out rest
    | NAddC c z => gsafe f {| frames := frames e; counters := aset c (cnt e c + z)%Z (counters e); switches := switches e; steps := steps e |} out rest
    | NCase a bs el =>
        let z := opval e a in
        let b := if ((0 <=? z) && (z <? Z.of_nat (length bs)))%Z then nth (Z.to_nat z) bs []
                 else match el with Some x => x | None => [] end in
        gsafe f e out b &&
        match eval f e out b with Ok e' out' => gsafe f e' out' rest | _ => true end
    | NExpandAfter a b =>
        (* \b is a parameterless \def with a non-empty body of argument text (plasTeX pushes the macro instance itself when the
           expansion is empty), \a has no optional argument; then as the call of \a the reference evaluator makes of it *)
        match lookup_frames a (frames e), lookup_frames b (frames e) with
        | Some ma, Some mb =>
            match m_n mb, m_default mb, m_default ma with
            | O, None, None =>
                undelim (m_n ma) && forallb fa_node (m_body mb) && (match m_body mb with [] => false | _ => true end) &&
                match take_groups (m_n ma) (subst 50 [] (m_body mb)) [] with
                | Some (args, after) =>
                    gsafe f e out (NCall a None args :: after) &&
                    match eval f e out (NCall a None args :: after) with Ok e' out' => gsafe f e' out' rest | _ => true end
                | None => true
                end
            | _, _, _ => true
            end
        | _, _ => true
        end
    | _ => true
    end end
  end end.
Definition gdef_safe (fuel : nat) (p : list node) : bool := gsafe fuel empty_env [] p.

(* the text of a list of words, and the character tokens of an output (macro instances left out) *)
Definition words_text (ws : list Z) : list tok := flat_map wprint ws.
Definition text_of (out : list tok) : list tok := filter (fun t => negb (is_elem t)) out.
(* the token-level meaning a macro of F1 has *)
Definition mean_of (m : MacroLang.meaning) : Engine.meaning :=
  match m_default m with
  | None => MDef (param_text (m_n m)) (printb (m_body m))
  | Some d => MNew (S (m_n m)) (Some (print d)) (printb (m_body m))
  end.

End WithDelims.

(* ---- wire: (nodes...) -> ((tok ...) in_F1 gdef_safe in_F2) ---- *)
Local Open Scope Z_scope.
Definition print_case_with (D : Delims) (v : val) : val :=
  match v with
  | VL l =>
    match mapM (node_of 100) l with
    | Some p => VL [toks_val (print p); ofB (in_F1 p); ofB (gdef_safe (Nat.mul 50 100) p); ofB (in_F2 p)]
    | None => v_bad_input
    end
  | _ => v_bad_input
  end.
Definition print_case (v : val) : val := print_case_with NoDelims v.

(* a delimiter assignment read from the wire: ((np i (tok ...)) ...); tokens that are not delimiter characters are dropped *)
Definition table_dl (tbl : list (nat * nat * list tok)) (np i : nat) : list tok :=
  match find (fun e => Nat.eqb (fst (fst e)) np && Nat.eqb (snd (fst e)) i) tbl with
  | Some e => filter dtok_ok (snd e)
  | None => []
  end.
Lemma table_dl_ok tbl np i : forallb dtok_ok (table_dl tbl np i) = true.
Proof.
  unfold table_dl. destruct (find _ tbl) as [e|]; [|reflexivity]. induction (snd e) as [|t l IH]; [reflexivity|].
  cbn [filter]. destruct (dtok_ok t) eqn:E; [cbn [forallb]; now rewrite E|exact IH].
Qed.
Definition TableDelims (tbl : list (nat * nat * list tok)) : Delims := {| dl := table_dl tbl; dl_ok := table_dl_ok tbl |}.
Definition entry_of (v : val) : option (nat * nat * list tok) :=
  match v with
  | VL [VI np; VI i; ts] => match Expand.toks_of ts with Some l => Some (Z.to_nat np, Z.to_nat i, l) | None => None end
  | _ => None
  end.
Definition table_of (v : val) : option (list (nat * nat * list tok)) := match v with VL l => mapM entry_of l | _ => None end.

(* ---- the entry of the C02 driver (coq/extract/C02.v): the first integer of a case selects the stream kind ----
   0: Definition.invoke / NewCommand.invoke (Model/Expand.v)      1: the reference evaluator on a program
   2: the expansion engine on a token list; when the case is the printing of a program, the reference evaluator's answer for
      that program comes with it (the Spec oracle of the judge); out of fuel stays a top-level answer
   3: print / in_F1 / gdef_safe / in_F2 of a program      4: the same under a delimiter assignment given as a table *)
Definition engine_entry (x : val) (more : list val) : val :=
  match Engine.run_case x with
  | VL [VI (-3)] => v_outoffuel
  | r => VL (r :: more)
  end.
Definition c02_entry (v : val) : val :=
  match v with
  | VL [VI 0; x] => Expand.run_expand_case x
  | VL [VI 1; x] => MacroLang.run_prog x
  | VL [VI 2; x] => engine_entry x []
  | VL [VI 2; x; p] => engine_entry x [MacroLang.run_prog p]
  | VL [VI 3; p] => print_case p
  | VL [VI 4; t; p] => match table_of t with Some tbl => print_case_with (TableDelims tbl) p | None => v_bad_input end
  | _ => v_bad_input
  end.
