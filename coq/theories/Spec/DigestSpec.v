(* C07 -- Spec: what the property demands of a parsed document tree.

   Written from the property text, not from the Python:
     - a tree of nodes; every node has a head (level, flags, argument words) and children, or is a text leaf;
     - [flatten]   : depth-first reading of a tree, arguments before content;
     - [words]     : the running text of such a reading: argument words and the kept characters of text leaves;
     - [wf_sections_b] : every sectioning node contains only paragraphs and strictly deeper sectioning nodes,
                     and no paragraph contains a paragraph;
     - [expected_text] : the text a tree must show after typographic substitution: the table is applied to each maximal
                     run of text leaves, left to right and in table order, but never below a verbatim / mathematics node.
   The data types are shared with the Model (Model/Digest.v), which fills them by following the Python. *)
From Coq Require Import List ZArith Bool.
Import ListNotations.
Local Open Scope Z_scope.

(* which digest method a class resolves to (the dispatch is recorded from the implementation's own classes) *)
Inductive kind := KText | KLeaf | KEnv | KSec | KBgroup | KList | KItem | KRow | KCell | KVerb | KArray | KUnknown.

Record head := mkHead {
  h_kind : kind;
  h_name : Z;            (* nodeName, interned by the harness *)
  h_level : Z;           (* Node.level *)
  h_depth : Z;           (* contextDepth *)
  h_mode : Z;            (* macroMode: 0 none, 1 begin, 2 end *)
  h_block : bool;        (* blockType *)
  h_force : bool;        (* forcePars *)
  h_ws : bool;           (* text: isElementContentWhitespace *)
  h_wsk : bool;          (* element whose isElementContentWhitespace is "has no children" (\par) *)
  h_nosub : bool;        (* normalize() of this class passes no substitution table down (NoCharSubEnvironment, \verb) *)
  h_typ : Z;             (* identity of the class, for "type(item) is type(self)" *)
  h_eg : bool;           (* isinstance(egroup, endgroup) *)
  h_li : bool;           (* isinstance(List.item) *)
  h_cd : bool;           (* isinstance(Array.CellDelimiter) *)
  h_er : bool;           (* isinstance(Array.EndRow) *)
  h_sc : bool;           (* nodeName == 'setcounter' *)
  h_bd : bool;           (* isinstance(Array.BorderCommand) *)
  h_rw : bool;           (* isinstance(Array.ArrayRow) *)
  h_cat : Z;             (* text token: category code *)
  h_mm : bool;           (* context.isMathMode right after the expander yielded this item *)
  h_args : list (list Z) (* the words of the arguments, in argument order *)
}.

Inductive tree := Text (h : head) (s : list Z) | Node (h : head) (ch : list tree).

Definition PAR_LEVEL : Z := 101.
Definition ENDSECTIONS_LEVEL : Z := 100.
Definition CHAR_LEVEL : Z := 1001.
(* Node.DOCUMENT_LEVEL is -sys.maxsize; the harness clamps levels at -1000000 on the wire (the OCaml driver reads native
   63-bit integers) -- every other level of plasTeX is >= -2, so all comparisons are unchanged *)
Definition DOC_LEVEL : Z := -1000000.

Definition hd_of (t : tree) : head := match t with Text h _ => h | Node h _ => h end.
(* text nodes and tokens have the class attribute level = CHARACTER_LEVEL *)
Definition level (t : tree) : Z := match t with Text _ _ => CHAR_LEVEL | Node h _ => h_level h end.
Definition is_elem (t : tree) : bool := match t with Text _ _ => false | Node _ _ => true end.
Definition children (t : tree) : list tree := match t with Text _ _ => [] | Node _ ch => ch end.

(* ---- reading a tree ------------------------------------------------------------------------- *)

Inductive leaf := LArg (w : list Z) | LText (s : list Z).

Fixpoint flatten (t : tree) : list leaf :=
  match t with
  | Text _ s => [LText s]
  | Node h ch => map LArg (h_args h) ++ flat_map flatten ch
  end.

Definition flatten_forest (l : list tree) : list leaf := flat_map flatten l.

Inductive atom := AWord (w : list Z) | AChar (c : Z) | ANode (h : head).

Section Words.
  Context (keep : Z -> bool).     (* which characters are running text (the harness: letters and digits) *)
  Definition leaf_words (l : leaf) : list atom :=
    match l with LArg w => [AWord w] | LText s => map AChar (filter keep s) end.
  Definition words (ls : list leaf) : list atom := flat_map leaf_words ls.
End Words.

(* the same reading with the nodes themselves in it: [reading vis keep t] lists, depth-first, every node whose head is
   visible, then its argument words, then its content; text leaves give their kept characters.  With no head visible it
   is [words keep (flatten t)].  Two trees with the same reading hold the same visible nodes, each the same number of times,
   in the same order. *)
Section Reading.
  Context (vis : head -> bool) (keep : Z -> bool).
  Fixpoint reading (t : tree) : list atom :=
    match t with
    | Text _ s => map AChar (filter keep s)
    | Node h ch => (if vis h then [ANode h] else []) ++ map AWord (h_args h) ++ flat_map reading ch
    end.
  Definition reading_forest (l : list tree) : list atom := flat_map reading l.
End Reading.

(* ---- sectioning well-formedness ---------------------------------------------------------------- *)

Definition is_section_level (l : Z) : bool := (DOC_LEVEL <? l) && (l <? ENDSECTIONS_LEVEL).
Definition is_par (t : tree) : bool := level t =? PAR_LEVEL.

Definition section_child_ok (l : Z) (c : tree) : bool :=
  is_par c || (is_section_level (level c) && (l <? level c)).

Fixpoint wf_sections_b (t : tree) : bool :=
  match t with
  | Text _ _ => true
  | Node h ch =>
      (if is_section_level (h_level h) then forallb (section_child_ok (h_level h)) ch else true)
      && (if h_level h =? PAR_LEVEL then forallb (fun c => negb (is_par c)) ch else true)
      && forallb wf_sections_b ch
  end.

(* [subtree x t]: x occurs in t (at any depth, x = t included) *)
Inductive subtree : tree -> tree -> Prop :=
| sub_refl t : subtree t t
| sub_child x h ch c : In c ch -> subtree x c -> subtree x (Node h ch).

(* ---- well-nested input ------------------------------------------------------------------------------ *)

(* syntax trees of well-nested input: text tokens, plain commands (with the children their arguments gave them), and
   environments  begin ... end  (declarations like \\bf ... closing marker included).  [print] is the item sequence the
   expander yields for it, [den] the tree the property wants: an environment node holding exactly what stands between its
   begin and its end. *)
Inductive ast :=
| AText (h : head) (s : list Z)
| ALeaf (h : head) (pre : list tree)
| AEnv (h he : head) (body : list ast).

Fixpoint print (a : ast) : list tree :=
  match a with
  | AText h s => [Text h s]
  | ALeaf h pre => [Node h pre]
  | AEnv h he body => Node h [] :: flat_map print body ++ [Node he []]
  end.

Fixpoint den (a : ast) : tree :=
  match a with
  | AText h s => Text h s
  | ALeaf h pre => Node h pre
  | AEnv h he body => Node h (map den body)
  end.

Definition depth_of (t : tree) : Z := h_depth (hd_of t).

(* a child [t] fits into an environment with head [ph]: it is not a paragraph break, not of a lower level, not an end marker of
   the environment's own class, and not from an outer grouping depth *)
Definition fits (ph : head) (t : tree) : Prop :=
  level t <> PAR_LEVEL /\ h_level ph <= level t /\
  (is_elem t = true -> h_mode (hd_of t) = 2 -> h_typ (hd_of t) <> h_typ ph) /\
  (DOC_LEVEL < h_level ph -> h_depth ph <= depth_of t).

Section Oks.
  Context (okf : ast -> Prop) (fit : tree -> Prop).
  Fixpoint oks (l : list ast) : Prop :=
    match l with [] => True | b :: l' => okf b /\ fit (den b) /\ oks l' end.
End Oks.

Fixpoint ok (a : ast) : Prop :=
  match a with
  | AText _ _ => True
  | ALeaf h _ => h_kind h = KLeaf \/ h_kind h = KText
  | AEnv h he body =>
      h_kind h = KEnv /\ h_mode h <> 2 /\ h_force h = false /\
      h_mode he = 2 /\ h_typ he = h_typ h /\ h_level he <> PAR_LEVEL /\ h_level h <= h_level he /\
      (fix go (l : list ast) : Prop := match l with [] => True | b :: l' => ok b /\ fits h (den b) /\ go l' end) body
  end.

(* ---- typographic substitution -------------------------------------------------------------------- *)

Definition isnil {A} (l : list A) : bool := match l with [] => true | _ => false end.

Fixpoint strip_prefix (p s : list Z) : option (list Z) :=
  match p, s with
  | [], _ => Some s
  | a :: p', b :: s' => if a =? b then strip_prefix p' s' else None
  | _ :: _, [] => None
  end.

(* leftmost, non-overlapping replacement of [src] by [dst] (what TeX's ligature mechanism gives for these tables) *)
Fixpoint replace_aux (n : nat) (src dst s : list Z) : list Z :=
  match n with
  | O => s
  | S n' =>
      match strip_prefix src s with
      | Some r => dst ++ replace_aux n' src dst r
      | None => match s with [] => [] | c :: s' => c :: replace_aux n' src dst s' end
      end
  end.

Definition replace (src dst s : list Z) : list Z :=
  if isnil src then dst ++ flat_map (fun c => c :: dst) s
  else replace_aux (S (length s)) src dst s.

Definition subst_all (subs : list (list Z * list Z)) (v : list Z) : list Z :=
  fold_left (fun v p => replace (fst p) (snd p) v) subs v.

Definition text_content_list (tc : tree -> list Z) (l : list tree) : list Z := flat_map tc l.
Fixpoint text_content (t : tree) : list Z :=
  match t with Text _ s => s | Node _ ch => flat_map text_content ch end.

(* the text a node must show: [subs] applied to each maximal run of adjacent text leaves, nothing below a no-substitution node *)
Fixpoint expected_text (subs : list (list Z * list Z)) (t : tree) : list Z :=
  match t with
  | Text _ s => s
  | Node h ch =>
      let subs' := if h_nosub h then [] else subs in
      (fix go (l : list tree) (run : list Z) : list Z :=
         match l with
         | [] => subst_all subs' run
         | Text _ s :: l' => go l' (run ++ s)
         | (Node _ _ as c) :: l' => subst_all subs' run ++ expected_text subs' c ++ go l' []
         end) ch []
  end.
