(* Spec for C12: what "parsing the output as HTML" yields.

   A small executable rendition of the WHATWG HTML tokenizer, written from the standard (sections 13.2.5.1 data state,
   13.2.5.6-8 tag open / end tag open / tag name, 13.2.5.32-40 attributes, 13.2.5.41-52 bogus comment / markup
   declaration / comment, 13.2.5.72-80 character references), not from plasTeX:

     tokenize ents s : list token     Chr c     a character token (text as displayed)
                                      Markup m  a tag / comment / declaration, m = its raw characters "<" ... ">"
     html_text ents s                 the character tokens of s, in order
     markup_free ents s               s yields character tokens only
     attr_dq ents s                   s starts just after the opening double quote of an attribute value: the decoded value
                                      and the input that follows the closing quote

   [ents] is the table of named character references (name without "&", with its ";" when the name has one -> expansion).
   The theorems hold for every table that is well formed and knows amp; lt; gt; (and quot; where needed); the instance
   [core_ents] (the references the renderer itself can emit plus the legacy names without semicolon that matter for
   the findings) is what the extracted Model computes with.  Numeric references follow 13.2.5.80: 0, surrogates and
   values above 0x10FFFF give U+FFFD, 0x80-0x9F are remapped through the windows-1252 table.

   Simplifications (none touches character data): tag attributes are not split into name/value pairs here - a quote opens a
   quoted value only where an attribute value may start (after "="); raw-text elements (script, style) and RCDATA are not
   modelled (no template routes document text there, see Gen/Templates.v); end of input inside a tag drops the tag,
   end of input after "<" or "</" emits these characters. *)
From Coq Require Import List NArith Bool Arith.
Import ListNotations.
Local Open Scope N_scope.

Definition str := list N.

Fixpoint prefixb (p s : str) : bool :=
  match p, s with
  | [], _ => true
  | x :: p', y :: s' => (x =? y) && prefixb p' s'
  | _ :: _, [] => false
  end.

(* ---- character classes (ASCII, as the standard defines them) ---- *)
Definition is_digit (c : N) : bool := (48 <=? c) && (c <=? 57).
Definition is_hex_upper (c : N) : bool := (65 <=? c) && (c <=? 70).
Definition is_hex_lower (c : N) : bool := (97 <=? c) && (c <=? 102).
Definition is_hex (c : N) : bool := is_digit c || is_hex_upper c || is_hex_lower c.
Definition is_alpha (c : N) : bool := ((65 <=? c) && (c <=? 90)) || ((97 <=? c) && (c <=? 122)).
Definition is_alnum (c : N) : bool := is_alpha c || is_digit c.
Definition is_ws (c : N) : bool := (c =? 9) || (c =? 10) || (c =? 12) || (c =? 13) || (c =? 32).

Fixpoint span (p : N -> bool) (s : str) : str * str :=
  match s with
  | [] => ([], [])
  | c :: r => if p c then let (a, b) := span p r in (c :: a, b) else ([], s)
  end.

(* ---- numeric character references ---- *)
Definition dec_val (ds : str) : N := fold_left (fun a d => a * 10 + (d - 48)) ds 0.
Definition hex_digit_val (c : N) : N := if is_digit c then c - 48 else if is_hex_upper c then c - 55 else c - 87.
Definition hex_val (ds : str) : N := fold_left (fun a d => a * 16 + hex_digit_val d) ds 0.

(* 13.2.5.80, the windows-1252 remapping of C1 controls *)
Definition c1_table : list (N * N) :=
  [(128, 8364); (130, 8218); (131, 402); (132, 8222); (133, 8230); (134, 8224); (135, 8225); (136, 710); (137, 8240);
   (138, 352); (139, 8249); (140, 338); (142, 381); (145, 8216); (146, 8217); (147, 8220); (148, 8221); (149, 8226);
   (150, 8211); (151, 8212); (152, 732); (153, 8482); (154, 353); (155, 8250); (156, 339); (158, 382); (159, 376)].

Fixpoint assocN (k : N) (l : list (N * N)) : option N :=
  match l with [] => None | (a, b) :: r => if a =? k then Some b else assocN k r end.

Definition fix_code (n : N) : N :=
  if n =? 0 then 65533
  else if 1114111 <? n then 65533
  else if (55296 <=? n) && (n <=? 57343) then 65533
  else match assocN n c1_table with Some m => m | None => n end.

Definition semi_len (tl : str) : nat := match tl with 59 :: _ => 1%nat | _ => 0%nat end.

(* ---- named character references: longest match ---- *)
Definition ent_table := list (str * str).

Fixpoint best_match (ents : ent_table) (s : str) : option (str * str) :=
  match ents with
  | [] => None
  | (n, v) :: r =>
      let rest := best_match r s in
      if prefixb n s then
        match rest with
        | Some (n', v') => if (length n' <? length n)%nat then Some (n, v) else rest
        | None => Some (n, v)
        end
      else rest
  end.

(* [s] is the input after "&".  Some (characters, number of characters of s that belong to the reference), or None: the
   ampersand is an ordinary character.  [in_attr]: inside an attribute value a named reference without ";" that is followed by
   "=" or an alphanumeric is left alone (13.2.5.73). *)
Definition char_ref (ents : ent_table) (in_attr : bool) (s : str) : option (str * nat) :=
  match s with
  | 35 :: r =>
      match r with
      | x :: r' =>
          if (x =? 120) || (x =? 88) then
            let (ds, tl) := span is_hex r' in
            match ds with
            | [] => None
            | _ => Some ([fix_code (hex_val ds)], (2 + length ds + semi_len tl)%nat)
            end
          else
            let (ds, tl) := span is_digit r in
            match ds with
            | [] => None
            | _ => Some ([fix_code (dec_val ds)], (1 + length ds + semi_len tl)%nat)
            end
      | [] => None
      end
  | _ =>
      match best_match ents s with
      | Some (n, v) =>
          if in_attr && negb (59 =? last n 0)
             && match skipn (length n) s with c :: _ => (c =? 61) || is_alnum c | [] => false end
          then None else Some (v, length n)
      | None => None
      end
  end.

(* ---- tokenizer ---- *)
Inductive token := Chr (c : N) | Markup (m : str).

Inductive tagq := QPlain | QBefore | QD | QS | QUnq.

Inductive tstate :=
| Data (skip : nat)                 (* skip: characters still to pass over, they belong to a reference already decoded *)
| LtSeen                            (* after "<" *)
| LtSlash                           (* after "</" *)
| Tag (q : tagq) (acc : str)        (* inside a start or end tag; acc = its raw characters so far, reversed *)
| Bang (dashes : nat) (acc : str)   (* after "<!" and [dashes] "-" *)
| Comment (dashes : nat) (acc : str)(* inside "<!--", [dashes] = consecutive "-" just seen (capped at 2) *)
| Bogus (acc : str).                (* bogus comment / declaration: up to ">" *)

Section Tokenizer.
  Context (ents : ent_table).

  Fixpoint tok (st : tstate) (s : str) {struct s} : list token :=
    match s with
    | [] => match st with LtSeen => [Chr 60] | LtSlash => [Chr 60; Chr 47] | _ => [] end
    | c :: r =>
        let data_case := fun (sk : nat) =>
          match sk with
          | S k => tok (Data k) r
          | O =>
              if c =? 60 then tok LtSeen r
              else if c =? 38 then
                match char_ref ents false r with
                | Some (v, k) => map Chr v ++ tok (Data k) r
                | None => Chr 38 :: tok (Data 0) r
                end
              else Chr c :: tok (Data 0) r
          end in
        let emit := fun (acc : str) => Markup (rev (c :: acc)) :: tok (Data 0) r in
        match st with
        | Data sk => data_case sk
        | LtSeen =>
            if is_alpha c then tok (Tag QPlain [c; 60]) r
            else if c =? 47 then tok LtSlash r
            else if c =? 33 then tok (Bang 0 [33; 60]) r
            else if c =? 63 then tok (Bogus [63; 60]) r
            else Chr 60 :: data_case 0%nat
        | LtSlash =>
            if is_alpha c then tok (Tag QPlain [c; 47; 60]) r
            else if c =? 62 then tok (Data 0) r
            else tok (Bogus [c; 47; 60]) r
        | Tag q acc =>
            match q with
            | QPlain => if c =? 62 then emit acc else if c =? 61 then tok (Tag QBefore (c :: acc)) r else tok (Tag QPlain (c :: acc)) r
            | QBefore => if is_ws c then tok (Tag QBefore (c :: acc)) r
                         else if c =? 34 then tok (Tag QD (c :: acc)) r
                         else if c =? 39 then tok (Tag QS (c :: acc)) r
                         else if c =? 62 then emit acc
                         else tok (Tag QUnq (c :: acc)) r
            | QD => if c =? 34 then tok (Tag QPlain (c :: acc)) r else tok (Tag QD (c :: acc)) r
            | QS => if c =? 39 then tok (Tag QPlain (c :: acc)) r else tok (Tag QS (c :: acc)) r
            | QUnq => if is_ws c then tok (Tag QPlain (c :: acc)) r
                      else if c =? 62 then emit acc
                      else tok (Tag QUnq (c :: acc)) r
            end
        | Bang d acc =>
            if c =? 45 then match d with O => tok (Bang 1 (c :: acc)) r | S _ => tok (Comment 2 (c :: acc)) r end
            else if c =? 62 then emit acc
            else tok (Bogus (c :: acc)) r
        | Comment d acc =>
            if c =? 45 then tok (Comment (Nat.min 2 (S d)) (c :: acc)) r
            else if (c =? 62) && (2 <=? d)%nat then emit acc
            else tok (Comment 0 (c :: acc)) r
        | Bogus acc =>
            if c =? 62 then emit acc else tok (Bogus (c :: acc)) r
        end
    end.

  Definition tokenize (s : str) : list token := tok (Data 0) s.

  Fixpoint chars_of (ts : list token) : str :=
    match ts with [] => [] | Chr c :: r => c :: chars_of r | Markup _ :: r => chars_of r end.

  Definition html_text (s : str) : str := chars_of (tokenize s).

  Definition is_chr (t : token) : bool := match t with Chr _ => true | Markup _ => false end.
  Definition markup_free (s : str) : Prop := forallb is_chr (tokenize s) = true.

  (* the value of a double-quoted attribute: s starts just after the opening quote *)
  Fixpoint attr_dq (skip : nat) (s : str) {struct s} : option (str * str) :=
    match s with
    | [] => None
    | c :: r =>
        match skip with
        | S k => attr_dq k r
        | O =>
            if c =? 34 then Some ([], r)
            else if c =? 38 then
              match char_ref ents true r with
              | Some (v, k) => match attr_dq k r with Some (a, tl) => Some (v ++ a, tl) | None => None end
              | None => match attr_dq 0 r with Some (a, tl) => Some (38 :: a, tl) | None => None end
              end
            else match attr_dq 0 r with Some (a, tl) => Some (c :: a, tl) | None => None end
        end
    end.
End Tokenizer.

(* ---- entity tables ---- *)
(* a name is a nonempty alphanumeric word, optionally closed by ";" *)
Fixpoint name_tail_ok (r : str) : bool :=
  match r with
  | [] => true
  | c :: r' => match r' with [] => (c =? 59) || is_alnum c | _ => is_alnum c && name_tail_ok r' end
  end.
Definition name_ok (n : str) : bool :=
  match n with c :: r => is_alnum c && name_tail_ok r | [] => false end.

(* well formed: names are nonempty alphanumeric words with at most a final ";" *)
Definition ents_wf (ents : ent_table) : bool := forallb (fun e => name_ok (fst e)) ents.

Fixpoint lookup_ent (n : str) (ents : ent_table) : option str :=
  match ents with
  | [] => None
  | (a, v) :: r => if (if list_eq_dec N.eq_dec a n then true else false) then Some v else lookup_ent n r
  end.

Definition s_amp_semi : str := [97; 109; 112; 59].
Definition s_lt_semi : str := [108; 116; 59].
Definition s_gt_semi : str := [103; 116; 59].
Definition s_quot_semi : str := [113; 117; 111; 116; 59].

(* the table knows the three references textDefault emits, with their meaning, and at most once *)
Definition knows (ents : ent_table) (n : str) (v : str) : Prop :=
  forall a b, In (a, b) ents -> a = n -> b = v.
Definition has (ents : ent_table) (n : str) : Prop := exists v, In (n, v) ents.

Record ents_ok (ents : ent_table) : Prop := {
  eo_wf : ents_wf ents = true;
  eo_amp : has ents s_amp_semi /\ knows ents s_amp_semi [38];
  eo_lt : has ents s_lt_semi /\ knows ents s_lt_semi [60];
  eo_gt : has ents s_gt_semi /\ knows ents s_gt_semi [62]
}.

(* The references the renderer can emit (amp; lt; gt; from textDefault, nbsp; from the empty-cell rule, quot; from the attribute
   escapers) and the legacy names without semicolon that the standard still decodes in text. *)
Definition core_ents : ent_table :=
  [ ([97; 109; 112; 59], [38]); ([108; 116; 59], [60]); ([103; 116; 59], [62]);
    ([113; 117; 111; 116; 59], [34]); ([97; 112; 111; 115; 59], [39]); ([110; 98; 115; 112; 59], [160]);
    ([97; 109; 112], [38]); ([108; 116], [60]); ([103; 116], [62]); ([113; 117; 111; 116], [34]); ([110; 98; 115; 112], [160]);
    ([99; 111; 112; 121], [169]); ([99; 111; 112; 121; 59], [169]); ([114; 101; 103], [174]); ([114; 101; 103; 59], [174]);
    ([110; 111; 116], [172]); ([110; 111; 116; 59], [172]); ([101; 97; 99; 117; 116; 101], [233]); ([101; 97; 99; 117; 116; 101; 59], [233]);
    ([110; 111; 116; 105; 110; 59], [8713]) ].
