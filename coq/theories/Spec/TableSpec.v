(* Spec for C10: what "lists and tables keep their shape" demands, written from the LaTeX reading of the
   source, not from the Python.

   1. abstract documents ([content]): tables are rows of cells of contents, lists are items of contents,
      arbitrarily nested; [print] is the item stream their source expands to, [tree_of] the tree the
      property demands (one row per source row, one cell per separator-delimited piece holding exactly what
      was written there, nested tables/lists inside the cell/item they were written in).
   2. rules: which cells a \hline / \cline{a-b} must mark (column arithmetic with spans), which rows remain,
      what the column specification contributes ([spec_styles]).
   3. column specifications: AST with *{n}{...}, its printing to tokens and its meaning [den_spec]. *)
From Coq Require Import List ZArith Bool.
Import ListNotations.
From Verif Require Import Val Lists.
Local Open Scope Z_scope.

(* ------------------------------------------------------------------------------------------------ *)
(* 1. abstract documents                                                                              *)

Inductive content :=
| CLeaf (k : kind)                                   (* a character, blank, \par, rule command, \multicolumn, other command *)
| CGroup (body : list content)                       (* { ... } *)
| CMath (body : list content)                        (* $ ... $ *)
| CDecl (c : Z) (body : list content)                (* a declaration (\bfseries ...) and everything after it in its container *)
| CTable (ak : Z) (cols : list colstyle) (rows : list (list (list content)))   (* rows of cells of contents *)
| CList (lk : Z) (pre : list bool) (items : list (option (list Z) * list content)).
    (* pre: blank material written between \begin{..} and the first \item (true = a \par / blank line, false = a blank);
       items: optional term, contents *)

(* a leaf may be anything that is not a structural token of the stream *)
Definition plain_kind (k : kind) : bool :=
  match k with
  | KChar _ | KSpace | KPar | KHline | KCline _ _ | KMulti _ _ _ | KCmd _ => true
  | _ => false
  end.

Fixpoint join {A} (sep : list A) (l : list (list A)) : list A :=
  match l with
  | [] => []
  | [x] => x
  | x :: xs => x ++ sep ++ join sep xs
  end.

(* the item stream of a piece of source written at context depth d.
   \begin{tabular} pushes two frames (the environment, then the first cell), & and \\ pop and push one, the \end pops
   both; \begin{itemize}, $ and { push one frame and their ends pop it.  The end token is read after the pop. *)
Fixpoint print (d : Z) (c : content) : stream :=
  match c with
  | CLeaf k => [leaf k d]
  | CGroup b => leaf KBgroup (d + 1) :: flat_map (print (d + 1)) b ++ [leaf KEgroup d]
  | CMath b => leaf (KBegin EMath []) (d + 1) :: flat_map (print (d + 1)) b ++ [leaf (KEnd EMath) d]
  | CDecl c b => leaf (KBegin (EDecl c) []) (d + 1) :: flat_map (print (d + 1)) b
  | CTable ak cols rows =>
      leaf (KBegin (EArr ak) cols) (d + 2)
      :: join [leaf KCr (d + 2)]
           (map (fun row => leaf KRow (d + 2)
                            :: join [leaf KAmp (d + 2)]
                                 (map (fun cell => leaf KCell (d + 2) :: flat_map (print (d + 2)) cell) row)) rows)
      ++ [leaf (KEnd (EArr ak)) d]
  | CList lk pre items =>
      leaf (KBegin (EList lk) []) (d + 1)
      :: map (fun b : bool => leaf (if b then KPar else KSpace) (d + 1)) pre
      ++ flat_map (fun it => match it with (t, b) => leaf (KItem t) (d + 1) :: flat_map (print (d + 1)) b end) items
      ++ [leaf (KEnd (EList lk)) d]
  end.

(* the tree the property demands *)
Fixpoint tree_of (d : Z) (c : content) : tree :=
  match c with
  | CLeaf k => leaf k d
  | CGroup b => T KBgroup (d + 1) (map (tree_of (d + 1)) b)
  | CMath b => T (KBegin EMath []) (d + 1) (map (tree_of (d + 1)) b)
  | CDecl c b => T (KBegin (EDecl c) []) (d + 1) (map (tree_of (d + 1)) b)
  | CTable ak cols rows =>
      T (KBegin (EArr ak) cols) (d + 2)
        (map (fun row => T KRow (d + 2) (map (fun cell => T KCell (d + 2) (map (tree_of (d + 2)) cell)) row)) rows)
  | CList lk _ items =>
      T (KBegin (EList lk) []) (d + 1)
        (map (fun it => match it with (t, b) => T (KItem t) (d + 1) (map (tree_of (d + 1)) b) end) items)
  end.

(* blank material: a blank character or an (empty) \par *)
Definition blank_content (c : content) : bool :=
  match c with CLeaf KSpace | CLeaf KPar => true | _ => false end.
Definition starts_nonblank (b : list content) : bool :=
  match b with c :: _ => negb (blank_content c) | [] => true end.

(* a declaration reaches to the end of its container: it can only be the last thing written there *)
Definition is_decl (c : content) : bool := match c with CDecl _ _ => true | _ => false end.
Fixpoint decl_last (b : list content) : bool :=
  match b with
  | [] => true
  | [_] => true
  | c :: r => negb (is_decl c) && decl_last r
  end.
Definition no_decl (b : list content) : bool := forallb (fun c => negb (is_decl c)) b.

(* well-formed source: leaves are plain, every table has a row and every row a cell, an item does not begin
   with blank material (TeX drops it there, so it is not "held" by anything), declarations come last in their
   container.  [wf] excludes a declaration written directly in a list item: see C10_list_declaration_refuted. *)
Fixpoint wf (c : content) : bool :=
  match c with
  | CLeaf k => plain_kind k
  | CGroup b => decl_last b && forallb wf b
  | CMath b => decl_last b && forallb wf b
  | CDecl _ b => decl_last b && forallb wf b
  | CTable ak cols rows =>
      negb (match rows with [] => true | _ => false end)
      && forallb (fun row => negb (match row with [] => true | _ => false end)
                             && forallb (fun cell => decl_last cell && forallb wf cell) row) rows
  | CList lk _ items =>
      forallb (fun it => match it with (t, b) => starts_nonblank b && no_decl b && forallb wf b end) items
  end.

(* ------------------------------------------------------------------------------------------------ *)
(* 2. rules and column styles on an abstract table                                                    *)

Inductive rule := RH | RC (a b : Z).      (* \hline ; \cline{a-b} *)

(* what the rule computation looks at in a cell *)
Record acell := mkA {
  a_span : Z;                  (* number of columns the cell covers (1 unless \multicolumn) *)
  a_lead : list rule;          (* rule commands before the content of the cell *)
  a_trail : list rule;         (* rule commands after the content *)
  a_bonly : bool;              (* the cell holds nothing but rules and blanks *)
  a_own : option colstyle      (* the column type given to \multicolumn *)
}.

(* what a cell, as written, contributes: the rule commands before its content and after it (blanks aside), whether it holds
   nothing else, the span and column type of its \multicolumn *)
Definition content_rule (c : content) : option rule :=
  match c with CLeaf KHline => Some RH | CLeaf (KCline a b) => Some (RC a b) | _ => None end.
Fixpoint scan_content (b : list content) : list rule * bool :=
  match b with
  | [] => ([], true)
  | c :: r =>
      if blank_content c then scan_content r
      else match content_rule c with
           | Some ru => let (rs, e) := scan_content r in (ru :: rs, e)
           | None => ([], false)
           end
  end.
Definition content_multi (c : content) : option (Z * colstyle) :=
  match c with CLeaf (KMulti n col _) => Some (n, col) | _ => None end.
Definition acell_of (cell : list content) : acell :=
  let (tr, all) := scan_content (rev cell) in
  let (ld, _) := scan_content cell in
  let m := fold_left (fun acc c => match content_multi c with Some p => Some p | None => acc end) cell None in
  mkA (match m with Some (n, _) => n | None => 1 end)
      (if all then tr ++ ld else ld)          (* a cell of rules only: all of them count as written before the (absent) content *)
      (if all then [] else tr)
      (forallb (fun c => blank_content c || match content_rule c with Some _ => true | None => false end) cell)
      (match m with Some (_, col) => Some col | None => None end).

(* the style of a cell as far as the property speaks about it *)
Record cstyle := mkS { s_top : bool; s_bottom : bool; s_left : bool; s_right : bool; s_align : Z }.
Definition s_empty : cstyle := mkS false false false false 0.

(* a rule covers a cell that starts at column s (1-based) and spans sp columns
   iff the cell's columns s .. s+sp-1 meet the rule's columns *)
Definition covers (s sp : Z) (r : rule) : bool :=
  match r with
  | RH => true
  | RC a b => (a <=? s + sp - 1) && (s <=? b)
  end.

Definition row_bonly (row : list acell) : bool := forallb a_bonly row.
Definition cell_rules (c : acell) : list rule := a_lead c ++ a_trail c.
Definition row_rules (row : list acell) : list rule := flat_map cell_rules row.
Definition row_lead (row : list acell) : list rule := flat_map a_lead row.
Definition row_trail (row : list acell) : list rule := flat_map a_trail row.

(* rules of the border-only rows that directly follow a row *)
Fixpoint following_rules (rest : list (list acell)) : list rule :=
  match rest with
  | row :: rest' => if row_bonly row then row_rules row ++ following_rules rest' else []
  | [] => []
  end.

(* column types that apply to a cell starting at 0-based column j and spanning sp: its own type if it has one,
   else the declared types of the columns it covers (as far as they are declared) *)
Definition cell_specs (cols : list colstyle) (j : nat) (c : acell) : list colstyle :=
  let avail := firstn (Z.to_nat (a_span c)) (skipn j cols) in
  match a_own c with
  | Some own => map (fun _ => own) avail
  | None => avail
  end.
Definition last_align (specs : list colstyle) : Z :=
  fold_left (fun a c => if c_align c =? 0 then a else c_align c) specs 0.

Definition style_spec (cols : list colstyle) (tops bottoms : list rule) (s : Z) (j : nat) (c : acell) : cstyle :=
  let specs := cell_specs cols j c in
  mkS (existsb (covers s (a_span c)) tops)
      (existsb (covers s (a_span c)) bottoms)
      (existsb c_left specs) (existsb c_right specs) (last_align specs).

(* s: 1-based column where the next cell starts (for the rules); j: how many declared column types the cells so
   far have used up.  j = s - 1 whenever every span is at least 1. *)
Fixpoint row_spec (cols : list colstyle) (tops bottoms : list rule) (s : Z) (j : nat) (row : list acell) : list cstyle :=
  match row with
  | c :: row' => style_spec cols tops bottoms s j c
                 :: row_spec cols tops bottoms (s + a_span c) (j + Z.to_nat (a_span c)) row'
  | [] => []
  end.

(* styles of the cells of the rows that remain ([None]: the row held only rules and blanks and is removed).
   [first_rules]: rules of a border-only first row; they mark the top of the row written next. *)
Fixpoint rows_spec (cols : list colstyle) (i : nat) (first_rules : list rule) (rows : list (list acell))
  : list (option (list cstyle)) :=
  match rows with
  | [] => []
  | row :: rest =>
      (if row_bonly row then None
       else Some (row_spec cols ((if Nat.eqb i 1 then first_rules else []) ++ row_lead row)
                           (row_trail row ++ following_rules rest) 1 0 row))
      :: rows_spec cols (S i) first_rules rest
  end.

Definition first_rules_of (rows : list (list acell)) : list rule :=
  match rows with r0 :: _ :: _ => if row_bonly r0 then row_rules r0 else [] | _ => [] end.
Definition table_spec (cols : list colstyle) (rows : list (list acell)) : list (option (list cstyle)) :=
  rows_spec cols 0 (first_rules_of rows) rows.

(* width of a row = sum of the spans; the table has as many columns as its widest remaining row *)
Definition row_width (row : list acell) : Z := fold_right (fun c a => a_span c + a) 0 row.

(* ------------------------------------------------------------------------------------------------ *)
(* 3. column specifications                                                                           *)

Inductive ctok := CT (c : Z) | CLb | CRb | CSp.    (* a character, {, }, a blank *)

Inductive cs :=
| SCol (c : Z)                       (* a column letter that takes no argument: l c r ... *)
| SColArg (c : Z) (arg : list Z)     (* p{width}, d{delim} *)
| SBar                               (* | *)
| SAt (arg : list Z)                 (* @{...} *)
| SGt (arg : list Z)                 (* >{...} *)
| SBlank
| SStar (ds : list Z) (body : list cs).   (* *{n}{body}, n written with the decimal digits ds *)

Definition dec_val (ds : list Z) : Z := fold_left (fun a d => 10 * a + d) ds 0.
Definition digit_toks (ds : list Z) : list ctok := map (fun d => CT (48 + d)) ds.
Definition braced (l : list ctok) : list ctok := CLb :: l ++ [CRb].

Fixpoint print_cs (s : cs) : list ctok :=
  match s with
  | SCol c => [CT c]
  | SColArg c a => CT c :: braced (map CT a)
  | SBar => [CT 124]
  | SAt a => CT 64 :: braced (map CT a)
  | SGt a => CT 62 :: braced (map CT a)
  | SBlank => [CSp]
  | SStar ds body => CT 42 :: braced (digit_toks ds) ++ braced (flat_map print_cs body)
  end.
Definition print_spec (l : list cs) : list ctok := flat_map print_cs l.

(* meaning: the sequence of column letters and bars after the stars are written out *)
Inductive atom := ACol (c : Z) | ABar.

Fixpoint rep {A} (n : nat) (l : list A) : list A := match n with O => [] | S n' => l ++ rep n' l end.

Fixpoint expand (s : cs) : list atom :=
  match s with
  | SCol c | SColArg c _ => [ACol c]
  | SBar => [ABar]
  | SStar ds body => rep (Z.to_nat (dec_val ds)) (flat_map expand body)
  | _ => []
  end.
Definition expand_spec (l : list cs) : list atom := flat_map expand l.

(* text-align of a column letter: r R d right, c C center, l L J X p left, anything else none *)
Definition align_of (c : Z) : Z :=
  if (c =? 114) || (c =? 82) || (c =? 100) then 3
  else if (c =? 99) || (c =? 67) then 2
  else if (c =? 108) || (c =? 76) || (c =? 74) || (c =? 88) || (c =? 112) then 1
  else 0.

(* read from the right: a bar belongs to the column letter before it (right border); bars before the first
   letter are the left border of the first column *)
Fixpoint cols_right (l : list atom) : bool * list colstyle :=
  match l with
  | [] => (false, [])
  | ACol c :: r => let (b, cols) := cols_right r in (false, mkCol (align_of c) false b :: cols)
  | ABar :: r => let (_, cols) := cols_right r in (true, cols)
  end.

(* [None]: the specification has a bar but no column to carry it (LaTeX rejects it; the code raises) *)
Definition den_atoms (l : list atom) : option (list colstyle) :=
  let (b, cols) := cols_right l in
  if b then match cols with
            | c :: r => Some (mkCol (c_align c) true (c_right c) :: r)
            | [] => None
            end
  else Some cols.
Definition den_spec (l : list cs) : option (list colstyle) := den_atoms (expand_spec l).

Definition is_col (a : atom) : bool := match a with ACol _ => true | ABar => false end.
Definition count_cols (l : list atom) : nat := length (filter is_col l).

(* letters that are not column letters without argument *)
Definition special_char (c : Z) : bool :=
  (c =? 124) || (c =? 62) || (c =? 60) || (c =? 64) || (c =? 42) || (c =? 112) || (c =? 80) || (c =? 100) || (c =? 68).
Definition argcol_char (c : Z) : bool := (c =? 112) || (c =? 80) || (c =? 100) || (c =? 68).
Definition is_digit (d : Z) : bool := (0 <=? d) && (d <=? 9).

Fixpoint wf_cs (s : cs) : bool :=
  match s with
  | SCol c => negb (special_char c) && (0 <=? c)
  | SColArg c _ => argcol_char c
  | SStar ds body => negb (match ds with [] => true | _ => false end) && forallb is_digit ds && forallb wf_cs body
  | _ => true
  end.
