(* Spec for C04 — grouping: what a history of context operations is, which histories are balanced,
   and the *lexical* meaning of a balanced history (TeX's grouping rule): a group runs in an
   extension of the environment in force where it opens; when it closes, the local part of the
   environment (definitions, \let aliases, category table) is the one from before the group and only
   the global namespace and the interpreter-wide cells (counters, \newif switches) are kept.

   Nothing here mentions frames, a stack, a heap of category tables or parent pointers: those belong to
   the implementation (Model/Context.v).  Written from the property text, not from the Python.
   The category-table algebra (which_code, set_catcode, verbatim_table) is the one modelled and proved
   for C01 (Model/Tokenizer.v), imported read-only. *)
From Coq Require Import List NArith ZArith Bool.
Import ListNotations.
From Verif Require Import Tokenizer.
Local Open Scope N_scope.

(* ---- vocabulary ---- *)
Definition name := N.                       (* a macro name *)
Inductive value := VDef (id : N)            (* a definition (identity of the macro class) *)
                 | VUnrec (k : name).       (* the "unrecognized command" class generated on a failed lookup *)
Definition ltok := N.                       (* a non-escape token a name has been \let to *)

(* what Context.push / Context.pop look at in the macro instance they are given *)
Record objinfo := {
  oid : N;                                  (* object identity (Python `is`) *)
  otype : N;                                (* type(obj) *)
  omode : N;                                (* macroMode: 0 none, 1 begin, 2 end *)
  oname : list N;                           (* nodeName *)
  oparent : option N;                       (* identity of obj.parentNode, if any *)
  odoc : bool;                              (* level == DOCUMENT_LEVEL *)
  olocals : list (name * value)             (* obj.locals(): macros local to the object's class *)
}.

Inductive op :=
| Push (o : option objinfo)                 (* { \begingroup  \begin{env}  $  \cmd{  sub-process *)
| Pop (o : option objinfo)                  (* } \endgroup    \end{env}    $  }      end of sub-process *)
| AddLocal (k : name) (v : value)           (* \def *)
| AddGlobal (k : name) (v : value)          (* \gdef, \newcommand *)
| LetMacro (d s : name)                     (* \let\d\s *)
| LetTok (d : name) (t : ltok)              (* \let\d=<character token> *)
| GLetMacro (d s : name)                    (* \global\let\d\s *)
| GLetTok (d : name) (t : ltok)             (* \global\let\d=<character token> *)
| Catcode (c : N) (k : N)                   (* \catcode`c=k, \makeatletter, \makeatother *)
| Verbatim                                  (* setVerbatimCatcodes *)
| Getitem (k : name)                        (* use of \k : context[k] *)
| NewIf (k kt kf : name) (v vt vf : value) (cell : N) (init : Z)   (* \newif *)
| NewCounter (c : N) (thek : name) (v : value) (init : Z)          (* \newcounter *)
| SetCell (c : N) (z : Z).                  (* \setcounter, \footrue, \foofalse *)

Definition end_prefix : list N := [101; 110; 100].     (* "end" *)
Definition str_eqb (a b : list N) : bool := if list_eq_dec N.eq_dec a b then true else false.

(* a closing object p closes the frame opened by o: it is the same object (\cmd{…}: push(self)/pop(self)),
   or — provided the frame's object is not p's parent node — an instance of the same class in end mode
   (\begin{env}/\end{env}, $…$, \[ \]), or the \endfoo of \foo *)
Definition closes (o p : objinfo) : bool :=
  (oid o =? oid p) ||
  (negb (match oparent p with Some i => i =? oid o | None => false end) &&
   (((otype p =? otype o) && (omode p =? 2)) || str_eqb (oname p) (end_prefix ++ oname o))).

Definition simple (o : op) : bool :=
  match o with
  | Push _ | Pop _ => false
  | Catcode _ k => k <? 16
  | _ => true
  end.

(* ---- balanced histories ----
   kind = what may still be open at the end of the history:
     Strict   nothing
     InObj    unclosed anonymous groups (the history is the inside of \begin{env}…\end{env}, $…$, \cmd{…};
              plasTeX closes them when the object closes: pop(obj) pops through anonymous frames)
     InGroup  unclosed objects (the history is the inside of {…}: pop() pops through object frames) *)
Inductive kind := Strict | InObj | InGroup.

Inductive Bal : kind -> list op -> Prop :=
| Bal_nil K : Bal K []
| Bal_simple K o h : simple o = true -> Bal K h -> Bal K (o :: h)
| Bal_group K b h : Bal InGroup b -> Bal K h -> Bal K (Push None :: b ++ Pop None :: h)
| Bal_obj K o p b h : odoc o = false -> closes o p = true -> Bal InObj b -> Bal K h ->
                      Bal K (Push (Some o) :: b ++ Pop (Some p) :: h)
| Bal_open_anon h : Bal InObj h -> Bal InObj (Push None :: h)
| Bal_open_obj o h : odoc o = false -> Bal InGroup h -> Bal InGroup (Push (Some o) :: h).

(* the balanced inputs of the property statement: nothing left open at top level *)
Definition Balanced (h : list op) : Prop := Bal Strict h.

(* ---- lexical environments ---- *)
Fixpoint find {A} (k : N) (l : list (N * A)) : option A :=
  match l with [] => None | (k', a) :: r => if k' =? k then Some a else find k r end.

Record senv := {
  loc_m : list (name * value);              (* definitions local to the open groups, innermost first *)
  loc_l : list (name * ltok);               (* \let aliases local to the open groups *)
  cat : table;                              (* category table in force *)
  glo_m : list (name * value);              (* the global namespace *)
  glo_l : list (name * ltok);
  s_cells : list (N * Z)                    (* counters and \newif switches: interpreter-wide *)
}.

Definition s_lookup (e : senv) (k : name) : option value := find k (loc_m e ++ glo_m e).
Definition s_getlet (e : senv) (k : name) : option ltok := find k (loc_l e ++ glo_l e).
Definition s_which (e : senv) (c : N) : N := which_code (cat e) c.

Definition set_loc_m (e : senv) (m : list (name * value)) : senv :=
  {| loc_m := m; loc_l := loc_l e; cat := cat e; glo_m := glo_m e; glo_l := glo_l e; s_cells := s_cells e |}.
Definition set_loc_l (e : senv) (l : list (name * ltok)) : senv :=
  {| loc_m := loc_m e; loc_l := l; cat := cat e; glo_m := glo_m e; glo_l := glo_l e; s_cells := s_cells e |}.
Definition set_cat (e : senv) (t : table) : senv :=
  {| loc_m := loc_m e; loc_l := loc_l e; cat := t; glo_m := glo_m e; glo_l := glo_l e; s_cells := s_cells e |}.
Definition set_glo_m (e : senv) (m : list (name * value)) : senv :=
  {| loc_m := loc_m e; loc_l := loc_l e; cat := cat e; glo_m := m; glo_l := glo_l e; s_cells := s_cells e |}.
Definition set_glo_l (e : senv) (l : list (name * ltok)) : senv :=
  {| loc_m := loc_m e; loc_l := loc_l e; cat := cat e; glo_m := glo_m e; glo_l := l; s_cells := s_cells e |}.
Definition set_cells (e : senv) (c : list (N * Z)) : senv :=
  {| loc_m := loc_m e; loc_l := loc_l e; cat := cat e; glo_m := glo_m e; glo_l := glo_l e; s_cells := c |}.

(* a use of \k that finds no definition defines \k globally as "unrecognized" *)
Definition s_getitem (e : senv) (k : name) : senv * value :=
  match s_lookup e k with
  | Some v => (e, v)
  | None => (set_glo_m e ((k, VUnrec k) :: glo_m e), VUnrec k)
  end.

(* meaning of a non-grouping operation inside a group *)
Definition sstep (o : op) (e : senv) : senv :=
  match o with
  | AddLocal k v => set_loc_m e ((k, v) :: loc_m e)
  | AddGlobal k v => set_glo_m e ((k, v) :: glo_m e)
  | LetMacro d s => let (e1, v) := s_getitem e s in set_loc_m e1 ((d, v) :: loc_m e1)
  | LetTok d t => set_loc_l e ((d, t) :: loc_l e)
  | GLetMacro d s => let (e1, v) := s_getitem e s in set_glo_m e1 ((d, v) :: glo_m e1)
  | GLetTok d t => set_glo_l e ((d, t) :: glo_l e)
  | Catcode c k => set_cat e (set_catcode (cat e) c k)
  | Verbatim => set_cat e verbatim_table
  | Getitem k => fst (s_getitem e k)
  | NewIf k kt kf v vt vf cell init =>
      match s_lookup e k with
      | Some _ => e
      | None => set_cells (set_glo_m e ((kf, vf) :: (kt, vt) :: (k, v) :: glo_m e)) ((cell, init) :: s_cells e)
      end
  | NewCounter c thek v init =>
      match find c (s_cells e) with
      | Some _ => e
      | None => set_cells (set_glo_m e ((thek, v) :: glo_m e)) ((c, init) :: s_cells e)
      end
  | SetCell c z => set_cells e ((c, z) :: s_cells e)
  | Push _ | Pop _ => e
  end.

Definition locals_of (o : option objinfo) : list (name * value) :=
  match o with Some x => olocals x | None => [] end.

(* opening a group: same environment, plus the macros local to the opening object *)
Definition enter (o : option objinfo) (e : senv) : senv := set_loc_m e (locals_of o ++ loc_m e).

(* closing a group that was opened in e and whose inside ended in e1:
   everything local is as in e; the global namespace (definitions and aliases) and the cells are those of e1 *)
Definition leave (e e1 : senv) : senv :=
  {| loc_m := loc_m e; loc_l := loc_l e; cat := cat e; glo_m := glo_m e1; glo_l := glo_l e1; s_cells := s_cells e1 |}.

(* big-step lexical semantics of balanced histories: Sem K h e e' — running h in e ends in e' *)
Inductive Sem : kind -> list op -> senv -> senv -> Prop :=
| S_nil K e : Sem K [] e e
| S_simple K o h e e' : simple o = true -> Sem K h (sstep o e) e' -> Sem K (o :: h) e e'
| S_group K b h e e1 e' : Sem InGroup b (enter None e) e1 -> Sem K h (leave e e1) e' ->
                          Sem K (Push None :: b ++ Pop None :: h) e e'
| S_obj K o p b h e e1 e' : odoc o = false -> closes o p = true ->
                            Sem InObj b (enter (Some o) e) e1 -> Sem K h (leave e e1) e' ->
                            Sem K (Push (Some o) :: b ++ Pop (Some p) :: h) e e'
| S_open_anon h e e' : Sem InObj h (enter None e) e' -> Sem InObj (Push None :: h) e e'
| S_open_obj o h e e' : odoc o = false -> Sem InGroup h (enter (Some o) e) e' -> Sem InGroup (Push (Some o) :: h) e e'.

(* what a group (opened by o, closed by p, inside b) does when run in e *)
Definition kind_of (o : option objinfo) : kind := match o with None => InGroup | Some _ => InObj end.
Definition brackets (o p : option objinfo) : bool :=
  match o, p with
  | None, None => true
  | Some x, Some y => negb (odoc x) && closes x y
  | _, _ => false
  end.

(* global effect of a history: the global namespace (definitions, aliases) and the cells after it; everything else is local *)
Definition global_effect (e1 : senv) : list (name * value) * list (name * ltok) * list (N * Z) := (glo_m e1, glo_l e1, s_cells e1).

(* ---- innermost live definition ---- *)
(* layers, innermost first; the definition of k in force is the one of the first layer that has one *)
Definition innermost {A} (layers : list (list (N * A))) (k : N) (r : option A) : Prop :=
  match r with
  | Some v => exists pre l post, layers = pre ++ l :: post /\ (forall g, In g pre -> find k g = None) /\ find k l = Some v
  | None => forall g, In g layers -> find k g = None
  end.

(* syntactic: the history never writes k into the global namespace *)
Definition no_gwrite (k : name) (o : op) : bool :=
  match o with
  | AddGlobal k' _ => negb (k' =? k)
  | LetMacro _ s => negb (s =? k)
  | GLetMacro d s => negb (d =? k) && negb (s =? k)
  | Getitem k' => negb (k' =? k)
  | NewIf a b c _ _ _ _ _ => negb (a =? k) && negb (b =? k) && negb (c =? k)
  | NewCounter _ thek _ _ => negb (thek =? k)
  | _ => true
  end.

(* syntactic: the history never makes a global alias for k *)
Definition no_glet (k : name) (o : op) : bool :=
  match o with GLetTok d _ => negb (d =? k) | _ => true end.
