(* Spec for C11, written from the property text (not from the Python).
   Part 1: what "the content of a verbatim environment" is -- string search for the first complete end delimiter.
   Part 2: what "the source is token-for-token what the author wrote, blanks aside" means for a document node. *)
From Coq Require Import List NArith Bool Arith.
Import ListNotations.
From Verif Require Import Catcodes Tokenizer Verbatim Source.
Local Open Scope N_scope.

(* ---- Part 1 -------------------------------------------------------------------------------- *)
Definition is_suffix {A} (p l : list A) : Prop := exists q, l = q ++ p.

(* one of the two end delimiters ends exactly at position k of the character string s *)
Definition ends_at (p1 p2 s : list N) (k : nat) : Prop :=
  (k <= length s)%nat /\ (is_suffix p1 (firstn k s) \/ is_suffix p2 (firstn k s)).

(* under the verbatim category codes every character is a token of its own *)
Definition vtok (c : N) : tok := Tok (which_code verbatim_table c) [c].
Definition vitem (c : N) : item := ITok (vtok c).

(* ---- Part 2 -------------------------------------------------------------------------------- *)
(* blanks = space tokens *)
Definition is_blank (t : tok) : bool := match t with Tok k _ => k =? CC_SPACE end.
Definition strip_blanks (l : list tok) : list tok := filter (fun t => negb (is_blank t)) l.

Section Author.
Context (t : table).
Notation code := (which_code t).

(* the token TeX's lexical rules make of a lone character of a given category (blanks aside: a space gives nothing) *)
Definition char_toks (c : N) : list tok :=
  let k := code c in
  if k =? CC_SPACE then []
  else if k =? CC_ACTIVE then [Tok CC_ESCAPE (active_prefix ++ [c])]
  else [Tok k [c]].

Definition chars_toks (l : list N) : list tok := flat_map char_toks l.

(* a node name of the form active::c *)
Definition active_char (name : list N) : option N :=
  if nlist_eqb (firstn 8 name) active_prefix then match skipn 8 name with [c] => Some c | _ => None end else None.

(* the tokens that stand for the control sequence [name] in what the author wrote *)
Definition name_toks (name : list N) : list tok :=
  match active_char name with
  | Some c => char_toks c
  | None => [Tok CC_ESCAPE name]
  end.

Definition t_begin (name : list N) : list tok := [Tok CC_ESCAPE s_begin; Tok CC_BGROUP [123]] ++ chars_toks name ++ [Tok CC_EGROUP [125]].
Definition t_end (name : list N) : list tok := [Tok CC_ESCAPE s_end; Tok CC_BGROUP [123]] ++ chars_toks name ++ [Tok CC_EGROUP [125]].

(* the author's tokens of a node, blanks aside *)
Fixpoint node_toks (n : node) : list tok :=
  match n with
  | NTok c => char_toks c
  | NEsc name => name_toks name
  | NMacro mode name selfarg args body =>
    match mode with
    | MNone => name_toks name ++ flat_map node_toks args ++ (if selfarg then [] else flat_map node_toks body)
    | MBegin => t_begin name ++ flat_map node_toks args ++ (if is_nil body then [] else flat_map node_toks body ++ t_end name)
    | MEnd => t_end name
    end
  | NGroup endit body =>
    if is_nil body then (if endit then [Tok CC_BGROUP [123]; Tok CC_EGROUP [125]] else [Tok CC_BGROUP [123]])
    else Tok CC_BGROUP [123] :: flat_map node_toks body ++ [Tok CC_EGROUP [125]]
  | NMath body =>
    if is_nil body then [Tok CC_MATH [36]] else Tok CC_MATH [36] :: flat_map node_toks body ++ [Tok CC_MATH [36]]
  | NDisplay mode body =>
    if is_nil body then (match mode with MEnd => [Tok CC_ESCAPE [93]] | _ => [Tok CC_ESCAPE [91]] end)
    else Tok CC_ESCAPE [91] :: flat_map node_toks body ++ [Tok CC_ESCAPE [93]]
  end.

(* ---- the formulas the statement speaks about (well-formed nodes) ---- *)
Definition in_cats (c : N) (ks : list N) : bool := existsb (N.eqb (code c)) ks.
(* characters that stand for themselves: groups, math shift, alignment, parameter, subscript, blank, letter, other, active *)
Definition plainc (c : N) : bool := in_cats c [1; 2; 3; 4; 6; 8; 10; 11; 12; 13].
(* characters that may follow the escape character in a control symbol *)
Definition symc (c : N) : bool := in_cats c [0; 1; 2; 3; 4; 6; 8; 10; 12; 13; 14].
Definition letterc (c : N) : bool := code c =? CC_LETTER.
Definition wordb (w : list N) : bool := negb (is_nil w) && forallb letterc w && negb (nlist_eqb w s_par).
Definition envnameb (w : list N) : bool := forallb (fun c => in_cats c [11; 12]) w && negb (has_sep w).
(* the characters plasTeX makes active commands of: alignment, superscript, subscript, active *)
Definition activec (c : N) : bool := in_cats c [4; 7; 8; 13].

Definition first_is_not (c : N) (l : list N) : bool := match l with x :: _ => negb (x =? c) | [] => true end.

Definition nameb (name : list N) : bool :=
  match active_char name with
  | Some c => activec c
  | None => wordb name || match name with [c] => symc c | _ => false end
  end.

(* the rewriting of \left< into \left\langle is excluded (known finding) *)
Definition not_angle (name : list N) (argsrc : list N) : bool :=
  negb (angle_name name && (nlist_eqb argsrc [60] || nlist_eqb argsrc [62])).

Fixpoint wf (n : node) : bool :=
  match n with
  | NTok c => plainc c
  | NEsc name => wordb name || match name with [c] => symc c | _ => false end
  | NMacro mode name selfarg args body =>
    forallb wf args && forallb wf body && not_angle name (flat_map src args) &&
    match mode with
    | MNone =>
      nameb name &&
      match active_char name with
      | Some c =>    (* a superscript character must not be followed by itself: "^^" would be read as the ^^X notation *)
        if code c =? CC_SUPER
        then first_is_not c (sep_args [c] (flat_map src args) ++ (if selfarg then [] else flat_map src body))
        else true
      | None => true
      end
    | _ => envnameb name
    end
  | NGroup _ body => forallb wf body
  | NMath body => forallb wf body
  | NDisplay _ body => forallb wf body
  end.
(* ---- flat token lists (M4): TeX.source(tokens) prints every token by Token.source / EscapeSequence.source ---- *)
Definition tok_node (tk : tok) : node :=
  match tk with Tok k txt => if k =? CC_ESCAPE then NEsc txt else NTok (hd 0 txt) end.
Definition print_toks (ts : list tok) : list N := src_list (map tok_node ts).
(* the tokens the tokenizer can have produced from a formula: control words and symbols, and single characters carrying
   the category of their character (group, math shift, alignment, parameter, subscript, blank, letter, other) *)
Definition good_tok (tk : tok) : bool :=
  match tk with
  | Tok k txt =>
    if k =? CC_ESCAPE then wf (NEsc txt)
    else match txt with [c] => (k =? code c) && in_cats c [1; 2; 3; 4; 6; 8; 10; 11; 12] | _ => false end
  end.
End Author.

(* ---- tokens as the tokenizer makes them under the ordinary codes (hypothesis of the parser theorems, Proofs/MathParseProofs.v):
   a control sequence (an active character only in the form active::c), or one character carrying its own category;
   the group and math-shift characters are { } $ ---- *)
Definition canon (t : tok) : bool :=
  match t with
  | Tok k txt =>
    if k =? CC_ESCAPE then match active_char txt with Some c => which_code default_table c =? CC_ACTIVE | None => true end
    else match txt with
         | [c] => (k =? which_code default_table c) && in_cats default_table c [1; 2; 3; 4; 6; 7; 8; 10; 11; 12]
                  && implb (k =? 1) (c =? 123) && implb (k =? 2) (c =? 125) && implb (k =? 3) (c =? 36)
         | _ => false
         end
  end.
