(* Spec for C01: TeX's lexical rules (as adopted by the property statement), one clause per constructor.
   [Dec] is the reading of one significant character (the ^^X rule, ignored/invalid characters dropped);
   [LexStep] is one turn of the N/M/S line-state machine of The TeXbook ch. 8.
   Deviations of plasTeX that the statement adopts are marked (*plasTeX*). *)
From Coq Require Import List NArith Bool.
Import ListNotations.
From Verif Require Import Tokenizer.
Local Open Scope N_scope.

Section Lex.
Context (t : table).
Notation code := (which_code t).

(* Dec input result: the next significant character of [input], its category, and what follows *)
Inductive Dec : list N -> cres -> Prop :=
| DecEnd : Dec [] CEnd
| DecPlain c r :                       (* an ordinary character stands for itself *)
    code c <> CC_SUPER -> dropped (code c) = false -> Dec (c :: r) (CChar (code c) c r)
| DecDrop c r res :                    (* ignored / invalid characters vanish *)
    code c <> CC_SUPER -> dropped (code c) = true -> Dec r res -> Dec (c :: r) res
| DecSuperLast c :                     (* a superscript character at the very end *)
    code c = CC_SUPER -> Dec [c] (CChar CC_SUPER c [])
| DecSuperSingle c d r :               (* a superscript character not doubled *)
    code c = CC_SUPER -> d <> c -> Dec (c :: d :: r) (CChar CC_SUPER c (d :: r))
| DecHat c x r :                       (* ^^X : the character whose code differs from X by 64 *)
    code c = CC_SUPER -> dropped (code (flip64 x)) = false ->
    Dec (c :: c :: x :: r) (CChar (code (flip64 x)) (flip64 x) r)
| DecHatDrop c x r res :               (* ... which may itself be ignored *)
    code c = CC_SUPER -> dropped (code (flip64 x)) = true -> Dec r res -> Dec (c :: c :: x :: r) res
| DecHatEnd c :                        (* ^^ with nothing after it: two superscript characters *)
    code c = CC_SUPER -> Dec [c; c] (CChar CC_SUPER c [c]).

(* LetterRun l w rest: w is the maximal run of letters at the head of l (decoded), rest is what follows,
   starting with the (decoded) first non-letter *)
Inductive LetterRun : list N -> list N -> list N -> Prop :=
| LREnd l : Dec l CEnd -> LetterRun l [] []
| LRStop l k c r : Dec l (CChar k c r) -> k <> CC_LETTER -> LetterRun l [] (c :: r)
| LRLetter l c r w rest : Dec l (CChar CC_LETTER c r) -> LetterRun r w rest -> LetterRun l (c :: w) rest.

Definition significant (k : cat) : Prop :=
  k = CC_BGROUP \/ k = CC_EGROUP \/ k = CC_MATH \/ k = CC_ALIGN \/ k = CC_PARAM \/ k = CC_SUPER \/ k = CC_SUB \/
  k = CC_LETTER \/ k = CC_OTHER.

Definition st (l : lst) (p : option tok) (i : list N) : tst := {| lx := l; prev := p; inp := i |}.
Definition emit (tk : tok) (l : lst) (i : list N) : sres := Emit tk (st l (Some tk) i).

Inductive LexStep : tst -> sres -> Prop :=
| LxEnd s : Dec (inp s) CEnd -> LexStep s Done
(* one token per significant character, with that character's current category; state M *)
| LxChar s k c r : Dec (inp s) (CChar k c r) -> significant k -> LexStep s (emit (Tok k [c]) SM r)
(* blanks: one space token in the middle of a line, nothing after a control word / space / at a line start *)
| LxSpaceM s c r : Dec (inp s) (CChar CC_SPACE c r) -> lx s = SM -> LexStep s (emit space_tok SS r)
| LxSpaceSkip s c r : Dec (inp s) (CChar CC_SPACE c r) -> lx s <> SM -> LexStep s (Skip (st (lx s) (prev s) r))
(* end of line: a space in state M, nothing in state S, a paragraph token in state N *)
| LxEolM s c r : Dec (inp s) (CChar CC_EOL c r) -> lx s = SM -> LexStep s (emit space_tok SN r)
| LxEolS s c r : Dec (inp s) (CChar CC_EOL c r) -> lx s = SS -> LexStep s (Skip (st SN (prev s) r))
| LxEolPar s c r : Dec (inp s) (CChar CC_EOL c r) -> lx s = SN -> prev_is (prev s) par_tok = false ->
    LexStep s (emit par_tok SN (if c =? 10 then r else readline r))
| LxEolParAgain s c r :       (*plasTeX*: consecutive paragraph tokens are collapsed *)
    Dec (inp s) (CChar CC_EOL c r) -> lx s = SN -> prev_is (prev s) par_tok = true ->
    LexStep s (Skip (st SN (prev s) (if c =? 10 then r else readline r)))
(* comments are removed through the end of the line; the next line starts in state N *)
| LxComment s c r : Dec (inp s) (CChar CC_COMMENT c r) -> LexStep s (Skip (st SN (prev s) (readline r)))
(* active characters *)
| LxActive s c r : Dec (inp s) (CChar CC_ACTIVE c r) -> LexStep s (emit (Tok CC_ESCAPE (active_prefix ++ [c])) SM r)
(* control word: escape + maximal run of letters; blanks after it are skipped (state S) *)
| LxCtrlWord s c r c1 r1 w rest :
    Dec (inp s) (CChar CC_ESCAPE c r) -> Dec r (CChar CC_LETTER c1 r1) -> LetterRun r1 w rest ->
    LexStep s (emit (Tok CC_ESCAPE (c1 :: w)) SS rest)
(* control symbol: escape + one non-letter; state M *)
| LxCtrlSym s c r k1 c1 r1 :
    Dec (inp s) (CChar CC_ESCAPE c r) -> Dec r (CChar k1 c1 r1) -> k1 <> CC_LETTER -> k1 <> CC_EOL ->
    LexStep s (emit (Tok CC_ESCAPE [c1]) SM r1)
| LxCtrlEol s c r c1 r1 :     (*plasTeX*: escape + end of line is a space token, state S *)
    Dec (inp s) (CChar CC_ESCAPE c r) -> Dec r (CChar CC_EOL c1 r1) -> LexStep s (emit space_tok SS r1)
| LxCtrlEnd s c r :           (* escape at the very end of the input: the empty control sequence *)
    Dec (inp s) (CChar CC_ESCAPE c r) -> Dec r CEnd -> LexStep s (emit (Tok CC_ESCAPE []) SM []).

(* the prescribed token stream: iterate LexStep from state N *)
Inductive Lex : tst -> list tok -> Prop :=
| LexDone s : LexStep s Done -> Lex s []
| LexEmit s tk s' l : LexStep s (Emit tk s') -> Lex s' l -> Lex s (tk :: l)
| LexSkip s s' l : LexStep s (Skip s') -> Lex s' l -> Lex s l.
End Lex.
