(* Spec for C02 / C03 at program level: a small macro language and its reference evaluator [den], written from
   TeX's rules (The TeXbook ch. 20): textual substitution of arguments for parameters, dynamic binding, group
   scoping of \def, global \gdef, conditionals selecting exactly one branch, counters (global), \newif switches
   (interpreter-wide, as the properties state).  It knows nothing about tokens: the harness prints a program to
   LaTeX source (delimiters, braces, \csname spelling are printing choices) and plasTeX must produce the text [den]
   computes.  Executable; extracted and used as the oracle of the program-level streams. *)
From Coq Require Import List ZArith Bool QArith.
Import ListNotations.
From Verif Require Import Val.
Local Open Scope Z_scope.

Inductive rel := RLt | RGt | REq.
Inductive operand := OLit (z : Z) | OCnt (c : Z).           (* literal (possibly macro-produced) | \value{c} *)

Inductive test :=
| TTrue | TFalse
| TNum (a : operand) (r : rel) (b : operand)
| TOdd (a : operand)
| TDim (a : Q) (r : rel) (b : Q)          (* dimensions in sp as exact rationals *)
| TSwitch (name : Z)                       (* \ifname created by \newif *)
| TDefined (name : Z)                      (* \ifdefined\name *)
| TIfxChar (a b : Z)                       (* \ifx between two character tokens *)
| TIfxMac (a b : Z).                       (* \ifx between two parameterless macros with plain-text bodies *)

Inductive node :=
| NWord (w : Z)                            (* marker word *)
| NGroup (body : list node)                (* { ... } or \begingroup ... \endgroup *)
| NDef (global : bool) (name : Z) (nparams : nat) (default : option (list node)) (body : list node)
| NLet (name target : Z)                   (* \let\name=\target *)
| NCall (name : Z) (opt : option (list node)) (args : list (list node))
| NParam (k : nat)                         (* #k, only meaningful inside a body *)
| NParam2 (k : nat)                        (* ##k: parameter k of a definition nested inside a body *)
| NExpandAfter (a b : Z)                   (* \expandafter\a\b with \b parameterless: \b is expanded first *)
| NHash                                    (* ## in a body: a literal # (printed text "#") *)
| NCond (t : test) (thn : list node) (els : option (list node))
| NCase (a : operand) (branches : list (list node)) (els : option (list node))
| NSetSwitch (name : Z) (b : bool)
| NNewSwitch (name : Z)
| NStep (c : Z) | NSetC (c : Z) (z : Z) | NAddC (c : Z) (z : Z).

(* a macro meaning: number of mandatory parameters (after the optional one), default of the optional one, body *)
Record meaning := { m_n : nat; m_default : option (list node); m_body : list node }.
Definition frame := list (Z * meaning).
Record env := { frames : list frame;           (* innermost first; the last one is the global frame *)
                counters : list (Z * Z);
                switches : list (Z * bool);
                steps : nat }.                  (* evaluation budget left: a program that needs more is given up (never compared) *)

Fixpoint alookup {A} (k : Z) (l : list (Z * A)) : option A :=
  match l with [] => None | (k', v) :: r => if k =? k' then Some v else alookup k r end.
Fixpoint aremove {A} (k : Z) (l : list (Z * A)) : list (Z * A) :=
  match l with [] => [] | (k', v) :: r => if k =? k' then aremove k r else (k', v) :: aremove k r end.
Definition aset {A} (k : Z) (v : A) (l : list (Z * A)) : list (Z * A) := (k, v) :: aremove k l.

Fixpoint lookup_frames (k : Z) (fs : list frame) : option meaning :=
  match fs with [] => None | f :: r => match alookup k f with Some m => Some m | None => lookup_frames k r end end.

Definition def_local (k : Z) (m : meaning) (fs : list frame) : list frame :=
  match fs with [] => [[(k, m)]] | f :: r => aset k m f :: r end.
(* a global assignment replaces the meaning at every level *)
Fixpoint def_global (k : Z) (m : meaning) (fs : list frame) : list frame :=
  match fs with
  | [] => [[(k, m)]]
  | [g] => [aset k m g]
  | f :: r => aremove k f :: def_global k m r
  end.

Definition cnt (e : env) (c : Z) : Z := match alookup c (counters e) with Some v => v | None => 0 end.
Definition opval (e : env) (o : operand) : Z := match o with OLit z => z | OCnt c => cnt e c end.
Definition relz (r : rel) (a b : Z) : bool := match r with RLt => a <? b | RGt => a >? b | REq => a =? b end.
Definition relq (r : rel) (a b : Q) : bool :=
  match r, Qcompare a b with RLt, Lt => true | RGt, Gt => true | REq, Eq => true | _, _ => false end.

Fixpoint nodes_eqb_words (a b : list node) : bool :=   (* equality of plain-text bodies *)
  match a, b with
  | [], [] => true
  | NWord x :: a', NWord y :: b' => (x =? y) && nodes_eqb_words a' b'
  | _, _ => false
  end.

Definition eval_test (e : env) (t : test) : bool :=
  match t with
  | TTrue => true | TFalse => false
  | TNum a r b => relz r (opval e a) (opval e b)
  | TOdd a => Z.odd (opval e a)
  | TDim a r b => relq r a b
  | TSwitch n => match alookup n (switches e) with Some b => b | None => false end
  | TDefined n => match lookup_frames n (frames e) with Some _ => true | None => false end
  | TIfxChar a b => a =? b
  | TIfxMac a b => match lookup_frames a (frames e), lookup_frames b (frames e) with
                   | Some ma, Some mb => Nat.eqb (m_n ma) (m_n mb) && nodes_eqb_words (m_body ma) (m_body mb)
                   | None, None => true
                   | _, _ => false
                   end
  end.

(* when a body is expanded, the parameters of definitions nested in it lose one level of # *)
Fixpoint lower (fuel : nat) (body : list node) : list node :=
  match fuel with O => body | S f =>
  let low := lower f in
  map (fun n =>
    match n with
    | NParam2 k => NParam k
    | NGroup b => NGroup (low b)
    | NDef g nm np d b => NDef g nm np (option_map low d) (low b)
    | NCall nm o a => NCall nm (option_map low o) (map low a)
    | NCond t th el => NCond t (low th) (option_map low el)
    | NCase a bs el => NCase a (map low bs) (option_map low el)
    | other => other
    end) body
  end.

(* textual substitution of arguments for parameters (## stays a literal #) *)
Fixpoint subst (fuel : nat) (args : list (list node)) (body : list node) : list node :=
  match fuel with O => body | S f =>
  let sub := subst f args in
  flat_map (fun n =>
    match n with
    | NParam k => nth (k - 1) args []
    | NGroup b => [NGroup (sub b)]
    | NDef g nm np d b => [NDef g nm np (option_map sub d) (lower 50 (sub b))]
    | NCall nm o a => [NCall nm (option_map sub o) (map sub a)]
    | NCond t th el => [NCond t (sub th) (option_map sub el)]
    | NCase a bs el => [NCase a (map sub bs) (option_map sub el)]
    | other => [other]
    end) body
  end.

Inductive outcome := Ok (e : env) (out : list Z) | Stuck (why : Z) | OutOfFuel.
(* Stuck: 1 undefined macro, 2 wrong number of arguments *)

Definition HASH : Z := -1.   (* the text "#" in the output *)

Fixpoint eval (fuel : nat) (e : env) (out : list Z) (ns : list node) : outcome :=
  match fuel with O => OutOfFuel | S f =>
  match ns with
  | [] => Ok e out
  | n :: rest =>
    match steps e with O => OutOfFuel | S budget =>
    let e := {| frames := frames e; counters := counters e; switches := switches e; steps := budget |} in
    let continue e' out' := eval f e' out' rest in
    match n with
    | NWord w => continue e (w :: out)
    | NHash => continue e (HASH :: out)
    | NParam _ => continue e out
    | NParam2 _ => continue e out
    | NExpandAfter a b =>
        match lookup_frames a (frames e), lookup_frames b (frames e) with
        | Some ma, Some mb =>
            (* \b (no parameters) is replaced by its body; then \a finds its arguments there: the body must start
               with one brace group per parameter of \a *)
            let fix take (k : nat) (l : list node) (acc : list (list node)) : option (list (list node) * list node) :=
              match k with
              | O => Some (rev acc, l)
              | S k' => match l with NGroup g :: l' => take k' l' (g :: acc) | _ => None end
              end in
            match m_n mb, m_default mb, m_default ma with
            | O, None, None =>
                match take (m_n ma) (subst 50 [] (m_body mb)) [] with
                | Some (args, after) =>
                    match eval f e out (NCall a None args :: after) with
                    | Ok e' out' => continue e' out'
                    | other => other
                    end
                | None => Stuck 3
                end
            | _, _, _ => Stuck 3
            end
        | _, _ => Stuck 1
        end
    | NGroup b =>
        match eval f {| frames := [] :: frames e; counters := counters e; switches := switches e; steps := steps e |} out b with
        | Ok e' out' => continue {| frames := tl (frames e'); counters := counters e'; switches := switches e'; steps := steps e' |} out'
        | other => other
        end
    | NDef g nm np d b =>
        let m := {| m_n := np; m_default := d; m_body := b |} in
        continue {| frames := (if g then def_global else def_local) nm m (frames e); counters := counters e; switches := switches e; steps := steps e |} out
    | NLet nm tg =>
        match lookup_frames tg (frames e) with
        | Some m => continue {| frames := def_local nm m (frames e); counters := counters e; switches := switches e; steps := steps e |} out
        | None => Stuck 1
        end
    | NCall nm o a =>
        match lookup_frames nm (frames e) with
        | None => Stuck 1
        | Some m =>
            if Nat.eqb (length a) (m_n m) then
              let args := match m_default m with
                          | Some d => (match o with Some x => x | None => d end) :: a
                          | None => a
                          end in
              let body := subst 50 args (m_body m) in
              (* a size guard: programs whose expansion explodes are given up (reported as out of fuel, never compared) *)
              if Nat.ltb 4000 (length body) then OutOfFuel else
              match eval f e out body with
              | Ok e' out' => continue e' out'
              | other => other
              end
            else Stuck 2
        end
    | NCond t th el =>
        let b := if eval_test e t then th else match el with Some x => x | None => [] end in
        match eval f e out b with Ok e' out' => continue e' out' | other => other end
    | NCase a bs el =>
        let z := opval e a in
        let b := if (0 <=? z) && (z <? Z.of_nat (length bs)) then nth (Z.to_nat z) bs []
                 else match el with Some x => x | None => [] end in
        match eval f e out b with Ok e' out' => continue e' out' | other => other end
    | NSetSwitch nm b => continue {| frames := frames e; counters := counters e; switches := aset nm b (switches e); steps := steps e |} out
    | NNewSwitch nm =>
        continue {| frames := frames e; counters := counters e;
                    switches := match alookup nm (switches e) with Some _ => switches e | None => aset nm false (switches e) end;
                    steps := steps e |} out
    | NStep c => continue {| frames := frames e; counters := aset c (cnt e c + 1) (counters e); switches := switches e; steps := steps e |} out
    | NSetC c z => continue {| frames := frames e; counters := aset c z (counters e); switches := switches e; steps := steps e |} out
    | NAddC c z => continue {| frames := frames e; counters := aset c (cnt e c + z) (counters e); switches := switches e; steps := steps e |} out
    end end
  end end.

Definition empty_env : env := {| frames := [[]]; counters := []; switches := []; steps := Nat.mul 200 150 |}.
Definition den (fuel : nat) (p : list node) : outcome := eval fuel empty_env [] p.

(* ---- wire format ---- *)
Definition rel_of (z : Z) : option rel := match z with 0 => Some RLt | 1 => Some RGt | 2 => Some REq | _ => None end.
Definition q_of (n d : Z) : option Q := match d with Zpos p => Some (n # p) | _ => None end.
Definition operand_of (v : val) : option operand :=
  match v with VL [VI 0; VI z] => Some (OLit z) | VL [VI 1; VI c] => Some (OCnt c) | _ => None end.
Definition test_of (v : val) : option test :=
  match v with
  | VI 0 => Some TTrue | VI 1 => Some TFalse
  | VL [VI 2; a; VI r; b] => match operand_of a, rel_of r, operand_of b with Some a, Some r, Some b => Some (TNum a r b) | _, _, _ => None end
  | VL [VI 3; a] => match operand_of a with Some a => Some (TOdd a) | None => None end
  | VL [VI 4; VI an; VI ad; VI r; VI bn; VI bd] =>
      match q_of an ad, rel_of r, q_of bn bd with Some a, Some r, Some b => Some (TDim a r b) | _, _, _ => None end
  | VL [VI 5; VI n] => Some (TSwitch n)
  | VL [VI 6; VI n] => Some (TDefined n)
  | VL [VI 7; VI a; VI b] => Some (TIfxChar a b)
  | VL [VI 8; VI a; VI b] => Some (TIfxMac a b)
  | _ => None
  end.

Definition opt_of {A} (f : val -> option A) (v : val) : option (option A) :=
  match v with VL [] => Some None | VL [x] => match f x with Some y => Some (Some y) | None => None end | _ => None end.

Fixpoint node_of (fuel : nat) (v : val) {struct fuel} : option node :=
  match fuel with O => None | S f =>
  let nodes v := match v with VL l => mapM (node_of f) l | _ => None end in
  match v with
  | VL [VI 0; VI w] => Some (NWord w)
  | VL [VI 1; b] => match nodes b with Some b => Some (NGroup b) | None => None end
  | VL [VI 2; VI g; VI nm; VI np; d; b] =>
      match opt_of nodes d, nodes b with
      | Some d, Some b => if np <? 0 then None else Some (NDef (negb (g =? 0)) nm (Z.to_nat np) d b)
      | _, _ => None
      end
  | VL [VI 3; VI nm; VI tg] => Some (NLet nm tg)
  | VL [VI 4; VI nm; o; VL a] =>
      match opt_of nodes o, mapM nodes a with Some o, Some a => Some (NCall nm o a) | _, _ => None end
  | VL [VI 5; VI k] => if k <? 1 then None else Some (NParam (Z.to_nat k))
  | VI 6 => Some NHash
  | VL [VI 7; t; th; el] =>
      match test_of t, nodes th, opt_of nodes el with Some t, Some th, Some el => Some (NCond t th el) | _, _, _ => None end
  | VL [VI 8; a; VL bs; el] =>
      match operand_of a, mapM nodes bs, opt_of nodes el with Some a, Some bs, Some el => Some (NCase a bs el) | _, _, _ => None end
  | VL [VI 9; VI nm; VI b] => Some (NSetSwitch nm (negb (b =? 0)))
  | VL [VI 10; VI nm] => Some (NNewSwitch nm)
  | VL [VI 11; VI c] => Some (NStep c)
  | VL [VI 12; VI c; VI z] => Some (NSetC c z)
  | VL [VI 13; VI c; VI z] => Some (NAddC c z)
  | VL [VI 14; VI a; VI b] => Some (NExpandAfter a b)
  | VL [VI 15; VI k] => if k <? 1 then None else Some (NParam2 (Z.to_nat k))
  | _ => None
  end end.

(* case: (nodes...) -> (0 (words in order) ((counter value) ...) ) | (-4 why) stuck | out of fuel *)
Definition run_prog (v : val) : val :=
  match v with
  | VL l =>
    match mapM (node_of 100) l with
    | Some p =>
      match den 5000 p with
      | Ok e out => VL [VI 0; ofZs (rev out); VL (map (fun kv => VL [VI (fst kv); VI (snd kv)]) (counters e))]
      | Stuck w => VL [VI (-4); VI w]
      | OutOfFuel => v_outoffuel
      end
    | None => v_bad_input
    end
  | _ => v_bad_input
  end.
