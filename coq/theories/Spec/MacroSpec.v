(* Spec for C02 (token level): abstract macro bodies and parameter texts, their rendering to tokens, TeX's substitution rule. *)
From Coq Require Import List NArith Bool.
Import ListNotations.
From Verif Require Import Tokenizer Expand.
Local Open Scope N_scope.

(* ---- bodies ---- *)
Inductive piece :=
| PLit (t : tok)        (* any token that is not a parameter character *)
| PArg (k : nat)        (* #k *)
| PHash.                (* ## *)

Definition digit_tok (k : nat) : tok := Tok CC_OTHER [48 + N.of_nat k].

Definition render_piece (p : piece) : list tok :=
  match p with PLit t => [t] | PArg k => [hash_tok; digit_tok k] | PHash => [hash_tok; hash_tok] end.
Definition render_body (b : list piece) : list tok := flat_map render_piece b.

(* TeX's rule: each #k is replaced by the k-th actual argument, ## by a single #, nothing else changes.
   (a parameter number beyond the arguments supplied contributes nothing) *)
Definition subst_piece (args : list (list tok)) (p : piece) : list tok :=
  match p with PLit t => [t] | PArg k => nth (k - 1) args [] | PHash => [hash_tok] end.
Definition subst_body (args : list (list tok)) (b : list piece) : list tok := flat_map (subst_piece args) b.

(* well-formed bodies: literals are not parameter characters, parameter numbers are 1..9, and no parameter directly
   follows the token \ifx (there expandDef deliberately wraps the argument in a group; see [expand_def_ifx_hack]) *)
Definition lit_ok (t : tok) : bool := negb (is_param t).
Fixpoint body_ok (prev_ifx : bool) (b : list piece) : bool :=
  match b with
  | [] => true
  | PLit t :: r => lit_ok t && body_ok (is_ifx t) r
  | PArg k :: r => negb prev_ifx && (Nat.leb 1 k) && (Nat.leb k 9) && body_ok false r
  | PHash :: r => body_ok false r
  end.

(* ---- parameter texts ---- *)
Inductive pkind :=
| PU                               (* undelimited: #k followed by another parameter or by the end of the parameter text *)
| PD (d : tok) (more : list tok).  (* delimited by the tokens d :: more *)
Record pattern := { pre : list tok; ps : list pkind }.

Definition delim (k : pkind) : list tok := match k with PU => [] | PD d more => d :: more end.
Fixpoint render_params (i : nat) (l : list pkind) : list tok :=
  match l with [] => [] | k :: r => hash_tok :: digit_tok i :: delim k ++ render_params (S i) r end.
Definition render_pattern (p : pattern) : list tok := pre p ++ render_params 1 (ps p).

(* a conforming call: the literal prefix, then for every parameter its argument — in braces when undelimited, followed by
   the delimiter tokens when delimited *)
Fixpoint render_args (l : list pkind) (args : list (list tok)) : list tok :=
  match l, args with
  | k :: r, a :: ar =>
      match k with
      | PU => bgroup_tok :: a ++ egroup_tok :: render_args r ar
      | PD d more => a ++ d :: more ++ render_args r ar
      end
  | _, _ => []
  end.
Definition render_call (p : pattern) (args : list (list tok)) : list tok := pre p ++ render_args (ps p) args.

(* brace balance *)
Fixpoint depth_after (l : list tok) (d : nat) : option nat :=
  match l with
  | [] => Some d
  | t :: r => if is_bgroup t then depth_after r (S d)
              else if is_egroup t then match d with O => None | S d' => depth_after r d' end
              else depth_after r d
  end.
Definition balanced (l : list tok) : bool := match depth_after l O with Some O => true | _ => false end.

(* the normal form of the property: delimiter tokens are not parameter characters; an undelimited argument is brace-balanced;
   a delimited argument contains no token equal to the first token of its delimiter (in particular none hidden in braces) *)
Fixpoint call_ok (l : list pkind) (args : list (list tok)) : bool :=
  match l, args with
  | [], [] => true
  | PU :: r, a :: ar => balanced a && call_ok r ar
  | PD d more :: r, a :: ar =>
      lit_ok d && forallb lit_ok more && forallb (fun t => negb (tok_eqb t d)) a && call_ok r ar
  | _, _ => false
  end.
Definition pattern_ok (p : pattern) : bool := forallb lit_ok (pre p) && Nat.leb (length (ps p)) 9.
