(* Spec for C03 (scanning part): the text of a conditional as a tree, TeX's selection rule, and rendering to tokens. *)
From Coq Require Import List ZArith Bool.
Import ListNotations.
From Verif Require Import IfScan.
Local Open Scope Z_scope.

(* balanced text: ordinary tokens, \newif<token>, and complete nested conditionals
   \ifX seg0 (\or|\else) seg1 ... \fi   with arbitrary content in every segment, nested to any depth *)
Inductive item :=
| ITok (n : Z)
| INewif (t : ctok)
| ICond (name : Z) (first : items) (more : segs)
with items := INil | ICons (i : item) (r : items)
with segs := SNil | SCons (is_else : bool) (seg : items) (r : segs).

Fixpoint render_item (i : item) : list ctok :=
  match i with
  | ITok n => [KTok n]
  | INewif t => [KNewif; t]
  | ICond name first more => KIf name :: render_items first ++ render_segs more ++ [KFi]
  end
with render_items (l : items) : list ctok :=
  match l with INil => [] | ICons i r => render_item i ++ render_items r end
with render_segs (s : segs) : list ctok :=
  match s with
  | SNil => []
  | SCons e seg r => (if e then KElse else KOr) :: render_items seg ++ render_segs r
  end.

(* the text between \ifX<test> and its \fi: first branch, \or branches, optional \else branch *)
Record cond_text := { c_first : items; c_ors : list items; c_else : option items }.

Definition render_cond (c : cond_text) : list ctok :=
  render_items (c_first c) ++ concat (map (fun s => KOr :: render_items s) (c_ors c))
  ++ match c_else c with Some e => KElse :: render_items e | None => [] end.

(* TeX's rule: true -> first branch; false -> the \else branch if any, else nothing;
   \ifcase n -> branch n if it is listed (0 = first), else the \else branch if any, else nothing *)
Definition select_spec (w : which) (c : cond_text) : items :=
  let els := match c_else c with Some e => e | None => INil end in
  match w with
  | WBool true => c_first c
  | WBool false => els
  | WCase z =>
      if z =? 0 then c_first c
      else if (0 <? z) && (z <=? Z.of_nat (length (c_ors c))) then nth (Z.to_nat z - 1) (c_ors c) INil
      else els
  end.
