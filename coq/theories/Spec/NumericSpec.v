(* C05 -- Spec side: how TeX's numeric literals are written (printers) and what they denote.
   Written from The TeXbook ch. 24 / tex.web 440-461 (<number>, <dimen>, <glue>), not from the Python.

     <number>  = <optional signs> ( <digits> | apostrophe <octal digits> | doublequote <hex digits> | backquote <character token> | <internal integer> ) <one optional space>
     <optional signs> = <optional spaces> | <optional signs> (+|-) <optional spaces>
     <dimen>   = <optional signs> ( <factor> <optional spaces> [true <optional spaces>] <unit> <one optional space> | <factor> <internal dimen> | <internal dimen> )
     <factor>  = <number constant> | <digits> (.|,) <digits> with either digit string possibly empty
     denotation: sign * value(factor) * (num/den of the unit) * 65536 sp, as an exact rational
   The token type is the Model's (category code x code point; control sequences carry what they stand for). *)
From Coq Require Import List ZArith Bool QArith.
From Verif Require Import Val Units Numeric.
Import ListNotations.
Local Open Scope Z_scope.

(* ---------------------------------------------------------------- sign runs *)

Definition blank : tok := Ch 10 32.
Definition blanks (n : nat) : list tok := repeat blank n.
Definition sign_tok (minus : bool) : tok := Ch 12 (if minus then 45 else 43).

Record signrun := mkSR { sr_lead : nat; sr_signs : list (bool * nat) }.     (* blanks, then each sign followed by blanks *)

Fixpoint print_sign_list (l : list (bool * nat)) : list tok :=
  match l with
  | [] => []
  | (m, n) :: r => sign_tok m :: blanks n ++ print_sign_list r
  end.
Definition print_signs (sr : signrun) : list tok := blanks (sr_lead sr) ++ print_sign_list (sr_signs sr).

Fixpoint sign_list_value (l : list (bool * nat)) : Z :=
  match l with
  | [] => 1
  | (m, _) :: r => (if m then -1 else 1) * sign_list_value r
  end.
Definition sign_value (sr : signrun) : Z := sign_list_value (sr_signs sr).

(* ---------------------------------------------------------------- digit strings *)

(* a digit token: a letter or other character whose code is in the radix's digit set *)
Definition digit_tok (set : list Z) (t : tok) : Prop :=
  exists cat c, t = Ch cat c /\ (cat = 11 \/ cat = 12) /\ memz c set = true.

Definition codes (l : list tok) : list Z := map (fun t => match t with Ch _ c => c | _ => 0 end) l.

Definition tex_digit_value (c : Z) : Z :=
  if (48 <=? c) && (c <=? 57) then c - 48 else c - 55.        (* 0-9, A-F *)

(* positional value, most significant digit first *)
Definition pos_value (base : Z) (ds : list Z) : Z := fold_left (fun a d => a * base + tex_digit_value d) ds 0.

Definition tex_dec : list Z := [48; 49; 50; 51; 52; 53; 54; 55; 56; 57].
Definition tex_oct : list Z := [48; 49; 50; 51; 52; 53; 54; 55].
Definition tex_hex : list Z := [48; 49; 50; 51; 52; 53; 54; 55; 56; 57; 65; 66; 67; 68; 69; 70].

(* ---------------------------------------------------------------- decimal factors *)

(* <digits> [ (.|,) <digits> ]   or   (.|,) <digits> *)
Record declit := mkDec { d_ip : list tok; d_point : option tok; d_fp : list tok }.

Definition print_dec (d : declit) : list tok :=
  d_ip d ++ match d_point d with Some p => p :: d_fp d | None => [] end.

Fixpoint pow10p (n : nat) : positive := match n with O => 1%positive | S m => (10 * pow10p m)%positive end.

(* integer part + fraction digits / 10^(number of fraction digits) *)
Definition dec_value (d : declit) : Q :=
  (inject_Z (pos_value 10 (codes (d_ip d))) + Qmake (pos_value 10 (codes (d_fp d))) (pow10p (length (d_fp d))))%Q.

Definition point_tok (t : tok) : Prop := exists cat c, t = Ch cat c /\ (cat = 11 \/ cat = 12) /\ (c = 46 \/ c = 44).

Definition declit_ok (d : declit) : Prop :=
  Forall (digit_tok tex_dec) (d_ip d) /\ Forall (digit_tok tex_dec) (d_fp d) /\
  match d_point d with
  | Some p => point_tok p
  | None => d_ip d <> [] /\ d_fp d = []
  end.

(* ---------------------------------------------------------------- units *)

(* a keyword is matched letter by letter, whatever the case and the category code (letters are letter or other characters) *)
Definition is_letter_code (c : Z) : bool := ((65 <=? c) && (c <=? 90)) || ((97 <=? c) && (c <=? 122)).
Definition kw_tok (t : tok) : Prop := exists cat c, t = Ch cat c /\ (cat = 11 \/ cat = 12) /\ is_letter_code c = true.
Definition spells (w : list Z) (l : list tok) : Prop := Forall kw_tok l /\ map upper (codes l) = map upper w.

(* [true <optional spaces>] *)
Definition true_part (tr : list tok) : Prop :=
  tr = [] \/ exists tt n, tr = tt ++ blanks n /\ spells [116; 114; 117; 101] tt.

(* ---------------------------------------------------------------- balanced groups *)

(* nesting depth after scanning l from depth n, counting only the two delimiter tests; None = a closer at depth 0 *)
Fixpoint scan (is_open is_close : tok -> bool) (n : nat) (l : list tok) : option nat :=
  match l with
  | [] => Some n
  | t :: r =>
      if is_open t then scan is_open is_close (S n) r
      else if is_close t then match n with O => None | S m => scan is_open is_close m r end
      else scan is_open is_close n r
  end.

Definition balanced (is_open is_close : tok -> bool) (l : list tok) : Prop := scan is_open is_close O l = Some O.
