(* A readable corollary of the lexical rules (Spec/Lexer.v): source text built from lexical ITEMS and the token stream it
   must give, under any category table.  Items: a significant character, a run of blanks, a newline, a control word, a
   control symbol, a comment line, an active character. *)
From Coq Require Import List NArith Bool.
Import ListNotations.
From Verif Require Import Tokenizer Lexer.
Local Open Scope N_scope.

Inductive item :=
| IChar (c : N)                    (* one significant character (begin/end group, math, align, parameter, subscript, letter, other) *)
| IBlanks (c : N) (cs : list N)    (* a non-empty run of blank characters *)
| IEol                             (* the newline character, when it has category end-of-line *)
| ICtrlWord (e c : N) (w : list N) (* escape character, then the letters c :: w *)
| ICtrlSym (e c : N)               (* escape character, then one character that is neither a letter nor an end of line *)
| IComment (p : N) (body : list N) (* comment character, anything up to and including the next newline *)
| IActive (c : N).

Definition print_item (i : item) : list N :=
  match i with
  | IChar c => [c]
  | IBlanks c cs => c :: cs
  | IEol => [10]
  | ICtrlWord e c w => e :: c :: w
  | ICtrlSym e c => [e; c]
  | IComment p body => p :: body ++ [10]
  | IActive c => [c]
  end.
Definition print_items (l : list item) : list N := flat_map print_item l.

Section Items.
Context (t : table).
Notation code := (which_code t).

Definition sigcat (k : cat) : bool :=
  (k =? CC_BGROUP) || (k =? CC_EGROUP) || (k =? CC_MATH) || (k =? CC_ALIGN) || (k =? CC_PARAM) || (k =? CC_SUB) ||
  (k =? CC_LETTER) || (k =? CC_OTHER).
(* a character that is read as itself: not a superscript character (no ^^ notation starts here), not ignored/invalid *)
Definition plain (c : N) : bool := negb (code c =? CC_SUPER) && negb (dropped (code c)).

Definition item_ok (i : item) : bool :=
  match i with
  | IChar c => sigcat (code c)
  | IBlanks c cs => forallb (fun x => code x =? CC_SPACE) (c :: cs)
  | IEol => code 10 =? CC_EOL
  | ICtrlWord e c w => (code e =? CC_ESCAPE) && forallb (fun x => code x =? CC_LETTER) (c :: w)
  | ICtrlSym e c => (code e =? CC_ESCAPE) && plain c && negb (code c =? CC_LETTER) && negb (code c =? CC_EOL)
  | IComment p body => (code p =? CC_COMMENT) && forallb (fun x => negb (x =? 10)) body
  | IActive c => code c =? CC_ACTIVE
  end.

(* a control word must be followed by something that is not a letter (otherwise the letters would belong to its name) *)
Definition starts_with_letter (l : list item) : bool :=
  match l with
  | IChar c :: _ => code c =? CC_LETTER
  | _ => false
  end.
Fixpoint items_ok (l : list item) : bool :=
  match l with
  | [] => true
  | i :: r => item_ok i && (match i with ICtrlWord _ _ _ => negb (starts_with_letter r) | _ => true end) && items_ok r
  end.

(* the token stream the rules prescribe, threading the line state and the previous token *)
Fixpoint lex_items (st : lst) (pv : option tok) (l : list item) : list tok :=
  match l with
  | [] => []
  | i :: r =>
    match i with
    | IChar c => let tk := Tok (code c) [c] in tk :: lex_items SM (Some tk) r
    | IBlanks _ _ =>
        match st with
        | SM => space_tok :: lex_items SS (Some space_tok) r      (* a run of blanks in the middle of a line: one space token *)
        | _ => lex_items st pv r                                    (* after a control word, a space, or at a line start: nothing *)
        end
    | IEol =>
        match st with
        | SM => space_tok :: lex_items SN (Some space_tok) r
        | SS => lex_items SN pv r
        | SN => if prev_is pv par_tok then lex_items SN pv r        (* blank line: one paragraph token, never two in a row *)
                else par_tok :: lex_items SN (Some par_tok) r
        end
    | ICtrlWord _ c w => let tk := Tok CC_ESCAPE (c :: w) in tk :: lex_items SS (Some tk) r
    | ICtrlSym _ c => let tk := Tok CC_ESCAPE [c] in tk :: lex_items SM (Some tk) r
    | IComment _ _ => lex_items SN pv r
    | IActive c => let tk := Tok CC_ESCAPE (active_prefix ++ [c]) in tk :: lex_items SM (Some tk) r
    end
  end.
End Items.
