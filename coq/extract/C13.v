From Coq Require Extraction.
From Coq Require Import ExtrOcamlBasic.
From Verif Require Import Val Render.
Definition verif_entry := Render.run_case.
Extraction "model.ml" verif_entry.
