From Coq Require Extraction.
From Coq Require Import ExtrOcamlBasic.
From Verif Require Import Val Render RenderProofs2.
(* the observation of Model/Render.v and, beside it, the answer of the decision procedure hyps_b (are the premises of C13_split_by_level met?) *)
Definition verif_entry := RenderProofs2.run_case_checked.
Extraction "model.ml" verif_entry.
