From Coq Require Extraction.
From Coq Require Import ExtrOcamlBasic.
From Verif Require Import Val Persist.
Definition verif_entry := Persist.run_case.
Extraction "model.ml" verif_entry.
