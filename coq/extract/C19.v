From Coq Require Extraction.
From Coq Require Import ExtrOcamlBasic.
From Verif Require Import Val Ifthen.
Definition verif_entry := Ifthen.run_case.
Extraction "model.ml" verif_entry.
