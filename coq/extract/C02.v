From Coq Require Extraction.
From Coq Require Import ExtrOcamlBasic List ZArith.
Import ListNotations.
From Verif Require Import Val Expand MacroLang Engine MacroPrint.
(* kinds 0 (Expand.run_expand_case), 1 (MacroLang.run_prog), 2 (Engine.run_case [+ reference evaluator]), 3 (MacroPrint.print_case):
   the dispatcher is Spec/MacroPrint.c02_entry, so that the vm_compute cross-check of the thorough tier can name it *)
Definition verif_entry := MacroPrint.c02_entry.
Extraction "model.ml" verif_entry.
