From Coq Require Extraction.
From Coq Require Import ExtrOcamlBasic List ZArith.
Import ListNotations.
From Verif Require Import Val Expand MacroLang Engine MacroPrint.
(* kind 2: the expansion engine on a token list; when the case is the printing of a program, the reference evaluator's
   answer for that program comes with it (the Spec oracle of the judge).  Out of fuel stays a top-level answer. *)
Definition engine_entry (x : val) (more : list val) : val :=
  match Engine.run_case x with
  | VL [VI (-3)%Z] => v_outoffuel
  | r => VL (r :: more)
  end.
Definition verif_entry (v : val) : val :=
  match v with
  | VL [VI 0%Z; x] => Expand.run_expand_case x
  | VL [VI 1%Z; x] => MacroLang.run_prog x
  | VL [VI 2%Z; x] => engine_entry x []
  | VL [VI 2%Z; x; p] => engine_entry x [MacroLang.run_prog p]
  | VL [VI 3%Z; p] => MacroPrint.print_case p
  | _ => v_bad_input
  end.
Extraction "model.ml" verif_entry.
