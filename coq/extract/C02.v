From Coq Require Extraction.
From Coq Require Import ExtrOcamlBasic List ZArith.
Import ListNotations.
From Verif Require Import Val Expand MacroLang.
Definition verif_entry (v : val) : val :=
  match v with
  | VL [VI 0%Z; x] => Expand.run_expand_case x
  | VL [VI 1%Z; x] => MacroLang.run_prog x
  | _ => v_bad_input
  end.
Extraction "model.ml" verif_entry.
