From Coq Require Extraction.
From Coq Require Import ExtrOcamlBasic.
From Verif Require Import Val DigestSpec Digest.
Definition verif_entry := Digest.run_case.
Extraction "model.ml" verif_entry.
