From Coq Require Extraction.
From Coq Require Import ExtrOcamlBasic.
From Verif Require Import Val RefsWire.
Definition verif_entry := RefsWire.run_case.
Extraction "model.ml" verif_entry.
