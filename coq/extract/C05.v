From Coq Require Extraction.
From Coq Require Import ExtrOcamlBasic.
From Verif Require Import Val Units Numeric Args.
Definition verif_entry := Args.run_case.
Extraction "model.ml" verif_entry.
