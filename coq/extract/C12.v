From Coq Require Extraction.
From Coq Require Import ExtrOcamlBasic.
From Verif Require Import Val HtmlSpec HtmlEsc.
Definition verif_entry := HtmlEsc.run_case.
Extraction "model.ml" verif_entry.
