From Coq Require Extraction.
From Coq Require Import ExtrOcamlBasic.
From Verif Require Import Val GlobalCells Globals.
Definition verif_entry := Globals.run_case.
Extraction "model.ml" verif_entry.
