From Coq Require Extraction.
From Coq Require Import ExtrOcamlBasic.
From Verif Require Import Val Tokenizer.
Definition verif_entry := Tokenizer.run_case.
Extraction "model.ml" verif_entry.
