From Coq Require Extraction.
From Coq Require Import ExtrOcamlBasic.
From Verif Require Import Val CounterSyntax ClassCounters Counters NumberingSpec CountersWire.
Definition verif_entry := CountersWire.run_case.
Extraction "model.ml" verif_entry.
