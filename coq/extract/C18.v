From Coq Require Extraction.
From Coq Require Import ExtrOcamlBasic.
From Verif Require Import Val Index.
Definition verif_entry := Index.run_case.
Extraction "model.ml" verif_entry.
