From Coq Require Extraction.
From Coq Require Import ExtrOcamlBasic.
From Verif Require Import Val Context.
Definition verif_entry := Context.run_case.
Extraction "model.ml" verif_entry.
