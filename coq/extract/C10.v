From Coq Require Extraction.
From Coq Require Import ExtrOcamlBasic.
From Verif Require Import Val Lists TableSpec Arrays.
Definition verif_entry := Arrays.run_case.
Extraction "model.ml" verif_entry.
