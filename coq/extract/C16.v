From Coq Require Extraction.
From Coq Require Import ExtrOcamlBasic.
From Verif Require Import Val Config ConfigOptions.
Definition verif_entry := ConfigOptions.run_case_shipped.
Extraction "model.ml" verif_entry.
