From Coq Require Extraction.
From Coq Require Import ExtrOcamlBasic.
From Verif Require Import Val DomWire.
Definition verif_entry := DomWire.run_case.
Extraction "model.ml" verif_entry.
