From Coq Require Extraction.
From Coq Require Import ExtrOcamlBasic.
From Verif Require Import Val Filenames.
Definition verif_entry := Filenames.run_case.
Extraction "model.ml" verif_entry.
