From Coq Require Extraction.
From Coq Require Import ExtrOcamlBasic.
From Verif Require Import Val Source.
Definition verif_entry := Source.run_case.
Extraction "model.ml" verif_entry.
