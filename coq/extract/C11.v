From Coq Require Extraction.
From Coq Require Import ExtrOcamlBasic.
From Verif Require Import Val MathParse.
Definition verif_entry := MathParse.run_case.
Extraction "model.ml" verif_entry.
