(* Generic driver: one case per line "( 1 2 ( 3 ) )" -> one observation per line.
   The only property-specific part is Model.run : val -> val (extracted). *)
open Model

let rec pos_of_int n = if n = 1 then XH else if n land 1 = 0 then XO (pos_of_int (n lsr 1)) else XI (pos_of_int (n lsr 1))
let z_of_int n = if n = 0 then Z0 else if n > 0 then Zpos (pos_of_int n) else Zneg (pos_of_int (-n))
let rec int_of_pos = function XH -> 1 | XO p -> 2 * int_of_pos p | XI p -> 2 * int_of_pos p + 1
let int_of_z = function Z0 -> 0 | Zpos p -> int_of_pos p | Zneg p -> - (int_of_pos p)

let parse (s : string) : val0 =
  let n = String.length s in
  let i = ref 0 in
  let skip () = while !i < n && (s.[!i] = ' ' || s.[!i] = '\t' || s.[!i] = '\r') do incr i done in
  let rec value () =
    skip ();
    if !i >= n then failwith "eol"
    else if s.[!i] = '(' then begin
      incr i;
      let acc = ref [] in
      let fin = ref false in
      while not !fin do
        skip ();
        if !i >= n then failwith "unclosed"
        else if s.[!i] = ')' then (incr i; fin := true)
        else acc := value () :: !acc
      done;
      VL (List.rev !acc)
    end else begin
      let j = !i in
      if s.[!i] = '-' then incr i;
      while !i < n && s.[!i] >= '0' && s.[!i] <= '9' do incr i done;
      if !i = j then failwith "bad char";
      VI (z_of_int (int_of_string (String.sub s j (!i - j))))
    end in
  value ()

let rec print buf = function
  | VI z -> Buffer.add_string buf (string_of_int (int_of_z z))
  | VL l -> Buffer.add_char buf '(';
           List.iteri (fun k v -> if k > 0 then Buffer.add_char buf ' '; print buf v) l;
           Buffer.add_char buf ')'

let () =
  let buf = Buffer.create 4096 in
  (try
    while true do
      let line = input_line stdin in
      Buffer.clear buf;
      (try print buf (verif_entry (parse line)) with
       | Stack_overflow -> Buffer.clear buf; Buffer.add_string buf "STACKOVERFLOW"
       | Failure m -> Buffer.clear buf; Buffer.add_string buf ("PARSEERROR " ^ m));
      print_endline (Buffer.contents buf)
    done
  with End_of_file -> ())
