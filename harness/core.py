"""Core of the check pipeline (see DESIGN.md sections 4-6).

  build Gen/ -> make Proofs -> coqc Properties/Cxx.v -> extract + compile Model driver
  -> correspondence (implementation from /repo vs extracted Model) -> judge -> evidence / VIOLATION

Everything random derives from VERIF_SEED.  Nothing here is property specific; a property module in
harness/props/ supplies generators, the implementation runner, the wire encoding and the Spec oracle.
"""
import ast
import hashlib
import importlib
import json
import multiprocessing as mp
import os
import random
import re
import signal
import subprocess
import sys
import time
import traceback

VERIF = os.path.dirname(os.path.dirname(os.path.abspath(__file__)))
REPO = os.environ.get('VERIF_REPO', '/repo')
COQ = os.path.join(VERIF, 'coq')
BUILD = os.path.join(VERIF, 'build')
THEORIES = os.path.join(COQ, 'theories')
PY = '/venv/bin/python'
NPROC = min(16, os.cpu_count() or 4)

FORBIDDEN = re.compile(r'\b(Admitted|admit|Axiom|Axioms|Parameter|Parameters|Conjecture|Hypothesis|Variable|Variables|Hypotheses)\b'
                       r'|Unset\s+Guard|bypass_check|Admit\s+Obligations|-type-in-type|impredicative-set|Unset\s+Positivity|Unset\s+Universe')

QFLAGS = []
for d in ('Base', 'Spec', 'Model', 'Proofs', 'Properties', 'Gen'):
    QFLAGS += ['-Q', os.path.join(THEORIES, d), 'Verif']


def log(*a):
    print(*a, flush=True)


def sh(cmd, timeout, cwd=None, env=None, input=None):
    """run a command under a hard timeout; returns (rc, output)"""
    try:
        p = subprocess.run(cmd, cwd=cwd, env=env, input=input, stdout=subprocess.PIPE, stderr=subprocess.STDOUT,
                           timeout=timeout, text=True)
        return p.returncode, p.stdout
    except subprocess.TimeoutExpired as e:
        out = e.stdout if isinstance(e.stdout, str) else (e.stdout or b'').decode('utf8', 'replace')
        return 124, (out or '') + '\n[timeout after %ss]' % timeout


# ------------------------------------------------------------------------------------------------
# wire format: nested lists of ints  <->  "(1 2 (3))"

def to_wire(v):
    if isinstance(v, bool):
        return '1' if v else '0'
    if isinstance(v, int):
        return str(v)
    if isinstance(v, str):
        return '(' + ' '.join(str(ord(c)) for c in v) + ')'
    return '(' + ' '.join(to_wire(x) for x in v) + ')'


def from_wire(s):
    s = s.strip()
    toks = s.replace('(', ' ( ').replace(')', ' ) ').split()
    pos = 0

    def value():
        nonlocal pos
        t = toks[pos]
        pos += 1
        if t == '(':
            out = []
            while toks[pos] != ')':
                out.append(value())
            pos += 1
            return out
        return int(t)
    if not toks or toks[0] not in '(' and not re.fullmatch(r'-?\d+', toks[0]):
        return ['driver-error', s]
    try:
        return value()
    except (IndexError, ValueError):
        return ['driver-error', s]


def S(s):
    """string -> list of code points"""
    return [ord(c) for c in s]


def unS(l):
    return ''.join(chr(c) for c in l)


BAD_INPUT = [-1]
OUT_OF_FUEL = [-3]


def is_crash(v):
    return isinstance(v, list) and len(v) == 2 and v[0] == -2


# ------------------------------------------------------------------------------------------------
# Coq side

def closure_files(pid):
    """the .v files Properties/<pid>.v and extract/<pid>.v depend on (transitively, via `From Verif Require Import/Export`)"""
    index = {}
    for d in ('Base', 'Spec', 'Model', 'Proofs', 'Properties', 'Gen'):
        dd = os.path.join(THEORIES, d)
        if os.path.isdir(dd):
            for f in os.listdir(dd):
                if f.endswith('.v'):
                    index[f[:-2]] = os.path.join(dd, f)
    todo = [os.path.join(THEORIES, 'Properties', pid + '.v'), os.path.join(COQ, 'extract', pid + '.v')]
    seen = []
    while todo:
        p = todo.pop()
        if p in seen or not os.path.exists(p):
            continue
        seen.append(p)
        txt = open(p, encoding='utf8').read()
        for d in re.findall(r'From\s+Verif\s+Require\s+(?:Import|Export)\s+([^.]*)\.', txt):
            for n in d.split():
                if n in index:
                    todo.append(index[n])
    return seen


def forbidden_scan(pid=None):
    """fail the build when a forbidden vernacular appears in the development this property depends on
    (pid=None: anywhere under coq/ -- used by the thorough tier and by setup)"""
    bad = []
    if pid is not None:
        paths = closure_files(pid)
    else:
        paths = [os.path.join(root, f) for root, _, files in os.walk(COQ) for f in files if f.endswith('.v')]
    for p in paths:
        if True:
            if True:
                txt = open(p, encoding='utf8').read()
                # strip comments (nested) before scanning
                out, depth, i = [], 0, 0
                while i < len(txt):
                    if txt.startswith('(*', i):
                        depth += 1
                        i += 2
                    elif txt.startswith('*)', i) and depth:
                        depth -= 1
                        i += 2
                    else:
                        if not depth:
                            out.append(txt[i])
                        i += 1
                code = ''.join(out)
                # "Context" / section-local "Variable" are allowed only inside a Section; we simply do not use
                # Variable/Hypothesis at all (Context {..} inside Sections instead).
                for m in FORBIDDEN.finditer(code):
                    bad.append('%s: %s' % (os.path.relpath(p, VERIF), m.group(0)))
    return bad


def coq_files():
    out = []
    for d in ('Base', 'Spec', 'Model', 'Proofs', 'Properties', 'Gen'):
        dd = os.path.join(THEORIES, d)
        if os.path.isdir(dd):
            for f in sorted(os.listdir(dd)):
                if f.endswith('.v'):
                    out.append('theories/%s/%s' % (d, f))
    return out


def ensure_makefile():
    files = coq_files()
    stamp = os.path.join(COQ, '.filelist.cache')
    want = '\n'.join(files)
    have = open(stamp).read() if os.path.exists(stamp) else None
    if have != want or not os.path.exists(os.path.join(COQ, 'Makefile')):
        rc, out = sh(['coq_makefile', '-f', '_CoqProject'] + files + ['-o', 'Makefile'], 120, cwd=COQ)
        if rc != 0:
            raise RuntimeError('coq_makefile failed:\n' + out)
        open(stamp, 'w').write(want)


def write_if_changed(path, text):
    if os.path.exists(path) and open(path, encoding='utf8').read() == text:
        return False
    os.makedirs(os.path.dirname(path), exist_ok=True)
    with open(path, 'w', encoding='utf8') as f:
        f.write(text)
    return True


def make_target(target, timeout=900):
    """make one .vo (and its dependencies) -- a full .vo build, never -vos"""
    import fcntl
    os.makedirs(BUILD, exist_ok=True)
    with open(os.path.join(BUILD, '.lock'), 'w') as lk:
        fcntl.flock(lk, fcntl.LOCK_EX)
        ensure_makefile()
        return sh(['make', '-j%d' % NPROC, target], timeout, cwd=COQ)


def check_property_file(pid, timeout=600):
    """(re)compile Properties/<pid>.v itself on every run and collect its Print Assumptions output.
    returns dict(ok, theorems, assumptions, log)"""
    src = os.path.join(THEORIES, 'Properties', pid + '.v')
    txt = open(src, encoding='utf8').read()
    theorems = re.findall(r'^\s*(?:Theorem|Example)\s+(\w+)', txt, re.M)
    # dependencies first (Proofs etc.)
    deps = re.findall(r'From Verif Require Import ([^.]*)\.', txt)
    names = [n for d in deps for n in d.split()]
    tlog = ''
    for n in names:
        for d in ('Base', 'Spec', 'Model', 'Proofs', 'Gen'):
            if os.path.exists(os.path.join(THEORIES, d, n + '.v')):
                rc, out = make_target('theories/%s/%s.vo' % (d, n), timeout)
                tlog += out
                if rc != 0:
                    return dict(ok=False, theorems=theorems, assumptions=[], log=tlog, broken='theories/%s/%s.v' % (d, n))
    t0 = time.time()
    rc, out = sh(['coqc'] + QFLAGS + [src], timeout, cwd=COQ)
    tlog += out
    if rc == 0:
        # Print Assumptions for every theorem of the file (also those without an explicit command)
        wrap = os.path.join(BUILD, pid, 'assumptions.v')
        os.makedirs(os.path.dirname(wrap), exist_ok=True)
        open(wrap, 'w').write('From Verif Require Import %s.\n' % pid + ''.join('Print Assumptions %s.\n' % t for t in theorems))
        rc2, out = sh(['coqc'] + QFLAGS + [wrap], timeout, cwd=os.path.join(BUILD, pid))
        tlog += out if rc2 != 0 else ''
    assumptions = []
    # Print Assumptions output: either "Closed under the global context" or "Axioms:\n name : type"
    blocks = re.split(r'(?=Closed under the global context|Axioms:)', out)
    for b in blocks:
        if b.startswith('Closed under'):
            assumptions.append('closed')
        elif b.startswith('Axioms:'):
            assumptions.append(' '.join(b.split())[:400])
    return dict(ok=(rc == 0), theorems=theorems, assumptions=assumptions, log=tlog, coqc_s=round(time.time() - t0, 2),
                broken=None if rc == 0 else 'theories/Properties/%s.v' % pid)


def build_driver(pid, timeout=600):
    """extract Model run function for pid and compile it with the generic driver. returns path or raises"""
    ext = os.path.join(COQ, 'extract', pid + '.v')
    bdir = os.path.join(BUILD, pid)
    os.makedirs(bdir, exist_ok=True)
    txt = open(ext, encoding='utf8').read()
    names = [n for d in re.findall(r'From Verif Require Import ([^.]*)\.', txt) for n in d.split()]
    h = hashlib.sha256()
    srcs = [ext, os.path.join(VERIF, 'ocaml', 'driver.ml')]
    # the transitive closure is approximated by: all Base/Model/Gen files (Models never import Proofs)
    for d in ('Base', 'Spec', 'Model', 'Gen'):
        dd = os.path.join(THEORIES, d)
        if os.path.isdir(dd):
            srcs += [os.path.join(dd, f) for f in sorted(os.listdir(dd)) if f.endswith('.v')]
    for s in srcs:
        h.update(s.encode())
        h.update(open(s, 'rb').read())
    digest = h.hexdigest()
    exe = os.path.join(bdir, 'model')
    stamp = os.path.join(bdir, 'stamp')
    if os.path.exists(exe) and os.path.exists(stamp) and open(stamp).read() == digest:
        return exe
    for n in names:
        for d in ('Base', 'Spec', 'Model', 'Gen'):
            if os.path.exists(os.path.join(THEORIES, d, n + '.v')):
                rc, out = make_target('theories/%s/%s.vo' % (d, n), timeout)
                if rc != 0:
                    raise RuntimeError('model does not compile: theories/%s/%s.v\n%s' % (d, n, out[-3000:]))
    import shutil
    local = os.path.join(bdir, pid + '.v')
    shutil.copy(ext, local)
    rc, out = sh(['coqc'] + QFLAGS + [local], timeout, cwd=bdir)
    if rc != 0:
        raise RuntimeError('extraction failed\n' + out[-3000:])
    import shutil
    shutil.copy(os.path.join(VERIF, 'ocaml', 'driver.ml'), os.path.join(bdir, 'driver.ml'))
    rc, out = sh(['ocamlfind', 'ocamlopt', '-O2', '-w', '-a', 'model.mli', 'model.ml', 'driver.ml', '-o', 'model'], timeout, cwd=bdir)
    if rc != 0:
        rc, out = sh(['ocamlfind', 'ocamlopt', '-w', '-a', 'model.mli', 'model.ml', 'driver.ml', '-o', 'model'], timeout, cwd=bdir)
    if rc != 0:
        raise RuntimeError('ocaml build failed\n' + out[-3000:])
    open(stamp, 'w').write(digest)
    return exe


def run_model(exe, inputs, timeout=900):
    """inputs: list of nested-int values -> list of nested-int observations"""
    if not inputs:
        return []
    data = '\n'.join(to_wire(v) for v in inputs) + '\n'
    # shard over processes
    n = len(inputs)
    shards = min(NPROC, max(1, n // 200))
    lines = data.split('\n')[:-1]
    chunks = [lines[i::shards] for i in range(shards)]
    procs = []
    for ch in chunks:
        p = subprocess.Popen(['/bin/sh', '-c', 'ulimit -s unlimited 2>/dev/null; exec "$0"', exe], stdin=subprocess.PIPE,
                             stdout=subprocess.PIPE, text=True)
        procs.append((p, ch))
    import threading
    results = [None] * shards

    def feed(i, p, ch):
        try:
            out, _ = p.communicate('\n'.join(ch) + '\n', timeout=timeout)
            results[i] = out.split('\n')
        except subprocess.TimeoutExpired:
            p.kill()
            results[i] = []
    ths = [threading.Thread(target=feed, args=(i, p, ch)) for i, (p, ch) in enumerate(procs)]
    [t.start() for t in ths]
    [t.join() for t in ths]
    # a shard that produced too few lines (killed, timed out) is run again once, on its own
    for i in range(shards):
        r = results[i] or []
        if len([x for x in r if x != '']) < len(chunks[i]):
            try:
                q = subprocess.run(['/bin/sh', '-c', 'ulimit -s unlimited 2>/dev/null; exec "$0"', exe], input='\n'.join(chunks[i]) + '\n',
                                   stdout=subprocess.PIPE, text=True, timeout=timeout)
                results[i] = q.stdout.split('\n')
            except subprocess.TimeoutExpired:
                pass
    out = [None] * n
    for i in range(shards):
        r = results[i]
        for j, _ in enumerate(chunks[i]):
            line = r[j] if j < len(r) and r[j] != '' else None
            out[i + j * shards] = from_wire(line) if line is not None else ['driver-error', 'no output']
    return out


def vm_crosscheck(pid, inputs, outputs, timeout=600, limit=300):
    """evaluate the same cases inside Coq (vm_compute) and compare with the extracted driver's answers"""
    ext = open(os.path.join(COQ, 'extract', pid + '.v'), encoding='utf8').read()
    imports = re.findall(r'From Verif Require Import [^.]*\.', ext)
    m_simple = re.search(r'Definition verif_entry := ([\w.]+)\.', ext)
    extra_defs = ''
    if m_simple:
        rundef = m_simple.group(1)
    else:
        # a dispatcher written out in the extraction file: copy its definition verbatim
        m_def = re.search(r'(Definition verif_entry\b.*?\.)\s*\n\s*Extraction', ext, re.S)
        extra_defs = m_def.group(1)
        rundef = 'verif_entry'

    def coqv(v):
        if isinstance(v, int):
            return '(VI (%d))' % v
        return '(VL [' + '; '.join(coqv(x) for x in v) + '])'
    pairs = [(i, o) for i, o in zip(inputs, outputs) if not (isinstance(o, list) and o and o[0] == 'driver-error')][:limit]
    body = ['From Coq Require Import List ZArith Bool.', 'Import ListNotations.', 'Local Open Scope Z_scope.'] + imports
    if extra_defs:
        body.append(extra_defs)
    body.append('Definition cases : list (val * val) := [')
    body.append(';\n'.join('(%s, %s)' % (coqv(i), coqv(o)) for i, o in pairs))
    body.append('].')
    body.append('Definition bad := filter (fun io => negb (val_eqb (%s (fst io)) (snd io))) cases.' % rundef)
    body.append('Eval vm_compute in (length cases, length bad).')
    bdir = os.path.join(BUILD, pid)
    path = os.path.join(bdir, 'vmcheck.v')
    open(path, 'w').write('\n'.join(body) + '\n')
    rc, out = sh(['/bin/sh', '-c', 'ulimit -s unlimited 2>/dev/null; exec coqc %s -o %s %s' % (
        ' '.join(QFLAGS), os.path.join(bdir, 'vmcheck.vo'), path)], timeout, cwd=bdir)
    m = re.search(r'=\s*\((\d+)(?:%nat)?,\s*(\d+)(?:%nat)?\)', out)
    if rc != 0 or not m:
        return dict(ok=False, checked=0, mismatches=-1, log=out[-2000:])
    return dict(ok=(int(m.group(2)) == 0), checked=int(m.group(1)), mismatches=int(m.group(2)))


# ------------------------------------------------------------------------------------------------
# implementation side: a pool of worker processes importing plasTeX from /repo

_PROP = None


class CaseTimeout(BaseException):
    """raised asynchronously by SIGALRM; a BaseException so that plasTeX's `except Exception` blocks (e.g. PackageLoader.load, which
    only logs and would leave a half-loaded document class behind) cannot swallow it"""
    pass


_ALARM_FIRED = False


_IN_CASE = False


def _alarm(signum, frame):
    global _ALARM_FIRED
    if not _IN_CASE:
        # a late firing of the repeating timer, outside the case it was set for: switch it off, interrupt nothing
        signal.setitimer(signal.ITIMER_REAL, 0)
        return
    _ALARM_FIRED = True      # also remembered: a bare `except:` in the code under test may still swallow the exception
    raise CaseTimeout()


_TSCALE = 1


def _worker_init(modname, tscale=1):
    global _PROP, _TSCALE
    _TSCALE = tscale
    try:
        # a worker must not outlive a run that is killed from outside (time limit of the caller): die with the parent
        import ctypes
        ctypes.CDLL('libc.so.6', use_errno=True).prctl(1, int(signal.SIGKILL))     # PR_SET_PDEATHSIG
    except Exception:   # noqa
        pass
    sys.setrecursionlimit(6000)
    os.environ['PYTHONHASHSEED'] = '0'
    sys.path.insert(0, REPO)
    import plasTeX
    assert os.path.abspath(plasTeX.__file__).startswith(os.path.abspath(REPO) + os.sep), plasTeX.__file__
    _PROP = importlib.import_module(modname)
    signal.signal(signal.SIGALRM, _alarm)
    if hasattr(_PROP, 'worker_init'):
        _PROP.worker_init()


def _timer_off():
    global _IN_CASE
    _IN_CASE = False
    signal.setitimer(signal.ITIMER_REAL, 0)


def _worker_run(case):
    global _ALARM_FIRED, _IN_CASE
    t = getattr(_PROP, 'CASE_TIMEOUT', 10) * _TSCALE
    _ALARM_FIRED = False
    # the timer keeps firing every second after the limit: a bare `except:` inside a loop of the code under test can
    # swallow one CaseTimeout, not all of them
    try:
        _IN_CASE = True
        signal.setitimer(signal.ITIMER_REAL, float(t), 1.0)
        try:
            r = _PROP.run_impl(case)
        finally:
            _timer_off()
        if _ALARM_FIRED:
            # the alarm went off but was swallowed inside the code under test: whatever came back was computed by an
            # interrupted run and is not an observation
            return ['hang']
        return r
    except CaseTimeout:
        _timer_off()
        return ['hang']
    except RecursionError:
        _timer_off()
        return ['hang', 'recursion']
    except BaseException as e:  # noqa
        _timer_off()
        return ['raise', type(e).__name__, str(e)[:200], traceback.format_exc()[-600:]]


def _worker_run_chunk(cases):
    return [_worker_run(c) for c in cases]


def run_impl_cases(modname, cases, procs=None, tscale=1, recheck_hangs=True):
    procs = procs or NPROC
    if not cases:
        return []
    ctx = mp.get_context('fork')
    chunk = max(1, min(50, len(cases) // (procs * 4) or 1))
    limit = getattr(importlib.import_module(modname), 'CASE_TIMEOUT', 10) * tscale
    out = []
    with ctx.Pool(procs, initializer=_worker_init, initargs=(modname, tscale)) as pool:
        # one asynchronous task per chunk, each awaited with its own deadline: a worker that dies (killed, out of memory)
        # or sits in C code that no signal interrupts loses its chunk only -- those cases count as not terminating --
        # instead of blocking the whole run for ever
        chunks = [cases[i:i + chunk] for i in range(0, len(cases), chunk)]
        pending = [pool.apply_async(_worker_run_chunk, (c,)) for c in chunks]
        for c, r in zip(chunks, pending):
            try:
                out.extend(r.get(timeout=len(c) * (limit + 2) * 2 + int(os.environ.get('VERIF_LOST_SLACK', 300))))
            except mp.TimeoutError:
                out.extend([['hang']] * len(c))      # (worker lost)
        pool.terminate()
    # a time-out on a loaded machine is not evidence of non-termination: cases that timed out are run again, 24 at a
    # time on few processes with a six-fold limit, and only a second time-out is reported as a hang.  As soon as one
    # batch still contains a time-out the non-termination is real (it is reported with that case) and the remaining
    # ones are left as they are, so that a change which makes many cases loop does not cost hours.
    if recheck_hangs:
        idx = [i for i, o in enumerate(out) if isinstance(o, list) and o[:1] == ['hang'] and o[1:2] != ['recursion']]
        while idx:
            batch, idx = idx[:24], idx[24:]
            again = run_impl_cases(modname, [cases[i] for i in batch], procs=min(8, procs), tscale=tscale * 6, recheck_hangs=False)
            for i, o in zip(batch, again):
                out[i] = o
            if any(isinstance(o, list) and o[:1] == ['hang'] for o in again):
                break
    return out


# ------------------------------------------------------------------------------------------------
# source pins

def _func_src_hash(path, qualname):
    tree = ast.parse(open(path, encoding='utf8').read())
    parts = qualname.split('.')
    node = tree
    for p in parts:
        found = None
        for n in ast.walk(node) if node is tree else ast.iter_child_nodes(node):
            if isinstance(n, (ast.FunctionDef, ast.ClassDef)) and n.name == p:
                found = n
                break
        if found is None:
            return 'missing'
        node = found
    return hashlib.sha256(ast.dump(node, annotate_fields=False).encode()).hexdigest()[:16]


def check_pins(pid, pins):
    """returns (changed list, current dict). A changed pin only raises the sampling budget."""
    pfile = os.path.join(VERIF, 'harness', 'pins.json')
    stored = json.load(open(pfile)) if os.path.exists(pfile) else {}
    cur, changed = {}, []
    for rel, q in pins:
        key = '%s:%s' % (rel, q)
        try:
            cur[key] = _func_src_hash(os.path.join(REPO, rel), q)
        except Exception as e:  # unreadable source
            cur[key] = 'error:' + type(e).__name__
        if stored.get(pid, {}).get(key) not in (None, cur[key]):
            changed.append(key)
        if stored.get(pid, {}).get(key) is None:
            changed.append(key + ' (unpinned)') if os.environ.get('VERIF_STRICT_PINS') else None
    return changed, cur


def update_pins(pid, cur):
    pfile = os.path.join(VERIF, 'harness', 'pins.json')
    stored = json.load(open(pfile)) if os.path.exists(pfile) else {}
    stored[pid] = cur
    json.dump(stored, open(pfile, 'w'), indent=1, sort_keys=True)


# ------------------------------------------------------------------------------------------------
# known findings

def load_known(pid):
    p = os.path.join(VERIF, 'known_findings.json')
    if not os.path.exists(p):
        return []
    return [e for e in json.load(open(p))['findings'] if e['property'] == pid and e['status'] == 'known']


# ------------------------------------------------------------------------------------------------
# main driver

def canonical(v):
    return json.dumps(v, sort_keys=True, ensure_ascii=True)


def main(argv):
    """entry point: any internal error of the pipeline is itself reported in the interface's terms (the property is then not shown to hold)"""
    # every temporary file of the run (the properties' harnesses and plasTeX itself use tempfile) lives in one
    # directory of the run's own, removed when the run ends -- pool workers are terminated and never run atexit hooks
    import tempfile
    import shutil
    scratch = os.path.join(BUILD, 'tmp', 'run-%d' % os.getpid())
    os.makedirs(scratch, exist_ok=True)
    os.environ['TMPDIR'] = scratch
    tempfile.tempdir = scratch
    cwd = os.getcwd()
    try:
        return _main(argv)
    except SystemExit:
        raise
    except BaseException as e:   # noqa
        pid = next((a for a in argv if re.fullmatch(r'C\d{2,3}', a)), 'unknown')
        os.makedirs(os.path.join(VERIF, 'replays'), exist_ok=True)
        path = os.path.join(VERIF, 'replays', '%s-internal-error.json' % pid)
        json.dump(dict(property=pid, kind='no-failing-input-found',
                       no_longer_checks=['the check itself failed: %s: %s' % (type(e).__name__, str(e)[:500])],
                       traceback=traceback.format_exc()[-3000:]), open(path, 'w'), indent=1)
        log(traceback.format_exc()[-1500:])
        log('VIOLATION property=%s replay=%s no-failing-input-found' % (pid, path))
        return 1
    finally:
        try:
            os.chdir(cwd)
        except OSError:
            pass
        shutil.rmtree(scratch, ignore_errors=True)


def _main(argv):
    import argparse
    ap = argparse.ArgumentParser()
    ap.add_argument('pid')
    ap.add_argument('--tier', default=os.environ.get('VERIF_TIER') or 'quick', choices=['quick', 'thorough'])
    ap.add_argument('--replay')
    ap.add_argument('--update-pins', action='store_true')
    ap.add_argument('--no-coq', action='store_true', help='(development only) skip the proof build')
    args = ap.parse_args(argv)
    pid = args.pid
    seed = int(os.environ.get('VERIF_SEED') or 0)
    t0 = time.time()
    sys.path.insert(0, os.path.join(VERIF, 'harness'))
    modname = 'props.' + pid
    prop = importlib.import_module(modname)
    os.makedirs(os.path.join(VERIF, 'replays'), exist_ok=True)
    os.makedirs(os.path.join(VERIF, 'evidence'), exist_ok=True)
    os.makedirs(BUILD, exist_ok=True)

    if args.replay:
        return replay(prop, modname, pid, args.replay)

    violations = []   # dicts: kind, what, replay-payload
    notes = []
    broken = []       # names of proof obligations / correspondences that no longer check

    # 0. hygiene
    bad = forbidden_scan(pid if args.tier == 'quick' else None)
    if bad:
        broken.append('forbidden vernacular present: ' + '; '.join(bad[:5]))

    # 1. regenerate Gen tables from the source (fail-closed translator)
    gen_info = {}
    if hasattr(prop, 'gen_tables'):
        try:
            gen_info = prop.gen_tables(REPO, os.path.join(THEORIES, 'Gen')) or {}
        except Exception as e:
            broken.append('translator: source no longer has the recognised shape (%s: %s)' % (type(e).__name__, e))
            notes.append(traceback.format_exc()[-1500:])

    # 2. proofs
    proof = dict(ok=True, theorems=[], assumptions=[], log='')
    if not args.no_coq:
        proof = check_property_file(pid)
        if not proof['ok']:
            broken.append('proof obligation no longer checks: %s' % proof.get('broken'))
            tail = proof['log'][-1800:]
            notes.append(tail)
            log(tail)

    # 3. model driver
    exe = None
    try:
        exe = build_driver(pid)
    except Exception as e:
        broken.append('model build: %s' % str(e)[:1500])
        log(str(e)[-2000:])

    # 4. pins
    changed_pins, cur_pins = check_pins(pid, getattr(prop, 'PINS', []))
    if args.update_pins:
        update_pins(pid, cur_pins)
        changed_pins = []
    boost = 1
    if os.environ.get('VERIF_IGNORE_PINS'):
        changed_pins = []
    if changed_pins or broken:
        boost = 4

    # 5. correspondence
    rng = random.Random(seed * 1000003 + int(hashlib.sha256(pid.encode()).hexdigest()[:6], 16))
    corpus = load_corpus(pid)
    cases = [('corpus', c) for c in corpus] + list(prop.streams(rng, args.tier, boost))
    stream_names = [s for s, _ in cases]
    raw_cases = [c for _, c in cases]
    t1 = time.time()
    if getattr(prop, 'SKIP_WHEN_MODEL_GIVES_UP', False):
        # Model first: cases on which the Model itself gives up (fuel / size guard: [-3]) are not compared, so they are not run
        # either (an expansion that explodes costs the implementation a time-out per case); they are counted in the evidence
        minputs = [prop.model_input(c) for c in raw_cases]
        model_obs = run_model(exe, minputs) if exe else [['driver-error', 'no model']] * len(raw_cases)
        t2 = time.time()
        run_idx = [i for i, mo in enumerate(model_obs) if not (isinstance(mo, list) and mo[:1] == [-3])]
        ran = run_impl_cases(modname, [raw_cases[i] for i in run_idx])
        impl_obs = [['not-run', 'model gave up']] * len(raw_cases)
        for i, o in zip(run_idx, ran):
            impl_obs[i] = o
        t3 = time.time()
        impl_s, model_s = t3 - t2, t2 - t1
    else:
        # implementation first (some properties feed the Model with what the implementation's own expander recorded)
        impl_obs = run_impl_cases(modname, raw_cases)
        t2 = time.time()
        minputs = [prop.model_input(c) for c in raw_cases]
        model_obs = run_model(exe, minputs) if exe else [['driver-error', 'no model']] * len(raw_cases)
        t3 = time.time()
        impl_s, model_s = t2 - t1, t3 - t2

    stats = {}
    distinct = set()
    nontrivial = set()
    disagreements = []
    known = load_known(pid)
    known_hit = {}
    tags = {}
    for sname, case, io, mo in zip(stream_names, raw_cases, impl_obs, model_obs):
        st = stats.setdefault(sname, dict(cases=0, agree=0, disagree=0))
        st['cases'] += 1
        if isinstance(mo, list) and mo[:1] == [-3]:
            st['model_gave_up'] = st.get('model_gave_up', 0) + 1
        key = canonical(case)
        distinct.add(key)
        try:
            if prop.nontrivial(case, io):
                nontrivial.add(key)
            for tg in (prop.tags(case, io) if hasattr(prop, 'tags') else []):
                tags[tg] = tags.get(tg, 0) + 1
        except Exception:
            pass
        if isinstance(mo, list) and mo[:1] == ['driver-error']:
            verdict = dict(violation=False, key='model-unavailable', what='the Model produced no answer: %s' % (mo,))
        else:
            verdict = prop.judge(case, io, mo)   # None = agree
        if verdict is None:
            st['agree'] += 1
        else:
            st['disagree'] += 1
            disagreements.append((sname, case, io, mo, verdict))

    # 6. judge disagreements: violation of the property (Spec oracle on the implementation's output)?
    found = []
    unexplained = []
    for sname, case, io, mo, verdict in disagreements:
        k = match_known(known, verdict)
        if k is not None:
            known_hit.setdefault(k['id'], []).append(case)
            continue
        if verdict.get('violation'):
            found.append((sname, case, io, mo, verdict))
        else:
            unexplained.append((sname, case, io, mo, verdict))

    # shrink the first few found violations
    reported = []
    seen_keys = set()
    for sname, case, io, mo, verdict in found:
        vk = verdict.get('key', 'violation')
        if vk in seen_keys:
            continue
        seen_keys.add(vk)
        if len(reported) >= 5:
            break
        small = shrink_case(prop, modname, exe, case, verdict, known)
        reported.append(small)

    # extra time-boxed search when something is broken but no failing input has been found yet
    if (broken or unexplained) and not reported and hasattr(prop, 'search_streams'):
        extra = list(prop.search_streams(rng, args.tier))
        eio = run_impl_cases(modname, [c for _, c in extra])
        emo = run_model(exe, [prop.model_input(c) for _, c in extra]) if exe else [['driver-error', 'no model']] * len(extra)
        for (sname, case), io, mo in zip(extra, eio, emo):
            verdict = prop.judge(case, io, mo)
            if verdict and verdict.get('violation') and match_known(known, verdict) is None:
                reported.append(shrink_case(prop, modname, exe, case, verdict, known))
                break

    # 7. vm_compute cross-check of extraction (thorough tier; also whenever VERIF_VMCHECK=1)
    vm = None
    if exe and (args.tier == 'thorough' or os.environ.get('VERIF_VMCHECK')):
        vm = vm_crosscheck(pid, minputs, model_obs)
        if not vm['ok']:
            broken.append('extraction cross-check (vm_compute vs OCaml driver) failed: %s' % json.dumps(vm)[:300])

    # 7b. independent re-check of the compiled closure (thorough tier): coqchk -o, axioms it reports
    chk = None
    if args.tier == 'thorough' and proof['ok'] and not args.no_coq:
        rc_c, out_c = sh(['coqchk', '-silent', '-o'] + QFLAGS + ['Verif.' + pid], 1500, cwd=COQ)
        m_ax = re.search(r'\* Axioms:(.*?)\n\s*\n\* Constants', out_c, re.S)
        axioms = ' '.join(m_ax.group(1).split()) if m_ax else 'unparsed'
        chk = dict(ok=(rc_c == 0), axioms=axioms)
        if rc_c != 0:
            broken.append('coqchk rejects the compiled closure of Properties/%s.vo: %s' % (pid, out_c[-400:]))

    # 8. report
    rc = 0
    replay_paths = []
    for idx, small in enumerate(reported):
        path = os.path.join(VERIF, 'replays', '%s-%d-%d.json' % (pid, seed, idx))
        json.dump(dict(property=pid, kind='failing-input', seed=seed, tier=args.tier, **small,
                       how_to_replay='./check %s --replay %s' % (pid, path)), open(path, 'w'), indent=1, default=str)
        log('VIOLATION property=%s replay=%s' % (pid, path))
        replay_paths.append(path)
        rc = 1
    if not reported and (broken or unexplained):
        path = os.path.join(VERIF, 'replays', '%s-%d-unexplained.json' % (pid, seed))
        payload = dict(property=pid, kind='no-failing-input-found', seed=seed, tier=args.tier,
                       no_longer_checks=broken + (['correspondence stream(s): ' + ', '.join(sorted({u[0] for u in unexplained}))] if unexplained else []),
                       disagreements=[dict(stream=u[0], case=prop.describe(u[1]), raw_case=u[1], impl=u[2], model=u[3], verdict=u[4])
                                      for u in unexplained[:10]],
                       notes=notes)
        json.dump(payload, open(path, 'w'), indent=1, default=str)
        log('VIOLATION property=%s replay=%s no-failing-input-found' % (pid, path))
        replay_paths.append(path)
        rc = 1
    for k in known:
        if k['id'] in known_hit:
            log('KNOWN-FINDING: property=%s %s' % (pid, k['what']))

    # 9. evidence
    n_theorems = len(proof['theorems'])
    gen_obl = int(gen_info.get('obligations', 0))
    samples = []
    per_stream_seen = set()
    for sname, case, io in zip(stream_names, raw_cases, impl_obs):
        if sname not in per_stream_seen and len(samples) < 8:
            per_stream_seen.add(sname)
            samples.append(dict(stream=sname, case=prop.describe(case), impl_observed=io if len(canonical(io)) < 400 else '...'))
    trusted = [
        'Coq 8.16.1 kernel (coqc, vm_compute; no native_compute)',
        'Print Assumptions per theorem: ' + (', '.join(sorted(set(proof['assumptions']))) or 'n/a'),
        'extraction: ExtrOcamlBasic only (bool, option, unit, list, prod, sumbool, sumor; andb/orb inlined); OCaml 4.13.1; ocaml/driver.ml',
        'harness (generators, implementation runner, canonicaliser) and the differential correspondence itself',
    ] + list(getattr(prop, 'TRUSTED', []))
    ev = dict(
        property_id=pid, tier=args.tier, seed=seed, level='proof',
        coverage=dict(
            obligations=n_theorems + gen_obl,
            discharged=(n_theorems + gen_obl) if (proof['ok'] and not any(b.startswith('translator') for b in broken)) else 0,
            checker_cmd='coqc %s theories/Properties/%s.v (after make of its dependencies; full .vo build)' % (' '.join('-Q theories/%s Verif' % d for d in ('Base', 'Spec', 'Model', 'Proofs', 'Properties', 'Gen')), pid),
            trusted_base=trusted,
            theorems=proof['theorems'],
            print_assumptions=proof['assumptions'],
            gen_tables=gen_info,
            evaluations=len(raw_cases),
            distinct_nontrivial=len(nontrivial),
            distinct=len(distinct),
            rule=getattr(prop, 'RULE', ''),
            samples=samples,
            streams=stats,
            tags=dict(sorted(tags.items())),
            disagreements=len(disagreements),
            disagreements_known=sum(len(v) for v in known_hit.values()),
            pins_changed=changed_pins,
            boost=boost,
            extraction_crosscheck=vm,
            coqchk=chk,
            impl_s=round(impl_s, 1), model_s=round(model_s, 1),
        ),
        assumptions=list(getattr(prop, 'ASSUMPTIONS', [])),
        wall_s=round(time.time() - t0, 1),
        violations=len(replay_paths),
    )
    evdir = os.path.join(VERIF, 'evidence') if os.path.abspath(REPO) == '/repo' else os.path.join(BUILD, 'evidence-scratch')
    os.makedirs(evdir, exist_ok=True)   # runs against a scratch worktree (mutants) never touch the committed evidence
    json.dump(ev, open(os.path.join(evdir, pid + '.json'), 'w'), indent=1, default=str)
    log('%s tier=%s seed=%d theorems=%d proof_ok=%s cases=%d nontrivial=%d disagreements=%d known=%d wall=%.1fs -> %s' % (
        pid, args.tier, seed, n_theorems, proof['ok'], len(raw_cases), len(nontrivial), len(disagreements),
        sum(len(v) for v in known_hit.values()), time.time() - t0, 'OK' if rc == 0 else 'VIOLATION'))
    return rc


def match_known(known, verdict):
    vk = verdict.get('key')
    for k in known:
        if vk is not None and vk in k.get('keys', []):
            return k
    return None


def load_corpus(pid):
    d = os.path.join(VERIF, 'corpus', pid)
    out = []
    if os.path.isdir(d):
        for f in sorted(os.listdir(d)):
            if f.endswith('.json'):
                j = json.load(open(os.path.join(d, f)))
                out += j['cases'] if isinstance(j, dict) and 'cases' in j else [j]
    return out


def shrink_case(prop, modname, exe, case, verdict, known, budget=150):
    """greedy delta-debugging using the property's own shrink candidates; keeps the violation key class"""
    cur, curv = case, verdict
    t_start = time.time()
    hangish = 'hang' in str(verdict.get('key', '')) or 'terminate' in str(verdict.get('key', ''))
    if hasattr(prop, 'shrink') and not hangish:      # a non-terminating case is reported as found: shrinking it costs a time-out per candidate
        steps = 0
        improved = True
        while improved and steps < budget and time.time() - t_start < 180:
            improved = False
            cands = list(prop.shrink(cur))[:40]
            if not cands:
                break
            ios = run_impl_cases(modname, cands, procs=min(NPROC, len(cands)), recheck_hangs=False)
            mos = run_model(exe, [prop.model_input(c) for c in cands]) if exe else [None] * len(cands)
            steps += len(cands)
            for c, io, mo in zip(cands, ios, mos):
                v = prop.judge(c, io, mo)
                if v and v.get('violation') and v.get('key') == verdict.get('key') and match_known(known, v) is None:
                    cur, curv, improved = c, v, True
                    break
    io = run_impl_cases(modname, [cur], procs=1)[0]
    mo = run_model(exe, [prop.model_input(cur)])[0] if exe else None
    return dict(input=prop.describe(cur), raw_case=cur, impl_observed=io, model_observed=mo,
                spec_expected=curv.get('expected'), what=curv.get('what'), key=curv.get('key'))


def replay(prop, modname, pid, path):
    j = json.load(open(path))
    case = j.get('raw_case')
    if case is None:
        log('replay file names no failing input: ' + json.dumps(j.get('no_longer_checks')))
        return 1
    exe = build_driver(pid)
    io = run_impl_cases(modname, [case], procs=1)[0]
    mo = run_model(exe, [prop.model_input(case)])[0]
    v = prop.judge(case, io, mo)
    log('input: %s\nimplementation: %s\nmodel/spec:     %s\nverdict: %s' % (prop.describe(case), io, mo, v))
    if v and v.get('violation'):
        log('VIOLATION property=%s replay=%s' % (pid, path))
        return 1
    return 0
