"""Helpers to run the real plasTeX (imported from /repo by the worker) on a source string."""
import io
import logging


def quiet():
    from plasTeX.Logging import disableLogging
    try:
        disableLogging()
    except Exception:
        pass
    logging.disable(logging.CRITICAL)


def parse(source, setup=None):
    """parse a LaTeX source string in a fresh document; returns (document, tex)"""
    from plasTeX.TeX import TeX, TeXDocument
    doc = TeXDocument()
    tex = TeX(doc)
    try:
        tex.disableLogging()
    except Exception:
        pass
    if setup:
        setup(doc, tex)
    tex.input(source)
    tex.parse()
    return doc, tex


def text_nospace(doc):
    return ''.join(doc.textContent.split())
