"""Run the pinned test suite on a tree (default /repo) and report whether every stable-pass test of the baseline still passes."""
import json, os, subprocess, sys
import xml.etree.ElementTree as ET
tree = sys.argv[1] if len(sys.argv) > 1 else '/repo'
junit = '/tmp/repo-tests-%d.xml' % os.getpid()
subprocess.run(['/venv/bin/python', '-m', 'pytest', '-q', '-p', 'no:cacheprovider', '--timeout=900', '--continue-on-collection-errors',
                '--junitxml=' + junit], cwd=tree, capture_output=True, text=True, env=dict(os.environ, PYTHONHASHSEED='0'))
passed = set()
for tc in ET.parse(junit).getroot().iter('testcase'):
    if not any(ch.tag in ('failure', 'error', 'skipped') for ch in tc):
        passed.add('%s::%s' % (tc.get('classname'), tc.get('name')))
os.unlink(junit)
stable = set(json.load(open('/root/.vp/BASELINE.json'))['stable_pass'])
print('passed', len(passed), 'stable-pass tests missing:', sorted(stable - passed))
sys.exit(1 if stable - passed else 0)
