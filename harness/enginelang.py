"""Generators / printers for the `engine` streams of C02 (Model/Engine.v against TeX.__iter__ on token lists).

Programs use the tree format of macrolang.py restricted to the fragment the engine Model covers:
  ['word', w] ['group', body, 'brace'] ['def', global, name, nparams, None, body, how] ['call', name, None, [args], how]
  ['param', k] ['param2', k] ['hash'] ['cond', ['true']|['false']|['num', ['lit', a, 'plain'], rel, ['lit', b, 'plain']], thn, els|None]
  ['case', ['lit', z, 'plain'], [branches], els|None]
Two printing styles:
  'ml' : the names of macrolang.py (\\zq<base-26>, W<base-26>), calls without arguments followed by {} or a blank
  'f'  : exactly Spec/MacroPrint.v (binary names over the letters a/b, calls without arguments followed by a blank);
         the token list Spec/MacroPrint.print gives is compared with the real Tokenizer on this source (stream `print`).
"""
import macrolang as ML

PRIMS = ['bgroup', 'egroup', 'def', 'gdef', 'relax', 'else', 'fi', 'iftrue', 'iffalse', 'ifnum', 'ifcase', 'newcommand', 'renewcommand', 'let', 'ifodd', 'newif', 'value', 'stepcounter', 'setcounter', 'addtocounter', 'expandafter']


# ---- names of Spec/MacroPrint.v -------------------------------------------------------------------

def zcode(z):
    """Z -> letters: '' for 0, 'p'/'n' + bits of |z| least significant first without the leading one (a = 0, b = 1)"""
    if z == 0:
        return ''
    s = 'p' if z > 0 else 'n'
    p = abs(z)
    while p > 1:
        s += 'b' if p & 1 else 'a'
        p >>= 1
    return s


def fmac(n):
    return 'zq' + zcode(n)


def fword(w):
    return 'W' + zcode(w)


def fsw(n):
    return 'zs' + zcode(n)


def fcnt(c):
    return 'zc' + zcode(c)


# ---- printer ---------------------------------------------------------------------------------------

class Pr:
    def __init__(self, style, rng=None, table=None):
        self.style = style
        self.rng = rng
        self.depth = 0
        # delimiter assignment of Spec/MacroPrint.Delims (style 'f' only): {np: [delimiter string after parameter 1, .., np]}
        self.table = table

    def dl(self, np, i):
        """delimiter string after parameter i (1-based) of a \\def macro with np parameters ('' = undelimited)"""
        if not self.table:
            return ''
        row = self.table.get(np)
        return row[i - 1] if row and i <= len(row) else ''

    def mac(self, n):
        return fmac(n) if self.style == 'f' else ML.mac(n)

    def word(self, w):
        return fword(w) if self.style == 'f' else ML.word(w)

    def sw(self, n):
        return fsw(n) if self.style == 'f' else ML.swname(n)

    def cnt(self, c):
        return fcnt(c) if self.style == 'f' else ML.cntname(c)

    def operand(self, o):
        return ('\\value{%s}' % self.cnt(o[1])) if o[0] == 'cnt' else ('%d' % o[1])

    def nodes(self, ns):
        return ''.join(self.node(n) for n in ns)

    def test(self, t):
        if t[0] == 'true':
            return '\\iftrue '
        if t[0] == 'false':
            return '\\iffalse '
        if t[0] == 'switch':
            return '\\if%s ' % self.sw(t[1])
        term = '\\relax '
        if t[0] == 'odd':
            if self.style != 'f' and len(t) > 2:
                term = t[2]
            return '\\ifodd %s%s' % (self.operand(t[1]), term)
        if self.style != 'f' and len(t) > 4:
            term = t[4]
        return '\\ifnum %s%s%s%s' % (self.operand(t[1]), t[2], self.operand(t[3]), term)

    def node(self, n):
        k = n[0]
        if k == 'word':
            return self.word(n[1]) + ' '
        if k == 'group':
            return '{' + self.nodes(n[1]) + '}'
        if k == 'def':
            _, g, name, np, default, body, how = n
            how = how or {}
            if default is not None or (self.style != 'f' and how.get('kind') in ('newcommand', 'renewcommand')):
                # \\newcommand{\\name}[total][default]{body}: the optional argument is #1
                cmd = how.get('kind') if (self.style != 'f' and how.get('kind') in ('newcommand', 'renewcommand')) else 'newcommand'
                total = np + (1 if default is not None else 0)
                s = '\\%s{\\%s}' % (cmd, self.mac(name))
                if total or self.style == 'f':
                    s += '[%d]' % total
                if default is not None:
                    s += '[' + self.nodes(default) + ']'
                self.depth += 1
                b = self.nodes(body)
                self.depth -= 1
                return s + '{' + b + '}'
            delims = how.get('delims') or [''] * (np + 1)
            if self.table is not None:
                # MacroPrint.print_node: delimiters by parameter count in program text; none in body mode (param_text2)
                delims = [''] + [self.dl(np, i + 1) if self.depth == 0 else '' for i in range(np)]
            hashes = '#' * (2 ** self.depth)
            pat = delims[0] + ''.join('%s%d%s' % (hashes, i + 1, delims[i + 1]) for i in range(np))
            self.depth += 1
            b = self.nodes(body)
            self.depth -= 1
            return '\\%s\\%s%s{%s}' % ('gdef' if g else 'def', self.mac(name), pat, b)
        if k == 'call':
            _, name, opt, args, how = n
            how = how or {}
            delims = how.get('delims')
            s = '\\' + self.mac(name)
            if self.table is not None:
                # MacroPrint.print_dargs: by the number of arguments, whatever the macro is
                if opt is not None:
                    s += '[' + self.nodes(opt) + ']'
                elif not args or self.dl(len(args), 1):
                    s += ' '
                for i, a in enumerate(args):
                    d = self.dl(len(args), i + 1)
                    s += ('{' + self.nodes(a) + '}') if d == '' else (self.nodes(a) + d)
                return s
            if opt is not None:
                return s + '[' + self.nodes(opt) + ']' + ''.join('{' + self.nodes(a) + '}' for a in args)
            if delims and any(delims):
                s += ' ' + delims[0]
                for i, a in enumerate(args):
                    s += ('{' + self.nodes(a) + '}') if delims[i + 1] == '' else (self.nodes(a) + delims[i + 1])
                return s
            if not args:
                return s + ('{}' if (self.style != 'f' and how.get('empty') == 'braces') else ' ')
            sep = how.get('argsep', '') if self.style != 'f' else ''      # blanks in front of braced undelimited arguments
            return s + ''.join(sep + '{' + self.nodes(a) + '}' for a in args)
        if k == 'let':
            return '\\let\\%s=\\%s ' % (self.mac(n[1]), self.mac(n[2]))
        if k == 'step':
            return '\\stepcounter{%s}' % self.cnt(n[1])
        if k == 'setc':
            return '\\setcounter{%s}{%d}' % (self.cnt(n[1]), n[2])
        if k == 'addc':
            return '\\addtocounter{%s}{%d}' % (self.cnt(n[1]), n[2])
        if k == 'newsw':
            return '\\newif\\if%s ' % self.sw(n[1])
        if k == 'setsw':
            return '\\%s%s ' % (self.sw(n[1]), 'true' if n[2] else 'false')
        if k == 'param':
            return '#%d' % n[1]
        if k == 'param2':
            return '##%d' % n[1]
        if k == 'hash':
            return '##'
        if k == 'expandafter':
            return '\\expandafter\\%s\\%s ' % (self.mac(n[1]), self.mac(n[2]))
        if k == 'cond':
            s = self.test(n[1]) + self.nodes(n[2])
            if n[3] is not None:
                s += '\\else ' + self.nodes(n[3])
            return s + '\\fi '
        if k == 'case':
            s = '\\ifcase %s\\relax ' % self.operand(n[1]) + '\\or '.join(self.nodes(b) for b in n[2])
            if n[3] is not None:
                s += '\\else ' + self.nodes(n[3])
            return s + '\\fi '
        raise ValueError(n)


def to_source(prog, style, table=None):
    return Pr(style, table=table).nodes(prog)


# ---- structured generator --------------------------------------------------------------------------

DELIMS = ['.', ',', ';', ':']


def gen_prog(rng, f1_only=False, max_params=3, delims=True, allow_nested=True, newcommands=True, lets=True, switches=True, counters=True, expandafters=True):
    """a program of the fragment; f1_only: no parameters at all (fragment F1 of the theorem); otherwise undelimited
    (and a few delimited) parameters.  Bodies call only lower-numbered macros, so expansion terminates."""
    nmac = rng.randint(1, 4)
    sigs = {}
    for i in range(nmac):
        np = 0 if f1_only else rng.choice([0, 0, 1, 1, 2, max_params])
        how = {'kind': 'def'}
        if np and not f1_only and delims and rng.random() < 0.2:
            how['delims'] = [rng.choice(['', '', '!'])] + [rng.choice(['', ''] + DELIMS) for _ in range(np)]
        if not f1_only and newcommands and rng.random() < 0.3:
            how = {'kind': 'newcommand', 'opt': np < max(max_params, 3) and rng.random() < 0.7}
        sigs[i] = (np, how)
    gok = {i for i in sigs if rng.random() < 0.4 or sigs[i][1].get('kind') == 'newcommand'}     # ids that may be \\gdef'ed: these are never defined locally inside a group or a body
    nsw = 0 if (f1_only or not switches) else rng.choice([0, 0, 1, 2])
    ncnt = 0 if (f1_only or not counters) else rng.choice([0, 0, 1, 2])

    def operand():
        if ncnt and rng.random() < 0.4:
            return ['cnt', rng.randrange(ncnt)]
        return ['lit', rng.choice([0, 1, 2, 3, 7, 10, 12, 99, 120]), 'plain']
    w = [0]
    nested = allow_nested and rng.random() < 0.5     # a program uses either literal ## or definitions nested in bodies, never both
    inner_ids = [0]
    feeder_ids = [0]
    vinner = {}            # parameterless macro id -> (inner id, number of parameters) it defines when called
    alias_ids = [0]
    scopes = [set()]       # ids certainly defined at this point, per open group (static approximation)

    def visible():
        out = set()
        for s in scopes:
            out |= s
        return sorted(out)

    def word():
        w[0] += 1
        return ['word', w[0]]

    def test():
        r = rng.random()
        if r < 0.3:
            return ['true']
        if r < 0.6:
            return ['false']
        if r < 0.7:
            return ['odd', operand()]
        if nsw and r < 0.82:
            return ['switch', rng.randrange(nsw)]
        t = ['num', operand(), rng.choice('<>='), operand()]
        return t

    def call(ids, depth, params, simple_args):
        i = rng.choice(ids)
        np, how = sigs[i]
        delims = how.get('delims')
        args = []
        for k in range(np):
            if (delims and delims[k + 1]) or simple_args:
                args.append([word() for _ in range(rng.randint(0, 2))])
            else:
                args.append(content(depth - 1, params, ids, n=rng.randint(0, 2), allow_def=False, simple_args=True))
        h = dict(how)
        if rng.random() < 0.5:
            h['empty'] = 'braces'
        opt = None
        if how.get('opt') and rng.random() < 0.5:
            opt = [word() for _ in range(rng.randint(0, 2))]
        if rng.random() < 0.25:
            h['argsep'] = rng.choice([' ', ' ', '  '])
        return ['call', i, opt, args, h]

    def content(depth, params, ids, n=None, allow_def=True, simple_args=False):
        n = rng.randint(1, 3) if n is None else n
        out = []
        for _ in range(n):
            r = rng.random()
            if ids and depth > 0 and r < 0.3:
                out.append(call(ids, depth, params, simple_args))
            elif depth > 0 and r < 0.42:
                out.append(['group', content(depth - 1, params, ids, allow_def=allow_def, simple_args=simple_args), 'brace'])
            elif params and r < 0.6:
                out.append(['param', rng.randint(1, params)])
            elif params and r < 0.63 and not nested:
                out.append(['hash'])
            elif depth > 0 and r < 0.8:
                t = test()
                thn = content(depth - 1, params, ids, n=rng.randint(0, 2), allow_def=False, simple_args=simple_args)
                if t[0] in ('num', 'odd') and rng.random() < 0.45:
                    # other ways to end the second number: a blank (in front of anything: \\fi, \\else, a call, a brace, a word - since
                    # fix c654904 readInteger only peeks at the next token) or a blank followed by \\relax
                    # '' : the digits are directly followed by whatever comes next: \\fi, \\else, a word, a conditional, a brace, a call
                    # (a user macro met while scanning the number is expanded one step at a time: fixes 076499b, 9658874)
                    t.append(rng.choice([' ', ' ', ' \\relax ', '', '']))
                out.append(['cond', t, thn,
                            content(depth - 1, params, ids, n=rng.randint(0, 2), allow_def=False, simple_args=simple_args)
                            if rng.random() < 0.5 else None])
            elif ncnt and r < 0.94 and r >= 0.9:
                c = rng.randrange(ncnt)
                out.append(rng.choice([['step', c], ['step', c], ['setc', c, rng.choice([0, 1, 2, 5, -1, 12])], ['addc', c, rng.choice([1, 2, -1, -3, 10])]]))
            elif nsw and r < 0.9 and r >= 0.86:
                out.append(['setsw', rng.randrange(nsw), rng.random() < 0.5] if rng.random() < 0.85 else ['newsw', rng.randrange(nsw)])
            elif depth > 0 and not f1_only and r < 0.86:
                sub = lambda: content(depth - 1, params, ids, n=rng.randint(0, 2), allow_def=False, simple_args=simple_args)
                out.append(['case', (['cnt', rng.randrange(ncnt)] if (ncnt and rng.random() < 0.3) else ['lit', rng.choice([0, 0, 1, 1, 2, 3, 7]), 'plain']),
                            [sub() for _ in range(rng.randint(1, 3))],
                            sub() if rng.random() < 0.5 else None])
            else:
                out.append(word())
        return out

    def mkdef(i, g):
        np, how = sigs[i]
        default = [word() for _ in range(rng.randint(0, 2))] if how.get('opt') else None
        if how.get('kind') == 'newcommand':
            g = True        # \\newcommand is global in plasTeX by design
            how = dict(how, kind=rng.choice(['newcommand', 'renewcommand']))
        elif not how.get('delims') and len(scopes) == 1 and not f1_only and newcommands and rng.random() < 0.12:
            # a \\def'd name redefined by \\renewcommand at top level (Context.newcommand may override a Definition)
            how = dict(how, kind='renewcommand')
        return ['def', g, i, np, default, body(i), dict(how)]

    def body(i):
        np, how = sigs[i]
        np = np + (1 if how.get('opt') else 0)
        if np == 0 and how.get('kind') == 'def' and not f1_only and nested and rng.random() < 0.5:
            # a parameterless \\def whose body is words and a \\def with ##k: the body is handed back as it is and \\def itself
            # removes one level of # (DefCommand); the inner macro is used right after a call of the outer one (see main)
            inner = 30 + inner_ids[0]
            inner_ids[0] += 1
            inp = rng.randint(1, 2)
            ib = []
            for _ in range(rng.randint(1, 3)):
                r = rng.random()
                if r < 0.55:
                    ib.append(['param2', rng.randint(1, inp)])
                elif r < 0.7:
                    ib.append(['group', [['param2', rng.randint(1, inp)], word()], 'brace'])
                else:
                    ib.append(word())
            vinner[i] = (inner, inp)
            return [word() for _ in range(rng.randint(0, 1))] + [['def', False, inner, inp, None, ib, {'kind': 'def'}]] + [word() for _ in range(rng.randint(0, 1))]
        vinner.pop(i, None)
        b = content(2, np, list(range(i)), n=rng.randint(0, 4), allow_def=False)
        cands = [a for a in range(i) if sigs[a][1].get('kind') == 'def' and not sigs[a][1].get('delims')]
        if not f1_only and expandafters and cands and rng.random() < 0.15:
            # \\expandafter\\a\\b inside the body: the feeder \\b is defined (locally) right before
            a = rng.choice(cands)
            fid = 40 + feeder_ids[0]
            feeder_ids[0] += 1
            fb = [['group', [word() for _ in range(rng.randint(0, 2))], 'brace'] for _ in range(sigs[a][0])] + [word() for _ in range(rng.randint(0 if sigs[a][0] else 1, 2))]
            b.insert(rng.randint(0, len(b)), ['expandafter', a, fid])
            b.insert(0, ['def', False, fid, 0, None, fb, {'kind': 'def'}])
        if not f1_only and nested and rng.random() < 0.4:
            # a definition nested in the body: its own parameters are written ##k there (DefCommand removes one level of #)
            inner = 30 + inner_ids[0]
            inner_ids[0] += 1
            inp = rng.randint(0, 2)
            ib = []
            for _ in range(rng.randint(1, 3)):
                r = rng.random()
                if inp and r < 0.45:
                    ib.append(['param2', rng.randint(1, inp)])
                elif np and r < 0.6:
                    ib.append(['param', rng.randint(1, np)])
                else:
                    ib.append(word())
            if np and newcommands and rng.random() < 0.35:
                # the nested definition is a \\newcommand with an optional argument (global): ##1 is the optional one.
                # (only inside a macro that has parameters: inside a parameterless \\def plasTeX leaves ##k as #k - reported finding)
                ib.append(['param2', rng.randint(1, inp + 1)])
                b.append(['def', True, inner, inp, [word() for _ in range(rng.randint(0, 2))], ib, {'kind': 'newcommand', 'opt': True}])
                for _ in range(rng.randint(1, 2)):
                    b.append(['call', inner, ([word() for _ in range(rng.randint(0, 2))] if rng.random() < 0.5 else None),
                              [[word() for _ in range(rng.randint(0, 2))] for _ in range(inp)], {'kind': 'newcommand', 'opt': True}])
            else:
                b.append(['def', False, inner, inp, None, ib, {'kind': 'def'}])
                for _ in range(rng.randint(1, 2)):
                    b.append(['call', inner, None, [[word() for _ in range(rng.randint(0, 2))] for _ in range(inp)], {'kind': 'def'}])
        if f1_only and i and rng.random() < 0.25:
            # a definition inside a body (no parameters anywhere: legal in F1), executed when the macro is called
            j = rng.randrange(i)
            b.append(['def', j in gok, j, 0, None, content(1, 0, list(range(j)), n=rng.randint(0, 2), allow_def=False), {'kind': 'def'}])
        return b

    def main(depth):
        out = []
        for _ in range(rng.randint(1, 5)):
            r = rng.random()
            if r < 0.35:
                i = rng.randrange(nmac)
                # \gdef under a live local definition of the same name: plasTeX differs from TeX by design (C04), never generated
                g = (i in gok) and (len(scopes) > 1 or rng.random() < 0.3)
                d = mkdef(i, g)
                out.append(d)
                (scopes[0] if d[1] else scopes[-1]).add(i)
            elif depth > 0 and r < 0.5:
                scopes.append(set())
                out.append(['group', main(depth - 1), 'brace'])
                scopes.pop()
            elif r < 0.58 and lets and not f1_only and visible():
                # \\let\\new=\\old : a local alias (the meaning at this moment), then uses of it
                tgt = rng.choice(visible())
                new = 20 + alias_ids[0]
                alias_ids[0] += 1
                sigs[new] = (sigs[tgt][0], dict(sigs[tgt][1]))
                out.append(['let', new, tgt])
                scopes[-1].add(new)
                for _ in range(rng.randint(0, 2)):
                    out.append(call([new], 2, 0, False))
            elif r < 0.66 and not f1_only and expandafters and [i for i in visible() if i < nmac and sigs[i][1].get('kind') == 'def' and not sigs[i][1].get('delims')]:
                # \\expandafter\\a\\b: \\b (a fresh parameterless \\def) is expanded first; its body starts with one brace group per
                # parameter of \\a (plain \\def without delimiters), sometimes one too few (then \\a takes what follows)
                a = rng.choice([i for i in visible() if i < nmac and sigs[i][1].get('kind') == 'def' and not sigs[i][1].get('delims')])
                fid = 40 + feeder_ids[0]
                feeder_ids[0] += 1
                npa = sigs[a][0]
                fb = [['group', [word() for _ in range(rng.randint(0, 2))], 'brace'] for _ in range(npa)] + [word() for _ in range(rng.randint(0 if npa else 1, 2))]
                out.append(['def', False, fid, 0, None, fb, {'kind': 'def'}])
                out.append(['expandafter', a, fid])
            else:
                new = content(2, 0, visible(), n=1)
                out += new
                for x in new:
                    # after a call of a parameterless macro that defines an inner macro (##k reduced by \\def): use the inner macro
                    if x[0] == 'call' and x[1] in vinner and rng.random() < 0.8:
                        inner, inp = vinner[x[1]]
                        out.append(['call', inner, None, [[word() for _ in range(rng.randint(0, 2))] for _ in range(inp)], {'kind': 'def'}])
        return out
    prog = []
    for k in range(nsw):
        prog.append(['newsw', k])
        if rng.random() < 0.3:
            prog.append(['setsw', k, rng.random() < 0.5])
    for i in range(nmac):
        if rng.random() < 0.8:
            prog.append(mkdef(i, False))
            scopes[0].add(i)
    prog += main(2)
    return prog


def mac_ids(prog, acc=None):
    acc = set() if acc is None else acc

    def walk(x):
        if isinstance(x, list):
            if x and x[0] in ('def', 'call') and len(x) > 2 and isinstance(x[2 if x[0] == 'def' else 1], int):
                acc.add(x[2] if x[0] == 'def' else x[1])
            for y in x:
                walk(y)
    walk(prog)
    return sorted(acc)


def in_f1(prog):
    """Spec/MacroPrint.in_F1 on the Python side"""
    for n in prog:
        k = n[0]
        if k == 'word':
            if n[1] < 0:
                return False
        elif k == 'group':
            if not in_f1(n[1]):
                return False
        elif k == 'def':
            if n[3] != 0 or n[4] is not None or not in_f1(n[5]):
                return False
        elif k == 'call':
            if n[2] is not None or n[3]:
                return False
        elif k == 'cond':
            t = n[1]
            if not _test_ok(t, f1=True):
                return False
            if not in_f1(n[2]) or (n[3] is not None and not in_f1(n[3])):
                return False
        else:
            return False
    return True


def _opd_ok(o, f1=False):
    return (o[0] == 'lit' and o[1] >= 0) or (o[0] == 'cnt' and not f1)


def _test_ok(t, f1=False):
    if t[0] == 'switch':
        return not f1
    if t[0] in ('true', 'false'):
        return True
    if t[0] == 'odd':
        return _opd_ok(t[1], f1)
    return t[0] == 'num' and _opd_ok(t[1], f1) and _opd_ok(t[3], f1)


def _case_head(n):
    return _opd_ok(n[1]) and len(n[2]) >= 1


def _words(l):
    return all(x[0] == 'word' for x in l)


def _opt_ok(o):
    return o is None or _words(o)


TABLE = [None]      # the delimiter assignment the twins below are evaluated under (None: MacroPrint.NoDelims)


def _dl(np, i):
    t = TABLE[0]
    if not t:
        return ''
    row = t.get(np)
    return row[i - 1] if row and i <= len(row) else ''


def _undelim(np):
    """Spec/MacroPrint.undelim"""
    return all(_dl(np, i) == '' for i in range(1, np + 1))


def _dargs_ok(args):
    """Spec/MacroPrint.dargs_ok: the argument of a delimited parameter is plain words"""
    return all(_dl(len(args), i + 1) == '' or _words(a) for i, a in enumerate(args))


def _fa(n):
    """Spec/MacroPrint.fa_node: argument text"""
    k = n[0]
    if k in ('word', 'let', 'newsw', 'setsw', 'step', 'setc', 'addc', 'expandafter'):
        return True
    if k == 'group':
        return all(_fa(x) for x in n[1])
    if k == 'def':
        return n[3] == 0 and n[4] is None and all(_fa(x) for x in n[5])
    if k == 'call':
        return _undelim(len(n[3])) and _opt_ok(n[2]) and all(all(_fa(x) for x in a) for a in n[3])
    if k == 'cond':
        return _test_ok(n[1]) and all(_fa(x) for x in n[2]) and (n[3] is None or all(_fa(x) for x in n[3]))
    if k == 'case':
        return _case_head(n) and all(all(_fa(x) for x in b) for b in n[2]) and (n[3] is None or all(_fa(x) for x in n[3]))
    return False


def _fb(np, n, d):
    """Spec/MacroPrint.fb_node: body of a macro with np parameters; a parameter sits at nesting depth at most d (argument text,
    which has no parameter, may sit at any depth)"""
    k = n[0]
    if k in ('word', 'let', 'newsw', 'setsw', 'step', 'setc', 'addc', 'expandafter'):
        return True
    if k == 'param':
        return 1 <= n[1] <= np
    if k in ('group', 'def', 'call', 'cond', 'case') and _fa(n):
        return True
    if k == 'group':
        return d > 0 and all(_fb(np, x, d - 1) for x in n[1])
    if k == 'def':
        return n[3] == 0 and n[4] is None and d > 0 and all(_fb(np, x, d - 1) for x in n[5])
    if k == 'call':
        return _undelim(len(n[3])) and _opt_ok(n[2]) and all(d > 0 and all(_fb(np, x, d - 1) for x in a) for a in n[3])
    if k == 'cond':
        return _test_ok(n[1]) and d > 0 and all(_fb(np, x, d - 1) for x in n[2]) and (n[3] is None or all(_fb(np, x, d - 1) for x in n[3]))
    if k == 'case':
        return _case_head(n) and d > 0 and all(all(_fb(np, x, d - 1) for x in b) for b in n[2]) and (n[3] is None or all(_fb(np, x, d - 1) for x in n[3]))
    return False


def _fi(np, m, n, d):
    """Spec/MacroPrint.fi_node: body of a definition with m parameters (##k) written inside the body of a macro with np parameters (#k)"""
    k = n[0]
    if k in ('word', 'let', 'newsw', 'setsw', 'step', 'setc', 'addc', 'expandafter'):
        return True
    if k == 'param':
        return 1 <= n[1] <= np
    if k == 'param2':
        return 1 <= n[1] <= m
    if k == 'group':
        return d > 0 and all(_fi(np, m, x, d - 1) for x in n[1])
    if k == 'call':
        return _undelim(len(n[3])) and _opt_ok(n[2]) and all(d > 0 and all(_fi(np, m, x, d - 1) for x in a) for a in n[3])
    if k == 'cond':
        return _test_ok(n[1]) and d > 0 and all(_fi(np, m, x, d - 1) for x in n[2]) and (n[3] is None or all(_fi(np, m, x, d - 1) for x in n[3]))
    if k == 'case':
        return _case_head(n) and d > 0 and all(all(_fi(np, m, x, d - 1) for x in b) for b in n[2]) and (n[3] is None or all(_fi(np, m, x, d - 1) for x in n[3]))
    return False


def _fb3(np, n, d):
    """Spec/MacroPrint.fb3_node: fb_node, or a definition with parameters of its own (nested definition) directly in the body (also under
    groups and branches, not in call arguments) of a macro that has parameters itself"""
    if _fb(np, n, d):
        return True
    k = n[0]
    if k == 'group':
        return d > 0 and all(_fb3(np, x, d - 1) for x in n[1])
    if k == 'def':
        if not (np >= 1 and d > 0 and _undelim(n[3])):
            return False
        if n[4] is None:
            return 1 <= n[3] <= 9 and all(_fi(np, n[3], x, d - 1) for x in n[5])
        return bool(n[1]) and n[3] + 1 <= 9 and _words(n[4]) and all(_fi(np, n[3] + 1, x, d - 1) for x in n[5])
    if k == 'cond':
        return _test_ok(n[1]) and d > 0 and all(_fb3(np, x, d - 1) for x in n[2]) and (n[3] is None or all(_fb3(np, x, d - 1) for x in n[3]))
    if k == 'case':
        return _case_head(n) and d > 0 and all(all(_fb3(np, x, d - 1) for x in b) for b in n[2]) and (n[3] is None or all(_fb3(np, x, d - 1) for x in n[3]))
    return False


def _fv(n):
    """Spec/MacroPrint.fv_node: in the body of a parameterless \\def (handed back as it is): words and \\def's with ##k"""
    if n[0] == 'word':
        return True
    if n[0] == 'def' and n[4] is None:
        return _undelim(n[3]) and 1 <= n[3] <= 9 and all(_fi(0, n[3], x, 49) for x in n[5])
    return False


def _f2(n):
    k = n[0]
    if k in ('word', 'let', 'newsw', 'setsw', 'step', 'setc', 'addc', 'expandafter'):
        return True
    if k == 'group':
        return all(_f2(x) for x in n[1])
    if k == 'def':
        if n[4] is not None:
            return _undelim(n[3]) and bool(n[1]) and n[3] + 1 <= 9 and _words(n[4]) and all(_fb3(n[3] + 1, x, 49) for x in n[5])
        return n[3] <= 9 and ((n[3] >= 1 and all(_fb3(n[3], x, 49) for x in n[5])) or
                              (n[3] == 0 and (all(_fa(x) for x in n[5]) or all(_fv(x) for x in n[5]))))
    if k == 'call':
        return _opt_ok(n[2]) and all(all(_fa(x) for x in a) for a in n[3]) and _dargs_ok(n[3])
    if k == 'cond':
        return _test_ok(n[1]) and all(_f2(x) for x in n[2]) and (n[3] is None or all(_f2(x) for x in n[3]))
    if k == 'case':
        return _case_head(n) and all(all(_f2(x) for x in b) for b in n[2]) and (n[3] is None or all(_f2(x) for x in n[3]))
    return False


def has_expandafter(prog):
    def walk(x):
        if isinstance(x, list):
            if x and x[0] == 'expandafter':
                return True
            return any(walk(y) for y in x)
        return False
    return walk(prog)


def has_nested_def(prog):
    """a definition with parameters of its own inside the body of a definition"""
    def inside(l, inbody):
        for n in l:
            k = n[0]
            if k == 'def':
                if inbody and (n[3] > 0 or n[4] is not None):
                    return True
                if inside(n[5], True):
                    return True
            elif k == 'group':
                if inside(n[1], inbody):
                    return True
            elif k == 'call':
                if any(inside(a, inbody) for a in n[3]):
                    return True
            elif k == 'cond':
                if inside(n[2], inbody) or (n[3] is not None and inside(n[3], inbody)):
                    return True
            elif k == 'case':
                if any(inside(b, inbody) for b in n[2]) or (n[3] is not None and inside(n[3], inbody)):
                    return True
        return False
    return inside(prog, False)


def in_f2(prog, table=None):
    """Spec/MacroPrint.in_F2 (= in_F3: since stage 4 the fragment includes nested definitions with ##k) on the Python side,
    under the delimiter assignment [table] (None: NoDelims)"""
    TABLE[0] = table
    try:
        return all(_f2(n) for n in prog)
    finally:
        TABLE[0] = None


DELIM_CHOICES = ['.', ',', ';', ':', '!', '.;', ',:', '!!']


def gen_table(rng, prog=None):
    """a delimiter assignment (MacroPrint.Delims as a table): {np: [delimiter after parameter 1..np]}; with a program, mostly for the
    parameter counts of its \\def macros"""
    counts = set(range(1, 10))
    if prog is not None and rng.random() < 0.8:
        counts = {n[3] for n in prog if n[0] == 'def' and n[4] is None and n[3] > 0} or counts
    t = {}
    for np in sorted(counts):
        if rng.random() < 0.7:
            row = [rng.choice(DELIM_CHOICES) if rng.random() < 0.5 else '' for _ in range(np)]
            if any(row):
                t[np] = row
    return t


def expandafter_ok(prog, table):
    """the part of MacroPrint.gsafe about delimiters (checked along the evaluation there, statically here): every macro that is the
    target of an \\expandafter has an undelimited parameter count in all its definitions"""
    nps = {}
    targets = set()

    def walk(x):
        if isinstance(x, list):
            if x and x[0] == 'def' and len(x) > 5:
                nps.setdefault(x[2], set()).add(x[3])
            if x and x[0] == 'expandafter':
                targets.add(x[1])
            for y in x:
                walk(y)
    walk(prog)
    TABLE[0] = table
    try:
        return all(_undelim(np) for a in targets for np in nps.get(a, ()))
    finally:
        TABLE[0] = None


def table_wire(table):
    return [[np, i + 1, [[12, [ord(ch)]] for ch in d]] for np, row in sorted(table.items()) for i, d in enumerate(row) if d]


def fit_to_table(prog, table):
    """make a generated program conform to printing by parameter count: in program text (top level, groups, branches) the argument
    written for a delimited parameter becomes plain words (the other conditions of the fragment are only tested, never forced)"""
    def words_of(a):
        ws = [x for x in a if x[0] == 'word']
        return ws
    def fix(l):
        for n in l:
            k = n[0]
            if k == 'call':
                for i in range(len(n[3])):
                    row = table.get(len(n[3]))
                    if row and i < len(row) and row[i]:
                        n[3][i] = words_of(n[3][i])
            elif k == 'group':
                fix(n[1])
            elif k == 'cond':
                fix(n[2])
                if n[3] is not None:
                    fix(n[3])
            elif k == 'case':
                for b in n[2]:
                    fix(b)
                if n[3] is not None:
                    fix(n[3])
    fix(prog)
    return prog


in_f3 = in_f2


# ---- malformed stream: raw token lists -------------------------------------------------------------

def T(c, s):
    return [c, [ord(x) for x in s]]


SOUP = [T(11, 'a'), T(11, 'b'), T(10, ' '), T(1, '{'), T(2, '}'), T(6, '#'), T(12, '1'), T(12, '2'), T(12, '<'), T(12, '='), T(12, '>'),
        T(12, '-'), T(12, '+'), T(0, 'def'), T(0, 'gdef'), T(0, 'zqa'), T(0, 'zqb'), T(0, 'iftrue'), T(0, 'iffalse'), T(0, 'ifnum'),
        T(0, 'else'), T(0, 'fi'), T(0, 'relax'), T(0, 'ifcase'), T(0, 'or'), T(0, 'newcommand'), T(12, '['), T(12, ']'), T(12, '*'), T(0, 'let'), T(0, 'let'), T(0, 'ifodd'), T(0, 'newif'), T(0, 'newif'), T(0, 'ifzsa'), T(0, 'zsatrue'), T(0, 'zsafalse'), T(0, 'ifzsa'),
        T(0, 'value'), T(0, 'stepcounter'), T(0, 'setcounter'), T(0, 'addtocounter'), T(11, 'c'), T(0, 'expandafter'), T(0, 'expandafter')]
SMALL = [T(11, 'a'), T(10, ' '), T(1, '{'), T(2, '}'), T(6, '#'), T(12, '1'), T(12, '<'), T(0, 'def'), T(0, 'zqa'), T(0, 'iftrue'),
         T(0, 'ifnum'), T(0, 'else'), T(0, 'fi'), T(0, 'relax')]


def gen_soup(rng):
    pre = []
    r = rng.random()
    if r < 0.4:
        # a definition of \zqa with a random parameter text first, so that calls do something
        np = rng.randint(0, 2)
        pat = []
        for i in range(np):
            pat += [T(6, '#')] * rng.choice([1, 1, 1, 2, 3]) + [T(12, str(i + 1))] + ([rng.choice([T(12, '<'), T(11, 'b')])] if rng.random() < 0.3 else [])
        bodyalpha = [T(11, 'a'), T(11, 'b'), T(6, '#'), T(6, '#'), T(12, '1'), T(12, '2'), T(0, 'zqb'), T(0, 'fi'), T(0, 'else'), T(0, 'iftrue'), T(10, ' ')]
        pre = [T(0, rng.choice(['def', 'gdef'])), T(0, 'zqa')] + pat + [T(1, '{')] + [rng.choice(bodyalpha) for _ in range(rng.randint(0, 5))] + [T(2, '}')]
    elif r < 0.75:
        pre = [T(0, 'ifnum')] + [rng.choice([T(12, '1'), T(12, '2'), T(12, '-'), T(10, ' ')]) for _ in range(rng.randint(0, 3))] + \
              [rng.choice([T(12, '<'), T(12, '='), T(12, '>'), T(11, 'a')])] + [rng.choice([T(12, '1'), T(12, '2'), T(12, '-')]) for _ in range(rng.randint(0, 2))]
        if rng.random() < 0.6:
            # what follows the second number is looked at (expanded) by the number reader, also after the optional blank
            pre += [T(10, ' ')] * rng.choice([0, 1, 1, 1]) + rng.choice([[T(0, 'fi')], [T(0, 'else')], [T(1, '{')], [T(2, '}')], [T(0, 'zqa')], [T(0, 'iftrue')],
                                                                 [T(0, 'relax')], [T(0, 'def'), T(0, 'zqb'), T(1, '{'), T(11, 'a'), T(2, '}')]])
    elif r < 0.82:
        # \\newcommand with its optional parts present / absent / damaged, then uses of \\zqa
        pre = [T(0, rng.choice(['newcommand', 'newcommand', 'renewcommand']))] + ([T(12, '*')] if rng.random() < 0.15 else [])
        pre += rng.choice([[T(1, '{'), T(0, 'zqa'), T(2, '}')], [T(0, 'zqa')], [T(1, '{'), T(0, 'zqa')], [T(11, 'a')], [T(0, 'relax')], [T(0, 'def')]])
        if rng.random() < 0.7:
            pre += [T(12, '[')] + rng.choice([[T(12, '1')], [T(12, '2')], [T(12, '0')], [T(12, '1'), T(11, 'a')], [], [T(12, '-'), T(12, '1')], [T(10, ' '), T(12, '2')]]) + [T(12, ']')]
            if rng.random() < 0.5:
                pre += [T(12, '[')] + [rng.choice([T(11, 'a'), T(11, 'b'), T(12, '['), T(12, ']'), T(10, ' ')]) for _ in range(rng.randint(0, 2))] + [T(12, ']')]
        balpha = [T(11, 'a'), T(11, 'b'), T(6, '#'), T(12, '1'), T(12, '2'), T(10, ' '), T(0, 'zqb')]
        pre += [T(1, '{')] + [rng.choice(balpha) for _ in range(rng.randint(0, 5))] + [T(2, '}')]
        calpha = [T(0, 'zqa'), T(0, 'zqa'), T(12, '['), T(12, ']'), T(1, '{'), T(2, '}'), T(11, 'a'), T(11, 'b'), T(10, ' ')]
        pre += [rng.choice(calpha) for _ in range(rng.randint(0, 8))]
    elif r < 0.93:
        # \\ifcase <number> followed by text with \\or / \\else / \\fi sprinkled in
        pre = [T(0, 'ifcase')] + [rng.choice([T(12, '0'), T(12, '1'), T(12, '2'), T(12, '3'), T(12, '-'), T(10, ' ')]) for _ in range(rng.randint(0, 2))] + \
              rng.choice([[T(0, 'relax')], [T(10, ' ')], []])
        alpha = [T(11, 'a'), T(11, 'b'), T(0, 'or'), T(0, 'or'), T(0, 'else'), T(0, 'fi'), T(0, 'iftrue'), T(1, '{'), T(2, '}'), T(0, 'zqa')]
        pre += [rng.choice(alpha) for _ in range(rng.randint(0, 8))]
    elif r < 0.97:
        # counters: \\setcounter / \\addtocounter / \\stepcounter / \\value with names a, b, ab in braces or bare, numbers good and bad
        def nm():
            return rng.choice([[T(1, '{'), T(11, 'a'), T(2, '}')], [T(1, '{'), T(11, 'a'), T(11, 'b'), T(2, '}')], [T(11, 'b')], [T(1, '{'), T(10, ' '), T(11, 'a'), T(10, ' '), T(2, '}')],
                               [T(1, '{'), T(0, 'zqa'), T(2, '}')], [T(1, '{'), T(1, '{'), T(11, 'a'), T(2, '}'), T(2, '}')]])
        def num():
            return rng.choice([[T(1, '{'), T(12, '2'), T(2, '}')], [T(1, '{'), T(12, '-'), T(12, '1'), T(2, '}')], [T(12, '1')], [T(1, '{'), T(12, '1'), T(12, '2'), T(11, 'a'), T(2, '}')],
                               [T(1, '{'), T(2, '}')], [T(1, '{'), T(11, 'a'), T(2, '}')]])
        pre = []
        for _ in range(rng.randint(1, 4)):
            k = rng.random()
            if k < 0.3:
                pre += [T(0, 'setcounter')] + nm() + num()
            elif k < 0.55:
                pre += [T(0, 'addtocounter')] + nm() + num()
            elif k < 0.75:
                pre += [T(0, 'stepcounter')] + nm()
            else:
                pre += rng.choice([[T(0, 'ifnum')], [T(0, 'ifodd')], [T(0, 'ifcase')], []]) + [T(0, 'value')] + nm() + rng.choice([[T(12, '<'), T(12, '1')], [T(0, 'relax')], []])
    return pre + [rng.choice(SOUP) for _ in range(rng.randint(0, 9))]


def all_small(n):
    import itertools
    for k in range(n + 1):
        for tup in itertools.product(SMALL, repeat=k):
            yield list(tup)


def names_in(toks):
    seen = []
    for c, t in toks:
        if c == 0:
            s = ''.join(map(chr, t))
            if s not in seen:
                seen.append(s)
    return seen


def show(toks):
    s = []
    for c, t in toks:
        x = ''.join(map(chr, t))
        s.append(('\\' + x + ' ') if c == 0 else x)
    return ''.join(s)
