#!/bin/sh
# verify every delivered round-3 change that has not been verified yet (6 at a time)
cd /verif
for d in /tmp/seed6-C*-out/m[123]; do
  [ -f $d/patch.diff ] && [ -f $d/demo.py ] && [ -f $d/meta.json ] || continue
  p=$(echo $d | sed 's#/tmp/seed6-\(C[0-9]*\)-out/m\([123]\)#\1-r6m\2#')
  [ -f build/seedverify/$p.json ] && continue
  echo "$d $p"
done | xargs -P 6 -L 1 /venv/bin/python harness/verify_seed.py 2>&1 | cut -c1-260
