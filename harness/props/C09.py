"""C09 -- Every reference resolves to the object its label names, wherever the label is.
Correspondence: plasTeX Context.label / Context.ref (direct API histories on a real Context, and generated LaTeX
documents parsed by the real TeX) vs Model/Refs.v; the judge evaluates Model/RefsSpec.v's demands on the
implementation's own output."""
import copy
import itertools
import re

ID = 'C09'
PINS = [('plasTeX/Context.py', 'Context.label'), ('plasTeX/Context.py', 'Context.ref'),
        ('plasTeX/TeX.py', 'TeX.castLabel'), ('plasTeX/TeX.py', 'TeX.castRef'),
        ('plasTeX/__init__.py', 'Macro.refstepcounter'), ('plasTeX/__init__.py', 'Macro.id'), ('plasTeX/__init__.py', 'Macro.idref'),
        ('plasTeX/__init__.py', 'Macro.preParse'), ('plasTeX/__init__.py', 'Macro.preArgument'), ('plasTeX/__init__.py', 'Macro.postArgument'),
        ('plasTeX/__init__.py', 'Macro.postParse'), ('plasTeX/Base/LaTeX/Math.py', 'eqnarray'), ('plasTeX/Base/LaTeX/Crossref.py', 'label'),
        ('plasTeX/Base/LaTeX/Crossref.py', 'ref'), ('plasTeX/Base/LaTeX/Crossref.py', 'pageref')]
RULE = ('(a) histories of calls on a real Context -- currentlabel assignment, label(l) / label(l, node), ref(holder, key, l), push / pop -- over '
        'small alphabets of nodes, holders, keys and label strings (with surrounding blanks, empty, all Unicode blanks), enumerated exhaustively to a '
        'length bound and generated randomly up to length 60; (b) generated article documents with labels on sections (after the command and inside '
        'the title), subsections, starred sections, equations, eqnarray rows, enumerate items (nested), figure and table captions, theorems, and '
        '\\ref / \\pageref placed before, after and inside the labelled object, in titles, captions, math and groups, plus dangling references; every '
        'document comes with variants in which all references are moved to other places; small documents (two objects, one or two references) are '
        'enumerated exhaustively; streams with duplicate labels and with labels written after the end of a nested numbered environment are kept '
        'apart. Non-trivial = at least one reference and one label that names an object.')
TRUSTED = ['modelled, not verified: the tokenizer/argument reader that turns \\label{..}/\\ref{..} into the string handed to castLabel/castRef '
           '(C01/C05; active characters and control symbols in a label come back as source text, reproduced by read_name), which '
           'numbering events and argument positions a generated construct corresponds to (the generator writes the document as numbering '
           'events of Model/Counters.v plus labels / references; the Model derives the order refstepcounter / arguments / postParse and '
           'the printed numbers; checked by the correspondence), Python dict order and str.strip (table of blanks checked against '
           'str.isspace for every code point below 0x3100)',
           'the printed number of an object is what Model/Counters.v (C08) computes for it (theorem C09_ref_number_is_c08_number); '
           'documents with a bibliography are sent as plain event histories with generator-made numbers (bibliography entries are '
           'not in C08\'s Model)']
ASSUMPTIONS = ['labels are pairwise distinct for the property theorems (duplicate labels: correspondence only)',
               'documents: article class, labels written where LaTeX\'s group-local current object and plasTeX\'s most recently numbered '
               'object coincide, except in the stream after-nested (known finding C09-currentlabel-not-group-local)']
CASE_TIMEOUT = 20

KNOWN_KEY = 'C09:label-after-closed-group'


def S(s):
    return [ord(c) for c in s]


def unS(l):
    return ''.join(chr(c) if 0 <= c < 0x110000 else '?' for c in l)


# ====================================================================================================
# events (the vocabulary of Model/Refs.v)
#   ['cur', o] ['num', o, text|None] ['label', l, node|None] ['ref', r, k, l] ['open'] ['close']

def wire_event(e):
    k = e[0]
    if k == 'cur':
        return [0, e[1]]
    if k == 'num':
        return [1, e[1], [] if e[2] is None else [S(e[2])]]
    if k == 'label':
        return [2, S(e[1]), [] if e[2] is None else [e[2]]]
    if k == 'ref':
        return [3, e[1], e[2], S(e[3])]
    if k == 'open':
        return [4]
    if k == 'close':
        return [5]
    raise ValueError(e)


# ====================================================================================================
# documents
# block  : ['sec', level, starred, title_inlines, after_label|None] | ['par', inlines] | ['eq', inlines]
#          | ['eqn', [[inlines, nonumber], ...]] | ['enum', [[blocks], ...]] | ['float', kind, pre_inlines, caption_inlines|None, post_inlines]
#          | ['thm', title_inlines|None, blocks] | ['iterm', inlines]  (first block of an item: \item[...])
#          | ['bib', [[key, inlines], ...]]  (thebibliography; every \bibitem is an object, its key is NOT a label)
#          a 'sec' block may carry a sixth element: inlines (counterless commands) written between the command and its label
# inline : ['t', text] | ['label', l] | ['ref', l, uid] | ['pageref', l, uid] | ['grp', inlines]
#          | ['cmd', source]  a command without counter (\vspace*{1cm}, \hspace*{1em}, \\*, \vspace{1cm}, \cite{k}): no event --
#                             it never changes the current label

SEC_NAMES = {1: 'section', 2: 'subsection', 3: 'subsubsection', 4: 'paragraph', 5: 'subparagraph'}
DEFAULT_SECNUMDEPTH = 2      # plasTeX's document/sec-num-depth default
CMDS = ['\\hspace*{1em}', '\\hspace{2em}', '\\vspace*{1cm}', '\\vspace{1cm}']     # starred and unstarred commands without a counter
LINEBREAKS = ['\\\\*', '\\\\']
DANGLING = ['nope', 'missing:1', 'zz']
# label texts with tokens that are not plain characters: active ~, control symbols, groups
SPECIAL_STYLES = ['fig~%d', 'x~y%d', 's\\_%d', 't\\&%d', 'a{b}%d', 'eq{}%d', 'n\\#%d', 'p~q\\_r{s}%d']
WORDS = ['alpha', 'beta', 'gamma', 'delta', 'text', 'more', 'words', 'here', 'see', 'and']
MATH = ['x', 'y+z', 'a^2', 'b_1', '\\alpha', 'n']


def render_inlines(inl, math=False):
    out = []
    for x in inl:
        k = x[0]
        if k == 't':
            out.append(x[1])
        elif k == 'label':
            out.append('\\label{%s}' % x[1])
        elif k in ('ref', 'pageref'):
            out.append('\\%s{%s}' % (k, x[1]))
        elif k == 'grp':
            out.append('{' + render_inlines(x[1], math) + '}')
        elif k == 'cmd':
            out.append(x[1])
        else:
            raise ValueError(x)
    return ' '.join(out)


def render_blocks(blocks):
    out = []
    for b in blocks:
        k = b[0]
        if k == 'sec':
            out.append('\\%s%s{%s}%s%s\n' % (SEC_NAMES[b[1]], '*' if b[2] else '', render_inlines(b[3]),
                                             render_inlines(b[5]) if len(b) > 5 else '',
                                             '\\label{%s}' % b[4] if b[4] is not None else ''))
        elif k == 'par':
            out.append(render_inlines(b[1]) + '\n\n')
        elif k == 'eq':
            out.append('\\begin{equation}' + render_inlines(b[1], True) + '\\end{equation}\n')
        elif k == 'eqn':
            rows = []
            for i, (inl, nonum) in enumerate(b[1]):
                rows.append('a_%d &=& ' % i + render_inlines(inl, True) + (' \\nonumber' if nonum else ''))
            out.append('\\begin{eqnarray}' + ' \\\\\n'.join(rows) + '\\end{eqnarray}\n')
        elif k == 'enum':
            out.append('\\begin{enumerate}\n' + ''.join(
                ('\\item[%s] ' % render_inlines(it[0][1]) + render_blocks(it[1:])) if it and it[0][0] == 'iterm' else ('\\item ' + render_blocks(it))
                for it in b[1]) + '\\end{enumerate}\n')
        elif k == 'float':
            env = 'figure' if b[1] == 'fig' else 'table'
            out.append('\\begin{%s}' % env + render_inlines(b[2]) + ('\\caption{%s}' % render_inlines(b[3]) if b[3] is not None else '') +
                       render_inlines(b[4]) + '\\end{%s}\n' % env)
        elif k == 'thm':
            out.append('\\begin{thm}' + ('[%s]' % render_inlines(b[1]) if b[1] is not None else '') + '\n' + render_blocks(b[2]) + '\\end{thm}\n')
        elif k == 'bib':
            out.append('\\begin{thebibliography}{9}\n' + ''.join('\\bibitem{%s} %s\n' % (key, render_inlines(inl)) for key, inl in b[1]) +
                       '\\end{thebibliography}\n')
        else:
            raise ValueError(b)
    return ''.join(out)


def render_doc(ast):
    return '\\documentclass{article}\\newtheorem{thm}{Theorem}\\begin{document}\n' + render_blocks(ast) + '\\end{document}\n'


SPECIAL = re.compile(r'(~|\\[_&#%])')


def read_name(l):
    """the string the argument reader hands to castLabel / castRef for the label text l: plain characters as written; an
    active character or control symbol (~ \\_ \\& \\# \\%) comes back as its source followed by a blank; groups {..} as written"""
    return SPECIAL.sub(lambda m: m.group(1) + ' ', l)


def doc_events(ast, secnumdepth=None):
    """the event history LaTeX's rules give for the document, in source order; objects are numbered in document order.
    secnumdepth: the document's sec-num-depth (None = default): a sectioning command deeper than it prints no number and steps
    no counter, but is still the object a label directly after it names.
    returns (events, nobjects, ref uids in document order, wild = objects whose printed number is not predicted)"""
    ev = []
    snd = DEFAULT_SECNUMDEPTH if secnumdepth is None else secnumdepth
    st = dict(o=0, sec=[0, 0, 0, 0, 0, 0], equation=0, figure=0, table=0, thm=0, depth=0, enum=[0, 0, 0, 0, 0, 0])
    uids = []
    wild = []

    def new_obj():
        st['o'] += 1
        return st['o'] - 1

    def inlines(inl):
        for x in inl:
            k = x[0]
            if k == 'label':
                ev.append(['label', read_name(x[1]), None])
            elif k in ('ref', 'pageref'):
                ev.append(['ref', x[2], 0, read_name(x[1])])
                uids.append(x[2])
            elif k == 'grp':
                ev.append(['open'])
                inlines(x[1])
                ev.append(['close'])

    def blocks(bs):
        for b in bs:
            k = b[0]
            if k == 'sec':
                o = new_obj()
                num = None
                if not b[2] and b[1] <= snd:
                    st['sec'][b[1]] += 1
                    for lv in range(b[1] + 1, 6):
                        st['sec'][lv] = 0
                    num = '.'.join('%d' % st['sec'][lv] for lv in range(1, b[1] + 1))
                    if b[1] >= 3:
                        wild.append(o)      # the format of the deep counters is C08's subject
                ev.append(['cur', o])
                inlines(b[3])
                if num is not None:
                    ev.append(['num', o, num])
                if len(b) > 5:
                    inlines(b[5])
                if b[4] is not None:
                    ev.append(['label', read_name(b[4]), None])
            elif k == 'par':
                inlines(b[1])
            elif k == 'eq':
                ev.append(['open'])
                o = new_obj()
                st['equation'] += 1
                ev.append(['cur', o])
                ev.append(['num', o, '%d' % st['equation']])
                inlines(b[1])
                ev.append(['close'])
            elif k == 'eqn':
                ev.append(['open'])
                for i, (inl, nonum) in enumerate(b[1]):
                    o = new_obj()
                    ev.append(['cur', o])
                    if nonum:
                        ev.append(['num', o, None])
                    else:
                        st['equation'] += 1
                        ev.append(['num', o, '%d' % st['equation']])
                    inlines(inl)
                ev.append(['close'])
            elif k == 'enum':
                ev.append(['open'])
                st['depth'] += 1
                d = st['depth']
                st['enum'][d] = 0
                for it in b[1]:
                    o = new_obj()
                    st['enum'][d] += 1
                    ev.append(['cur', o])
                    if it and it[0][0] == 'iterm':
                        inlines(it[0][1])       # \item[...]: the optional argument is read after the item became current
                        it = it[1:]
                    ev.append(['num', o, '%d' % st['enum'][d]])
                    if d > 1 or any(x and x[0][0] == 'iterm' for x in b[1]):
                        wild.append(o)          # LaTeX does not step the counter for \item[...]; numbering is C08's subject
                    blocks(it)
                st['depth'] -= 1
                ev.append(['close'])
            elif k == 'float':
                ev.append(['open'])
                inlines(b[2])
                if b[3] is not None:
                    o = new_obj()
                    c = 'figure' if b[1] == 'fig' else 'table'
                    st[c] += 1
                    ev.append(['cur', o])
                    inlines(b[3])
                    ev.append(['num', o, '%d' % st[c]])
                inlines(b[4])
                ev.append(['close'])
            elif k == 'thm':
                ev.append(['open'])
                o = new_obj()
                st['thm'] += 1
                ev.append(['cur', o])
                if b[1] is not None:
                    inlines(b[1])
                ev.append(['num', o, '%d' % st['thm']])
                blocks(b[2])
                ev.append(['close'])
            elif k == 'bib':
                ev.append(['open'])
                for key, inl in b[1]:
                    o = new_obj()               # \bibitem has a counter: it is the current object for a \label after it,
                    ev.append(['cur', o])       # but its key lives in the \cite name space and is no label
                    ev.append(['num', o, '?'])
                    wild.append(o)
                    inlines(inl)
                ev.append(['close'])
            else:
                raise ValueError(b)
    blocks(ast)
    return ev, st['o'], uids, wild


def has_bib(ast):
    return any(b[0] == 'bib' for b in ast)


def uses_joint(case):
    """documents without a bibliography go to the Model as numbering events of Model/Counters.v (C08) + labels / references
    (Model/RefsDoc.v): the Model itself derives the order of refstepcounter / arguments / postParse and the printed numbers"""
    return case['kind'] == 'doc' and not any(has_bib(d) for d in case['docs'])


def doc_joint(ast):
    """the document as the wire form of a list of RefsDoc.jevent"""
    out = [[1, [5, S('thm'), [], [], 0], []]]          # \newtheorem{thm}{Theorem}

    def inl(l, acc):
        for x in l:
            k = x[0]
            if k == 'label':
                acc.append([0, S(read_name(x[1]))])
            elif k in ('ref', 'pageref'):
                acc.append([1, x[2], 0, S(read_name(x[1]))])
            elif k == 'grp':
                acc.append([2])
                inl(x[1], acc)
                acc.append([3])
        return acc

    def flat(l):
        for i in inl(l, []):
            out.append([0, i])

    def blocks(bs):
        for b in bs:
            k = b[0]
            if k == 'sec':
                out.append([1, [0, S(SEC_NAMES[b[1]]), 1 if b[2] else 0], [inl(b[3], [])]])
                if len(b) > 5:
                    flat(b[5])
                if b[4] is not None:
                    out.append([0, [0, S(read_name(b[4]))]])
            elif k == 'par':
                flat(b[1])
            elif k == 'eq':
                out.append([0, [2]])
                out.append([1, [1], [[]]])
                flat(b[1])
                out.append([0, [3]])
            elif k == 'eqn':
                out.append([0, [2]])
                out.append([1, [2, [1 if nonum else 0 for _, nonum in b[1]]], [inl(row, []) for row, _ in b[1]]])
                out.append([0, [3]])
            elif k == 'enum':
                out.append([0, [2]])
                out.append([1, [6, 1], []])
                for it in b[1]:
                    if it and it[0][0] == 'iterm':
                        out.append([1, [8], [inl(it[0][1], [])]])
                        blocks(it[1:])
                    else:
                        out.append([1, [8], [[]]])
                        blocks(it)
                out.append([1, [7], []])
                out.append([0, [3]])
            elif k == 'float':
                out.append([0, [2]])
                flat(b[2])
                if b[3] is not None:
                    out.append([1, [3, 0 if b[1] == 'fig' else 1], [inl(b[3], [])]])
                flat(b[4])
                out.append([0, [3]])
            elif k == 'thm':
                out.append([0, [2]])
                out.append([1, [4, S('thm')], [inl(b[1], []) if b[1] is not None else []]])
                blocks(b[2])
                out.append([0, [3]])
            else:
                raise ValueError(b)
    blocks(ast)
    return out


def inline_lists(ast):
    """every inline list of the document (live references), in document order"""
    out = []

    def inl(l):
        out.append(l)
        for x in l:
            if x[0] == 'grp':
                inl(x[1])

    def blocks(bs):
        for b in bs:
            k = b[0]
            if k == 'sec':
                inl(b[3])
            elif k in ('par', 'eq', 'iterm'):
                inl(b[1])
            elif k == 'bib':
                for e in b[1]:
                    inl(e[1])
            elif k == 'eqn':
                for row in b[1]:
                    inl(row[0])
            elif k == 'enum':
                for it in b[1]:
                    blocks(it)
            elif k == 'float':
                inl(b[2])
                if b[3] is not None:
                    inl(b[3])
                inl(b[4])
            elif k == 'thm':
                if b[1] is not None:
                    inl(b[1])
                blocks(b[2])
    blocks(ast)
    return out


def block_lists(ast):
    """every list of blocks (top level, item bodies, theorem bodies), live"""
    out = [ast]

    def blocks(bs):
        for b in bs:
            if b[0] == 'enum':
                for it in b[1]:
                    out.append(it)
                    blocks(it)
            elif b[0] == 'thm':
                out.append(b[2])
                blocks(b[2])
    blocks(ast)
    return out


def container_lists(ast):
    """item lists of enumerates and row lists of eqnarrays, live"""
    out = []
    for bs in block_lists(ast):
        for b in bs:
            if b[0] in ('enum', 'eqn'):
                out.append(b[1])
    return out


class LabelSource(object):
    def __init__(self, rng, dup=False, special=False):
        self.special = special
        self.rng = rng
        self.n = 0
        self.dup = dup
        self.used = []
        self.twin = None

    def fresh(self):
        if self.dup and self.used and self.rng.random() < 0.35:
            return self.rng.choice(self.used)
        if self.twin is not None:
            l, self.twin = self.twin, None       # the label that differs from the previous one only by blank vs hyphen
            self.used.append(l)
            return l
        self.n += 1
        style = self.rng.choice(SPECIAL_STYLES if self.special else
                                ['l%d', 'sec:%d', 'eq-%d', 'L%d', 'x.%d', 'a%d', 'eq:mass energy %d', 'thm main%d', 'a b c%d'])
        l = style % self.n
        if ' ' in l and self.rng.random() < 0.5:
            self.twin = l.replace(' ', '-')
        self.used.append(l)
        return l


def text(rng, math=False):
    return ['t', rng.choice(MATH) if math else ' '.join(rng.choice(WORDS) for _ in range(rng.randint(1, 3)))]


def gen_blocks(rng, ls, n, depth, ill, top):
    """n blocks; labels only where LaTeX's current object is the most recently numbered one, unless ill"""
    out = []
    plab = 0.6

    def maybe_label(par=False, math=False):
        """a label (sometimes two on the same object), sometimes with counterless commands between the object and the label"""
        if rng.random() >= plab:
            return []
        pre = []
        r = rng.random()
        if r < 0.25:
            pre = [['cmd', rng.choice(CMDS[:2] if math else CMDS)] for _ in range(rng.choice([1, 1, 2]))]
        elif r < 0.35 and par:
            pre = [['cmd', rng.choice(LINEBREAKS)], text(rng)]
        res = pre + [['label', ls.fresh()]]
        if rng.random() < 0.1:
            res += ([['cmd', rng.choice(CMDS[:2])]] if rng.random() < 0.3 else []) + [['label', ls.fresh()]]
        return res

    for _ in range(n):
        kinds = ['par', 'eq', 'eqn', 'enum', 'thm']
        if top:
            kinds += ['sec', 'sec', 'sec', 'float', 'float']
        if depth >= 2:
            kinds = ['par', 'eq']
        k = rng.choice(kinds)
        if k == 'sec':
            starred = rng.random() < 0.15
            title = [text(rng)]
            after = None
            r = rng.random()
            if r < 0.45:
                after = ls.fresh()
            elif r < 0.65:
                title += [['label', ls.fresh()]]
            sec = ['sec', rng.choice([1, 1, 2, 2, 3, 3, 4, 5]), starred, title, after]
            if after is not None and rng.random() < 0.3:
                sec.append([['cmd', rng.choice(CMDS)] for _ in range(rng.choice([1, 1, 2]))])
            out.append(sec)
            if rng.random() < 0.5:
                out.append(['par', [text(rng)]])
        elif k == 'par':
            out.append(['par', [text(rng)]])
        elif k == 'eq':
            out.append(['eq', [text(rng, True)] + maybe_label(math=True)])
        elif k == 'eqn':
            rows = []
            for i in range(rng.randint(1, 3)):
                nonum = i > 0 and rng.random() < 0.2
                rows.append([[text(rng, True)] + ([] if nonum else maybe_label(math=True)), nonum])
            out.append(['eqn', rows])
        elif k == 'enum':
            items = []
            for i in range(rng.randint(1, 3)):
                first = ['par', [text(rng)] + maybe_label(par=True)]
                rest = gen_blocks(rng, ls, rng.choice([0, 0, 1, 2]), depth + 1, ill, False)
                if rng.random() < 0.2:          # \item[term], sometimes with the label inside the optional argument
                    rest = [first] + rest
                    first = ['iterm', ([['label', ls.fresh()]] if rng.random() < 0.4 else []) + [text(rng)]]
                if ill and rest and rng.random() < 0.7:
                    rest.append(['par', [text(rng), ['label', ls.fresh()]]])
                items.append([first] + rest)
            out.append(['enum', items])
        elif k == 'float':
            cap = [text(rng)] + (maybe_label() if rng.random() < 0.3 else [])
            post = maybe_label()
            pre = []
            if ill and rng.random() < 0.3:
                pre = [['label', ls.fresh()]]
            if rng.random() < 0.1:
                cap, post = None, []       # a float without caption numbers nothing: no label in it
            out.append(['float', rng.choice(['fig', 'tab']), pre, cap, post])
        elif k == 'thm':
            title = ([text(rng)] + (maybe_label() if rng.random() < 0.4 else [])) if rng.random() < 0.4 else None
            body = [['par', [text(rng)] + maybe_label(par=True)]] + gen_blocks(rng, ls, rng.choice([0, 1]), depth + 1, ill, False)
            if ill and len(body) > 1 and rng.random() < 0.7:
                body.append(['par', [text(rng), ['label', ls.fresh()]]])
            out.append(['thm', title, body])
        if ill and top and out and out[-1][0] in ('eq', 'eqn', 'enum', 'thm', 'float') and rng.random() < 0.4:
            out.append(['par', [text(rng), ['label', ls.fresh()]]])
    return out


def place_refs(rng, ast, reqs):
    """insert the requests [(kind, label, uid)] at random inline positions"""
    slots = inline_lists(ast)
    for kind, l, uid in reqs:
        s = rng.choice(slots)
        s.insert(rng.randint(0, len(s)), [kind, l, uid])
        if rng.random() < 0.08:
            i = rng.randint(0, len(s) - 1)
            if s[i][0] in ('ref', 'pageref'):
                s[i] = ['grp', [s[i]]]
                slots.append(s[i][1])


def gen_doc_case(rng, size, nvariants, ill=False, dup=False, flavour='doc', special=False):
    ls = LabelSource(rng, dup, special)
    ast = [['par', [text(rng)] + ([['label', ls.fresh()]] if rng.random() < 0.1 else [])]]
    ast += gen_blocks(rng, ls, size, 0, ill, True)
    labels = list(dict.fromkeys(ls.used))
    last = [text(rng)]
    if rng.random() < 0.25:
        # a bibliography whose keys are also names used by references (dangling ones, or labels): \bibitem keys are no labels
        entries = []
        for key in rng.sample(DANGLING + labels[:3] + ['knuth84'], rng.randint(1, 3)):
            entries.append([key, [text(rng)]])      # no label on a bibliography entry: it stores its id in its cite key (outside the statement)
            if rng.random() < 0.5:
                last.append(['cmd', '\\cite{%s}' % key])
        ast.append(['bib', entries])
    ast.append(['par', last])
    nref = rng.randint(1, max(2, size + 2))
    reqs = []
    for uid in range(nref):
        if labels and rng.random() < 0.85:
            l = rng.choice(labels)
        else:
            l = rng.choice(['no~pe', 'miss{}ing', 'z\\_z'] if special else DANGLING)
        reqs.append((rng.choice(['ref', 'ref', 'ref', 'pageref']), l, uid))
    docs = []
    for _ in range(1 + nvariants):
        d = copy.deepcopy(ast)
        place_refs(rng, d, reqs)
        docs.append(d)
    return dict(kind='doc', flavour=flavour, docs=docs, depth=rng.choice([None, None, None, 0, 1, 2, 3, 4, 5]))


def small_docs(two_refs):
    """exhaustive: two labelled objects of every pair of kinds, references to a / b / a missing label in every slot"""
    def obj(kind, l, slot):
        # slot: list that receives references written inside the object
        if kind == 'sec':
            return [['sec', 1, False, [['t', 'T']] + slot, l]]
        if kind == 'sub3':
            return [['sec', 3, False, [['t', 'T']] + slot, l]]
        if kind == 'para':
            return [['sec', 4, False, [['t', 'T']] + slot, l]]
        if kind == 'sect':
            return [['sec', 2, False, [['t', 'T'], ['label', l]] + slot, None]]
        if kind == 'secv':      # a starred counterless command between the sectioning command and its label
            return [['sec', 1, False, [['t', 'T']] + slot, l, [['cmd', '\\vspace*{1cm}']]]]
        if kind == 'secb':
            return [['sec', 2, False, [['t', 'T']] + slot, l, [['cmd', '\\hspace*{1em}'], ['cmd', '\\vspace{1cm}']]]]
        if kind == 'sec2':      # two labels on one object
            return [['sec', 1, False, [['t', 'T'], ['label', l]] + slot, l + '2']]
        if kind == 'itemt':     # the label inside the optional argument of \item
            return [['enum', [[['par', [['t', 'A']]]], [['iterm', [['label', l], ['t', '(b)']]], ['par', [['t', 'B']] + slot]]]]]
        if kind == 'itemb':
            return [['enum', [[['par', [['t', 'A']]]], [['par', [['t', 'B'], ['cmd', '\\\\*'], ['t', 'C'], ['label', l]] + slot]]]]]
        if kind == 'thmt':      # the label inside the optional argument of a theorem
            return [['thm', [['t', 'N'], ['label', l]], [['par', [['t', 'B']] + slot]]]]
        if kind == 'eq':
            return [['eq', [['t', 'x'], ['label', l]] + slot]]
        if kind == 'eqn':
            return [['eqn', [[[['t', 'x']], False], [[['t', 'y'], ['label', l]] + slot, False]]]]
        if kind == 'item':
            return [['enum', [[['par', [['t', 'A']]]], [['par', [['t', 'B'], ['label', l]] + slot]]]]]
        if kind == 'fig':
            return [['float', 'fig', [], [['t', 'C']] + slot, [['label', l]]]]
        if kind == 'tab':
            return [['float', 'tab', [], [['t', 'C'], ['label', l]] + slot, []]]
        if kind == 'thm':
            return [['thm', None, [['par', [['t', 'B'], ['label', l]] + slot]]]]
        raise ValueError(kind)
    kinds = ['sec', 'sect', 'secv', 'secb', 'sec2', 'sub3', 'para', 'eq', 'eqn', 'item', 'itemt', 'itemb', 'fig', 'tab', 'thm', 'thmt']
    nslots = 5
    choices = list(itertools.product(range(3), range(nslots)))
    combos = [(c,) for c in choices]
    if two_refs:
        combos += [(c1, c2) for c1 in choices for c2 in choices if c1 <= c2]
    # label sets: plain; with interior blanks, the two labels differing only by blank vs hyphen
    labelsets = [('a', 'b', 'zz'), ('thm main', 'thm-main', 'thm main x'), ('eq:mass energy', 'b c', 'eq:mass-energy')]
    depths = [None, 0, 1, 3, 5]
    n = 0
    for k1 in kinds:
        for k2 in kinds:
            n += 1
            la, lb, lz = labelsets[n % 3]
            names = [la, lb, lz]
            for combo in combos:
                slots = [[] for _ in range(nslots)]
                for uid, (l, s) in enumerate(combo):
                    slots[s].append(['ref' if uid == 0 else 'pageref', names[l], uid])
                # every third pair: a bibliography whose keys are the missing name and the first label (keys are no labels)
                bib = [['bib', [[lz, [['t', 'Knuth']]], [la, [['t', 'Lamport']]]]]] if n % 3 == 0 else []
                ast = [['par', [['t', 's']] + slots[0]]] + obj(k1, la, slots[1]) + [['par', [['t', 'm']] + slots[2]]] + \
                    obj(k2, lb, slots[3]) + bib + [['par', [['t', 'e']] + slots[4]]]
                yield dict(kind='doc', flavour='small', docs=[ast], depth=depths[n % 5])


# ====================================================================================================
# API histories

BLANKS = [' ', '\t', '\n', '\x0b', '\x0c', '\r', '\x1c', '\x1f', '\x85', '\xa0', '\u1680', '\u2003', '\u2028', '\u202f', '\u205f', '\u3000']
NONBLANKS = ['\u200b', '\u180e', '\x00', '\x1b']


def rand_label(rng, names):
    l = rng.choice(names)
    r = rng.random()
    if r < 0.12:
        l = rng.choice(BLANKS) * rng.randint(1, 2) + l
    if 0.08 < r < 0.2:
        l = l + rng.choice(BLANKS)
    if r > 0.97:
        l = rng.choice(['', ' ', '\t \n'])
    if 0.9 < r < 0.93:
        l = rng.choice(NONBLANKS) + l
    if 0.93 < r < 0.95:
        l = l[:1] + ' ' + l[1:]
    return l


def rand_api(rng, n, nobj, nhold, nkeys, names, groups=False, dup=False):
    ops = []
    avail = list(names)
    for _ in range(n):
        r = rng.random()
        if r < 0.22:
            ops.append(['cur', rng.randrange(nobj)])
        elif r < 0.27:
            ops.append(['num', rng.randrange(nobj), rng.choice([None, '1', '2', '3.1', 'A'])])
        elif r < 0.5:
            if dup:
                l = rand_label(rng, names)
            elif avail:
                l = avail.pop(rng.randrange(len(avail)))
                if rng.random() < 0.15:
                    l = rng.choice([' ', '\t', '\u3000']) + l + rng.choice(['', ' ', '\n'])
            else:
                l = ''
            ops.append(['label', l, rng.randrange(nobj) if rng.random() < 0.3 else None])
        elif r < 0.92 or not groups:
            ops.append(['ref', rng.randrange(nhold), rng.randrange(nkeys), rand_label(rng, names)])
        elif r < 0.96:
            ops.append(['open'])
        else:
            ops.append(['close'])
    return ops


def enum_api(length):
    alphabet = [['cur', 0], ['cur', 1], ['label', 'a b', None], ['label', 'a-b', None], ['label', 'a b', 1],
                ['ref', 0, 0, 'a b'], ['ref', 0, 0, 'a-b'], ['ref', 1, 0, 'a b'], ['ref', 0, 1, 'a b'], ['ref', 1, 0, 'a-b']]
    for n in range(length + 1):
        for ops in itertools.product(alphabet, repeat=n):
            yield dict(kind='api', flavour='exhaustive', ops=[list(o) for o in ops])


# ====================================================================================================
# streams

def streams(rng, tier, boost):
    out = []
    quick = tier == 'quick'
    # str.strip table: every code point below 0x3100, 256 per case
    for base in range(0, 0x3100, 256):
        out.append(('strip-table', dict(kind='strip', strs=[chr(c) + 'a' + chr(c) for c in range(base, base + 256) if not 0xd800 <= c < 0xe000])))
    # (a) API histories
    for c in enum_api(4 if quick else 5):
        out.append(('api-exhaustive', c))
    names = ['a', 'a b', 'a-b', 'c', 'c  d', 'c\td', 'c-d', 'h']
    for i in range((1500 if quick else 30000) * boost):
        n = rng.choice([5, 10, 20, 40, 60])
        out.append(('api-random', dict(kind='api', flavour='random',
                                       ops=rand_api(rng, n, rng.randint(1, 5), rng.randint(1, 5), rng.randint(1, 3), names[:rng.randint(1, 8)]))))
    for i in range((300 if quick else 6000) * boost):
        out.append(('api-groups', dict(kind='api', flavour='groups',
                                       ops=rand_api(rng, rng.choice([10, 20, 40]), rng.randint(1, 4), rng.randint(1, 4), 2, names[:5], groups=True))))
    for i in range((300 if quick else 6000) * boost):
        out.append(('api-duplicate-labels', dict(kind='api', flavour='dup',
                                                 ops=rand_api(rng, rng.choice([10, 20, 40]), rng.randint(1, 4), rng.randint(1, 4), 2, names[:3], dup=True))))
    # (b) documents
    for c in small_docs(two_refs=not quick):
        out.append(('doc-exhaustive-small', c))
    for i in range((700 if quick else 12000) * boost):
        out.append(('doc-random+moved', gen_doc_case(rng, rng.choice([2, 3, 5, 8, 12]), 2)))
    for i in range((120 if quick else 2000) * boost):
        out.append(('doc-duplicate-labels', gen_doc_case(rng, rng.choice([3, 5, 8]), 1, dup=True, flavour='dup')))
    for i in range((120 if quick else 2000) * boost):
        out.append(('doc-after-nested', gen_doc_case(rng, rng.choice([2, 3, 5]), 1, ill=True, flavour='ill')))
    for i in range((100 if quick else 1000) * boost):
        out.append(('doc-special-label-chars', gen_doc_case(rng, rng.choice([2, 3, 5]), 1, flavour='special', special=True)))
    # a few cases of every stream first, so that the vm_compute cross-check of the extraction (first 300 cases) sees all of them
    seen = {}
    front, rest = [], []
    for sc in out:
        seen[sc[0]] = seen.get(sc[0], 0) + 1
        (front if seen[sc[0]] <= (3 if sc[0] == 'strip-table' else 35) else rest).append(sc)
    return front + rest


def search_streams(rng, tier):
    out = [('search', gen_doc_case(rng, rng.choice([3, 5, 8]), 2)) for _ in range(600)]
    out += [('search', dict(kind='api', flavour='random', ops=rand_api(rng, 30, 3, 3, 2, ['a', 'b', 'c', 'd']))) for _ in range(2000)]
    return out


# ====================================================================================================
# wire / describe

def histories(case):
    if case['kind'] == 'api':
        return [case['ops']]
    return [doc_events(d, case.get('depth'))[0] for d in case['docs']]


def model_input(case):
    if case['kind'] == 'strip':
        return [2, [S(s) for s in case['strs']]]
    if uses_joint(case):
        depth = DEFAULT_SECNUMDEPTH if case.get('depth') is None else case['depth']
        return [3, 0, depth, [doc_joint(d) for d in case['docs']]]
    return [0, [[wire_event(e) for e in h] for h in histories(case)]]


def describe(case):
    if case['kind'] == 'strip':
        return 'str.strip() of "<c>a<c>" for code points %d..' % ord(case['strs'][0][0])
    if case['kind'] == 'api':
        return 'Context history: ' + '; '.join(
            {'cur': lambda o: 'currentlabel=n%d' % o[1], 'num': lambda o: 'n%d.ref=%r' % (o[1], o[2]),
             'label': lambda o: 'label(%r%s)' % (o[1], '' if o[2] is None else ', n%d' % o[2]),
             'ref': lambda o: 'ref(h%d, k%d, %r)' % (o[1], o[2], o[3]), 'open': lambda o: 'push()', 'close': lambda o: 'pop()'}[o[0]](o)
            for o in case['ops'])
    return ('' if case.get('depth') is None else '[document/sec-num-depth = %d]\n' % case['depth']) + \
        '\n--- variant with the references moved ---\n'.join(render_doc(d) for d in case['docs'])


# ====================================================================================================
# implementation side

def worker_init():
    import texrun
    texrun.quiet()


def observe(ctx, objs, holders):
    """objs: list of nodes; holders: list of (index, node).  Canonical observation, see canon_model."""
    oidx = {id(n): i for i, n in enumerate(objs)}
    hidx = {id(n): i for i, n in holders}
    places = {}

    def number(n):
        r = getattr(n, 'ref', None)
        if r is None:
            return []
        return [S(r.textContent if hasattr(r, 'textContent') else str(r))]

    def tgt(t):
        if id(t) in oidx:
            return [0, oidx[id(t)], number(t)]
        if getattr(t, 'parentNode', None) is not None or type(t).__name__ != 'Macro' or getattr(t, 'ref', None) is not None:
            return [2, S(str(getattr(t, 'nodeName', type(t).__name__)))]
        p = places.setdefault(id(t), len(places))
        return [1, p, S(vars(t).get('@id') or '')]
    idrefs = []
    for i, h in sorted(holders, key=lambda x: x[0]):
        d = vars(h).get('@idref')
        if d:
            idrefs.append([i, [[int(k[1:]) if isinstance(k, str) and k[:1] == 'k' and k[1:].isdigit() else 0, tgt(v)] for k, v in d.items()]])
    labels = [[S(l), oidx.get(id(n), -1)] for l, n in ctx.labels.items()]
    refs = [[S(l), [hidx.get(id(h), -1) for h in hs]] for l, hs in ctx.refs.items()]
    ids = []
    nums = []
    for i, n in enumerate(objs):
        v = vars(n).get('@id')
        if v is not None:
            ids.append([i, S(v) if not hasattr(n, '@hasgenid') else S('<generated id>')])
        nb = number(n)
        if nb:
            nums.append([i, nb[0]])
    cur = ctx.currentlabel
    current = [] if cur is None else [oidx.get(id(cur), -1)]
    return [idrefs, labels, refs, ids, nums, current]


def run_api(ops):
    from plasTeX.TeX import TeXDocument
    doc = TeXDocument()
    ctx = doc.context
    nobj = 1 + max([o[1] for o in ops if o[0] in ('cur', 'num')] + [o[2] for o in ops if o[0] == 'label' and o[2] is not None] + [0])
    nhold = 1 + max([o[1] for o in ops if o[0] == 'ref'] + [0])
    objs = [doc.createElement('section') for _ in range(nobj)]
    holds = [doc.createElement('ref') for _ in range(nhold)]
    for o in ops:
        k = o[0]
        if k == 'cur':
            ctx.currentlabel = objs[o[1]]
        elif k == 'num':
            objs[o[1]].ref = o[2]
        elif k == 'label':
            if o[2] is None:
                ctx.label(o[1])
            else:
                ctx.label(o[1], objs[o[2]])
        elif k == 'ref':
            ctx.ref(holds[o[1]], 'k%d' % o[2], o[3])
        elif k == 'open':
            ctx.push()
        elif k == 'close':
            ctx.pop()
    return observe(ctx, objs, list(enumerate(holds)))


OBJ_NAMES = ('section', 'subsection', 'subsubsection', 'paragraph', 'subparagraph', 'equation', 'item', 'caption', 'thmenv', 'eqnarray', 'bibitem')


def run_doc(ast, secnumdepth=None):
    import texrun
    ev, nobj, uids, wild = doc_events(ast, secnumdepth)

    def setup(doc, tex):
        if secnumdepth is not None:
            doc.config['document']['sec-num-depth'] = secnumdepth
    # The document class must have loaded completely: PackageLoader.load swallows every Exception raised while a class is
    # loading (log.error only), so a transient failure there (asynchronous timeout, memory) leaves a half-loaded class and
    # wrong numbers without any visible error.  That is a fault of the run, not an observation: parse again.
    retries = 0
    while True:
        doc, tex = texrun.parse(render_doc(ast), setup)
        if class_loaded(doc):
            break
        retries += 1
        if retries > 2:
            return ['env', 'the article class did not load completely in 3 attempts']
    objs = []
    refs = []

    def walk(n):
        name = getattr(n, 'nodeName', None)
        if name in OBJ_NAMES:
            objs.append(n)
        elif name == 'ArrayRow' and getattr(n.parentNode, 'nodeName', None) == 'eqnarray' and n.parentNode.childNodes[0] is not n:
            objs.append(n)
        elif name in ('ref', 'pageref'):
            refs.append(n)
        attrs = getattr(n, 'attributes', None)
        if attrs:
            for k, a in attrs.items():
                if k == 'self':
                    continue
                if hasattr(a, 'childNodes'):
                    for c in a.childNodes:
                        walk(c)
                elif isinstance(a, list):
                    for c in a:
                        if hasattr(c, 'childNodes'):
                            walk(c)
        for c in getattr(n, 'childNodes', []):
            walk(c)
    walk(doc)
    if len(objs) != nobj or len(refs) != len(uids):
        return ['shape', len(objs), nobj, len(refs), len(uids)]
    # holders carry one key, 'label'
    obs = observe(doc.context, objs, list(zip(uids, refs)))
    for e in obs[0]:
        for kv in e[1]:
            kv[0] = 0
    return obs + [[retries]]


def class_loaded(doc):
    ctx = doc.context
    try:
        return ('article' in ctx.packages and getattr(ctx['thesection'], 'format', None) == '${section}' and
                all(dict.__contains__(ctx.counters, c) for c in ('section', 'subsection', 'paragraph', 'equation', 'figure', 'table', 'thm', 'enumi')))
    except Exception:
        return False


def run_impl(case):
    if case['kind'] == 'strip':
        return [S(s.strip()) for s in case['strs']]
    if case['kind'] == 'api':
        return [run_api(case['ops'])]
    return [run_doc(d, case.get('depth')) for d in case['docs']]


# ====================================================================================================
# judge

def canon_model(m):
    """Model dump -> the canonical shape of observe()"""
    idrefs_flat, labels, refs, ids, nums, current, demands = m
    numd = {o: n for o, n in nums if n != []}
    by = {}
    order = []
    for r, k, t in idrefs_flat:
        if r not in by:
            by[r] = []
            order.append(r)
        by[r].append([k, t])
    places = {}
    idrefs = []
    for r in sorted(order):
        ent = []
        for k, t in by[r]:
            if t[0] == 0:
                n = numd.get(t[1])
                ent.append([k, [0, t[1], n if n is not None else []]])
            else:
                p = places.setdefault(t[1], len(places))
                ent.append([k, [1, p, t[2]]])
        idrefs.append([r, ent])
    nums2 = sorted([[o, n[0]] for o, n in nums if n != []])
    return [idrefs, labels, refs, sorted(ids), nums2, current]


def wildcard(case, i, obs):
    """replace the printed numbers the generator does not predict (items of nested lists) by '*' on both sides"""
    if case['kind'] != 'doc':
        return obs
    if uses_joint(case):
        return obs          # the numbers come from the numbering Model of C08: nothing is left unpredicted
    wild = set(doc_events(case['docs'][i], case.get('depth'))[3])
    if not wild:
        return obs
    obs = copy.deepcopy(obs)
    for r, ent in obs[0]:
        for kv in ent:
            if kv[1][0] == 0 and kv[1][1] in wild and kv[1][2]:
                kv[1][2] = [S('*')]
    for e in obs[4]:
        if e[0] in wild:
            e[1] = S('*')
    return obs


def spec_problems(obs, mstate, demands):
    """the property's demands (Model/RefsSpec.v, LaTeX's rule) evaluated on an observation; returns a list of
    (class, text); class 'model-too' when the faithful Model shows the same deviation"""
    nodup_tex, nodup_flat, wellp, res_tex, att_tex = demands
    out = []
    if not nodup_tex:
        return out          # the property speaks of distinct labels
    got = {(r, kv[0]): kv[1] for r, ent in obs[0] for kv in ent}
    mgot = {(r, kv[0]): kv[1] for r, ent in mstate[0] for kv in ent}
    own = {o: n for o, n in obs[4]}
    for r, k, want in res_tex:
        g = got.get((r, k))
        same = abstract(g) == abstract(mgot.get((r, k)))
        cls = 'model-too' if same else 'impl'
        if not want:
            continue
        if want[0] == 0:
            if g is None or g[0] != 0 or g[1] != want[1]:
                out.append((cls, 'reference h%d/k%d to %r must resolve to object %d, observed %s' % (r, k, label_of(res_tex, r, k, att_tex), want[1], show_tgt(g))))
            elif g[2] != ([own[want[1]]] if want[1] in own else []):
                out.append(('impl', 'reference h%d/k%d prints %r, object %d is numbered %r' % (r, k, g[2], want[1], own.get(want[1]))))
        else:
            # "resolves to no object at all": a placeholder outside the document, whatever id it carries (a placeholder with
            # another id than the Model's is a Model/implementation difference, not a violation)
            if g is None or g[0] != 1:
                out.append((cls, 'reference h%d/k%d to the missing label %r must resolve to no object, observed %s' % (r, k, unS(want[1]), show_tgt(g))))
    # identifiers: an object labelled once has that label as its id; distinct objects have distinct ids
    ids = {o: i for o, i in obs[3]}
    mids = {o: i for o, i in mstate[3]}
    count = {}
    for l, o in att_tex:
        count[o] = count.get(o, 0) + 1
    for l, o in att_tex:
        if count[o] == 1 and ids.get(o) != l:
            out.append(('model-too' if ids.get(o) == mids.get(o) else 'impl',
                        'object %d carries the single label %r but its id is %r' % (o, unS(l), None if ids.get(o) is None else unS(ids[o]))))
    seen = {}
    for o, i in obs[3]:
        if tuple(i) in seen:
            out.append(('model-too' if (ids.get(o) == mids.get(o) and ids.get(seen[tuple(i)]) == mids.get(seen[tuple(i)])) else 'impl',
                        'objects %d and %d share the id %r' % (seen[tuple(i)], o, unS(i))))
        seen[tuple(i)] = o
    return out


def abstract(t):
    """object / no object (with the missing name) / stray node"""
    if t is None:
        return None
    if t[0] == 0:
        return ('obj', t[1])
    if t[0] == 1:
        return ('none', tuple(t[2]))
    return ('stray', tuple(t[1]))


def label_of(res_tex, r, k, att_tex):
    for l, o in att_tex:
        for r2, k2, w in res_tex:
            if (r2, k2) == (r, k) and w and w[0] == 0 and w[1] == o:
                return unS(l)
    return '?'


def show_tgt(g):
    if g is None:
        return 'nothing'
    if g[0] == 0:
        return 'object %d' % g[1]
    if g[0] == 1:
        return 'a placeholder with id %r' % unS(g[2])
    return 'a stray node %r' % unS(g[1])


def judge(case, io, mo):
    if case['kind'] == 'strip':
        if io == mo:
            return None
        bad = [i for i, (a, b) in enumerate(zip(io, mo)) if a != b] if isinstance(io, list) and isinstance(mo, list) else []
        return dict(violation=False, key='C09:strip-table', expected=None,
                    what='the Model\'s table of blanks differs from str.strip at %s' % [repr(case['strs'][i][0]) for i in bad[:5]])
    if mo == [-1] or not isinstance(mo, list):
        return dict(violation=False, key='C09:bad-wire', what='the Model rejected the history: %r' % (mo,))
    if any(isinstance(m, list) and m[:1] == [-2] for m in mo):
        return dict(violation=False, key='C09:numbering-model-stopped',
                    what='Model/Counters.v (C08) reports Crash / Fuel on the numbering events of this document')
    if not isinstance(io, list) or io[:1] in (['raise'], ['hang']):
        hyp = all(m[6][0] for m in mo)
        return dict(violation=bool(hyp), key='C09:impl-raises', expected='no exception: every reference resolves or gets a placeholder',
                    what='the implementation raised / hung: %s' % (io[:3],))
    verdicts = []
    for i, (o, m) in enumerate(zip(io, mo)):
        if o[:1] == ['env']:
            verdicts.append(dict(violation=False, key='C09:environment', what='variant %d: %s' % (i, o[1])))
            continue
        o = o[:6]
        if o[:1] == ['shape']:
            verdicts.append(dict(violation=False, key='C09:harness-shape',
                                 what='variant %d: the parsed tree has %d objects / %d references, the generator expected %d / %d' % (i, o[1], o[3], o[2], o[4])))
            continue
        ms = wildcard(case, i, canon_model(m))
        ob = wildcard(case, i, o)
        probs = spec_problems(ob, ms, m[6])
        impl_probs = [t for c, t in probs if c == 'impl']
        model_probs = [t for c, t in probs if c == 'model-too']
        if impl_probs:
            # a narrower key for one precise class: the label text reached Context.label / Context.ref as the repr of a Python
            # object ('<plasTeX.TeXFragment object at 0x...>', different for every occurrence) instead of a string
            reprs = any('TeXFragment object at 0x' in unS(l) for l, _ in list(ob[1]) + list(ob[2])) or \
                any('TeXFragment object at 0x' in unS(i) for _, i in ob[3])
            verdicts.append(dict(violation=True, key='C09:label-text-is-object-repr' if reprs else 'C09:wrong-resolution', expected=m[6][3],
                                 what='variant %d: %s' % (i, '; '.join(impl_probs[:3]))))
        elif ob != ms:
            diff = [n for n, a, b in zip(['idref tables', 'Context.labels', 'Context.refs (pending)', 'ids', 'numbers', 'currentlabel'], ob, ms) if a != b]
            verdicts.append(dict(violation=False, key='C09:model-mismatch', expected=ms,
                                 what='variant %d: implementation and Model differ in %s (the property\'s demands hold on the observed state)' % (i, ', '.join(diff))))
        elif model_probs:
            # implementation = faithful Model, and both deviate from LaTeX's rule: by the theorem C09_resolve_all_tex_partial this
            # happens only when a label is written after the end of a group that numbered something
            verdicts.append(dict(violation=True, key=KNOWN_KEY if not m[6][2] else 'C09:wrong-resolution', expected=m[6][3],
                                 what='variant %d: %s' % (i, '; '.join(model_probs[:3]))))
    # the outcome does not depend on where the references stand
    if case['kind'] == 'doc' and len(io) > 1 and not verdicts and all(m[6][0] for m in mo):
        maps = []
        for o in io:
            o = o[:6]
            maps.append({(r, kv[0]): (kv[1][:2] if kv[1][0] == 0 else [1, kv[1][2]]) for r, ent in o[0] for kv in ent})
        for i in range(1, len(maps)):
            if maps[i] != maps[0]:
                verdicts.append(dict(violation=True, key='C09:order-dependent', expected=maps[0],
                                     what='variant %d resolves differently from the original although only references were moved' % i))
                break
    if not verdicts:
        return None
    # report the most serious first: genuine violations that are not the known class
    verdicts.sort(key=lambda v: (not v['violation'], v['key'] == KNOWN_KEY))
    return verdicts[0]


# ====================================================================================================
# evidence helpers

def nontrivial(case, io):
    if case['kind'] == 'strip':
        return False
    hs = histories(case)
    return any(any(e[0] == 'ref' for e in h) and any(e[0] == 'label' for e in h) and any(e[0] == 'cur' for e in h) for h in hs)


def tags(case, io):
    if case['kind'] == 'strip':
        return ['strip']
    t = [case['kind'] + ':' + case.get('flavour', '')]
    for h in histories(case)[:1]:
        labpos = {}
        for i, e in enumerate(h):
            if e[0] == 'label':
                labpos.setdefault(e[1].strip(), i)
        for i, e in enumerate(h):
            if e[0] == 'ref':
                n = e[3].strip()
                if n == '':
                    t.append('ref:empty-name')
                elif n not in labpos:
                    t.append('ref:dangling')
                elif labpos[n] > i:
                    t.append('ref:forward')
                else:
                    t.append('ref:backward')
        t.append('events=%s' % ('<=5' if len(h) <= 5 else '<=20' if len(h) <= 20 else '<=60' if len(h) <= 60 else '>60'))
    if isinstance(io, list) and any(isinstance(o, list) and len(o) == 7 and o[6] != [0] for o in io):
        t.append('env:class-load-retried')
    if isinstance(io, list) and io and isinstance(io[0], list) and len(io[0]) in (6, 7):
        if any(kv[1][0] == 1 for r, ent in io[0][0] for kv in ent):
            t.append('final:placeholder')
        if io[0][2]:
            t.append('final:pending-nonempty')
    return t


def shrink(case):
    if case['kind'] == 'api':
        ops = case['ops']
        for i in range(len(ops)):
            yield dict(case, ops=ops[:i] + ops[i + 1:])
        return
    if case['kind'] != 'doc':
        return
    docs = case['docs']
    if len(docs) > 1:
        for i in range(len(docs)):
            yield dict(case, docs=[docs[i]])
        for i in range(1, len(docs)):
            yield dict(case, docs=[docs[0], docs[i]])
        return
    ast = docs[0]
    # drop a top-level block
    for i in range(len(ast)):
        yield dict(case, docs=[ast[:i] + ast[i + 1:]])
    # drop an inline somewhere
    n = len(inline_lists(ast))
    for j in range(n):
        for i in range(len(inline_lists(ast)[j])):
            d = copy.deepcopy(ast)
            del inline_lists(d)[j][i]
            yield dict(case, docs=[d])
    # drop a nested block, an item, a row
    nb = len(block_lists(ast))
    for j in range(1, nb):
        for i in range(len(block_lists(ast)[j])):
            d = copy.deepcopy(ast)
            del block_lists(d)[j][i]
            yield dict(case, docs=[d])
    nc = len(container_lists(ast))
    for j in range(nc):
        for i in range(len(container_lists(ast)[j])):
            if len(container_lists(ast)[j]) > 1:
                d = copy.deepcopy(ast)
                del container_lists(d)[j][i]
                yield dict(case, docs=[d])
