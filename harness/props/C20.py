"""C20 -- Cross-document label data survives a round trip and never blocks processing.

Correspondence: the real call sites (plasTeX.Compile.parse -> Context.restore of every other *.paux;
plasTeX.Renderers.Renderer.render -> Context.persist -> Macro.persist with the real Renderable mixin active)
on generated documents, with faults injected into the real saved files, against Model/Persist.v.

The pickle byte format is the runtime's: for every file content a case puts on disk, pickle.loads is run once by the
harness and its outcome (a value converted to a `pyobj` term, or "raises") is handed to the Model as the oracle's
answer; the Model then predicts the restored label table, the warnOnUnrecognized flag, the content of the re-saved file
and whether anything raises.

A case is self-contained (documents, captured attribute views, file bytes in hex), so that it replays: everything that
depends on running plasTeX (the views of the labelled nodes at save time, the bytes of the real saved files that the
faults are applied to, which classes/attributes are read-only) is computed once, at generation time, by a helper
process (this file run as a script) and stored in the case.
"""
import json
import os
import pickle
import subprocess
import sys

ID = 'C20'
PINS = [('plasTeX/Context.py', 'Context.persist'), ('plasTeX/Context.py', 'Context.restore'),
        ('plasTeX/__init__.py', 'Macro.persist'), ('plasTeX/__init__.py', 'Macro.restore'),
        ('plasTeX/Compile.py', 'parse'), ('plasTeX/Renderers/__init__.py', 'Renderer.render')]
RULE = ('documents generated from a small grammar (sections at three levels, starred sections, equations, figures, tables, '
        'theorems, enumerate items, a package macro with an explicit macroName; titles with markup, math, specials and '
        'non-ASCII; label keys with blanks and non-ASCII; documents without labels) run through the real Compile.parse and '
        'Renderer.render under two or three renderer names; faults on the real saved file: EVERY truncation point, single-bit '
        'flips (all in the thorough tier, sampled in quick), multi-bit flips, empty/missing/garbage/appended files, files of a '
        'foreign renderer, hand-built hostile pickles (wrong shapes at every level, read-only attribute names, empty ids, '
        'non-string keys); sequences save/corrupt/restore/save with several fault points over two jobs and two renderers; job-name '
        'families in one directory (one name a proper suffix or prefix of another, equal up to case, names containing dots) so that '
        'Compile.parse must skip exactly its own file and restore every other one; save-edit-save histories in which a label loses '
        'its number, title or macroName (heading -> starred heading / equation / item) or the document loses all labels; damaged files '
        'rewritten by a document without labels; runs with config paux-dirs set (one or two extra directories holding other documents\' files) '
        'next to sibling files in the working directory. '
        'Non-trivial = the case contains a fault or at least two labels.')
TRUSTED = ['modelled, not verified: the pickle module (Section variables pickle/unpickle; single hypothesis unpickle (pickle d) = Some d; '
           'per case the real pickle.loads outcome is given to the Model as the oracle answer)',
           'modelled, not verified: the class table of a Context (Section variables new_raises / setattr_raises: can a class be '
           'instantiated, is an attribute a read-only property; answered per case by introspection of the real classes)',
           'modelled, not verified: rendering of Node-valued attributes to strings inside Macro.persist (the Model takes the '
           'getattr view of each labelled node, captured in Renderer.cleanup while the Renderable mixin is active)',
           'assumed: exceptions raised by pickle.load / setattr / class instantiation derive from Exception; the file system '
           '(os.path.exists, os.remove, open) behaves; a write failure is modelled (persist io_ok=false) but not exercised']
ASSUMPTIONS = ['label keys of different documents are disjoint (glob order of *.paux is not observed)',
               'restored classes are plasTeX.Macro-like: classes with their own id/title/ref setters (bibitem, document, natbib, '
               'subfig) are outside the Model']
CASE_TIMEOUT = 120

REPO = os.environ.get('VERIF_REPO', '/repo')
PY = '/venv/bin/python'
REFATTRS = ['macroName', 'ref', 'title', 'captionName', 'id', 'url']
RENDERERS = ['HTML5', 'XHTML', 'Text']
FIXED = 0 if os.environ.get('VERIF_C20_ORIG') else 1     # development: compare with the Model of the unchanged persist


def S(s):
    return [ord(c) for c in s]


# ------------------------------------------------------------------------------------------------
# python value -> pyobj wire term     (0) | (1 z) | (2 cps) | (3 items) | (4 ((k v)...)) | (5 truthy cps)

def other(x):
    try:
        t = 1 if x else 0
    except Exception:
        t = 1
    try:
        s = str(x)
    except Exception:
        s = '<unprintable>'
    return [5, t, S(s[:120])]


def to_pyobj(x, path=()):
    if x is None:
        return [0]
    if type(x) is int and abs(x) < 2 ** 60:
        return [1, x]
    if isinstance(x, str):          # includes plasTeX.Renderers.URL, a str subclass
        return [2, S(x)]
    if type(x) in (list, dict):
        if id(x) in path or len(path) > 40:
            return [5, 1, S('<cycle>')]
        p = path + (id(x),)
        if type(x) is list:
            return [3, [to_pyobj(y, p) for y in x]]
        return [4, [[to_pyobj(k, p), to_pyobj(v, p)] for k, v in x.items()]]
    return other(x)


_DEVNULL = None
AS_MARGIN = 1 << 30


def limit_address_space():
    """A damaged pickle can ask the unpickler for a gigantic memo table (one flipped bit: `LONG_BINPUT 0x0a8c946c` -> 2.7 GB and
    10 s in CPython, see the REPORT).  The implementation workers, the generation helper and the oracle all run pickle.load with
    the address space capped at (current size + 1 GB), so that such a load fails fast with MemoryError on every side alike."""
    import resource
    with open('/proc/self/statm') as fh:
        cur = int(fh.read().split()[0]) * os.sysconf('SC_PAGE_SIZE')
    soft, hard = resource.getrlimit(resource.RLIMIT_AS)
    want = cur + AS_MARGIN
    if hard != resource.RLIM_INFINITY:
        want = min(want, hard)
    resource.setrlimit(resource.RLIMIT_AS, (want, hard))
    return soft, hard


def loads(b):
    """the oracle: (True, value) or (False, None) when pickle.load raises.
    (CPython prints 'SystemError: deallocated bytearray object has exported buffers' to fd 2 for some damaged pickles: silenced)"""
    global _DEVNULL
    import resource
    if _DEVNULL is None:
        _DEVNULL = os.open(os.devnull, os.O_WRONLY)
    saved = os.dup(2)
    os.dup2(_DEVNULL, 2)
    old = limit_address_space()
    try:
        return True, pickle.loads(b)
    except Exception:
        return False, None
    finally:
        resource.setrlimit(resource.RLIMIT_AS, old)
        os.dup2(saved, 2)
        os.close(saved)


def file_term(hexs):
    if hexs is None:
        return [0]
    ok, v = loads(bytes.fromhex(hexs))
    return [2, to_pyobj(v)] if ok else [1]


def aliased(v, r=None):
    """does the value share a mutable container between two places (the tree-shaped Model cannot express that)?"""
    seen = set()
    dup = []

    def walk(x, depth):
        if type(x) in (list, dict) and depth < 40:
            if id(x) in seen:
                dup.append(1)
                return
            seen.add(id(x))
            for y in (x if type(x) is list else list(x.keys()) + list(x.values())):
                walk(y, depth + 1)
    walk(v, 0)
    return bool(dup)


# ------------------------------------------------------------------------------------------------
# documents

TITLES = ['Intro', 'Two words', r'Em \emph{x} here', r'Math $a<b$', r'Amp \& more', r'Quote "q" \textbf{b}', 'Café α',
          r'Long title with several words in it', r'\texttt{tt} end', 'X']
PKG = '''from plasTeX import Command
def ProcessOptions(options, document):
    document.context.newcounter('zzmark')
class zzmark(Command):
    macroName = 'zzmark'
    counter = 'zzmark'
    args = 'title'
'''


def source(doc):
    out = [r'\documentclass{article}\usepackage{zzlab}\newtheorem{thm}{Theorem}\begin{document}']
    for it in doc['items']:
        k = it[0]
        lab = lambda l: '' if l is None else r'\label{%s}' % l
        if k == 'sec':
            out.append('\\%s{%s}%s Body.' % (['section', 'subsection', 'subsubsection', 'section*'][it[1]], TITLES[it[2]], lab(it[3])))
        elif k == 'eq':
            out.append(r'\begin{equation}a=b%s\end{equation}' % lab(it[1]))
        elif k in ('fig', 'tab'):
            env = 'figure' if k == 'fig' else 'table'
            out.append(r'\begin{%s}\caption{%s}%s\end{%s}' % (env, TITLES[it[1]], lab(it[2]), env))
        elif k == 'thm':
            out.append(r'\begin{thm}%s Claim.\end{thm}' % lab(it[1]))
        elif k == 'item':
            out.append(r'\begin{enumerate}' + ''.join(r'\item%s x ' % lab(l) for l in it[1]) + r'\end{enumerate}')
        elif k == 'mark':
            out.append(r'\zzmark{%s}%s' % (TITLES[it[1]], lab(it[2])))
        elif k == 'ref':
            out.append(r'See \ref{%s}.' % it[1])
        else:
            out.append('Some text.')
    out.append(r'\end{document}')
    return '\n'.join(out)


def doc_labels(doc):
    out = []
    for it in doc['items']:
        if it[0] == 'item':
            out += [l for l in it[1] if l]
        elif it[0] in ('sec', 'fig', 'tab', 'mark'):
            if it[-1]:
                out.append(it[-1])
        elif it[0] in ('eq', 'thm'):
            if it[1]:
                out.append(it[1])
    return out


def gen_doc(rng, job, nlabels=None, refs=()):
    n = rng.choice([0, 1, 1, 2, 3, 3, 4, 6]) if nlabels is None else nlabels
    items, cnt = [], 0

    def key(kind):
        nonlocal cnt
        cnt += 1
        base = '%s:%s%d' % (job, kind, cnt)
        r = rng.random()
        if r < 0.08:
            return base + ' sp'
        if r < 0.14:
            return base + 'é'
        return base
    if n == 0 or rng.random() < 0.5:
        items.append(['sec', 0, rng.randrange(len(TITLES)), None])
    while len(doc_labels({'items': items})) < n:
        k = rng.choice(['sec', 'sec', 'sec', 'eq', 'fig', 'tab', 'thm', 'item', 'mark', 'mark'])
        if k == 'sec':
            items.append(['sec', rng.choice([0, 0, 1, 2, 3]), rng.randrange(len(TITLES)), key('s')])
        elif k == 'eq':
            items.append(['eq', key('e')])
        elif k in ('fig', 'tab'):
            items.append([k, rng.randrange(len(TITLES)), key(k[0])])
        elif k == 'thm':
            items.append(['thm', key('t')])
        elif k == 'item':
            m = min(rng.randint(1, 3), n - len(doc_labels({'items': items})))
            items.append(['item', [key('i') for _ in range(m)]])
        else:
            items.append(['mark', rng.randrange(len(TITLES)), key('m')])
        if rng.random() < 0.2:
            items.append(['text'])
    for l in refs:
        items.append(['ref', l])
    return {'job': job, 'items': items}


def edit_doc(rng, doc):
    """the same document after an edit that keeps the label keys but changes what they are attached to, so that a label LOSES
    attributes between two saves: numbered heading -> starred heading (no number), heading / float / package macro -> equation,
    theorem or list item (no title, no macroName); sometimes the other way round (gains), sometimes a label is dropped"""
    import copy
    items = copy.deepcopy(doc['items'])
    idx = [i for i, it in enumerate(items) if it[0] in ('sec', 'fig', 'tab', 'mark', 'eq', 'thm') and (it[-1] if it[0] != 'eq' and it[0] != 'thm' else it[1])]
    if not idx:
        return {'job': doc['job'], 'items': items}
    chosen = set(i for i in idx if rng.random() < 0.5) or {rng.choice(idx)}
    for i in chosen:
        it = items[i]
        k = it[0]
        lab = it[1] if k in ('eq', 'thm') else it[-1]
        if k == 'sec':
            items[i] = rng.choice([['sec', 3, it[2], lab], ['eq', lab], ['thm', lab], ['item', [lab]], ['sec', 3, it[2], lab]]) if it[1] != 3 \
                else rng.choice([['sec', 0, it[2], lab], ['eq', lab]])
        elif k in ('fig', 'tab', 'mark'):
            items[i] = rng.choice([['eq', lab], ['item', [lab]], ['thm', lab], ['sec', 3, it[1], lab]])
        elif k == 'eq':
            items[i] = rng.choice([['sec', 0, rng.randrange(len(TITLES)), lab], ['mark', rng.randrange(len(TITLES)), lab], ['thm', lab]])
        else:
            items[i] = rng.choice([['eq', lab], ['sec', 1, rng.randrange(len(TITLES)), lab]])
    if rng.random() < 0.15 and len(idx) > 1:
        del items[rng.choice(idx)]
    return {'job': doc['job'], 'items': items}


# ------------------------------------------------------------------------------------------------
# faults

def corrupt(b, how):
    """pure function: bytes of the saved file (None = missing) x fault -> bytes or None"""
    k = how[0]
    if k == 'trunc':
        return (b or b'')[:how[1]]
    if k == 'flip':
        bb = bytearray(b or b'')
        for i in how[1]:
            if bb:
                bb[(i // 8) % len(bb)] ^= 1 << (i % 8)
        return bytes(bb)
    if k == 'empty':
        return b''
    if k == 'delete':
        return None
    if k == 'raw':
        return bytes.fromhex(how[1])
    if k == 'append':
        return (b or b'') + bytes.fromhex(how[1])
    if k in ('pickle', 'good'):      # 'good': a well-formed file as another document would have saved it (not a fault)
        return pickle.dumps(from_json(how[1]), how[2] if len(how) > 2 else pickle.DEFAULT_PROTOCOL)
    if k == 'keep':
        return b
    raise ValueError(how)


def from_json(j):
    """hostile file contents are described in JSON: {'d': [[k, v]...]} {'l': [...]} {'t': [...]} {'s': str} {'i': int} {'n': 0}
    {'b': hex} {'f': float} {'B': bool} {'set': [...]}"""
    (k, v), = j.items()
    if k == 'd':
        return {from_json(a): from_json(b) for a, b in v}
    if k == 'l':
        return [from_json(a) for a in v]
    if k == 't':
        return tuple(from_json(a) for a in v)
    if k == 'set':
        return set(from_json(a) for a in v)
    if k == 's':
        return v
    if k == 'i':
        return v
    if k == 'n':
        return None
    if k == 'b':
        return bytes.fromhex(v)
    if k == 'f':
        return float(v)
    if k == 'B':
        return bool(v)
    raise ValueError(j)


def js(s):
    return {'s': s}


jd_ = None


def jd(pairs):
    return {'d': [[js(k) if isinstance(k, str) else k, v] for k, v in pairs]}


jd_ = jd


def entry(rng, key, good=True):
    """a label entry as persist writes it, possibly damaged"""
    e = [['ref', js(str(rng.randint(1, 9)))], ['title', js(rng.choice(['T', 'Title x', '']))], ['captionName', js('')],
         ['id', js(key)], ['url', js('index#' + key)]]
    if rng.random() < 0.5:
        e.insert(0, ['macroName', js(rng.choice(['zzmark', 'Macro', 'section', 'equation', 'zzunknown']))])
    if good:
        return jd(e)
    r = rng.random()
    if r < 0.12:
        return rng.choice([{'i': 5}, {'n': 0}, js('text'), {'l': []}, {'l': [js('a')]}, {'t': [js('id'), js(key)]}, {'f': 1.5}, {'B': True}])
    if r < 0.24:
        e = [x for x in e if x[0] != 'macroName']
        e.insert(rng.randrange(len(e) + 1), ['macroName', rng.choice([{'i': 5}, {'n': 0}, {'l': [js('x')]}, js('a\x00b'), js(''), {'t': []}, {'B': False}])])
    elif r < 0.44:
        e.insert(rng.randrange(len(e) + 1), [rng.choice(['config', 'idref', 'style', 'childNodes', 'source', 'textContent', 'attributes',
                                                          'userdata', 'firstChild', 'currentSection']), js('v')])
    elif r < 0.58:
        for x in e:
            if x[0] == 'id':
                x[1] = rng.choice([js(''), {'i': 0}, {'n': 0}, {'l': []}, {'i': 7}, {'t': []}, {'B': False}])
        if rng.random() < 0.3:
            e.insert(0, ['@id', js('pre')])
    elif r < 0.7:
        e.insert(rng.randrange(len(e) + 1), [rng.choice([{'i': 3}, {'n': 0}, {'t': [js('a')]}, {'b': '6964'}, {'f': 2.5}, {'B': True}]), js('odd key')])
    elif r < 0.82:
        e.insert(rng.randrange(len(e) + 1), [rng.choice(['fullTitle', 'tocEntry', 'fullTocEntry', 'tagName', 'nodeName', 'urloverride', 'zz', '@title']),
                                             rng.choice([js('w'), {'i': 1}, {'l': [js('x')]}, {'n': 0}])])
    else:
        x = rng.choice(e)
        x[1] = rng.choice([{'i': 42}, {'n': 0}, {'l': [js('x'), {'i': 1}]}, jd([['k', js('v')]]), {'t': [js('x')]}, {'f': 0.0}])
    return jd(e)


def hostile(rng, r, job):
    """a hand-built file content (JSON form): wrong shapes at every level"""
    keys = ['%s:h%d' % (job, i) for i in range(1, rng.randint(2, 5))]
    x = rng.random()
    if x < 0.12:     # top level is not a dict
        return rng.choice([{'l': []}, {'l': [js(r)]}, {'i': 0}, {'n': 0}, js(r), {'t': [js(r), jd([])]}, {'f': 1.0}, {'set': [js(r)]}, {'b': '00'}])
    other_r = [q for q in RENDERERS if q != r]
    secs = []
    if x < 0.3:      # renderer entry is not a dict
        bad = rng.choice([{'l': []}, {'l': [js('a')]}, {'i': 0}, {'i': 3}, {'n': 0}, js(''), js('x'), {'t': []}, {'set': []}, {'f': 0.5}, {'B': True}])
        secs.append([r, bad])
    elif x < 0.42:   # renderer absent
        pass
    else:            # a dict section with (some) damaged entries
        nbad = rng.choice([0, 1, 1, 2])
        bads = set(rng.sample(range(len(keys)), min(nbad, len(keys))))
        secs.append([r, jd([[k, entry(rng, k, good=(i not in bads))] for i, k in enumerate(keys)])])
    if rng.random() < 0.6:
        q = rng.choice(other_r)
        secs.insert(rng.randrange(len(secs) + 1), [q, rng.choice([jd([]), jd([['%s:o1' % job, entry(rng, '%s:o1' % job)]]), {'l': []}, {'i': 1}])])
    if rng.random() < 0.15:
        secs.insert(rng.randrange(len(secs) + 1), [rng.choice([{'i': 1}, {'n': 0}, {'t': [js(r)]}, {'b': '48'}]), jd([])])
    return jd(secs)


# ------------------------------------------------------------------------------------------------
# executing a scenario on the real code (worker and helper)

_ENV = {}


def _setup():
    if _ENV:
        return _ENV
    import logging
    from plasTeX.Logging import disableLogging
    try:
        disableLogging()
    except Exception:
        pass
    logging.disable(logging.CRITICAL)
    from plasTeX import Compile, TeXDocument
    from plasTeX.Config import defaultConfig
    from plasTeX.Renderers import Renderer
    from plasTeX.DOM import Node

    class Capture(Renderer):
        """the real base Renderer (real Renderable mixin, real persist call); cleanup() runs right before persist, mixins active:
        record what getattr gives for the six persisted attributes of every labelled node (Node values as rendered strings)"""
        def cleanup(self, document, files, postProcess=None):
            self.views = []
            for k, n in list(document.context.persistentLabels.items()):
                v = []
                for name in REFATTRS:
                    x = getattr(n, name, None)
                    if isinstance(x, Node):
                        x = '%s' % str(x)
                    v.append([name, x if (x is None or isinstance(x, (str, int))) else str(x)])
                self.views.append([k, v])
            return Renderer.cleanup(self, document, files, postProcess=postProcess)
    # one fixed package directory: plasTeX refuses to load a Python package a second time from a different path
    import tempfile
    pk = os.path.join(tempfile.gettempdir(), 'c20-pk')
    os.makedirs(pk, exist_ok=True)
    target = os.path.join(pk, 'zzlab.py')
    if not os.path.exists(target) or open(target).read() != PKG:
        tmp = '%s.%d' % (target, os.getpid())
        with open(tmp, 'w') as fh:
            fh.write(PKG)
        os.replace(tmp, target)
    _ENV.update(Compile=Compile, TeXDocument=TeXDocument, defaultConfig=defaultConfig, Capture=Capture, pk=pk)
    return _ENV


def _frames(e):
    import traceback
    out = []
    for fr in traceback.extract_tb(e.__traceback__):
        if 'plasTeX' in fr.filename:
            out.append('%s:%s' % (os.path.basename(fr.filename), fr.name))
    return out[-6:]


def _labels_obs(labels, skip=()):
    out = []
    for k, n in labels.items():
        if k in skip:
            continue
        out.append([to_pyobj(k), [[S(a), to_pyobj(x)] for a, x in vars(n).items()]])
    return out


def _read(path):
    if not os.path.exists(path):
        return None
    with open(path, 'rb') as fh:
        return fh.read()


def execute(ops, resolve=False):
    """run the ops in a fresh directory.  returns (observations, concrete ops, snapshots)"""
    import tempfile
    import shutil
    env = _setup()
    old = os.getcwd()
    wd = tempfile.mkdtemp(prefix='c20-')
    obs, conc, snaps = [], [], []
    try:
        os.chdir(wd)
        for op in ops:
            k = op['op']
            if k in ('set', 'corrupt'):
                path = op['job'] + '.paux'
                if k == 'corrupt':
                    nb = corrupt(_read(path), op['how'])
                    op = dict(op='set', job=op['job'], hex=None if nb is None else nb.hex(), fault=op['how'][0] not in ('keep', 'good'), desc=json.dumps(op['how'])[:80])
                if op['hex'] is None:
                    if os.path.exists(path):
                        os.remove(path)
                else:
                    if os.path.dirname(path):
                        os.makedirs(os.path.dirname(path), exist_ok=True)
                    with open(path, 'wb') as fh:
                        fh.write(bytes.fromhex(op['hex']))
                obs.append([0])
                conc.append(op)
            elif k == 'run':
                job = op['job']
                with open(job + '.tex', 'w', encoding='utf8') as fh:
                    fh.write(source(op['doc']))
                views = None
                try:
                    config = env['defaultConfig']()
                    config['images']['imager'] = 'none'
                    config['images']['vector-imager'] = 'none'
                    config['files']['log'] = False
                    config['general']['renderer'] = op['r']
                    config['general']['packages-dirs'] = [env['pk']]
                    if op.get('pauxdirs'):
                        config['general']['paux-dirs'] = list(op['pauxdirs'])
                    tex = env['Compile'].parse(job + '.tex', config)
                    doc = tex.ownerDocument
                    ctx = doc.context
                    restored = _labels_obs(ctx.labels, skip=set(ctx.persistentLabels.keys()))
                    wou = 1 if ctx.warnOnUnrecognized else 0
                    rend = env['Capture']()
                    try:
                        rend.render(doc)
                    finally:
                        views = getattr(rend, 'views', None)
                    os.chdir(wd)
                    b = _read(job + '.paux')
                    listing = sorted(f for f in os.listdir('.') if f.endswith('.paux'))
                    obs.append([1, restored, wou, file_term(None if b is None else b.hex()), views, listing])
                except Exception as e:
                    if type(e).__name__ == 'CaseTimeout':
                        raise
                    os.chdir(wd)
                    obs.append(['crash', type(e).__name__, str(e)[:160], _frames(e), views])
                conc.append(dict(op, views=views if views is not None else op.get('views')) if resolve else op)
            elif k == 'restore':
                try:
                    doc = env['TeXDocument']()
                    ctx = doc.context
                    for key in op['pre']:
                        n = ctx['Macro']()
                        n.marker = key
                        ctx.labels[key] = n
                    ctx.restore(op['job'] + '.paux', op['r'])
                    obs.append([2, _labels_obs(ctx.labels), 1 if ctx.warnOnUnrecognized else 0])
                except Exception as e:
                    if type(e).__name__ == 'CaseTimeout':
                        raise
                    obs.append(['crash', type(e).__name__, str(e)[:160], _frames(e), None])
                conc.append(op)
            else:
                raise ValueError(op)
            if resolve:
                snaps.append({f[:-5]: _read(f).hex() for f in sorted(os.listdir('.')) if f.endswith('.paux')})
    finally:
        os.chdir(old)
        shutil.rmtree(wd, ignore_errors=True)
    return obs, conc, snaps


def introspect(classes, pairs):
    """which class names cannot be instantiated through a Context, which (class, attribute) are read-only properties"""
    import inspect
    env = _setup()
    ctx = env['TeXDocument']().context
    ctx.warnOnUnrecognized = False
    nr, sr = [], []
    inst = {}
    for c in sorted(set(classes) | {c for c, _ in pairs}):
        try:
            inst[c] = ctx[c]()
        except Exception:
            nr.append(c)
    for c, a in pairs:
        if c in inst:
            d = inspect.getattr_static(type(inst[c]), a, None)
            if isinstance(d, property) and d.fset is None:
                sr.append([c, a])
    return nr, sr


def _resolve_one(sc):
    try:
        _setup()
        limit_address_space()
        obs, conc, snaps = execute(sc, resolve=True)
        return dict(ops=conc, snaps=snaps, ok=not any(o and o[0] == 'crash' for o in obs))
    except Exception as e:    # the helper must not die on a broken implementation
        return dict(ops=None, snaps=None, ok=False, err='%s: %s' % (type(e).__name__, e))


def helper_main():
    req = json.load(sys.stdin)
    out = {}
    if 'scenarios' in req:
        import multiprocessing as mp
        scs = req['scenarios']
        if len(scs) > 16:
            with mp.get_context('fork').Pool(8) as pool:
                out['resolved'] = pool.map(_resolve_one, scs, chunksize=4)
        else:
            out['resolved'] = [_resolve_one(s) for s in scs]
    if 'pairs' in req:
        nr, sr = introspect(req['classes'], [tuple(p) for p in req['pairs']])
        out['new_raises'], out['setattr_raises'] = nr, sr
    json.dump(out, sys.stdout)


def call_helper(req, timeout=900):
    env = dict(os.environ, PYTHONPATH=REPO, PYTHONHASHSEED='0', PYTHONDONTWRITEBYTECODE='1')
    p = subprocess.run([PY, os.path.abspath(__file__), '--helper'], input=json.dumps(req), stdout=subprocess.PIPE,
                       stderr=subprocess.PIPE, text=True, timeout=timeout, env=env, cwd='/tmp')
    if p.returncode != 0:
        raise RuntimeError('C20 helper failed: ' + p.stderr[-1500:])
    return json.loads(p.stdout)


# ------------------------------------------------------------------------------------------------
# oracle for the class table: candidates are read off the file contents of a case

def class_candidates(case):
    classes, pairs = set(), set()
    for op in case['ops']:
        if op['op'] != 'set' or op['hex'] is None:
            continue
        ok, v = loads(bytes.fromhex(op['hex']))
        if not ok or type(v) is not dict:
            continue
        for sec in v.values():
            if type(sec) is not dict:
                continue
            for e in sec.values():
                if type(e) is not dict:
                    continue
                m = e.get('macroName', 'Macro')
                if type(m) is not str:
                    continue
                classes.add(m)
                for k in e.keys():
                    try:
                        a = str({'url': 'urloverride'}.get(k, k))
                    except Exception:
                        continue
                    if a not in ('macroName', 'ref', 'title', 'captionName', 'id', 'urloverride') or m not in ('Macro', 'zzmark'):
                        pairs.add((m, a))
    return classes, pairs


def attach_oracles(cases):
    """one helper call for all cases: fill case['oracle']"""
    cand = [class_candidates(c) for c in cases]
    classes = sorted(set().union(*[c for c, _ in cand]) if cand else [])
    pairs = sorted(set().union(*[p for _, p in cand]) if cand else [])
    nr, sr = [], []
    if classes or pairs:
        try:
            res = call_helper(dict(classes=classes, pairs=[list(p) for p in pairs]))
            nr, sr = set(res['new_raises']), set(tuple(p) for p in res['setattr_raises'])
        except Exception as e:
            sys.stderr.write('C20: introspection helper failed: %s\n' % e)
            nr, sr = set(), set()
    for case, (cl, pr) in zip(cases, cand):
        case['oracle'] = dict(new_raises=sorted(c for c in cl if c in nr), setattr_raises=sorted([c, a] for c, a in pr if (c, a) in sr))
    return cases


# ------------------------------------------------------------------------------------------------
# streams

# Job-name families.  Compile.parse has to skip exactly its own <jobname>.paux and restore every other *.paux of the directory,
# however similar the names: one job name a proper suffix / prefix of another, equal up to case, names containing dots
# (jobname = basename without the LAST extension), a name that is another name plus an extension-like tail.
JOB_FAMILIES = [('a', 'd', 'g'),
                ('guide', 'userguide', 'guidebook'),
                ('intro', 'part2-intro', 'Intro'),
                ('notes', 'notes.v2', 'old.notes'),
                ('v1.2', 'rev-v1.2', 'v1.2.1'),
                ('b', 'a.b', 'B'),
                ('x', 'xx', 'xxx'),
                ('Main', 'main', 'MAIN')]


def pick_jobs(rng, plain=0.34):
    """three distinct job names: the plain a/d/g or a random arrangement of one of the families"""
    if rng.random() < plain:
        return JOB_FAMILIES[0]
    fam = list(rng.choice(JOB_FAMILIES[1:]))
    rng.shuffle(fam)
    return tuple(fam)


def run_op(doc, r):
    return dict(op='run', job=doc['job'], r=r, doc=doc)


def set_ops(snap, target=None, nb=None, how=None):
    """put the snapshot of a directory back, one file replaced by its damaged form"""
    out = []
    for job, hx in sorted(snap.items()):
        if job == target:
            continue
        out.append(dict(op='set', job=job, hex=hx, fault=False, desc='as saved'))
    if target is not None:
        out.append(dict(op='set', job=target, hex=None if nb is None else nb.hex(), fault=True, desc=json.dumps(how)[:80]))
    return out


def streams(rng, tier, boost):
    quick = tier == 'quick'
    out = []
    scen = []      # (kind, payload) in step with the scenarios sent to the helper
    req = []

    # --- templates for the fault enumerations: prefix (real saves), the file to damage, tail ---------------------------
    templates = []
    ntemp = 5 if quick else 6
    for t in range(ntemp):
        r = RENDERERS[t % 2]
        r2 = RENDERERS[(t + 1) % 2]
        nl = [0, 3, 1, 4, 0, 6, 2, 5][t % 8]
        ja, jd, _ = pick_jobs(rng)
        A = gen_doc(rng, ja, nlabels=nl)
        prefix = [run_op(A, r)]
        if t % 3 == 1:
            prefix.append(run_op(A, r2))               # the same job saved under a second renderer: two sections in its .paux
        if t % 4 == 0:
            prefix.insert(0, run_op(gen_doc(rng, ja, nlabels=0), r2))   # an empty section of another renderer first
        labs = doc_labels(A)
        # what the document is when it saves over the damaged file: without any label / edited (labels lose attributes) / new / same
        A2 = [gen_doc(rng, ja, nlabels=rng.choice([1, 2, 3])), edit_doc(rng, A), gen_doc(rng, ja, nlabels=0), A][t % 4]
        if not labs and t % 4 == 1:
            A2 = gen_doc(rng, ja, nlabels=0)
        D = gen_doc(rng, jd, nlabels=rng.choice([0, 1, 2]), refs=labs[:2])
        tail = [run_op(D, r), run_op(A2, r), dict(op='restore', job=ja, r=r, pre=['pre:1']),
                dict(op='restore', job=ja, r=r2, pre=[])]
        templates.append((prefix, tail, ja, r))
        scen.append(('template', len(templates) - 1))
        req.append(prefix + tail)

    # --- job-name families (no fault): all three documents of a family live in one directory; every run must restore exactly
    #     the two other files (through Compile.parse) and rewrite only its own ------------------------------------------------
    nfam = (48 if quick else 240) * boost
    for i in range(nfam):
        fam = list(JOB_FAMILIES[1 + i % (len(JOB_FAMILIES) - 1)])
        rng.shuffle(fam)
        r1, r2 = rng.sample(RENDERERS, 2)
        docs = {}
        for j in fam:
            docs[j] = gen_doc(rng, j, nlabels=rng.choice([1, 1, 2, 3]))
        for j in fam:     # references to the labels of the two others
            others = [l for k in fam if k != j for l in doc_labels(docs[k])[:1]]
            docs[j]['items'] += [['ref', l] for l in others]
        ops = [run_op(docs[j], r1) for j in fam]                      # first pass: the files appear one after the other
        order = fam[:]
        rng.shuffle(order)
        ops += [run_op(docs[j], r1) for j in order]                   # second pass: each sees both others
        if i % 3 == 0:
            ops.insert(len(fam), run_op(docs[fam[0]], r2))            # a second renderer in one of the files
            ops.append(run_op(docs[fam[1]], r2))
        ops += [dict(op='restore', job=j, r=r1, pre=[]) for j in fam[:2]]
        scen.append(('job-names', None))
        req.append(ops)

    # --- save, edit, save (no fault): a label that loses its number / title / macroName must lose it in the file as well; documents
    #     that lose all their labels still rewrite their file ------------------------------------------------------------------------
    nedit = (60 if quick else 300) * boost
    for i in range(nedit):
        r1, r2 = rng.sample(RENDERERS, 2)
        ja, jd, _ = pick_jobs(rng)
        A = gen_doc(rng, ja, nlabels=rng.choice([1, 2, 3, 4]))
        A2 = edit_doc(rng, A)
        la = doc_labels(A)
        D = gen_doc(rng, jd, nlabels=rng.choice([0, 1]), refs=la[:2])
        shape = i % 4
        if shape == 0:
            ops = [run_op(A, r1), run_op(A2, r1), dict(op='restore', job=ja, r=r1, pre=[]), run_op(D, r1)]
        elif shape == 1:      # the other renderer's section keeps the old state
            ops = [run_op(A, r1), run_op(A, r2), run_op(A2, r1), dict(op='restore', job=ja, r=r1, pre=[]), dict(op='restore', job=ja, r=r2, pre=[])]
        elif shape == 2:      # edit twice, back and forth
            ops = [run_op(A, r1), run_op(A2, r1), run_op(edit_doc(rng, A2), r1), run_op(D, r1), dict(op='restore', job=ja, r=r1, pre=['pre:1'])]
        else:                 # all labels removed, then some come back
            ops = [run_op(A, r1), run_op(gen_doc(rng, ja, nlabels=0), r1), dict(op='restore', job=ja, r=r1, pre=[]), run_op(A2, r1),
                   dict(op='restore', job=ja, r=r1, pre=[])]
        scen.append(('save-edit-save', None))
        req.append(ops)

    # --- paux-dirs (no fault): Compile.parse restores the *.paux of the working directory first, then those of every directory in
    #     config['general']['paux-dirs'].  Files of the extra directory are the jobs 'pd/<name>' (and 'pd2/<name>'); every run of such a
    #     scenario sets paux-dirs, so the Model's "every file but the own one" is exactly what has to be restored ------------------------
    npd = (40 if quick else 200) * boost
    for i in range(npd):
        r1, r2 = rng.sample(RENDERERS, 2)
        ja, jd, jg = pick_jobs(rng)
        dirs = ['pd'] if i % 3 else ['pd', 'pd2']
        A = gen_doc(rng, ja, nlabels=rng.choice([1, 2, 3]))
        la = doc_labels(A)
        D = gen_doc(rng, jd, nlabels=rng.choice([0, 1, 2]), refs=la[:1] + ['pd/e:x1'])
        ops = []
        for dname in dirs:
            key = '%s/e:x1' % dname
            ops.append(dict(op='corrupt', job='%s/%s' % (dname, rng.choice(['e', 'ext.v1', jg])),
                            how=['good', jd_([[r1, jd_([[key, entry(rng, key)], [key + 'b', entry(rng, key + 'b')]])], [r2, jd_([])]])]))
        ops.append(dict(run_op(A, r1), pauxdirs=dirs))                # sibling in the working directory
        ops.append(dict(run_op(D, r1), pauxdirs=dirs))                # must see A's labels AND those of the extra directories
        if i % 2:
            ops.append(dict(run_op(A, r1), pauxdirs=dirs))
        ops.append(dict(run_op(D, r2), pauxdirs=dirs))                # other renderer: empty sections only
        scen.append(('paux-dirs', None))
        req.append(ops)

    # --- clean sequences (no fault): round trip, per renderer, several documents -------------------------------------------
    nclean = (40 if quick else 200) * boost
    for i in range(nclean):
        r1, r2 = rng.sample(RENDERERS, 2)
        ja, jd, jg = pick_jobs(rng)
        A = gen_doc(rng, ja)
        la = doc_labels(A)
        D = gen_doc(rng, jd, refs=rng.sample(la, min(len(la), 2)))
        ops = [run_op(A, r1)]
        shape = rng.randrange(5)
        if shape == 0:
            ops += [run_op(D, r1), dict(op='restore', job=ja, r=r1, pre=[]), dict(op='restore', job=ja, r=r2, pre=['pre:1'])]
        elif shape == 1:
            ops += [run_op(A, r2), dict(op='restore', job=ja, r=r1, pre=[]), dict(op='restore', job=ja, r=r2, pre=[]), run_op(D, r2)]
        elif shape == 2:
            A2 = gen_doc(rng, ja)
            ops += [run_op(D, r1), run_op(A2, r1), dict(op='restore', job=ja, r=r1, pre=[]), run_op(D, r1)]
        elif shape == 3:
            ops += [run_op(D, r2), run_op(D, r1), run_op(A, r1), dict(op='restore', job=jd, r=r1, pre=['pre:1', 'pre:2'])]
        else:
            pre = la[:1] + ['pre:x']
            ops += [dict(op='restore', job=ja, r=r1, pre=pre), run_op(gen_doc(rng, jg, refs=la[:1]), r1)]
        scen.append(('clean', None))
        req.append(ops)

    # --- sequences with several fault points over two jobs and two renderers ---------------------------------------------
    nseq = (120 if quick else 800) * boost
    for i in range(nseq):
        r1, r2 = rng.sample(RENDERERS, 2)
        ja, jd, _ = pick_jobs(rng)
        docs = {ja: gen_doc(rng, ja), jd: gen_doc(rng, jd)}
        ops = [run_op(docs[ja], r1)]
        for step in range(rng.randint(3, 7)):
            x = rng.random()
            job = rng.choice([ja, ja, jd])
            if x < 0.34:
                how = rng.choice([['trunc', rng.randint(0, 400)], ['flip', [rng.randrange(4000)]],
                                  ['flip', [rng.randrange(4000) for _ in range(rng.randint(2, 6))]], ['empty'], ['delete'],
                                  ['raw', bytes(rng.randrange(256) for _ in range(rng.randint(1, 40))).hex()],
                                  ['append', rng.choice(['00', '2e', '80049500', 'ff'])],
                                  ['pickle', hostile(rng, rng.choice([r1, r2]), job)]])
                ops.append(dict(op='corrupt', job=job, how=how))
            elif x < 0.7:
                y = rng.random()
                if y < 0.2:
                    docs[job] = gen_doc(rng, job)
                elif y < 0.4:
                    docs[job] = edit_doc(rng, docs[job])
                elif y < 0.5:
                    docs[job] = gen_doc(rng, job, nlabels=0)
                ops.append(run_op(docs[job], rng.choice([r1, r1, r2])))
            else:
                ops.append(dict(op='restore', job=job, r=rng.choice([r1, r2]), pre=rng.choice([[], ['pre:1']])))
        ops.append(run_op(docs[ja], r1))
        ops.append(dict(op='restore', job=ja, r=r1, pre=[]))
        scen.append(('sequence', None))
        req.append(ops)

    # --- hostile / foreign files --------------------------------------------------------------------------------------------
    nhost = (300 if quick else 2000) * boost
    for i in range(nhost):
        r = rng.choice(RENDERERS)
        ja, jd, _ = pick_jobs(rng)
        A = gen_doc(rng, ja, nlabels=rng.choice([0, 1, 2, 3]))
        D = gen_doc(rng, jd, nlabels=rng.choice([0, 1]))
        proto = rng.choice([0, 2, 3, 4, 4, 4])
        ops = [dict(op='corrupt', job=ja, how=['pickle', hostile(rng, r, ja), proto]), dict(op='restore', job=ja, r=r, pre=rng.choice([[], ['pre:1']])),
               run_op(D, r), run_op(A, r), dict(op='restore', job=ja, r=r, pre=[]), run_op(D, r)]
        scen.append(('hostile', None))
        req.append(ops)

    res = call_helper(dict(scenarios=req))['resolved']

    cases = []
    for (kind, payload), ops, rr in zip(scen, req, res):
        if rr['ops'] is None:
            # the helper could not even run the scenario: keep what can be kept as a case (it will fail again and be judged)
            fb = []
            for o in ops:
                if o['op'] != 'corrupt':
                    fb.append(o)
                elif o['how'][0] in ('pickle', 'raw', 'empty', 'delete'):
                    nb = corrupt(None, o['how'])
                    fb.append(dict(op='set', job=o['job'], hex=None if nb is None else nb.hex(), fault=True, desc=json.dumps(o['how'])[:80]))
            cases.append((kind + '-unresolved', dict(ops=fb, unresolved=True)))
            continue
        if kind != 'template':
            cases.append((kind, dict(ops=rr['ops'])))
            continue
        cases.append(('clean', dict(ops=rr['ops'])))
        if not rr['ok']:
            continue
        prefix, tail, ja, rt = templates[payload]
        ct = rr['ops'][len(prefix):]
        snap = rr['snaps'][len(prefix) - 1] if len(rr['snaps'] or []) >= len(prefix) else {}
        if ja not in snap:
            # the prefix runs left no <job>.paux (or wrote it under another name): nothing to damage; the scenario itself is
            # already in the 'clean' stream above, where the missing file is judged (C20:no-paux-written)
            continue
        b = bytes.fromhex(snap[ja])
        # every truncation point
        for n in range(len(b)):
            cases.append(('truncation', dict(ops=set_ops(snap, ja, b[:n], ['trunc', n]) + ct)))
        # single-bit flips: all (thorough) or sampled (quick)
        bits = list(range(len(b) * 8))
        if quick:
            bits = sorted(rng.sample(bits, min(len(bits), (2000 * boost) // ntemp)))
        for i in bits:
            cases.append(('bitflip-1', dict(ops=set_ops(snap, ja, corrupt(b, ['flip', [i]]), ['flip', [i]]) + ct)))
        # multi-bit
        for _ in range((60 if quick else 400) * boost):
            fl = sorted(rng.sample(range(len(b) * 8), rng.choice([2, 2, 3, 4, 8, 16])))
            cases.append(('bitflip-n', dict(ops=set_ops(snap, ja, corrupt(b, ['flip', fl]), ['flip', fl]) + ct)))
        # empty, missing, garbage, appended, identical
        for how in [['empty'], ['delete'], ['keep'], ['append', '00'], ['append', '2e'], ['append', b.hex()], ['raw', b'not a pickle\n'.hex()],
                    ['raw', b'\x80\x04N.'.hex()], ['raw', b[1:].hex()], ['raw', (b[:len(b) // 2] + b[len(b) // 2 + 1:]).hex()]]:
            cases.append(('other-faults', dict(ops=set_ops(snap, ja, corrupt(b, how), how) + ct)))
        # the damaged file is rewritten by a document WITHOUT labels: it must be loadable again all the same
        U = next((o for o in rr['ops'] if o['op'] == 'run' and o['job'] == ja and not doc_labels(o['doc'])), None)
        if U is None:
            U = dict(run_op(gen_doc(rng, ja, nlabels=0), rt), views=[])
        U = dict(U, r=rt)
        for how in [['empty'], ['delete'], ['trunc', len(b) // 2], ['trunc', len(b) - 1], ['flip', [rng.randrange(len(b) * 8)]],
                    ['flip', [rng.randrange(len(b) * 8)]], ['raw', b'\\relax \n\\newlabel{x}{{1}{1}}\n'.hex()], ['raw', b'\x80\x04]\x94.'.hex()]]:
            cases.append(('unlabelled-resave', dict(ops=set_ops(snap, ja, corrupt(b, how), how) + [U, dict(op='restore', job=ja, r=rt, pre=['pre:1'])])))
        # a file written by a different renderer only (foreign): take the saved file and rename its renderer
        ok, v = loads(b)
        if ok and type(v) is dict:
            foreign = pickle.dumps({'Other-' + k: x for k, x in v.items()})
            cases.append(('foreign-renderer', dict(ops=set_ops(snap, ja, foreign, ['foreign']) + ct)))

    attach_oracles([c for _, c in cases])
    for _, c in cases:
        c['desc'] = describe(c)
    return cases


def search_streams(rng, tier):
    return []


# ------------------------------------------------------------------------------------------------
# wire

def views_term(views):
    out = []
    for k, v in (views or []):
        out.append([S(k), [[S(a), to_pyobj(x)] for a, x in v]])
    return out


def model_input(case):
    o = case.get('oracle') or {}
    ops = []
    for op in case['ops']:
        if op['op'] == 'set':
            ops.append([0, S(op['job']), file_term(op['hex'])])
        elif op['op'] == 'run':
            ops.append([1, S(op['job']), S(op['r']), views_term(op.get('views'))])
        else:
            ops.append([2, S(op['job']), S(op['r']), [S(k) for k in op['pre']]])
    return [FIXED, [S(c) for c in o.get('new_raises', [])], [[S(c), S(a)] for c, a in o.get('setattr_raises', [])], ops]


def worker_init():
    _setup()
    # the unpickler's own noise on damaged files (see loads) would flood the log; results travel through the pool, not fd 2
    os.dup2(os.open(os.devnull, os.O_WRONLY), 2)
    limit_address_space()


def run_impl(case):
    obs, _, _ = execute(case['ops'])
    return obs


def describe(case):
    parts = []
    for op in case['ops']:
        if op['op'] == 'set':
            parts.append('%s.paux:=%s' % (op['job'], op.get('desc') if op.get('fault') else 'saved'))
        elif op['op'] == 'run':
            parts.append('run(%s,%s,labels=%s)' % (op['job'], op['r'], doc_labels(op['doc'])))
        else:
            parts.append('restore(%s,%s,pre=%s)' % (op['job'], op['r'], op['pre']))
    return '; '.join(parts)


# ------------------------------------------------------------------------------------------------
# judge

def canon(v):
    return json.dumps(v, sort_keys=True)


def norm_obs(o):
    """bring an implementation observation and a Model observation into the same shape"""
    if not isinstance(o, list) or not o:
        return ['?', o]
    if o[0] == 'crash' or o[0] == -2:
        return ['crash']
    if o[0] == 1:
        return [1, sorted(o[1], key=canon), o[2], o[3]]
    if o[0] == 2:
        return [2, sorted(o[1], key=canon), o[2]]
    return o[:1]


def first_fault(case):
    for i, op in enumerate(case['ops']):
        if op['op'] == 'set' and op.get('fault'):
            return i
    return len(case['ops'])


def file_complete(fobs, r, views):
    """Spec on the implementation's own output: the file written by a run loads, has a dictionary for the renderer, and that holds
    every label of the document with the attribute values the nodes had at save time"""
    if fobs[0] != 2:
        return 'the file written by the run is missing or does not load'
    if not views:
        return None
    d = fobs[1]
    if d[0] != 4:
        return 'the file written by the run does not hold a dictionary'
    sec = None
    for k, v in d[1]:
        if k == [2, S(r)]:
            sec = v
    if sec is None or sec[0] != 4:
        return 'the file written by the run has no dictionary for renderer %s' % r
    have = {canon(k): v for k, v in sec[1]}
    for key, v in (views or []):
        want = [4, [[[2, S(a)], to_pyobj(x)] for a, x in v if x is not None]]
        got = have.get(canon([2, S(key)]))
        if got is None:
            return 'label %r is missing from the file written by the run' % key
        if canon(got) != canon(want):
            return 'label %r is saved as %s, the node had %s' % (key, got, want)
    return None


def judge(case, io, mo):
    if not isinstance(io, list) or (io and io[0] in ('raise', 'hang')):
        return dict(violation=False, key='C20:harness', what='the case could not be run: %s' % (io[:3] if isinstance(io, list) else io,))
    if not isinstance(mo, list) or len(mo) != len(case['ops']) or len(io) != len(case['ops']):
        return dict(violation=False, key='C20:model-output', what='model output has the wrong shape: %s' % (mo,))
    ff = first_fault(case)
    for i, (op, a, m) in enumerate(zip(case['ops'], io, mo)):
        na, nm = norm_obs(a), norm_obs(m)
        # 1. Spec checks on the implementation's own output, whatever the Model says
        if na == ['crash']:
            frames = a[3] if len(a) > 3 else []
            mine = [f for f in frames if f in ('Context.py:persist', 'Context.py:restore', '__init__.py:persist', '__init__.py:restore')]
            if nm == ['crash']:
                continue
            if mine or case.get('unresolved'):
                return dict(violation=True, key='C20:raises:%s:%s' % ((mine or frames or ['?'])[-1], a[1]), expected=m,
                            what='op %d (%s) raises %s: %s  [%s]' % (i, op['op'], a[1], a[2], ' < '.join(frames)))
            return dict(violation=False, key='C20:raises-elsewhere:%s' % a[1], expected=m,
                        what='op %d raises outside persist/restore: %s %s %s' % (i, a[1], a[2], frames))
        if op['op'] == 'run':
            views = a[4]
            if i < ff and op.get('views') is not None and canon(views) != canon(op['views']):
                return dict(violation=False, key='C20:views-changed', what='op %d: the labelled nodes differ from the generation run' % i)
            if a[3] == [0]:
                return dict(violation=True, key='C20:no-paux-written', expected=m,
                            what='op %d: the run of job %r under %s left no %s.paux (files present: %s)' % (
                                i, op['job'], op['r'], op['job'], a[5] if len(a) > 5 else '?'))
            why = file_complete(a[3], op['r'], views)
            if why:
                return dict(violation=True, key='C20:save-incomplete', expected=m, what='op %d: %s' % (i, why))
        if na == nm:
            continue
        # 2. disagreement with the Model
        if nm == ['crash']:
            return dict(violation=False, key='C20:model-raises', expected=m, what='op %d: the Model raises, the implementation does not' % i)
        if i < ff:
            # no fault so far: the Model's answer is the round-trip / per-renderer specification itself
            return dict(violation=True, key='C20:clean:%s' % op['op'], expected=m,
                        what='op %d (%s, before any fault): implementation %s, specification %s' % (i, op['op'], canon(na)[:600], canon(nm)[:600]))
        if case_aliased(case):
            # the damaged file unpickles to a value that shares a mutable container between two places (or is cyclic): outside the
            # tree-shaped values of the Model; only the Spec checks above apply
            return None
        return dict(violation=False, key='C20:after-fault:%s' % op['op'], expected=m,
                    what='op %d (%s, after a fault): implementation %s, Model %s' % (i, op['op'], canon(na)[:600], canon(nm)[:600]))
    return None


def case_aliased(case):
    for op in case['ops']:
        if op['op'] == 'set' and op.get('fault') and op['hex'] is not None:
            ok, v = loads(bytes.fromhex(op['hex']))
            if ok and aliased(v):
                return True
    return False


def shape_tag(hexs, r):
    if hexs is None:
        return 'missing'
    ok, v = loads(bytes.fromhex(hexs))
    if not ok:
        return 'unloadable'
    if type(v) is not dict:
        return 'top-not-dict'
    if r not in v:
        return 'renderer-absent'
    if type(v[r]) is not dict:
        return 'section-not-dict'
    if any(type(e) is not dict for e in v[r].values()):
        return 'entry-not-dict'
    return 'well-shaped'


def tags(case, io):
    t = []
    r = next((op['r'] for op in case['ops'] if op['op'] != 'set'), 'HTML5')
    for op in case['ops']:
        if op['op'] == 'set' and op.get('fault'):
            t.append('fault-file=' + shape_tag(op['hex'], r))
            break
    if case_aliased(case):
        t.append('fault-file-aliased(Model comparison skipped after the fault)')
    if isinstance(io, list):
        if any(isinstance(o, list) and o and o[0] == 'crash' for o in io):
            t.append('impl-raises')
        nrest = [len(o[1]) for o in io if isinstance(o, list) and o and o[0] in (1, 2)]
        if nrest:
            t.append('max-restored=%d' % min(max(nrest), 8))
        if any(isinstance(o, list) and o and o[0] in (1, 2) and o[2] == 0 for o in io):
            t.append('warnOnUnrecognized-left-False')
    return t


def nontrivial(case, io):
    if first_fault(case) < len(case['ops']):
        return True
    return any(op['op'] == 'run' and len(doc_labels(op['doc'])) >= 2 for op in case['ops'])


def shrink(case):
    ops = case['ops']
    # drop one op (keep at least one)
    for i in range(len(ops) - 1, -1, -1):
        if len(ops) > 1:
            c = dict(case, ops=ops[:i] + ops[i + 1:])
            c['desc'] = describe(c)
            yield c


if __name__ == '__main__' and '--helper' in sys.argv:
    helper_main()
