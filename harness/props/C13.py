"""C13 -- Rendering splits the document into files without losing or repeating content.

Correspondence: real HTML5 (default / minimal themes) and XHTML renders of generated documents (every text leaf a unique marker word)
vs Model/Render.v (assign = Renderer.cacheFilenames + Renderable.filename on top of the C15 generator Model; render =
Renderable.__str__ with the shipped templates abstracted by std_tmpl).  The Model's input is the document tree as plasTeX digested
it, read off the real DOM after the render (harness/render_docs.py), so the tie is about rendering only.

Observation = file-name assignment (node -> name, in order of issue), the set of output files, the sequence of body marker words and
of section headings in every file.  Each document is rendered twice in separate pristine processes (determinism, byte for byte).
Independently of the Model, `oracle` evaluates the property text itself on the implementation's output (the Spec of
Proofs/RenderProofs.v written once more in Python over ancestor chains); violation=True only when that oracle fails."""
import os
import re

import core
import render_docs as rd

core.NPROC = min(core.NPROC, 8)     # renders fork two children each: stay within 8 workers

ID = 'C13'
PINS = [('plasTeX/Renderers/__init__.py', 'Renderable.filename'), ('plasTeX/Renderers/__init__.py', 'Renderable.__str__'),
        ('plasTeX/Renderers/__init__.py', 'Renderer.cacheFilenames'), ('plasTeX/Renderers/__init__.py', 'Renderer.render'),
        ('plasTeX/Renderers/__init__.py', 'StaticNode'), ('plasTeX/Base/LaTeX/Sectioning.py', 'SectionUtils.footnotes'),
        ('plasTeX/__init__.py', 'Macro.currentSection'), ('plasTeX/Filenames.py', 'Filenames._newFilename')]
RULE = ('generated article/book documents: sectioning commands of six levels in arbitrary up/down order (some starred, some labelled), '
        'paragraphs of unique marker words with \\textbf nesting, footnotes (also nested and inside lists), itemize/enumerate, quote, '
        'figures with captions, \\ref/\\pageref/\\cite/\\index, thebibliography, \\printindex or a theindex environment, \\tableofcontents, '
        'text leaves glued to image-placeholder look-alikes (zw1x\\&zw2x-width;\\&zuab;zw3x, read in the html.parser-decoded text); x renderer/theme '
        '(HTML5 default, HTML5 minimal, XHTML default) x split-level -10..6 (all 17 values on the split-levels stream) x ten wildcard '
        'templates (default, static names first, $id/$title(n)/$num(n)/$name/$ref/$jobname, prefixed brackets) x four single-file templates '
        'x nine bad-chars settings x base-url x toc settings; malformed stream: templates without a fail-safe alternative, bad-chars that '
        'make labels collide, split levels 7..99, documents printed backwards; labels that equal static names of the template / names issued '
        'earlier (name-clash), twin sections.  Every case is rendered twice in separate pristine processes and the files compared byte for byte '
        '(the second time after another document was processed in the same interpreter; generated identifiers renamed; tag rendered-twice=identical counts them).  Non-trivial = at least two output files and ten words.')
TRUSTED = ['modelled, not verified (hypothesis tmpl_linear of the theorems; checked by this correspondence for the shipped templates): '
           'Jinja2 / simpleTAL evaluate a node template so that the rendering of its children appears once, in order; the layout '
           'templates emit the content followed by the footnotes of the file',
           'harness/render_docs.py: the walker that reads the digested DOM (Model input) and html.parser reading the output files',
           'Model/Filenames.v (property C15) is used for the name generator; which of the three repairs of Filenames.py the code has is probed at run time']
PREMISES = {}
ASSUMPTIONS = rd.Counted(['no filenameoverride / splitlevel / urloverride attributes; no sectioning unit inside a footnote or a title; '
                          'output file names have no directory part'], PREMISES,
                         'premises of the end-to-end theorem C13_split_by_level (decision procedure hyps_b, evaluated by the extracted Model) hold on %d of %d rendered cases of this run')
CASE_TIMEOUT = 150

EXC_K = {'IndexError': 3}


def streams(rng, tier, boost):
    seed = int(os.environ.get('VERIF_SEED') or 0)
    out = list(rd.shared_cases(seed, tier, boost))
    # property-specific: every split level on one more document per renderer, drawn from the run's own generator
    for rname in ('html5', 'xhtml', 'html5min'):
        if tier == 'quick' and rname != 'html5':
            continue
        doc = rd.gen_doc(rng, size=rng.randint(4, 8))
        tmpl = rng.choice(rd.TEMPLATES)
        for split in range(-10, 7):
            cfg = rd.gen_cfg(rng, renderer=rname, split=split, template=tmpl)
            out.append(('split-levels-own', {'doc': doc, 'cfg': cfg}))
    # the known finding is exercised once it is listed in known_findings.json (until then the stream would fail the check)
    if any(k.get('id') == NBSP_ID for k in core.load_known(ID)) or os.environ.get('VERIF_C13_NBSP'):
        out += nbsp_cases()
    return out


NBSP_ID = 'C13-word-limit-reintroduces-blank'


def nbsp_cases():
    """$title(n) on a title with a no-break space while the blank is forbidden: the known finding NBSP_ID"""
    out = []
    for rname, tmpl in (('html5', '[$id, $title(2), sect$num]'), ('xhtml', 'index [$title(3)-$num(2)]')):
        doc = {'cls': 'article', 'items': [['par', [['w', 1]]], ['sec', 'section', 0, [1, 2, 3], None, '~'], ['par', [['w', 2], ['w', 3]]],
                                          ['sec', 'section', 0, [4, 5], 's2', '~'], ['par', [['w', 4]]]]}
        cfg = dict(renderer=rname, split=1, filename=tmpl, bad=None, base='', tocdepth=3, tocnonfiles=False, crumbs=False, localtoc=False)
        out.append(('word-limit-blank', {'doc': doc, 'cfg': cfg}))
    return out


def search_streams(rng, tier):
    return [('search', {'doc': rd.gen_doc(rng), 'cfg': rd.gen_cfg(rng)}) for _ in range(60)]


def model_input(case):
    return rd.model_input(case, 13)


def describe(case):
    return rd.describe(case)


def shrink(case):
    return rd.shrink(case)


def crash_code(rec):
    if rec.get('exc') == 'ValueError' and 'Filename could not be created' in rec.get('msg', ''):
        return 1
    if rec.get('exc') == 'ValueError' and 'placeholder' in rec.get('msg', '').lower():
        return 2
    if rec.get('exc') == 'IndexError' and 'pop from empty list' in rec.get('msg', ''):
        return 3
    return None


def section_ids(tree):
    return {n[4]: n for n, _ in rd.tree_nodes(tree) if n[1] == rd.K_SECTION and n[4] is not None}


def observe(rec):
    """the C13 observation of a record, in the shape of the Model's answer"""
    if rec is None:
        return ['harness-error']
    st = rec.get('status')
    if st == 'hang':
        return ['hang']
    if st == 'harness-error':
        return ['harness-error', rec.get('msg', '')[-300:]]
    if st == 'raise':
        k = crash_code(rec)
        return [-2, k] if k is not None else ['raise', rec.get('exc'), rec.get('msg')]
    sids = section_ids(rec['tree'])
    files = []
    for name in sorted(rec['files']):
        f = rec['files'][name]
        files.append([rd.S(name), f['words'], [h[0] for h in f['heads'] if h[0] in sids]])
    return [0, [[s, rd.ostr(fn)] for s, fn in rec['assign']], files]


def run_impl(case):
    return observe(rd.record(case))


def model_view(case, mo, rec):
    """the Model's answer with files sorted by name and headings as ids"""
    if not (isinstance(mo, list) and mo[:1] == [0] and len(mo) == 3):
        return mo
    by_ser = {n[0]: n for n, _ in rd.tree_nodes(rec['tree'])} if rec and 'tree' in rec else {}
    files = sorted(([f[0], f[1], [by_ser.get(s, [None] * 5)[4] for s in f[2]]] for f in mo[2]), key=lambda f: f[0])
    return [0, mo[1], files]


def is_single(template):
    t = template.strip()
    return ' ' not in t and '[' not in t


def in_domain(case):
    """templates with a fail-safe alternative, as the property's quantifier says ("containing a wildcard part" ... or a single file)"""
    return case['cfg']['filename'] in rd.TEMPLATES or case['cfg']['filename'] in rd.SINGLE_TEMPLATES


def oracle(case, rec):
    """the property text evaluated on the implementation's own output.  returns None or (key, what)"""
    cfg = case['cfg']
    eff = rd.effective_config(case)
    tree = rec['tree']
    docenv = rd.docenv_of(tree)
    if docenv is None:
        return None
    split = -10 if is_single(eff['filename']) else eff['split']
    assigned = {s: fn for s, fn in rec['assign'] if fn is not None}
    nodes = list(rd.tree_nodes(docenv))
    # (a) who has a file
    for n, chain in nodes:
        if n[2] <= split and n[0] not in assigned:
            return ('C13:unit-without-own-file', 'the %s %r (level %d <= split level %d) has no file of its own' % (n[8], n[6], n[2], split))
        if n[2] > split and n[0] in assigned:
            return ('C13:file-for-deeper-unit', 'the %s %r (level %d > split level %d) was given the file %s' % (n[8], n[6], n[2], split, assigned[n[0]]))
    # (b) names
    deferred = None
    names = list(assigned.values())
    if len(set(names)) != len(names):
        dup = sorted(x for x in set(names) if names.count(x) > 1)
        return ('C13:duplicate-filename', 'file name issued twice: %s' % dup)
    bad = set(eff['bad'])
    if not (bad & set('0123456789')):
        # the literal text of the template is the user's own choice; its syntax ($var, ${var}, (n), brackets, commas, blanks) is not text
        lit = re.sub(r'\$\{?\w+\}?(\(\s*\d+\s*\))?', '', eff['filename'])
        literal = set(ch for ch in lit if not ch.isspace() and ch not in '[],') | set(eff['ext']) | set(eff['badsub'])
        for fn in names:
            stem = fn[:-len(eff['ext'])] if eff['ext'] and fn.endswith(eff['ext']) else fn
            b = (set(stem) & bad) - literal
            if b:
                v = ('C13:forbidden-character', 'file name %r contains the forbidden character(s) %r' % (fn, ''.join(sorted(b))))
                if b == {' '} and re.search(r'\$\{?\w+\}?\(\s*\d+\s*\)', eff['filename']):
                    # the words of $x(n) are joined by blanks after the substitution: a known finding.  It is reported only when
                    # nothing else is wrong with the case, so that it cannot hide another violation
                    deferred = deferred or (v[0] + ':word-limit-blank', v[1])
                else:
                    return v
    # (c) files on disk
    ondisk = set(rec['files'])
    if ondisk != set(names):
        return ('C13:files-on-disk', 'assigned names %s, files written %s' % (sorted(set(names) - ondisk), sorted(ondisk - set(names))))
    # (d) text
    body = {s: [] for s in assigned}
    notes = {s: {} for s in assigned}
    for w, chain in rd.tree_leaves(docenv):
        owner, foot = None, None
        for a in chain:
            if a[0] in assigned:
                owner = a[0]
                break
            if a[1] == rd.K_FOOTNOTE and foot is None:
                foot = a[0]
        if owner is None:
            continue
        if foot is None:
            body[owner].append(w)
        else:
            notes[owner].setdefault(foot, []).append(w)
    allwords = [w for w, _ in rd.tree_leaves(docenv)]
    seen = {}
    for name, f in rec['files'].items():
        for w in f['words']:
            seen.setdefault(w, []).append(name)
    for w in allwords:
        if w not in seen:
            return ('C13:text-lost', 'the text %s of the document is in no output file' % rd.word_name(w))
        if len(seen[w]) > 1:
            return ('C13:text-repeated', 'the text %s appears %d times: %s' % (rd.word_name(w), len(seen[w]), seen[w]))
    order = {f: i for i, f in enumerate(rec.get('fnotes', []))}
    for s, fn in assigned.items():
        exp = body[s] + [w for f in sorted(notes[s], key=lambda f: order.get(f, 10 ** 9)) for w in notes[s][f]]
        got = rec['files'][fn]['words']
        if got != exp:
            if sorted(got) != sorted(exp):
                return ('C13:text-in-wrong-file', 'file %s should hold the words %s of its unit, it holds %s' % (fn, exp, got))
            return ('C13:text-out-of-order', 'file %s holds its words in the order %s, document order (footnotes last) is %s' % (fn, got, exp))
    # (e) headings: every unit's heading is in the file of its nearest file-producing ancestor-or-self, with its title
    sids = section_ids(tree)
    where = {}
    for name, f in rec['files'].items():
        for hid, tw in f['heads']:
            if hid in sids:
                where.setdefault(hid, []).append((name, tw))
    for n, chain in nodes:
        if n[1] == rd.K_SECTION and n[4] is not None:
            own = next((a[0] for a in (n,) + chain if a[0] in assigned), None)
            if own is None:
                continue
            got = where.get(n[4], [])
            tw = [int(x) for x in rd.T_RE.findall(n[6] or '')]
            if [g for g in got] != [(assigned[own], tw)]:
                return ('C13:unit-in-wrong-file', 'the heading of %s %r belongs in %s, found %s' % (n[8], n[6], assigned[own], got))
    # (f) the same on every run
    sec = rec.get('second') or {}
    if sec.get('status') != 'ok' or sec.get('files') != rec.get('digests'):
        return ('C13:not-deterministic', 'a second render of the same input, in an interpreter that had processed another document before, wrote different files: %s vs %s' % (
            sorted((sec.get('files') or {}).items())[:6], sorted((rec.get('digests') or {}).items())[:6]))
    return deferred


def judge(case, io, mo):
    mo, flag = rd.unwrap(mo)
    if flag is not None and io[:1] == [0]:
        PREMISES[flag] = PREMISES.get(flag, 0) + 1
    rec = rd.record(case, render_if_missing=False)
    if io[:1] in (['hang'], ['harness-error']) or rec is None:
        return dict(violation=False, key='C13:no-render', what='no render record: %s' % (io,))
    mv = model_view(case, mo, rec)
    if io[:1] == [-2] or io[:1] == ['raise']:
        if mv == io:
            if in_domain(case):
                return dict(violation=True, key='C13:render-raises:%s' % rec.get('exc'), expected='the files of the document',
                            what='Renderer.render raises %s: %s (the Model of the code predicts it: Filenames.py before notes/C15/fix-2.diff)' % (rec.get('exc'), rec.get('msg')))
            return None
        return dict(violation=in_domain(case), key='C13:render-raises:%s' % rec.get('exc'), expected=mv,
                    what='Renderer.render raises %s: %s' % (rec.get('exc'), rec.get('msg')))
    v = oracle(case, rec)
    if v is not None:
        return dict(violation=True, key=v[0], expected=mv, what=v[1])
    if mv == io:
        return None
    if mo == [-4]:
        return dict(violation=False, key='C13:template-unmodelled', what='the filename template is outside the modelled grammar')
    part = 'assignment' if (isinstance(mv, list) and len(mv) == 3 and mv[1] != io[1]) else 'files'
    return dict(violation=False, key='C13:model-mismatch:' + part, expected=mv,
                what='the implementation satisfies the property on this input but differs from the Model (%s)' % part)


def nontrivial(case, io):
    return isinstance(io, list) and io[:1] == [0] and len(io[2]) >= 2 and sum(len(f[1]) for f in io[2]) >= 10


def tags(case, io):
    c = case['cfg']
    t = ['renderer=' + c['renderer'], 'split=%d' % c['split']]
    if io[:1] == [0]:
        n = len(io[2])
        t.append('files=%s' % (n if n < 4 else '4-7' if n < 8 else '8+'))
        if any(f[1] for f in io[2]):
            t.append('has-text')
    elif io[:1] == [-2]:
        t.append('impl-raises')
    else:
        t.append('impl-other')
    if is_single(c['filename']):
        t.append('single-file-template')
    rec = rd.record(case, render_if_missing=False)
    if rec is not None and rec.get('status') == 'ok':
        sec = rec.get('second') or {}
        t.append('rendered-twice=' + ('identical' if sec.get('status') == 'ok' and sec.get('files') == rec.get('digests') else 'DIFFERENT'))
    return t
