"""C19 -- ifthen tests evaluate as the boolean expression they spell.
Correspondence: plasTeX \\ifthenelse / \\whiledo (real package from /repo) vs Model/Ifthen.v."""
from fractions import Fraction
import itertools

ID = 'C19'
PINS = [('plasTeX/Packages/ifthen.py', 'ifthenelse.evaluate'), ('plasTeX/Packages/ifthen.py', 'ifthenelse.prec'),
        ('plasTeX/Packages/ifthen.py', 'ifthenelse.invoke'), ('plasTeX/Packages/ifthen.py', 'whiledo.invoke'),
        ('plasTeX/Packages/ifthen.py', 'lengthtest.invoke'), ('plasTeX/Packages/ifthen.py', 'isodd.invoke'),
        ('plasTeX/Packages/ifthen.py', 'equal.invoke')]
RULE = ('expression trees of the grammar atom/term/expr (comparisons over literals, macro-produced numbers and counters; '
        '\\boolean, \\isodd, \\equal, \\isundefined, \\lengthtest atoms; \\not anywhere an operand may appear; \\( \\) grouping; '
        'left-associated \\and/\\or) enumerated exhaustively to a size bound and generated randomly beyond it, printed with random '
        'blanks and upper/lower-case operator spellings; the two branches written as {T}{F}, with an empty then- or else-branch, or as '
        'side effects on a counter; \\whiledo loops with 0-6 iterations; a malformed stream of raw token '
        'lists. Non-trivial = the tree contains at least one of \\not/\\and/\\or (or a loop that iterates at least once).')
TRUSTED = ['modelled, not verified: TeX.readNumber on the digit run of a literal (C05), expansion of \\value and user macros to '
           'their digits, the dimension reader used by \\lengthtest (exact rationals in the Model, floats in the code)']
ASSUMPTIONS = ['operands are integer literals |n| < 10^6, lengths use pt/cm/mm/in with at most 3 decimals']
CASE_TIMEOUT = 10


def gen_tables(repo, gen_dir):
    from translate import ifthen_prec
    d = ifthen_prec.generate(repo, gen_dir)
    return dict(obligations=0, file='Gen/IfthenPrec.v', prec=d)

REL = {'<': 0, '>': 1, '=': 2}
UNITS = {'pt': Fraction(65536), 'cm': Fraction(7227, 254) * 65536, 'mm': Fraction(7227, 2540) * 65536, 'in': Fraction(7227, 100) * 65536}


# ---- trees ----------------------------------------------------------------------------------------
# atom: ['cmp', op, rel, op] | ['bool', b] | ['isodd', z] | ['equal', s1, s2] | ['undef', b] | ['len', (n, unit), rel, (n, unit)] | ['paren', expr]
# term: ['atom', a] | ['not', term, spelling]
# expr: ['term', t] | ['and', e, t, spelling] | ['or', e, t, spelling]
# op:   ['lit', z] | ['mac', z] | ['cnt', z] | ['var']        (var = the loop counter)

def _letters(n):
    s = ''
    while True:
        s = 'abcdefghijklmnopqrstuvwxyz'[n % 26] + s
        n = n // 26 - 1
        if n < 0:
            return 'q' + s


def print_tree(e, sp, names=None):
    """-> (latex, preamble list).  sp: iterator of blank strings"""
    pre = []
    names = itertools.count() if names is None else names

    def op(o):
        if len(o) > 2 and o[2]:
            # a run of signs in front of the operand; the operand value stored in the tree is the value AFTER the signs
            # were applied, the printed magnitude is that value with the signs taken off again
            signs = o[2]
            inner = o[1] * (-1 if signs.count('-') % 2 else 1)
            return signs + op([o[0], inner])
        if o[0] == 'lit':
            return str(o[1])
        if o[0] == 'mac':
            n = 'num' + _letters(next(names))
            pre.append('\\newcommand{\\%s}{%d}' % (n, o[1]))
            return '\\%s ' % n
        if o[0] == 'cnt':
            n = 'cnt' + _letters(next(names))
            pre.append('\\newcounter{%s}\\setcounter{%s}{%d}' % (n, n, o[1]))
            return '\\value{%s}' % n
        if o[0] == 'var':
            return '\\value{loopc}'
        raise ValueError(o)

    def atom(a):
        k = a[0]
        if k == 'cmp':
            return op(a[1]) + next(sp) + a[2] + next(sp) + op(a[3])
        if k == 'bool':
            return '\\boolean{%s}' % ('flagyes' if a[1] else 'flagno')
        if k == 'isodd':
            return '\\isodd{%d}' % a[1]
        if k == 'equal':
            return '\\equal{%s}{%s}' % (a[1], a[2])
        if k == 'undef':
            return '\\isundefined{\\%s}' % ('zzundefined' if a[1] else 'zzdefined')
        if k == 'len':
            # a[4] (printing choice, same meaning): per operand 0 = literal, 1 = through a \newdimen register,
            # 2 = a register holding the NEGATED length, written with a minus sign in front
            how = a[4] if len(a) > 4 else (0, 0)

            def length(d, h):
                if not h:
                    return '%s%s' % (d[0], d[1])
                n = 'len' + _letters(next(names))
                pre.append('\\newdimen\\%s \\%s=%s%s%s\\relax ' % (n, n, '-' if h == 2 else '', d[0], d[1]))
                return ('-' if h == 2 else '') + '\\%s' % n
            return '\\lengthtest{%s%s%s}' % (length(a[1], how[0]), a[2], length(a[3], how[1]))
        if k == 'paren':
            return '\\(' + next(sp) + expr(a[1]) + next(sp) + '\\)'
        raise ValueError(a)

    def term(t):
        if t[0] == 'atom':
            return atom(t[1])
        return '\\' + t[2] + ' ' + next(sp) + term(t[1])

    def expr(e):
        if e[0] == 'term':
            return term(e[1])
        return expr(e[1]) + next(sp) + '\\' + e[3] + ' ' + next(sp) + term(e[2])
    return expr(e), pre


def dec(s):
    return Fraction(s)


def wire_tree(e):
    def op(o):
        return [1, 0] if o[0] == 'var' else [0, o[1]]

    def atom(a):
        k = a[0]
        if k == 'cmp':
            return [0, op(a[1]), REL[a[2]], op(a[3])]
        if k in ('bool', 'undef'):
            return [1, 1 if a[1] else 0]
        if k == 'isodd':
            return [3, [0, a[1]]]
        if k == 'equal':
            return [4, [ord(c) for c in a[1]], [ord(c) for c in a[2]]]
        if k == 'len':
            x = dec(a[1][0]) * UNITS[a[1][1]]
            y = dec(a[3][0]) * UNITS[a[3][1]]
            return [5, x.numerator, x.denominator, REL[a[2]], y.numerator, y.denominator]
        return [2, expr(a[1])]

    def term(t):
        return [0, atom(t[1])] if t[0] == 'atom' else [1, term(t[1])]

    def expr(e):
        if e[0] == 'term':
            return [0, term(e[1])]
        return [1 if e[0] == 'and' else 2, expr(e[1]), term(e[2])]
    return expr(e)


def ops_count(e):
    if not isinstance(e, list):
        return 0
    return (1 if e and e[0] in ('not', 'and', 'or') else 0) + sum(ops_count(x) for x in e[1:])


# ---- generation -----------------------------------------------------------------------------------

def rand_op(rng, var=False):
    r = rng.random()
    z = rng.choice([0, 1, 2, 3, 5, 7, 10, 12, 99, 100, -1, -4, rng.randint(-1000, 1000)])
    if var and r < 0.5:
        return ['var']
    signs = rng.choice(['', '', '', '', '-', '--', '+', '+-', '-+-', '- -']) if rng.random() < 0.5 else ''
    if r < 0.6:
        return ['lit', z, signs]
    if r < 0.8:
        return ['mac', z, signs]
    return ['cnt', z, signs]


def rand_atom(rng, depth, var=False):
    r = rng.random()
    if depth > 0 and r < 0.25:
        return ['paren', rand_expr(rng, depth - 1, var)]
    if r < 0.6:
        return ['cmp', rand_op(rng, var), rng.choice('<>='), rand_op(rng, var)]
    if r < 0.68:
        return ['bool', rng.random() < 0.5]
    if r < 0.76:
        return ['isodd', rng.choice([0, 1, 2, 3, 7, 10, -3, -2, rng.randint(-50, 50)])]
    if r < 0.84:
        a = rng.choice(['a', 'ab', 'abc', 'x', ''])
        b = a if rng.random() < 0.5 else rng.choice(['a', 'ab', 'abd', 'y', ''])
        return ['equal', a, b]
    if r < 0.9:
        return ['undef', rng.random() < 0.5]
    pairs = [(('1', 'cm'), ('10', 'mm')), (('1', 'in'), ('72.27', 'pt')), (('2.54', 'cm'), ('1', 'in')), (('1', 'pt'), ('2', 'pt')),
             (('3', 'mm'), ('0.2', 'cm')), (('10', 'pt'), ('10', 'pt')), (('1.5', 'cm'), ('15', 'mm')), (('0', 'pt'), ('0', 'mm'))]
    x, y = rng.choice(pairs)
    if rng.random() < 0.5:
        x, y = y, x
    return ['len', x, rng.choice('<>='), y, (rng.choice([0, 0, 1, 2]), rng.choice([0, 0, 1, 2]))]


def rand_term(rng, depth, var=False):
    if rng.random() < 0.3:
        return ['not', rand_term(rng, depth, var), rng.choice(['not', 'NOT'])]
    return ['atom', rand_atom(rng, depth, var)]


def rand_expr(rng, depth, var=False):
    e = ['term', rand_term(rng, depth, var)]
    while rng.random() < (0.5 if depth > 0 else 0.3):
        if rng.random() < 0.5:
            e = ['and', e, rand_term(rng, depth, var), rng.choice(['and', 'AND'])]
        else:
            e = ['or', e, rand_term(rng, depth, var), rng.choice(['or', 'OR'])]
    return e


def enum_exprs(budget):
    """all trees with at most `budget` operator/paren nodes over two atoms (a true and a false comparison)"""
    atoms0 = [['cmp', ['lit', 1], '<', ['lit', 2]], ['cmp', ['lit', 3], '<', ['lit', 2]]]

    def atoms(n):
        if n == 0:
            return list(atoms0)
        return [['paren', e] for e in exprs(n - 1)]

    def terms(n):
        out = [['atom', a] for a in atoms(n)]
        if n > 0:
            out += [['not', t, 'not'] for t in terms(n - 1)]
        return out

    def exprs(n):
        out = [['term', t] for t in terms(n)]
        for k in range(n):
            for e in exprs(k):
                for t in terms(n - 1 - k):
                    out.append(['and', e, t, 'and'])
                    out.append(['or', e, t, 'or'])
        return out
    memo = []
    for n in range(budget + 1):
        memo += exprs(n)
    return memo


def spaces(rng):
    while True:
        yield rng.choice(['', '', ' ', ' ', '  '])


TOKS = ['num', 'bool', 'rel', 'and', 'or', 'not', 'lp', 'rp', 'sp', 'junk']


def rand_raw(rng):
    n = rng.randint(0, 7)
    out = []
    for _ in range(n):
        k = rng.choice(TOKS)
        if k == 'num':
            out.append(['num', rng.randint(0, 20)])
        elif k == 'bool':
            out.append(['bool', rng.random() < 0.5])
        elif k == 'rel':
            out.append(['rel', rng.choice('<>=')])
        else:
            out.append([k])
    return out


def print_raw(toks):
    s = []
    for t in toks:
        k = t[0]
        s.append({'num': lambda: ' %d ' % t[1], 'bool': lambda: '\\boolean{%s}' % ('flagyes' if t[1] else 'flagno'), 'rel': lambda: t[1],
                  'and': lambda: '\\and ', 'or': lambda: '\\or ', 'not': lambda: '\\not ', 'lp': lambda: '\\(', 'rp': lambda: '\\)',
                  'sp': lambda: ' ', 'junk': lambda: 'x'}[k]())
    return ''.join(s)


def wire_raw(toks):
    # consecutive "num" tokens are separated by blanks in the printed form; the printed ' n ' adds TSpace tokens, harmless
    out = []
    for t in toks:
        k = t[0]
        if k == 'num':
            out += [8, [0, t[1]], 8]
        elif k == 'bool':
            out.append([1, 1 if t[1] else 0])
        elif k == 'rel':
            out.append([2, REL[t[1]]])
        else:
            out.append({'and': 3, 'or': 4, 'not': 5, 'lp': 6, 'rp': 7, 'sp': 8, 'junk': 9}[k])
    return out


def streams(rng, tier, boost):
    out = []
    # exhaustive small scope
    bound = 3 if tier == 'quick' else 4
    if boost > 1:
        bound += 0
    for e in enum_exprs(bound):
        out.append(('exhaustive', dict(kind='expr', tree=e, blanks=0)))
    n = (400 if tier == 'quick' else 4000) * boost
    for i in range(n):
        d = rng.choice([1, 2, 2, 3, 3, 4])
        out.append(('random', dict(kind='expr', tree=rand_expr(rng, d), blanks=rng.randint(1, 10 ** 6), br=rng.choice([0, 0, 1, 2, 3]))))
    for i in range((60 if tier == 'quick' else 400) * boost):
        c0 = rng.randint(0, 3)
        step = rng.randint(1, 2)
        iters = rng.randint(0, 6)
        nmax = c0 + step * iters - rng.randint(0, step - 1) if iters else rng.randint(-2, c0)
        guard = ['cmp', ['var'], '<', ['lit', nmax]]
        e = ['term', rand_term(rng, 1, var=True)] if rng.random() < 0.5 else None
        if e is None:
            tree = ['term', ['atom', guard]]
        else:
            # (e \or \not e) \and guard  -- always terminates, exercises the loop variable in sub-tests
            tree = ['and', ['or', e, ['not', ['atom', ['paren', e]], 'not'], 'or'], ['atom', guard], 'and']
        inner = rand_expr(rng, 1, var=True) if rng.random() < 0.6 else None
        if rng.random() < 0.5:   # redundant parentheses around the whole test
            tree = ['term', ['atom', ['paren', tree]]]
        out.append(('whiledo', dict(kind='loop', c0=c0, step=step, tree=tree, inner=inner, blanks=rng.randint(1, 10 ** 6), br=rng.choice([0, 0, 1, 2, 3]))))
    for i in range((150 if tier == 'quick' else 1500) * boost):
        out.append(('malformed', dict(kind='raw', toks=rand_raw(rng))))
    return out


def search_streams(rng, tier):
    return [('search', dict(kind='expr', tree=rand_expr(rng, rng.choice([2, 3, 4])), blanks=rng.randint(1, 10 ** 6), br=rng.choice([0, 1, 2, 3]))) for _ in range(3000)]


PREAMBLE = ('\\usepackage{ifthen}\\newboolean{flagyes}\\setboolean{flagyes}{true}\\newboolean{flagno}\\setboolean{flagno}{false}'
            '\\newcommand{\\zzdefined}{}')


# how the two branches are written (a printing choice; the selected branch is recognised by its marker or by the counter):
#   0: {T}{F}   1: {}{F} (empty then-branch)   2: {T}{} (empty else-branch)
#   3: both branches carry a side effect, {\setcounter{brc}{1}}{\setcounter{brc}{2}}, and no text
def branches(br, t, f):
    if br == 1:
        return '{}{%s}' % f
    if br == 2:
        return '{%s}{}' % t
    if br == 3:
        return '{\\setcounter{brc%s}{1}}{\\setcounter{brc%s}{2}}' % (t, t)
    return '{%s}{%s}' % (t, f)


def branch_tail(br, t):
    return ('Z\\arabic{brc%s}' % t) if br == 3 else ''


def source(case):
    import random
    br = case.get('br', 0)
    if case['kind'] == 'raw':
        return PREAMBLE + '\\ifthenelse{' + print_raw(case['toks']) + '}{T}{F}'
    sp = spaces(random.Random(case['blanks'])) if case['blanks'] else itertools.repeat('')
    names = itertools.count()
    body, pre = print_tree(case['tree'], sp, names)
    if case['kind'] == 'expr':
        return (PREAMBLE + ('\\newcounter{brcT}' if br == 3 else '') + ''.join(pre) + '\\ifthenelse{' + body + '}' + branches(br, 'T', 'F')
                + branch_tail(br, 'T'))
    inner = ''
    if case.get('inner') is not None:
        ibody, ipre = print_tree(case['inner'], sp, names)
        pre = pre + ipre
        # (style 3 is not used inside the loop body: the observation there is the sequence of markers)
        inner = '\\ifthenelse{' + ibody + '}' + branches(br if br != 3 else 0, 'Y', 'N')
    return (PREAMBLE + ''.join(pre) + '\\newcounter{loopc}\\setcounter{loopc}{%d}' % case['c0'] +
            '\\whiledo{' + body + '}{X' + inner + '\\addtocounter{loopc}{%d}}' % case['step'] + 'E\\arabic{loopc}')


def describe(case):
    return source(case)


def model_input(case):
    if case['kind'] == 'expr':
        return [0, wire_tree(case['tree'])]
    if case['kind'] == 'raw':
        return [1, wire_raw(case['toks'])]
    if case.get('inner') is not None:
        return [3, case['c0'], case['step'], wire_tree(case['tree']), wire_tree(case['inner'])]
    return [2, case['c0'], case['step'], wire_tree(case['tree'])]


def worker_init():
    import texrun
    texrun.quiet()


def run_impl(case):
    import texrun
    try:
        doc, tex = texrun.parse(source(case))
    except (IndexError, ValueError) as e:
        return [-2, 0]
    txt = texrun.text_nospace(doc)
    br = case.get('br', 0)
    if case['kind'] == 'loop':
        import re
        m = re.fullmatch(r'((?:X[YN]?)*)E(-?\d+)', txt)
        if m:
            if case.get('inner') is not None:
                # with an empty branch the missing marker is the observation
                seq = re.findall(r'X([YN]?)', m.group(1))
                if br == 1 and 'Y' not in seq:
                    seq = ['Y' if x == '' else x for x in seq]
                elif br == 2 and 'N' not in seq:
                    seq = ['N' if x == '' else x for x in seq]
                if '' in seq:
                    return ['text', txt]
                return [0, m.group(1).count('X'), int(m.group(2)), [1 if ch == 'Y' else 0 for ch in seq]]
            return [0, m.group(1).count('X'), int(m.group(2))]
        return ['text', txt]
    if br == 1 and txt in ('', 'F'):
        return [0, 1 if txt == '' else 0]
    if br == 2 and txt in ('T', ''):
        return [0, 1 if txt == 'T' else 0]
    if br == 3 and txt in ('Z1', 'Z2'):
        return [0, 1 if txt == 'Z1' else 0]
    if br == 0 and txt in ('T', 'F'):
        return [0, 1 if txt == 'T' else 0]
    return ['text', txt]


def nontrivial(case, io):
    if case['kind'] == 'raw':
        return len(case['toks']) >= 2
    if case['kind'] == 'loop':
        return isinstance(io, list) and len(io) >= 3 and io[0] == 0 and io[1] >= 1
    return ops_count(case['tree']) >= 1


def tags(case, io):
    t = [case['kind']]
    if isinstance(io, list) and io[:1] == [-2]:
        t.append('impl-raises')
    if case['kind'] == 'expr':
        t.append('ops=%d' % min(ops_count(case['tree']), 8))
    if case['kind'] == 'loop' and isinstance(io, list) and len(io) >= 3 and io[0] == 0:
        t.append('iterations=%d' % io[1])
    return t


def judge(case, io, mo):
    if io == mo:
        return None
    if mo == [-3]:      # the Model ran out of its 64 iterations of fuel: not a statement about the code
        return None if io == ['hang'] else dict(violation=False, key='C19:model-fuel', what='model out of fuel')
    structured = case['kind'] in ('expr', 'loop')
    return dict(violation=structured,
                key='C19:' + case['kind'] + (':impl-raises' if io[:1] in ([-2], ['raise']) else ':wrong-value'),
                expected=mo, what='implementation %s, the expression denotes %s' % (io, mo))


def shrink(case):
    if case['kind'] == 'raw':
        for i in range(len(case['toks'])):
            yield dict(kind='raw', toks=case['toks'][:i] + case['toks'][i + 1:])
        return
    simple = ['cmp', ['lit', 1], '<', ['lit', 2]]

    def subs(e):
        """yield smaller variants of tree e"""
        k = e[0]
        if k in ('and', 'or'):
            yield e[1]
            yield ['term', e[2]]
            for s in subs(e[1]):
                yield [k, s, e[2], e[3]]
            for s in subs_t(e[2]):
                yield [k, e[1], s, e[3]]
        elif k == 'term':
            for s in subs_t(e[1]):
                yield ['term', s]

    def subs_t(t):
        if t[0] == 'not':
            yield t[1]
            for s in subs_t(t[1]):
                yield ['not', s, t[2]]
        else:
            a = t[1]
            if a[0] == 'paren':
                if a[1][0] == 'term':
                    yield a[1][1]
                for s in subs(a[1]):
                    yield ['atom', ['paren', s]]
            elif a != simple:
                yield ['atom', simple]
    if case.get('blanks'):
        yield dict(case, blanks=0)
    if case['kind'] == 'loop':
        # keep the terminating guard (last conjunct); shrink only the rest
        t = case['tree']
        if case.get('inner') is not None:
            yield dict(case, inner=None)
            for s2 in subs(case['inner']):
                yield dict(case, inner=s2)
        if t[0] == 'and':
            yield dict(case, tree=['term', t[2]])
            for s in subs(t[1]):
                yield dict(case, tree=['and', s, t[2], t[3]])
        return
    for s in subs(case['tree']):
        yield dict(case, tree=s)
