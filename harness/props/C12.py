"""C12 -- Rendered HTML never turns document text into markup.

Correspondence between Model/HtmlEsc.v (+ Spec/HtmlSpec.v) and the real renderers:

  td     PageTemplate.textDefault on a Text node (isMarkup on/off)                     vs  text_default
  pfc    PageTemplate.processFileContent (image-placeholder regex, high characters)    vs  post
  esc    markupsafe.escape (Jinja2 "e") / html.escape (simpleTAL)                      vs  escape_e / escape_html
  tok    html.parser on adversarial strings                                            vs  the Spec tokenizer (Spec validation)
  tree   Renderable.__str__ on hand-built DOM trees with synthetic Jinja2 templates    vs  render / node_str
  doc    the real HTML5 (default, minimal) and XHTML (default, minimal, plain, python) renderers on generated documents whose
         text leaves carry an adversarial payload between alphanumeric markers, in every text-bearing position; the output
         is parsed with html.parser and compared (a) with the payloads (the property), (b) with a twin document whose payloads
         are harmless (element / attribute inventory), (c) with the Model's predicted raw characters per leaf.
"""
import html as _html
import html.parser
import os
import re

ID = 'C12'
PT = 'plasTeX/Renderers/PageTemplate/__init__.py'
RI = 'plasTeX/Renderers/__init__.py'
PINS = [(PT, 'PageTemplate.textDefault'), (PT, 'PageTemplate.processFileContent'), (PT, 'PageTemplate.setImageData'),
        (RI, 'Renderable.__str__'), (RI, 'Renderer.cleanup'),
        ('plasTeX/Renderers/HTML5/__init__.py', 'HTML5.processFileContent'),
        ('plasTeX/Renderers/XHTML/__init__.py', 'XHTML.processFileContent'),
        ('plasTeX/DOM/__init__.py', 'Node.textContent')]
RULE = ('text leaves = alphanumeric marker + payload + marker, payload a concatenation of 1-6 atoms of an adversarial alphabet '
        '(< > & " \' ; # =, tag-like, comment/CDATA/PI openers, script and event-handler strings, entity-like strings with and '
        'without semicolon, numeric references, image-placeholder look-alikes, non-ASCII incl. no-break space, astral and '
        'case-folding specials); placed in running text, \\emph/\\textbf, section/subsection/paragraph titles (with inline '
        'markup), captions, footnotes, itemize/enumerate/description items and terms, tabular cells, quote, verbatim '
        'environments and \\verb; x renderer/theme x escape-high-chars x output encoding x charsubs. Function level: all '
        'strings over a 9-symbol alphabet up to length 4 (5 in the thorough tier) through textDefault and processFileContent, '
        'random adversarial strings, image tables. Non-trivial = the payload contains a markup metacharacter or a non-ASCII '
        'character.')
TRUSTED = ['modelled, not verified: Python str.replace / re.sub (leftmost match, greedy \\S+ with backtracking, as transcribed in '
           'sub_placeholder), str.isspace table, %-formatting of integers; Jinja2 and simpleTAL evaluation of a template is '
           'abstracted to a list of pieces (Lit / RenderChild / RenderAttr / RawString / EscString), tied by the tree and doc streams '
           'and by Gen/Templates.v (classification of every template expression, thorough tier)',
           'html.parser (Python 3.12) is the reference HTML parser of the judge; the Coq Spec tokenizer (WHATWG data state, tags, '
           'comments, character references) is compared with it on every run (stream tok)',
           'named character references: theorems hold for every well-formed table containing amp; lt; gt; (quot;); the extracted '
           'Model computes with the 20-entry table core_ents']
ASSUMPTIONS = ['text consists of Unicode scalar values; C1 controls U+0080-U+009F are excluded from the high-character theorem '
               '(HTML remaps their numeric references, see C12_highchars_c1_refuted) and from the generated alphabet except in the '
               'dedicated stream', 'imager = none (no image files are produced); image tables only at function level',
               'the output encoding can represent the document (otherwise the first write raises UnicodeEncodeError, modelled)']
CASE_TIMEOUT = 60

MA, MB = 'QZ%dA', 'QZ%dB'
MARK = re.compile(r'QZ(\d+)A(.*?)QZ\1B', re.S)


def S(s):
    return [ord(c) for c in s]


def unS(l):
    return ''.join(chr(c) for c in l)


def wsnorm(s):
    return ' '.join(s.split())


def wsnorm_in(p):
    """what Jinja2's striptags (whitespace runs -> one blank) leaves of a payload that stands between two markers"""
    return ' '.join(('A' + p + 'B').split())[1:-1]


# ---- alphabet -------------------------------------------------------------------------------------

META = ['<', '>', '&', '"', "'", ';', '#', '=', '/', '-', ' ', 'a', 'x', '1', '!', '?']
TAGLIKE = ['<b>', '</b>', '<script>alert(1)</script>', '<img src=x onerror=alert(1)>', '<!--', '-->', '<![CDATA[', ']]>', '<?php',
           '</p>', '</td>', '</title>', '</pre>', '</li>', '<a href="x">', '<svg/onload=alert(1)>', '<p>', '<br/>', '</span>', '<td>']
ENTLIKE = ['&amp;', '&lt;', '&gt;', '&quot;', '&#60;', '&#x3c;', '&#X3C', '&lt', '&amp', '&nbsp;', '&eacute;', '&copy', '&notit;', '&notin;', '&not',
           '&#', '&#x', '&;', '&&', '&#0;', '&#38;', '&#38', '&apos;', '&#1114112;', '&#55296;']
PLACEH = ['&lt-width;', '&x-height;&pt;', '&img-depth;', '-width;', '&a-width;&px;', '&amp;x-width;', '&images/img-0001.png-width;',
          '&gt-height;', '&amp-depth;', '&x-width;&', '&-width;', '& -width;', '&a-b-width;-height;', '&eacute;-width;']
ATTRBREAK = ['" onmouseover="alert(1)', "' onclick='x", '"><script>', 'javascript:alert(1)', '"/>', '" x="', "'>"]
NONASCII = ['\u00e9', '\u00df', '\u00a0', '\u20ac', '\u2014', '\u4e2d', '\u25bc', '\U0001f600', '\u01c5', '\u017f', '\u212a', '\u2003',
            '\u00ff', '\u0100', '\u00ad', '\ufeff', '\u0301']
LATIN1 = ['\u00e9', '\u00df', '\u00a0', '\u00ff', '\u00ad']
TEXSPECIAL = ['\\', '{', '}', '$', '%', '_', '^', '~']
ALL_ATOMS = META + TAGLIKE + ENTLIKE + PLACEH + ATTRBREAK + NONASCII + TEXSPECIAL

TEXMAP = {'&': '\\&', '#': '\\#', '%': '\\%', '$': '\\$', '_': '\\_', '{': '\\{', '}': '\\}', '\\': '\\textbackslash{}',
          '~': '\\textasciitilde{}', '^': '\\textasciicircum{}'}
CHARSUBS = ['``', "''", '"`', '"\'', '`', "'", '---', '--']


def tex_of(payload):
    return ''.join(TEXMAP.get(c, c) for c in payload)


def rand_payload(rng, encoding='utf-8', charsub=False, verbatim=False):
    n = rng.choice([1, 1, 2, 2, 3, 4, 6])
    pools = [META, META, TAGLIKE, ENTLIKE, PLACEH, ATTRBREAK, NONASCII, TEXSPECIAL]
    out = ''.join(rng.choice(rng.choice(pools)) for _ in range(n))
    return clean_payload(out, encoding, charsub, verbatim)


def clean_payload(out, encoding='utf-8', charsub=False, verbatim=False):
    if encoding in ('latin-1', 'iso-8859-1'):
        out = ''.join(c if ord(c) < 256 else rng_free_sub(c) for c in out)
    elif encoding == 'ascii':
        out = ''.join(c if ord(c) < 128 else 'e' for c in out)
    if charsub:           # the default ligature table is on: keep away from what it rewrites
        out = out.replace("'", '"').replace('`', '"').replace('--', '-=')
        out = out.replace('"\'', '" ').replace('"`', '" ')
    out = re.sub(r' +', ' ', out)
    out = out.replace('\n', ' ').replace('\r', ' ')
    if not verbatim:
        out = out.strip(' ') or 'x'
    return out or 'x'


def rng_free_sub(c):
    return LATIN1[ord(c) % len(LATIN1)]


# ---- documents ------------------------------------------------------------------------------------
# a document is a list of blocks; every string in a block is a payload (one leaf each)
#   ['sec', level, title, [inline kind, inline payload] or None]
#   ['para', [[kind, payload], ...]]        kind in text emph textbf footnote verb
#   ['list', env, [[term or None, payload], ...]]
#   ['tab', [[payload, ...], ...]]
#   ['tabe', payload, payload]     a tabular with empty cells between and after the two leaves
#   ['verbatim', payload]
#   ['float', env, payload]
#   ['quote', payload]
#   ['idx', key, payload]          a paragraph with an \index entry (key: harmless letters); ['printindex'] the index itself

SECS = ['section', 'subsection', 'subsubsection', 'paragraph']


def rand_doc(rng, encoding, charsub):
    def P(verbatim=False):
        return rand_payload(rng, encoding, charsub, verbatim)
    blocks = []
    nsec = rng.choice([1, 2, 2, 3])
    with_index = rng.random() < 0.4
    for s in range(nsec):
        inl = [rng.choice(['emph', 'textbf']), P()] if rng.random() < 0.3 else None
        blocks.append(['sec', 'section', P(), inl])
        for _ in range(rng.choice([1, 2, 3])):
            k = rng.choice(['para', 'para', 'list', 'tab', 'tabe', 'verbatim', 'float', 'quote', 'sub'])
            if with_index and rng.random() < 0.5:
                # an index entry: the index page links back with the (adversarial) title of the enclosing section as tooltip
                blocks.append(['idx', 'k' + rng.choice(['apple', 'banana', 'cherry', 'date']) + rng.choice(['', '!sub', '!other']), P()])
            if k == 'para':
                items = []
                for _ in range(rng.choice([1, 2, 3])):
                    items.append([rng.choice(['text', 'text', 'emph', 'textbf', 'footnote', 'verb']), P()])
                for it in items:
                    if it[0] == 'verb':
                        it[1] = clean_payload(rand_payload(rng, encoding, False, True).replace('|', '!'), encoding, False, True)
                blocks.append(['para', items])
            elif k == 'list':
                env = rng.choice(['itemize', 'enumerate', 'description'])
                # an optional argument ends at the first "]" (TeX's rule, NF-args): none in a term
                blocks.append(['list', env, [[P().replace(']', ')').replace('[', '(') if env == 'description' else None, P()] for _ in range(rng.choice([1, 2, 3]))]])
            elif k == 'tabe':
                blocks.append(['tabe', P(), P()])
            elif k == 'tab':
                w = rng.choice([1, 2, 3])
                blocks.append(['tab', [[P() for _ in range(w)] for _ in range(rng.choice([1, 2]))]])
            elif k == 'verbatim':
                blocks.append(['verbatim', clean_payload(rand_payload(rng, encoding, False, True), encoding, False, True)])
            elif k == 'float':
                blocks.append(['float', rng.choice(['figure', 'table']), P()])
            elif k == 'quote':
                blocks.append(['quote', P()])
            else:
                blocks.append(['sec', rng.choice(SECS[1:]), P(), None])
                blocks.append(['para', [['text', P()]]])
                if with_index:
                    blocks.append(['idx', 'k' + rng.choice(['apple', 'elder', 'fig']), P()])
    if with_index:
        blocks.append(['printindex'])
    return blocks


def doc_leaves(blocks):
    """payloads in source order"""
    out = []
    for b in blocks:
        k = b[0]
        if k == 'sec':
            out.append(b[2])
            if b[3]:
                out.append(b[3][1])
        elif k == 'para':
            out += [it[1] for it in b[1]]
        elif k == 'list':
            for term, p in b[2]:
                if term is not None:
                    out.append(term)
                out.append(p)
        elif k == 'tab':
            for row in b[1]:
                out += row
        elif k in ('verbatim', 'quote'):
            out.append(b[1])
        elif k in ('float', 'idx'):
            out.append(b[2])
        elif k == 'tabe':
            out += [b[1], b[2]]
    return out


def map_leaves(blocks, f):
    """copy of blocks with every payload p replaced by f(index, p)"""
    n = [0]

    def g(p):
        i = n[0]
        n[0] += 1
        return f(i, p)
    out = []
    for b in blocks:
        k = b[0]
        if k == 'sec':
            t = g(b[2])
            out.append(['sec', b[1], t, [b[3][0], g(b[3][1])] if b[3] else None])
        elif k == 'para':
            out.append(['para', [[it[0], g(it[1])] for it in b[1]]])
        elif k == 'list':
            items = []
            for term, p in b[2]:
                t = g(term) if term is not None else None
                items.append([t, g(p)])
            out.append(['list', b[1], items])
        elif k == 'tab':
            out.append(['tab', [[g(c) for c in row] for row in b[1]]])
        elif k in ('verbatim', 'quote'):
            out.append([k, g(b[1])])
        elif k in ('float', 'idx'):
            out.append([k, b[1], g(b[2])])
        elif k == 'printindex':
            out.append(['printindex'])
        elif k == 'tabe':
            x = g(b[1])
            out.append(['tabe', x, g(b[2])])
    return out


def doc_source(blocks, literal=False):
    n = [0]

    def L(p, verb=False):
        i = n[0]
        n[0] += 1
        return (MA % i) + (p if verb else tex_of(p)) + (MB % i)
    src = ['\\documentclass{article}\n\\begin{document}\n']
    for b in blocks:
        k = b[0]
        if k == 'sec':
            t = L(b[2])
            if b[3]:
                t += ' \\%s{%s}' % (b[3][0], L(b[3][1]))
            src.append('\\%s{%s}\n' % (b[1], t))
        elif k == 'para':
            parts = []
            for kind, p in b[1]:
                if kind == 'text':
                    parts.append(L(p))
                elif kind == 'verb':
                    parts.append('\\verb|%s|' % L(p, True))
                else:
                    parts.append('\\%s{%s}' % (kind, L(p)))
            src.append(' '.join(parts) + '\n\n')
        elif k == 'list':
            src.append('\\begin{%s}\n' % b[1])
            for term, p in b[2]:
                if term is not None:
                    src.append('\\item[%s] %s\n' % (L(term), L(p)))
                else:
                    src.append('\\item %s\n' % L(p))
            src.append('\\end{%s}\n\n' % b[1])
        elif k == 'tab':
            w = max(len(r) for r in b[1])
            src.append('\\begin{tabular}{%s}\n' % ('l' * w))
            src.append(' \\\\\n'.join(' & '.join(L(c) for c in row) for row in b[1]))
            src.append('\n\\end{tabular}\n\n')
        elif k == 'verbatim':
            src.append('\\begin{verbatim}\n%s\n\\end{verbatim}\n\n' % L(b[1], True))
        elif k == 'quote':
            src.append('\\begin{quote}%s\\end{quote}\n\n' % L(b[1]))
        elif k == 'float':
            src.append('\\begin{%s}\\caption{%s}\\end{%s}\n\n' % (b[1], L(b[2]), b[1]))
        elif k == 'tabe':
            first = L(b[1])
            src.append('\\begin{tabular}{lll}\n%s & & %s \\\\\n & x & \n\\end{tabular}\n\n' % (first, L(b[2])))
        elif k == 'idx':
            src.append('%s\\index{%s}\n\n' % (L(b[2]), b[1]))
        elif k == 'printindex':
            src.append('\\printindex\n\n')
    src.append('\\end{document}\n')
    return ''.join(src)


RENDERERS = [('HTML5', 'default'), ('HTML5', 'default'), ('HTML5', 'minimal'), ('XHTML', 'default'), ('XHTML', 'minimal'),
             ('XHTML', 'plain'), ('XHTML', 'python')]


def rand_doc_case(rng):
    renderer, theme = rng.choice(RENDERERS)
    enc = rng.choice(['utf-8', 'utf-8', 'utf-8', 'iso-8859-1', 'iso-8859-1', 'ascii', 'utf-16'])
    if (renderer, theme) == ('HTML5', 'default') and enc in ('iso-8859-1', 'ascii'):
        enc = 'utf-8'      # the layout template itself holds characters (the TOC arrows) that these encodings cannot represent
    charsub = rng.random() < 0.4
    return dict(kind='doc', renderer=renderer, theme=theme, hi=rng.choice([0, 1]), enc=enc, charsub=int(charsub),
                blocks=rand_doc(rng, enc, charsub))


# ---- function-level generators ------------------------------------------------------------------------

SMALL = ['&', '<', '>', '"', 'a', ';', '-', '\u00e9', ' ']
PFC_SMALL = ['&amp;', 'x', '-width;', '-height;', '&amp;pt;', ' ', '\u00e9', '&', ';']


def words(alpha, maxlen):
    out = ['']
    frontier = ['']
    for _ in range(maxlen):
        frontier = [w + a for w in frontier for a in alpha]
        out += frontier
    return out


IMG_NAMES = ['i.png', 'images/img-0001.png', 'lt', 'x']
UNITS = ['in', 'ex', 'em', 'pt', 'px', 'mm', 'cm', 'pc']


def dim_format(value):
    if abs(int(value) - value) < 0.0001:
        return '%s' % int(value)
    return '%0.3f' % value


def dim_units(v):
    """replica of plasTeX.Imagers.Dimension for the Model's image table (float formatting is not modelled in Coq).
    Only ex, em, pt and px can be read: Dimension.inch/cm/mm/pc divide a formatted string and raise TypeError."""
    v = float(v)
    fs = 15
    return {'ex': '%sex' % dim_format(v / (fs * 0.6)), 'em': '%sem' % dim_format(v / fs), 'pt': '%spt' % dim_format(v),
            'px': '%spx' % dim_format(v)}


def rand_imgs(rng):
    imgs = []
    for name in rng.sample(IMG_NAMES, rng.choice([0, 1, 1, 2])):
        params = {}
        for p in ('width', 'height', 'depth'):
            if rng.random() < 0.7:
                params[p] = rng.choice([30, 12, 7, 100, 45])
        imgs.append([name, params])
    return imgs


def rand_pfc_string(rng, imgs):
    names = [i[0] for i in imgs] + ['lt', 'x', 'a-b', 'images/img-0002.png', '\u00e9', 'a b']
    parts = []
    for _ in range(rng.choice([1, 2, 3, 5])):
        r = rng.random()
        if r < 0.45:
            ph = '&amp;%s-%s;' % (rng.choice(names), rng.choice(['width', 'height', 'depth', 'widht']))
            if rng.random() < 0.4:
                ph += '&amp;%s;' % rng.choice(UNITS[1:] + ['', 'zz', 'PX', 'p1'])
            parts.append(ph)
        elif r < 0.7:
            parts.append(_html.escape(rand_payload(rng), quote=False))
        elif r < 0.85:
            parts.append(rng.choice(['<p>', '</p>', '<img style="width:', '" />', ' ', '\n', '\u00a0', '\u2003', '\t']))
        else:
            parts.append(rand_payload(rng))
    return ''.join(parts)


# ---- tag clean-ups of HTML5 / XHTML processFileContent ---------------------------------------------------------------------
TAG_ATOMS = ['<p>', '</p>', '<P>', '</P>', '<td>', '<td class="x">', '</td>', '<TD>', '</Td>', '<th>', '</th>', '<tdx>', '<br>', '<br/>', '<BR >',
             '<img src="a/b" >', '<hr  /  >', '<col>', '<colgroup>', '<link rel="x">', '<meta a=b', '<br\u00e9>', '<td\u00e9>']
WS_ATOMS = [' ', '\n', '\t', '\u00a0', '\u2003', '\x0b', '\x0c', '\x1c', '\u0085', '\r']
TXT_ATOMS = ['x', '\u00e9', '&amp;', '&lt;', '>', '/', '&nbsp;']
PT_SMALL = ['<p>', '</p>', '<td a>', '</td>', '</th>', '<br', '>', ' ', '\u00a0', 'x', '/']


def rand_tagstring(rng):
    parts = []
    for _ in range(rng.choice([1, 2, 3, 4, 6, 9])):
        r = rng.random()
        parts.append(rng.choice(TAG_ATOMS) if r < 0.5 else rng.choice(WS_ATOMS) if r < 0.8 else rng.choice(TXT_ATOMS))
    return ''.join(parts)


# ---- synthetic trees ---------------------------------------------------------------------------------
# node: ['t', markup, s] | ['e', name, uni (None | [markup, s]), [attr fragments: list of node lists], [children]]
NAMES = ['na', 'nb', 'nc', 'nd']


def rand_tree(rng, depth):
    def leaf():
        return ['t', 1 if rng.random() < 0.12 else 0, rand_payload(rng)]

    def node(d):
        r = rng.random()
        if d == 0 or r < 0.35:
            return leaf()
        if r < 0.45:
            return ['e', rng.choice(NAMES), [1 if rng.random() < 0.2 else 0, rand_payload(rng)], [], []]
        attrs = [[node(d - 1) for _ in range(rng.choice([0, 1, 2]))] for _ in range(2)]
        return ['e', rng.choice(NAMES), None, attrs, [node(d - 1) for _ in range(rng.choice([0, 1, 2, 3]))]]
    return ['e', 'root', None, [], [node(depth) for _ in range(rng.choice([1, 2, 3]))]]


def rand_templates(rng):
    tpls = []
    for nm in NAMES:
        if rng.random() < 0.15:
            continue                      # no template: Renderer.default
        pieces = []
        for _ in range(rng.choice([1, 2, 3, 4])):
            r = rng.random()
            if r < 0.35:
                pieces.append(['lit', rng.choice(['<p>', '</p>', '<b class="x">', '</b>', 'lit', '<i title="', '">', '&nbsp;', ' '])])
            elif r < 0.6:
                pieces.append(['child'])
            elif r < 0.75:
                pieces.append(['attr', rng.choice([0, 1])])
            elif r < 0.88:
                pieces.append(['raw', rng.choice([0, 1])])
            else:
                pieces.append(['esc', rng.choice([0, 1])])
        tpls.append([nm, pieces])
    return tpls


def jinja_of(pieces):
    out = []
    for p in pieces:
        if p[0] == 'lit':
            out.append(p[1])
        elif p[0] == 'child':
            out.append('{{ obj }}')
        elif p[0] == 'attr':
            out.append('{{ obj.attributes.a%d }}' % p[1])
        elif p[0] == 'raw':
            out.append('{{ obj.attributes.a%d.textContent }}' % p[1])
        else:
            out.append('{{ obj.attributes.a%d.textContent | e }}' % p[1])
    return ''.join(out)


def wire_tree(n):
    if n[0] == 't':
        return [0, n[1], S(n[2])]
    return [1, name_code(n[1]), [] if n[2] is None else [n[2][0], S(n[2][1])], [[wire_tree(c) for c in fr] for fr in n[3]],
            [wire_tree(c) for c in n[4]]]


def name_code(nm):
    return (['root'] + NAMES).index(nm)


def wire_piece(p):
    return {'lit': lambda: [0, S(p[1])], 'child': lambda: [1], 'attr': lambda: [2, p[1]], 'raw': lambda: [3, p[1]],
            'esc': lambda: [4, p[1]]}[p[0]]()


def gen_tables(repo, gen_dir):
    import core
    from translate import templates
    return templates.generate(repo, gen_dir, core.write_if_changed)


# ---- streams --------------------------------------------------------------------------------------------

def streams(rng, tier, boost):
    out = []
    thorough = tier == 'thorough'
    # exhaustive small scope, function level
    for w in words(SMALL, 5 if thorough else 4):
        out.append(('exhaustive-td', dict(kind='td', markup=0, s=w)))
    for w in words(PFC_SMALL, 5 if thorough else 4):
        out.append(('exhaustive-pfc', dict(kind='pfc', hi=len(w) % 2, imgs=[], s=w)))
    n = (300 if not thorough else 3000) * boost
    for _ in range(n):
        out.append(('random-td', dict(kind='td', markup=1 if rng.random() < 0.15 else 0, s=rand_payload(rng, verbatim=True))))
    for _ in range(n):
        imgs = rand_imgs(rng)
        out.append(('random-pfc', dict(kind='pfc', hi=rng.choice([0, 1]), imgs=imgs, s=rand_pfc_string(rng, imgs))))
    for _ in range(n // 2):
        out.append(('random-esc', dict(kind='esc', which=rng.choice(['e', 'html0', 'html1']), s=rand_payload(rng, verbatim=True))))
    for _ in range(n):
        out.append(('spec-vs-htmlparser', dict(kind='tok', s=rand_tok_string(rng))))
    for w in words(PT_SMALL, 4 if thorough else 3):
        out.append(('exhaustive-post-tags', dict(kind='ptags', which=len(w) % 2, hi=(len(w) // 2) % 2, s=w)))
    for _ in range(n):
        out.append(('random-post-tags', dict(kind='ptags', which=rng.choice([0, 1]), hi=rng.choice([0, 0, 1]), s=rand_tagstring(rng))))
    for _ in range((120 if not thorough else 1200) * boost):
        out.append(('tree', dict(kind='tree', tpls=rand_templates(rng), tree=rand_tree(rng, rng.choice([1, 2, 3])))))
    # forged image placeholders (known finding C12-placeholder-forged-image-name) and C1 controls (C12-highchar-c1)
    out.append(('forged-placeholder', dict(kind='forge', hi=0, imgs=[['i.png', {'width': 30}]], text='see &i.png-width; here')))
    out.append(('forged-placeholder', dict(kind='forge', hi=1, imgs=[['images/img-0001.png', {'height': 12}]],
                                           text='&images/img-0001.png-height;&px;')))
    out.append(('c1-controls', dict(kind='c1', text='a\u0085b')))
    out.append(('c1-controls', dict(kind='c1', text='\u0080\u0099')))
    # documents
    nd = (250 if not thorough else 3000) * boost
    for _ in range(nd):
        out.append(('doc', rand_doc_case(rng)))
    # the positions one at a time with the classic payloads (small scope at document level)
    classic = ['<b>', '&lt;', '" onmouseover="alert(1)', '&lt-width;', '&x-height;&pt;', '<script>alert(1)</script>', '\u00e9\u00a0']
    for i, pay in enumerate(classic if not thorough else classic + PLACEH + ATTRBREAK + TAGLIKE[:8]):
        for renderer, theme in (('HTML5', 'default'), ('XHTML', 'default')) if not thorough else sorted(set(RENDERERS)):
            out.append(('doc-positions', dict(kind='doc', renderer=renderer, theme=theme, hi=i % 2, enc='utf-8', charsub=0,
                                              blocks=all_positions(pay))))
    # leaves that are blank for Unicode but not for HTML: a paragraph / a cell holding only a no-break space
    for renderer, theme in (('HTML5', 'default'), ('XHTML', 'default'), ('HTML5', 'minimal'), ('XHTML', 'plain')):
        for payload in ('\u00a0', '~'):      # the character itself and LaTeX's tie
            out.append(('doc-blank-leaves', dict(kind='blank', renderer=renderer, theme=theme, payload=payload)))
    # non-UTF-8 output encodings with non-ASCII text, both renderers: the bytes must be in the charset the file declares
    enc_blocks = [['sec', 'section', '\u00e9<\u00ff', None], ['para', [['text', '\u00e9&\u00df'], ['verb', '\u00ff>']]], ['verbatim', '\u00e9"\u00e0'],
                  ['sec', 'section', '\u00fc', ['emph', '\u00e7']], ['tab', [['\u00f1', 'x']]]]
    for renderer, theme in (('HTML5', 'minimal'), ('XHTML', 'default'), ('XHTML', 'minimal'), ('XHTML', 'plain'), ('XHTML', 'python')):
        for enc in ('iso-8859-1', 'utf-16'):
            out.append(('doc-encodings', dict(kind='doc', renderer=renderer, theme=theme, hi=0, enc=enc, charsub=0, blocks=enc_blocks)))
    out.append(('doc-encodings', dict(kind='doc', renderer='HTML5', theme='default', hi=0, enc='utf-16', charsub=0, blocks=enc_blocks)))
    # unencodable characters (known finding C12-unencodable-output-encoding)
    out.append(('doc-unencodable', dict(kind='doc', renderer='HTML5', theme='default', hi=1, enc='ascii', charsub=0,
                                        blocks=[['sec', 'section', 'T', None], ['para', [['text', '\u00e9']]]])))
    out.append(('doc-unencodable', dict(kind='doc', renderer='XHTML', theme='default', hi=0, enc='iso-8859-1', charsub=0,
                                        blocks=[['sec', 'section', 'T', None], ['para', [['text', '\u4e2d']]]])))
    return out


def all_positions(p):
    return [['sec', 'section', p, ['emph', p]], ['para', [['text', p], ['emph', p], ['textbf', p], ['footnote', p], ['verb', p.replace('|', '!')]]],
            ['list', 'itemize', [[None, p]]], ['list', 'enumerate', [[None, p]]], ['list', 'description', [[p.replace(']', ')').replace('[', '('), p]]],
            ['tab', [[p, p], [p, p]]], ['tabe', p, p], ['verbatim', p], ['float', 'figure', p], ['float', 'table', p], ['quote', p],
            ['sec', 'section', p, None], ['sec', 'subsection', p, None], ['sec', 'subsubsection', p, None], ['sec', 'paragraph', p, None],
            ['para', [['text', p]]], ['idx', 'kapple', p], ['sec', 'section', p, ['textbf', p]], ['idx', 'kapple!sub', p], ['idx', 'kbanana', p],
            ['printindex']]


def search_streams(rng, tier):
    return [('search', rand_doc_case(rng)) for _ in range(150)]


TOKPOOL = META + ENTLIKE + NONASCII[:6] + ['&lt;', '&amp;', '&gt;', '&#233;', '&#xe9;', '&#133;', 'text', ' ']
TOKTAGS = ['<b>', '</b>', '<a href="x&amp;y" title=\'q>\'>', '<!-- c > -->', '<!---->', '<br/>', '<p class=x>', '<i a="1" b=\'2\' c=3>', '<!DOCTYPE html>', '</p >']


def rand_tok_string(rng):
    parts = []
    for _ in range(rng.choice([1, 2, 3, 5, 8])):
        parts.append(rng.choice(TOKPOOL) if rng.random() < 0.75 else rng.choice(TOKTAGS))
    s = ''.join(parts)
    if s.rfind('<') > s.rfind('>'):
        s += '>'          # html.parser flushes an unterminated tag as text at the end of input, the standard drops it
    return s


def _no_controls(s):
    # numeric references to control characters: the standard returns the character, html.unescape drops it
    return ''.join(c for c in s if ord(c) >= 32 or c in '\t\n\r')


# ---- wire -------------------------------------------------------------------------------------------------

PARAMS = {'width': 0, 'height': 1, 'depth': 2}


def wire_imgs(imgs):
    out = []
    for name, params in imgs:
        img = []
        for p, v in sorted(params.items()):
            img.append([PARAMS[p], [S(dim_format(float(v))), [[S(u), S(s)] for u, s in sorted(dim_units(v).items())]]])
        out.append([S(name), img])
    return out


def attr_kind(renderer):
    return 1 if renderer == 'HTML5' else 2


def model_input(case):
    k = case['kind']
    if k == 'td':
        return [0, case['markup'], S(case['s'])]
    if k == 'pfc':
        return [1, case['hi'], wire_imgs(case['imgs']), S(case['s'])]
    if k == 'forge':
        return [1, case['hi'], wire_imgs(case['imgs']), S(_html.escape(case['text'], quote=False))]
    if k == 'c1':
        return [7, 1, [[0, S(case['text'])]]]
    if k == 'esc':
        return {'e': [2, S(case['s'])], 'html0': [3, 0, S(case['s'])], 'html1': [3, 1, S(case['s'])]}[case['which']]
    if k == 'tok':
        return [4, S(case['s'])]
    if k == 'ptags':
        return [9, case['which'], case['hi'], S(case['s'])]
    if k == 'blank':
        return [0, 0, S(case['payload'])]
    if k == 'tree':
        return [6, [[name_code(nm), [wire_piece(p) for p in pieces]] for nm, pieces in case['tpls']], wire_tree(case['tree'])]
    if k == 'doc':
        leaves = []
        ak = attr_kind(case['renderer'])
        for p in doc_leaves(case['blocks']):
            leaves += [[0, S(p)], [ak, S(p)], [ak, S(wsnorm_in(p))], [3, S(p)]]
        return [7, case['hi'], leaves]
    raise ValueError(k)


def describe(case):
    k = case['kind']
    if k == 'doc':
        return '%s/%s escape-high-chars=%s output-encoding=%s charsubs=%s\n%s' % (
            case['renderer'], case['theme'], case['hi'], case['enc'], 'default' if case['charsub'] else 'off', doc_source(case['blocks']))
    if k == 'tree':
        return 'templates %s on tree %s' % ({nm: jinja_of(p) for nm, p in case['tpls']}, case['tree'])
    return '%s %s' % (k, {x: y for x, y in case.items() if x != 'kind'})


# ---- implementation side -------------------------------------------------------------------------------

_DOC = None


def worker_init():
    import texrun
    texrun.quiet()


def _doc():
    global _DOC
    if _DOC is None:
        from plasTeX.TeX import TeXDocument
        _DOC = TeXDocument()
    return _DOC


class _Fake(object):
    def __init__(self, images):
        self.images = images
        self.staticimages = {}


def _renderer(imgs, hi):
    from plasTeX.Renderers.PageTemplate import Renderer as PTR
    from plasTeX.Imagers import Image
    r = PTR()
    table = {}
    for name, params in imgs:
        table[name] = Image(name, {}, width=params.get('width'), height=params.get('height'), depth=params.get('depth'))
    r.imager = _Fake(table)
    r.vectorImager = _Fake({})
    doc = _doc()
    doc.config['files']['escape-high-chars'] = bool(hi)
    return r, doc


class Events(html.parser.HTMLParser):
    """html.parser run over one output file: skeleton (tags with attribute names), character data, attribute values, tag spans"""

    def __init__(self, text):
        html.parser.HTMLParser.__init__(self, convert_charrefs=True)
        self.skel = []
        self.data = []
        self.attrs = []
        self.spans = []
        starts = [0]
        for m in re.finditer('\n', text):
            starts.append(m.end())
        self._starts = starts
        self.feed(text)
        self.close()

    def _off(self):
        line, col = self.getpos()
        return self._starts[line - 1] + col

    def handle_starttag(self, tag, attrs):
        self.skel.append(('s', tag, tuple(a for a, _ in attrs)))
        raw = self.get_starttag_text() or ''
        self.spans.append((self._off(), self._off() + len(raw)))
        for a, v in attrs:
            self.attrs.append((tag, a, v if v is not None else ''))

    def handle_startendtag(self, tag, attrs):
        self.handle_starttag(tag, attrs)
        self.skel.append(('e', tag))

    def handle_endtag(self, tag):
        self.skel.append(('e', tag))

    def handle_data(self, d):
        self.data.append(d)

    def handle_comment(self, d):
        self.skel.append(('c',))

    def handle_decl(self, d):
        self.skel.append(('decl',))

    def handle_pi(self, d):
        self.skel.append(('pi',))

    def unknown_decl(self, d):
        self.skel.append(('unknown-decl',))


def htmlparse_text(s):
    """(character data, number of markup events) of a string according to html.parser"""
    e = Events(s)
    return ''.join(e.data), len(e.skel)


def _dom_text(doc):
    out = []

    def visit(n):
        from plasTeX.DOM import Node
        if n.nodeType == Node.TEXT_NODE:
            out.append(str.__str__(n))
            return
        u = getattr(n, 'str', None)
        if u is not None:
            out.append(str.__str__(u) if isinstance(u, str) else str(u))
            return
        attrs = getattr(n, 'attributes', None)
        if attrs:
            for key, v in list(attrs.items()):
                if hasattr(v, 'nodeType'):
                    out.append('\x00')
                    visit(v)
                    out.append('\x00')
        for c in n.childNodes:
            visit(c)
    visit(doc)
    return ''.join(out)


_XMLDECL = re.compile(rb'<\?xml[^>]*?encoding\s*=\s*["\']([A-Za-z0-9._:-]+)["\']', re.I)
_META = re.compile(rb'<meta\b[^>]*>', re.I)
_CHARSET = re.compile(rb'charset\s*=\s*["\']?\s*([A-Za-z0-9._:-]+)', re.I)


def declared_charset(raw):
    """the encoding an HTML consumer takes for these bytes from the file itself: a byte-order mark, else an XML declaration or a
    <meta charset> / <meta http-equiv=content-type> in the first 1024 bytes; None when the file declares nothing it knows"""
    import codecs
    if raw.startswith(codecs.BOM_UTF8):
        return 'utf-8-sig'
    if raw.startswith(codecs.BOM_UTF16_LE) or raw.startswith(codecs.BOM_UTF16_BE):
        return 'utf-16'
    head = raw[:1024]
    names = [m.group(1) for m in _XMLDECL.finditer(head)]
    for tag in _META.finditer(head):
        m = _CHARSET.search(tag.group(0))
        if m:
            names.append(m.group(1))
    for name in names:
        try:
            return codecs.lookup(name.decode('ascii')).name
        except (LookupError, UnicodeDecodeError):
            continue
    return None


def consumer_decode(raw, configured):
    """decode a written file the way a browser does: by the charset it declares, falling back to the configured encoding"""
    enc = declared_charset(raw) or configured
    return raw.decode(enc, 'replace')


def _render_doc(case, blocks):
    from render_common import render
    over = {}
    if not case['charsub']:
        over[('document', 'disable-charsub')] = list(CHARSUBS)
    res = render(doc_source(blocks), case['renderer'], case['theme'], bool(case['hi']), case['enc'], overrides=over,
                 inspect=_dom_text)
    files = {}
    for name in sorted(res.files):
        if not name.endswith('.html'):
            continue
        raw = res.files[name]
        text = consumer_decode(raw, case['enc'])
        files[name] = (raw, text, Events(text))
    return res.inspected, files


def _occurrences(files):
    """marker occurrences per file: in character data (decoded by the parser) and in attribute values; raw segments with context"""
    data_occ, attr_occ, raw_occ = [], [], []
    for name, (raw, text, ev) in files.items():
        for m in MARK.finditer(''.join(ev.data)):
            data_occ.append([name, int(m.group(1)), m.group(2)])
        for tag, a, v in ev.attrs:
            for m in MARK.finditer(v):
                attr_occ.append([name, tag + '@' + a, int(m.group(1)), m.group(2)])
        for m in MARK.finditer(text):
            inside = any(a <= m.start() < b for a, b in ev.spans)
            raw_occ.append([name, 'attr' if inside else 'data', int(m.group(1)), m.group(2)])
    return data_occ, attr_occ, raw_occ


def run_impl(case):
    k = case['kind']
    if k == 'td':
        r, doc = _renderer([], 0)
        node = doc.createTextNode(case['s'])
        if case['markup']:
            node.isMarkup = True
        return ['td', str.__str__(r.textDefault(node))]
    if k in ('pfc', 'forge'):
        from plasTeX.Renderers.PageTemplate import Renderer as PTR
        r, doc = _renderer(case['imgs'], case['hi'])
        s = case['s'] if k == 'pfc' else str.__str__(r.textDefault(doc.createTextNode(case['text'])))
        try:
            return ['pfc', PTR.processFileContent(r, doc, s)]
        except (AttributeError, TypeError) as e:
            return [-2, 0]
    if k == 'c1':
        r, doc = _renderer([], 1)
        from plasTeX.Renderers.PageTemplate import Renderer as PTR
        return ['pfc', PTR.processFileContent(r, doc, str.__str__(r.textDefault(doc.createTextNode(case['text']))))]
    if k == 'esc':
        if case['which'] == 'e':
            import jinja2.filters
            return ['esc', str.__str__(jinja2.filters.FILTERS['e'](case['s']))]
        import plasTeX.Renderers.PageTemplate.simpletal.simpleTAL as st
        return ['esc', st.html.escape(case['s'], quote=case['which'] == 'html1')]
    if k == 'tok':
        t, n = htmlparse_text(case['s'])
        return ['tok', t, n]
    if k == 'ptags':
        return ['ptags', _post_tags(case)]
    if k == 'blank':
        return ['blank', [_blank_text(case, hi) for hi in (0, 1)]]
    if k == 'tree':
        return run_tree(case)
    if k == 'doc':
        try:
            dom, files = _render_doc(case, case['blocks'])
        except UnicodeEncodeError:
            return ['doc-crash', 'UnicodeEncodeError']
        except Exception as e:
            try:
                ''.join(doc_leaves(case['blocks'])).encode(case['enc'])
            except UnicodeEncodeError:
                return ['doc-crash', type(e).__name__]      # simpleTAL wraps the UnicodeEncodeError
            raise
        twin_blocks = map_leaves(case['blocks'], lambda i, p: 'x')
        tdom, tfiles = _render_doc(case, twin_blocks)
        leaves = {}
        for m in MARK.finditer(dom):
            leaves.setdefault(m.group(1), set()).add(m.group(2))
        data_occ, attr_occ, raw_occ = _occurrences(files)
        tdata, tattr, traw = _occurrences(tfiles)
        skel_diff = None
        if sorted(files) != sorted(tfiles):
            skel_diff = 'files %s vs %s' % (sorted(files), sorted(tfiles))
        else:
            for name in sorted(files):
                a, b = files[name][2].skel, tfiles[name][2].skel
                if a != b:
                    j = 0
                    while j < min(len(a), len(b)) and a[j] == b[j]:
                        j += 1
                    skel_diff = '%s: event %d: %s (harmless twin: %s)' % (name, j, a[j:j + 3], b[j:j + 3])
                    break
        ascii_ok = all(all(byte < 128 for byte in raw) for raw, _, _ in files.values()) if case['enc'] in ('utf-8', 'latin-1', 'iso-8859-1', 'ascii') else True
        return ['doc', dict(dom={i: sorted(v) for i, v in leaves.items()}, data=data_occ, attr=attr_occ, raw=raw_occ,
                            twin_data=[[f, i] for f, i, _ in tdata], twin_attr=[[f, c, i] for f, c, i, _ in tattr],
                            skel_diff=skel_diff, ascii=ascii_ok)]
    raise ValueError(k)


_PT = {}


def _post_tags(case):
    """the real HTML5 / XHTML processFileContent (placeholders, high characters, then the tag clean-ups)"""
    which = 'XHTML' if case['which'] else 'HTML5'
    if which not in _PT:
        from render_common import make_config
        from plasTeX.TeX import TeXDocument
        if which == 'HTML5':
            from plasTeX.Renderers.HTML5 import Renderer as R
        else:
            from plasTeX.Renderers.XHTML import Renderer as R
        doc = TeXDocument(config=make_config(which))
        doc.rendererdata['html5'] = {}
        r = R()
        r.imager = _Fake({})
        r.vectorImager = _Fake({})
        _PT[which] = (r, doc)
    r, doc = _PT[which]
    doc.config['files']['escape-high-chars'] = bool(case['hi'])
    return r.processFileContent(doc, case['s'])


def _blank_text(case, hi):
    from render_common import render
    p = case['payload']
    src = ('\\documentclass{article}\\begin{document}\\section{S}\nQZ0AaQZ0B\n\n%s\n\nQZ1AbQZ1B\n\n'
           '\\begin{tabular}{ll}QZ2AcQZ2B & %s \\\\\\end{tabular}\n\nQZ3AdQZ3B\n\\end{document}\n') % (p, p)
    res = render(src, case['renderer'], case['theme'], bool(hi), 'utf-8')
    out = []
    for name in sorted(res.files):
        if name.endswith('.html'):
            txt = ''.join(Events(consumer_decode(res.files[name], 'utf-8')).data)
            m = re.search(r'QZ0B(.*)QZ3A', txt, re.S)
            if m:
                out.append(m.group(1))
    return out


def run_tree(case):
    """the real Renderable.__str__ / PageTemplate.textDefault / Jinja2 on a hand-built DOM with synthetic templates"""
    from plasTeX.Renderers.PageTemplate import Renderer as PTR, jinja2template
    from plasTeX.Renderers import mixin, unmix, Renderable
    from plasTeX.DOM import Node, Text
    from plasTeX.TeX import TeXDocument
    doc = _doc()

    def build(n):
        if n[0] == 't':
            t = doc.createTextNode(n[2])
            if n[1]:
                t.isMarkup = True
            return t
        e = doc.createElement(n[1])
        if n[2] is not None:
            u = Text(n[2][1])
            if n[2][0]:
                u.isMarkup = True
            e.str = u
        for i, fr in enumerate(n[3]):
            f = doc.createDocumentFragment()
            for c in fr:
                f.appendChild(build(c))
            e.attributes['a%d' % i] = f
        for c in n[4]:
            e.appendChild(build(c))
        return e
    root = build(case['tree'])
    r = PTR()
    for nm, pieces in case['tpls']:
        r[nm] = jinja2template(jinja_of(pieces))
    r.level = -10
    r.files = {}
    mixin(Node, Renderable)
    Node.renderer = r
    try:
        out = str(root)
    finally:
        del Node.renderer
        unmix(Node, Renderable)
    return ['tree', out]


# ---- judge --------------------------------------------------------------------------------------------------

def _is_raise(io):
    return isinstance(io, list) and io[:1] in (['raise'], [-2], ['hang'])


def lookalike(s):
    return re.search(r'&amp;(\S+)-(width|height|depth);', _html.escape(s, quote=False)) is not None


def nontrivial(case, io):
    k = case['kind']
    txt = ''.join(doc_leaves(case['blocks'])) if k == 'doc' else case.get('s', case.get('text', case.get('payload', '')))
    if k == 'tree':
        return True
    return any(c in '<>&"\'' or ord(c) > 127 for c in txt)


def tags(case, io):
    k = case['kind']
    t = [k]
    if k == 'doc':
        t.append('%s/%s' % (case['renderer'], case['theme']))
        t.append('hi=%d' % case['hi'])
        t.append('enc=' + case['enc'])
        for b in case['blocks']:
            t.append('pos:' + (b[1] if b[0] in ('sec', 'list', 'float') else b[0]))
            if b[0] == 'printindex':
                t.append('with-index')
            if b[0] == 'para':
                t += ['pos:' + it[0] for it in b[1]]
        t = sorted(set(t))
        if any(lookalike(p) for p in doc_leaves(case['blocks'])):
            t.append('placeholder-lookalike')
        if isinstance(io, list) and io[:1] == ['doc'] and io[1]['attr']:
            t.append('text-in-attribute')
    if k == 'pfc':
        t.append('hi=%d' % case['hi'])
        if re.search(r'&amp;(\S+)-(width|height|depth);', case['s']):
            t.append('regex-matches')
        if _is_raise(io):
            t.append('impl-raises')
    if k == 'td' and case['markup']:
        t.append('isMarkup')
    return t


def judge(case, io, mo):
    k = case['kind']
    if k == 'td':
        out = io[1] if io[:1] == ['td'] else None
        if out is not None and mo == [0, S(out)]:
            return None
        if out is not None and not case['markup']:
            txt, n = htmlparse_text(out)
            if txt == case['s'] and n == 0:
                return dict(violation=False, key='C12:td:model-differs', what='textDefault differs from the Model but reads back', expected=mo)
        return dict(violation=not case['markup'], key='C12:td:text-not-inert', expected=unS(mo[1]) if mo[:1] == [0] else mo,
                    what='textDefault(%r) = %r does not read back as the text' % (case['s'], out))
    if k == 'pfc':
        if _is_raise(io) and mo == [-2, 0]:
            return None
        if io[:1] == ['pfc'] and mo == [0, S(io[1])]:
            return None
        # the property: character data must be unchanged unless the string names an image of the table
        viol = False
        if io[:1] == ['pfc'] and not case['imgs'] and '<' not in case['s']:
            viol = htmlparse_text(io[1])[0] != htmlparse_text(case['s'])[0]
        return dict(violation=viol, key='C12:pfc:' + ('placeholder-lookalike' if re.search(r'-(width|height|depth);', case['s']) else 'other'),
                    expected=unS(mo[1]) if mo[:1] == [0] else mo,
                    what='processFileContent(%r) = %r' % (case['s'], io[1] if len(io) > 1 else io))
    if k == 'forge':
        if io[:1] == ['pfc'] and htmlparse_text(io[1])[0] == case['text']:
            return None if mo == [0, S(io[1])] else dict(violation=False, key='C12:forge:model-differs', what='model differs', expected=mo)
        return dict(violation=True, key='C12:placeholder-forged-image-name', expected=case['text'],
                    what='text %r that spells the placeholder of an existing image is replaced: %r' % (case['text'], io))
    if k == 'c1':
        if io[:1] == ['pfc'] and htmlparse_text(io[1])[0] == case['text']:
            return None
        return dict(violation=True, key='C12:highchar-c1-control', expected=case['text'],
                    what='escape-high-chars writes %r for %r, which HTML reads as %r' % (io[1:], case['text'], htmlparse_text(io[1])[0] if io[:1] == ['pfc'] else None))
    if k == 'esc':
        if io[:1] == ['esc'] and mo == [0, S(io[1])]:
            return None
        return dict(violation=False, key='C12:esc:model-differs', expected=mo, what='escaper %s(%r) = %r' % (case['which'], case['s'], io))
    if k == 'tok':
        if io[:1] != ['tok'] or not isinstance(mo, list) or (mo and mo[:1] == [-1]):
            return dict(violation=False, key='C12:spec-vs-htmlparser', what='no answer', expected=mo)
        txt = ''.join(chr(t[1]) for t in mo if t[0] == 0)
        n = sum(1 for t in mo if t[0] == 1)
        if _no_controls(txt) == _no_controls(io[1]) and (n == 0) == (io[2] == 0):
            return None
        return dict(violation=False, key='C12:spec-vs-htmlparser', expected=[txt, n],
                    what='html.parser reads %r as text %r with %d markup events; the Spec tokenizer: %r with %d' % (case['s'], io[1], io[2], txt, n))
    if k == 'ptags':
        if io[:1] == ['ptags'] and mo == [0, S(io[1])]:
            return None
        viol = False
        if io[:1] == ['ptags']:
            # the clean-ups may drop blanks and fill an empty cell with a no-break space; nothing else may happen to character data
            a, b = htmlparse_text(case['s'])[0], htmlparse_text(io[1])[0]
            vis = lambda x: ''.join(c for c in x if c not in ' \t\n\r\x0b\x0c\u00a0')
            viol = vis(a) != vis(b) or b.count('\u00a0') < a.count('\u00a0')
            if case['hi'] and any(ord(c) > 127 for c in io[1]):
                return dict(violation=True, key='C12:post-tags:not-ascii', expected=unS(mo[1]) if mo[:1] == [0] else 'pure ASCII',
                            what='escape-high-chars is on and %s.processFileContent(%r) = %r holds a character > 127' % (
                                'XHTML' if case['which'] else 'HTML5', case['s'], io[1]))
        return dict(violation=viol, key='C12:post-tags:' + ('text-changed' if viol else 'model-differs'),
                    expected=unS(mo[1]) if mo[:1] == [0] else mo, what='%s.processFileContent(%r) = %r' % (
                        'XHTML' if case['which'] else 'HTML5', case['s'], io[1] if len(io) > 1 else io))
    if k == 'blank':
        if io[:1] == ['blank'] and io[1][0] == io[1][1] and io[1][0] and all('\u00a0' in x for x in io[1][0]):
            return None
        return dict(violation=True, key='C12:blank-leaf-dropped', expected='the same decoded text with and without escape-high-chars, holding the character',
                    what='a paragraph / table cell holding only U+%04X: text between the neighbours without the option %r, with it %r' % (
                        0xa0, io[1][0] if io[:1] == ['blank'] else io, io[1][1] if io[:1] == ['blank'] else None))
    if k == 'tree':
        if io[:1] == ['tree'] and mo == [0, S(io[1])]:
            return None
        return dict(violation=False, key='C12:tree:model-differs', expected=unS(mo[1]) if mo[:1] == [0] else mo,
                    what='Renderable.__str__ gives %r' % (io[1:],))
    if k == 'doc':
        return judge_doc(case, io, mo)
    raise ValueError(k)


def judge_doc(case, io, mo):
    payloads = doc_leaves(case['blocks'])
    enc = case['enc']
    encodable = True
    try:
        ''.join(payloads).encode(enc)
    except UnicodeEncodeError:
        encodable = False
    if io[:1] == ['doc-crash']:
        if encodable:
            return dict(violation=True, key='C12:doc:crash', what='rendering raised %s' % io[1], expected='output')
        return dict(violation=True, key='C12:unencodable-output-encoding', expected='the characters as numeric references or text',
                    what='output-encoding=%s cannot represent the text and the first write raises %s (escape-high-chars=%s runs only afterwards)' % (enc, io[1], case['hi']))
    if io[:1] != ['doc']:
        return dict(violation=_is_raise(io), key='C12:doc:crash', what='rendering failed: %s' % (io[:3],), expected='output')
    o = io[1]
    # harness self-check: the DOM holds the payloads (otherwise the generator mis-predicted TeX's reading: not a finding)
    for i, p in enumerate(payloads):
        got = o['dom'].get(str(i))
        if got != [p]:
            return dict(violation=False, key='C12:harness:dom-prediction', what='leaf %d: payload %r is in the DOM as %r' % (i, p, got), expected=p)
    look = any(lookalike(p) for p in payloads)
    suffix = ''
    # (b) inventory
    if o['skel_diff']:
        return dict(violation=True, key='C12:doc:markup-injected' + suffix, expected='the element/attribute inventory of the harmless twin',
                    what='elements or attributes that the templates did not put there: ' + o['skel_diff'])
    if [[f, i] for f, i, _ in o['data']] != o['twin_data'] or [[f, c, i] for f, c, i, _ in o['attr']] != o['twin_attr']:
        return dict(violation=True, key='C12:doc:text-lost-or-moved' + suffix, expected='the same leaves in the same places as in the harmless twin',
                    what='leaves found in text %s / attributes %s; twin: %s / %s' % (
                        [i for _, i, _ in o['data']], [i for _, _, i, _ in o['attr']], [i for _, i in o['twin_data']], [i for _, _, i in o['twin_attr']]))
    # (a) the text itself
    for f, i, txt in o['data']:
        if txt != payloads[i]:
            return dict(violation=True, key='C12:doc:text-altered' + suffix, expected=payloads[i],
                        what='%s: leaf %d %r is displayed as %r' % (f, i, payloads[i], txt))
    for f, c, i, txt in o['attr']:
        if wsnorm(txt) != wsnorm(payloads[i]):
            return dict(violation=True, key='C12:doc:attribute-text-altered' + suffix, expected=payloads[i],
                        what='%s: leaf %d %r in %s reads %r' % (f, i, payloads[i], c, txt))
    if case['hi'] and not o['ascii']:
        return dict(violation=True, key='C12:doc:not-ascii', expected='pure ASCII', what='escape-high-chars is on and a file holds a byte > 127')
    # (c) raw characters as the Model predicts them
    if not isinstance(mo, list) or len(mo) != 4 * len(payloads):
        return dict(violation=False, key='C12:doc:model-unavailable', what='model: %s' % (mo,), expected=None)
    for f, ctx, i, raw in o['raw']:
        content, attr, attr_ws, content_str = [unS(m[0]) for m in mo[4 * i:4 * i + 4]]
        ok = raw in ((content, content_str) if ctx == 'data' else (attr, attr_ws))
        if not ok:
            return dict(violation=False, key='C12:doc:raw-differs-from-model', expected=content if ctx == 'data' else attr,
                        what='%s: leaf %d %r is written as %r in %s context' % (f, i, payloads[i], raw, ctx))
    for i, p in enumerate(payloads):
        dec = mo[4 * i][1]
        if dec != [S(p)]:
            return dict(violation=False, key='C12:doc:spec-decode', expected=p, what='Spec html_text of the predicted output is %r' % (dec,))
    return None


# ---- shrink -------------------------------------------------------------------------------------------------

def shrink(case):
    k = case['kind']
    if k in ('td', 'pfc', 'esc', 'tok', 'ptags'):
        s = case['s']
        for i in range(len(s)):
            yield dict(case, s=s[:i] + s[i + 1:])
        if k == 'pfc' and case['imgs']:
            yield dict(case, imgs=[])
        return
    if k == 'doc':
        blocks = case['blocks']
        if len(blocks) > 2:
            for i in range(len(blocks)):           # one block alone, or with the block that follows it
                yield dict(case, blocks=[blocks[i]])
            for i in range(len(blocks) - 1):
                yield dict(case, blocks=blocks[i:i + 2])
        for i in range(len(blocks)):
            if len(blocks) > 1:
                yield dict(case, blocks=blocks[:i] + blocks[i + 1:])
        n = len(doc_leaves(blocks))
        for j in range(n):
            if doc_leaves(blocks)[j] != 'x':
                yield dict(case, blocks=map_leaves(blocks, lambda i, p: 'x' if i == j else p))
        for j in range(n):
            p = doc_leaves(blocks)[j]
            for cut in range(len(p)):
                q = p[:cut] + p[cut + 1:]
                if q and q == clean_payload(q, case['enc'], case['charsub'], True):
                    yield dict(case, blocks=map_leaves(blocks, lambda i, pp: q if i == j else pp))
        for i, b in enumerate(blocks):
            if b[0] == 'para' and len(b[1]) > 1:
                for j in range(len(b[1])):
                    yield dict(case, blocks=blocks[:i] + [['para', b[1][:j] + b[1][j + 1:]]] + blocks[i + 1:])
            if b[0] == 'sec' and b[3]:
                yield dict(case, blocks=blocks[:i] + [[b[0], b[1], b[2], None]] + blocks[i + 1:])
